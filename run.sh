#!/bin/sh
# usage: ./run.sh <property-id> <quick|thorough>
# Re-loads /repo's working tree on every invocation and decides the property
# statically (see DESIGN.md).  Exit 0 = held; exit 1 = VIOLATION line printed.
set -u
HERE=$(cd "$(dirname "$0")" && pwd)
PROP=${1:?property id}
TIER=${2:-quick}
REPO=${VERIF_REPO:-/repo}
export GOFLAGS=-mod=mod GOPROXY=off GOSUMDB=off GOTOOLCHAIN=local GOWORK=off
unset GOARCH GOOS
if [ ! -x "$HERE/bin/stackcheck" ] || [ -n "$(find "$HERE/checker" -name '*.go' -newer "$HERE/bin/stackcheck" 2>/dev/null | head -1)" ]; then
  (cd "$HERE/checker" && go build -o "$HERE/bin/stackcheck" .) || { echo "VIOLATION property=$PROP replay=$HERE/evidence/replay/$PROP-build.json"; exit 1; }
fi
if [ "$TIER" != "thorough" ]; then
  exec "$HERE/bin/stackcheck" -verif "$HERE" -repo "$REPO" -prop "$PROP" -tier "$TIER" -evidence "$HERE/evidence/$PROP.json"
fi
# thorough: the same decision procedure plus the whole-program call-graph cross-check
# (inside the binary), then the self-check of this property's rules against the seeded
# mutants and the reverts of the recorded repo fixes (informational lines only)
"$HERE/bin/stackcheck" -verif "$HERE" -repo "$REPO" -prop "$PROP" -tier "$TIER" -evidence "$HERE/evidence/$PROP.json"
RC=$?
if [ "$REPO" = "/repo" ] && [ -x "$HERE/tools/selfcheck.sh" ]; then
  "$HERE/tools/selfcheck.sh" "$PROP" 2>/dev/null
fi
exit $RC
