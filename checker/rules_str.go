package main

import (
	"fmt"
	"go/constant"
	"go/token"
	"go/types"
	"sort"
	"strings"

	"golang.org/x/tools/go/ssa"
)

// ---------------------------------------------------------------- R-STR (C02)
//
// Structural clauses of the String() grammar:
//
//  NOT     a nested Stack is rendered through the nested instance itself: every
//          stack-level reading in the Stack branch of defaultAssertionHandler
//          (kind, symbol, rendering) is made on the converted nested Stack, never
//          on the enclosing one; the NOT word is prefixed only when the kind is
//          NOT, no symbol is set and the nested rendering is non-empty, and the
//          word is exactly what typ() of the nested stack returned (its own case);
//  EMPTY   stack.string collects element renderings only by append(list, val)
//          under len(val) > 0 for the very val that defaultAssertionHandler
//          returned, and hands exactly that list to the assembler: an element
//          that renders to nothing can leave no dangling operator or delimiter;
//  UTF8    condenseWHSP ranges over runes, writes every rune other than blank
//          and tab unchanged, and writes one blank for a run of blanks/tabs;
//  ENCAP   encapValue walks the pair list from the last pair to the first
//          (outermost pair first in the result) and wraps v as L+v+R / c+v+c;
//  PAREN   stack.paren wraps exactly when the parenthetical bit is set and the
//          kind is not BASIC, with the padding blank unless no-padding is set.

func (c *Ctx) isStringAdd(v ssa.Value) (*ssa.BinOp, bool) {
	if v == nil {
		return nil, false
	}
	bo, ok := v.(*ssa.BinOp)
	if !ok || bo.Op != token.ADD {
		return nil, false
	}
	b, ok := bo.Type().Underlying().(*types.Basic)
	return bo, ok && b.Info()&types.IsString != 0
}

// concatLeaves flattens a string concatenation.
func (c *Ctx) concatLeaves(v ssa.Value) []ssa.Value {
	if bo, ok := c.isStringAdd(v); ok {
		return append(c.concatLeaves(bo.X), c.concatLeaves(bo.Y)...)
	}
	return []ssa.Value{v}
}

func (c *Ctx) ruleStrNot() {
	rep := c.rep
	tt := c.eng.tt
	fn := c.anchor("R-STR", "stack.defaultAssertionHandler")
	if fn == nil {
		return
	}
	fa := c.eng.analyze(fn, nil)
	pos := c.p.pos(fn.Pos())
	var problems []string
	convs := c.findCalls(fn, "stackTypeAliasConverter")
	if len(convs) != 1 {
		rep.bad("R-STR", relName(fn), "nested stack rendering", pos, "expected one Stack converter call")
		return
	}
	conv := convs[0]
	notK, okNot := c.p.constVal("not")
	// receivers of stack-level readings
	nRead := 0
	for _, b := range fn.Blocks {
		for _, in := range b.Instrs {
			call, ok := in.(*ssa.Call)
			if !ok {
				continue
			}
			name := c.calleeName(&call.Call)
			switch name {
			case "stack.typ", "Stack.getSymbol", "stack.getSymbol", "Stack.String", "(*stack).string", "stack.kind", "stack.stackType":
			default:
				continue
			}
			nRead++
			for _, s := range fa.statesBefore(call) {
				rt := fa.term(s, call.Call.Args[0])
				xs := fa.callResultTerm(s, conv, 0)
				okR := rt == xs
				// xs.stack (and its loaded header)
				for t := rt; !okR && t != nil; t = t.A {
					if t == xs {
						okR = true
					}
					if t.K != "L" && t.K != "F" && t.K != "FA" {
						break
					}
				}
				if !okR {
					problems = append(problems, c.p.instrPos(call)+": "+name+" is read from something other than the nested (converted) Stack - e.g. from the enclosing stack")
				}
			}
		}
	}
	if nRead < 3 {
		problems = append(problems, fmt.Sprintf("only %d stack-level readings found in the Stack branch (kind, symbol, rendering expected)", nRead))
	}
	// the prefixing concatenation
	nPrefix := 0
	for _, b := range fn.Blocks {
		for _, in := range b.Instrs {
			inV, isV := in.(ssa.Value)
			if !isV {
				continue
			}
			bo, ok := c.isStringAdd(inV)
			if !ok {
				continue
			}
			// only top-level concatenations (not operands of another one)
			top := true
			for _, r := range *bo.Referrers() {
				if _, isAdd := c.isStringAdd(valueOf(r)); isAdd {
					top = false
				}
			}
			if !top {
				continue
			}
			leaves := c.concatLeaves(bo)
			// is this the NOT prefix? its leaves include the nested rendering and the typ() word
			hasInner, hasWord := false, false
			var innerV ssa.Value
			for _, l := range leaves {
				if call, ok := l.(*ssa.Call); ok && (c.calleeName(&call.Call) == "Stack.String") {
					hasInner = true
					innerV = l
				}
				if ex, ok := l.(*ssa.Extract); ok && ex.Index == 0 {
					if call, ok := ex.Tuple.(*ssa.Call); ok && c.calleeName(&call.Call) == "stack.typ" {
						hasWord = true
					}
				}
			}
			if !hasInner {
				continue
			}
			nPrefix++
			if !hasWord {
				problems = append(problems, c.p.instrPos(bo)+": the nested rendering is prefixed with something other than the word typ() of the nested stack returned (its own, already folded, case)")
			}
			if len(leaves) != 3 {
				problems = append(problems, fmt.Sprintf("%s: the prefixed rendering has %d parts, expected word, blank, rendering", c.p.instrPos(bo), len(leaves)))
			}
			for _, s := range fa.statesBefore(bo) {
				// kind == NOT
				okKind := false
				for _, tc := range c.findCalls(fn, "stack.typ") {
					kt := fa.callResultTerm(s, tc, 1)
					a, b2 := kt, c.intConst(notK)
					if a.key > b2.key {
						a, b2 = b2, a
					}
					if v, known := fa.knownTerm(s, aTR, tt.mk(Term{K: "B", S: "==", A: a, B: b2})); okNot && known && v {
						okKind = true
					}
				}
				if !okKind {
					problems = append(problems, "the word is prefixed on a path where the nested kind is not known to be NOT")
				}
				// no symbol
				okSym := false
				for _, sc := range c.findCalls(fn, "Stack.getSymbol", "stack.getSymbol") {
					lt := tt.mk(Term{K: "LEN", A: fa.term(s, sc)})
					if c.eqInt(fa, s, lt, c.intConst(0), nil) {
						okSym = true
					}
				}
				if !okSym {
					problems = append(problems, "the word is prefixed on a path where the nested stack may use a symbol")
				}
				// non-empty nested rendering
				if innerV != nil {
					lt := tt.mk(Term{K: "LEN", A: fa.term(s, innerV)})
					if !c.provesFact(fa, s, Fact{aTR, tt.mk(Term{K: "B", S: "<", A: c.intConst(0), B: lt}), true}, nil) {
						problems = append(problems, "the word is prefixed although the nested rendering may be empty: a dangling operator")
					}
				}
			}
		}
	}
	if nPrefix != 1 {
		problems = append(problems, fmt.Sprintf("%d prefixing concatenations found, expected one", nPrefix))
	}
	if len(problems) == 0 {
		rep.ok("R-STR", relName(fn), "nested stack rendering", pos, "kind, symbol and rendering are read from the nested Stack; the NOT word (typ() of the nested stack, own case) is prefixed only for kind NOT, no symbol, non-empty rendering")
	} else {
		sort.Strings(problems)
		rep.bad("R-STR", relName(fn), "nested stack rendering", pos, strings.Join(uniq(problems), "; "))
	}
}

func valueOf(in ssa.Instruction) ssa.Value {
	if v, ok := in.(ssa.Value); ok {
		return v
	}
	return nil
}

func (c *Ctx) ruleStrEmpty() {
	rep := c.rep
	tt := c.eng.tt
	fn := c.anchor("R-STR", "(*stack).string")
	if fn == nil {
		return
	}
	fa := c.eng.analyze(fn, nil)
	pos := c.p.pos(fn.Pos())
	var problems []string
	asm := c.findCalls(fn, "stack.assembleStringStack")
	if len(asm) != 1 {
		rep.bad("R-STR", relName(fn), "empty renderings dropped", pos, "expected one call of the assembler")
		return
	}
	// the list handed over: a closure of {nil, append(list, one val)}
	list := asm[0].Call.Args[1]
	seen := map[ssa.Value]bool{}
	var appends []*ssa.Call
	var walk func(v ssa.Value) bool
	walk = func(v ssa.Value) bool {
		if seen[v] {
			return true
		}
		seen[v] = true
		if isNilConst(v) {
			return true
		}
		switch x := v.(type) {
		case *ssa.Phi:
			for _, e := range x.Edges {
				if !walk(e) {
					return false
				}
			}
			return true
		case *ssa.Call:
			if b, ok := x.Call.Value.(*ssa.Builtin); ok && b.Name() == "append" {
				appends = append(appends, x)
				return walk(x.Call.Args[0])
			}
		}
		return false
	}
	if !walk(list) {
		problems = append(problems, "the list of renderings handed to the assembler is not built by appending to an initially empty list (e.g. pre-sized and filled by index: empty entries would survive)")
	}
	if len(appends) != 1 {
		problems = append(problems, fmt.Sprintf("%d appends feed the list, expected one", len(appends)))
	}
	for _, ap := range appends {
		el := singleVariadicElem(ap.Call.Args[1])
		call, ok := el.(*ssa.Call)
		if !ok || c.calleeName(&call.Call) != "stack.defaultAssertionHandler" {
			problems = append(problems, "the value appended is not the rendering defaultAssertionHandler returned")
			continue
		}
		for _, s := range fa.statesBefore(ap) {
			lt := tt.mk(Term{K: "LEN", A: fa.term(s, call)})
			if !c.provesFact(fa, s, Fact{aTR, tt.mk(Term{K: "B", S: "<", A: c.intConst(0), B: lt}), true}, nil) {
				problems = append(problems, "a rendering is appended without the test that it is non-empty")
			}
		}
		// the element rendered: slot i of the receiver, i the loop counter running 1..len-1
		if ld, ok := call.Call.Args[1].(*ssa.UnOp); ok {
			if ia, ok := ld.X.(*ssa.IndexAddr); ok {
				var hdr *ssa.BasicBlock
				for h, bl := range fa.loopOf {
					if bl[ap.Block()] {
						hdr = h
					}
				}
				phi, isPhi := ia.Index.(*ssa.Phi)
				if hdr == nil || !isPhi || phi.Block() != hdr {
					problems = append(problems, "the element rendered is not the slot at the loop counter")
				} else {
					init, step, okS := c.phiInitStep(phi, hdr)
					if k, isC := constIntOf(init); !okS || !isC || k != 1 || step != 1 {
						problems = append(problems, "the elements are not visited in stored order 1, 2, 3, ...")
					}
				}
			}
		}
	}
	if len(problems) == 0 {
		rep.ok("R-STR", relName(fn), "empty renderings dropped", pos, "the assembler receives exactly the non-empty renderings, in stored order")
	} else {
		sort.Strings(problems)
		rep.bad("R-STR", relName(fn), "empty renderings dropped", pos, strings.Join(uniq(problems), "; "))
	}
}

func (c *Ctx) ruleStrUTF8() {
	rep := c.rep
	fn := c.anchor("R-STR", "condenseWHSP")
	if fn == nil {
		return
	}
	fa := c.eng.analyze(fn, nil)
	pos := c.p.pos(fn.Pos())
	var problems []string
	// the loop ranges over the string by runes
	var rng *ssa.Range
	var next *ssa.Next
	for _, b := range fn.Blocks {
		for _, in := range b.Instrs {
			if r, ok := in.(*ssa.Range); ok {
				rng = r
			}
			if n, ok := in.(*ssa.Next); ok && n.IsString {
				next = n
			}
		}
	}
	if rng == nil || next == nil {
		problems = append(problems, "the text is not traversed rune by rune (range over the string): bytes of multi-byte characters would be re-encoded")
	}
	var runeV ssa.Value
	if next != nil {
		for _, r := range *next.Referrers() {
			if ex, ok := r.(*ssa.Extract); ok && ex.Index == 2 {
				runeV = ex
			}
		}
	}
	nWrite := 0
	for _, b := range fn.Blocks {
		for _, in := range b.Instrs {
			call, ok := in.(*ssa.Call)
			if !ok {
				continue
			}
			cal := call.Call.StaticCallee()
			if cal == nil {
				continue
			}
			switch cal.String() {
			case "(*strings.Builder).WriteRune":
				nWrite++
				arg := call.Call.Args[1]
				if k, isC := constIntOf(arg); isC {
					if k != 32 {
						problems = append(problems, "a constant rune other than the blank is written")
					}
					// only for a blank or tab
					for _, s := range fa.statesBefore(call) {
						if runeV == nil {
							break
						}
						rt := fa.term(s, runeV)
						isBlank := false
						for _, kk := range []int64{9, 32} {
							a, b2 := rt, c.intConst(kk)
							if a.key > b2.key {
								a, b2 = b2, a
							}
							if v, known := fa.knownTerm(s, aTR, c.eng.tt.mk(Term{K: "B", S: "==", A: a, B: b2})); known && v {
								isBlank = true
							}
						}
						if !isBlank {
							problems = append(problems, "a character not known to be a blank or tab is replaced by a blank (leaf text must be reproduced verbatim)")
						}
					}
				} else if arg != runeV {
					problems = append(problems, "a rune other than the one read is written")
				} else {
					// written unchanged: must not be a blank/tab (those are condensed)
					for _, s := range fa.statesBefore(call) {
						rt := fa.term(s, runeV)
						for _, kk := range []int64{9, 32} {
							a, b2 := rt, c.intConst(kk)
							if a.key > b2.key {
								a, b2 = b2, a
							}
							if v, known := fa.knownTerm(s, aTR, c.eng.tt.mk(Term{K: "B", S: "==", A: a, B: b2})); !known || v {
								problems = append(problems, "a blank or tab may be copied without condensation")
							}
						}
					}
				}
			case "(*strings.Builder).WriteByte", "(*strings.Builder).WriteString", "(*strings.Builder).Write":
				problems = append(problems, c.p.instrPos(call)+": output is written other than rune by rune")
			}
		}
	}
	if nWrite != 2 {
		problems = append(problems, fmt.Sprintf("%d WriteRune calls, expected two (blank, and the rune read)", nWrite))
	}
	// any character classification call (unicode.IsSpace ...) widens the set of condensed characters
	for _, b := range fn.Blocks {
		for _, in := range b.Instrs {
			if call, ok := in.(*ssa.Call); ok {
				if cal := c.p.callee(&call.Call); cal != nil && strings.HasPrefix(cal.String(), "unicode.") {
					problems = append(problems, c.p.instrPos(call)+": a Unicode class test decides what is condensed; only blank (32) and tab (9) may be")
				}
			}
		}
	}
	// what is traversed is the argument itself, or the argument with blanks and tabs - nothing
	// else - cut from its ends: a trim by Unicode class (strings.TrimSpace) removes NBSP, U+3000,
	// line ends ... of the first/last leaf, which must be reproduced verbatim
	if rng != nil {
		v := rng.X
		for depth := 0; depth < 4; depth++ {
			if _, isParam := v.(*ssa.Parameter); isParam {
				break
			}
			call, isCall := v.(*ssa.Call)
			if !isCall {
				problems = append(problems, "the traversed text is not the argument (possibly with blanks/tabs cut from its ends)")
				break
			}
			switch cn := c.calleeName(&call.Call); cn {
			case "strings.Trim", "strings.TrimLeft", "strings.TrimRight":
				cut, ok := call.Call.Args[1].(*ssa.Const)
				if !ok || cut.Value == nil || cut.Value.Kind() != constant.String || strings.Trim(constant.StringVal(cut.Value), " \t") != "" {
					problems = append(problems, c.p.instrPos(call)+": characters other than blank and tab are cut from the ends")
				}
			case "strings.TrimSpace":
				problems = append(problems, c.p.instrPos(call)+": the ends are trimmed by Unicode class (strings.TrimSpace): a first/last leaf loses leading/trailing NBSP, U+3000, line ends and other non-blank white space")
			default:
				problems = append(problems, c.p.instrPos(call)+": the text is preprocessed by "+cn+" before the rune loop")
			}
			v = call.Call.Args[0]
		}
	}
	if len(problems) == 0 {
		rep.ok("R-STR", relName(fn), "verbatim text, blanks condensed", pos, "range over runes; every rune but blank/tab is written unchanged; a blank is written only for a blank or tab")
	} else {
		sort.Strings(problems)
		rep.bad("R-STR", relName(fn), "verbatim text, blanks condensed", pos, strings.Join(uniq(problems), "; "))
	}
}

func (c *Ctx) ruleStrEncap() {
	rep := c.rep
	fn := c.anchor("R-STR", "encapValue")
	if fn == nil {
		return
	}
	fa := c.eng.analyze(fn, nil)
	pos := c.p.pos(fn.Pos())
	var problems []string
	if len(fa.loopOf) != 1 {
		rep.bad("R-STR", relName(fn), "outermost pair first", pos, "expected exactly one loop over the pairs")
		return
	}
	var hdr *ssa.BasicBlock
	for h := range fa.loopOf {
		hdr = h
	}
	var counter *ssa.Phi
	for _, in := range hdr.Instrs {
		if phi, ok := in.(*ssa.Phi); ok {
			if b, ok := phi.Type().Underlying().(*types.Basic); ok && b.Kind() == types.Int {
				counter = phi
			}
		}
	}
	if counter == nil {
		problems = append(problems, "no loop counter")
	} else {
		init, step, okS := c.phiInitStep(counter, hdr)
		okInit := false
		if call, ok := init.(*ssa.Call); ok {
			if b, ok := call.Call.Value.(*ssa.Builtin); ok && b.Name() == "len" && call.Call.Args[0] == ssa.Value(fn.Params[0]) {
				okInit = true
			}
		}
		if !okS || !okInit || step != -1 {
			problems = append(problems, "the pairs are not walked from the last to the first (the first pair must end up outermost)")
		}
		// the pair used: enc[i-1]
		for _, b := range fn.Blocks {
			for _, in := range b.Instrs {
				if ia, ok := in.(*ssa.IndexAddr); ok && ia.X == ssa.Value(fn.Params[0]) {
					bo, ok := ia.Index.(*ssa.BinOp)
					k := int64(0)
					if ok {
						k, _ = constIntOf(bo.Y)
					}
					if !ok || bo.Op != token.SUB || bo.X != ssa.Value(counter) || k != 1 {
						problems = append(problems, "the pair applied is not enc[i-1]")
					}
				}
			}
		}
	}
	// each wrap is sl[0] + v + sl[0|1] with v the value so far
	nWrap := 0
	for b := range fa.loopOf[hdr] {
		for _, in := range b.Instrs {
			v, ok := in.(ssa.Value)
			if !ok {
				continue
			}
			if hc, isCall := v.(*ssa.Call); isCall && len(hc.Call.Args) == 3 {
				if cal := c.p.callee(&hc.Call); cal != nil && c.p.inPkg(cal) && len(cal.Params) == 3 {
					// a wrapping helper: must be l+v+r on every path, nothing else
					pure := c.returnsOnlyFrom(cal, func(rv ssa.Value) bool {
						rb, ok := c.isStringAdd(rv)
						if !ok {
							return false
						}
						lv := c.concatLeaves(rb)
						return len(lv) == 3 && lv[0] == ssa.Value(cal.Params[0]) && lv[1] == ssa.Value(cal.Params[1]) && lv[2] == ssa.Value(cal.Params[2])
					})
					hasConst := false
					for _, b2 := range cal.Blocks {
						for _, i2 := range b2.Instrs {
							if ret, isR := i2.(*ssa.Return); isR {
								if _, isC := ret.Results[0].(*ssa.Const); isC {
									hasConst = true
								}
							}
						}
					}
					if !pure || hasConst {
						problems = append(problems, "a wrap goes through "+relName(cal)+", which does not return left + v + right on every path (a value that already carries the pair would stay unwrapped)")
					}
					nWrap++
					continue
				}
			}
			bo, ok := c.isStringAdd(v)
			if !ok {
				continue
			}
			top := true
			for _, r := range *bo.Referrers() {
				if _, isAdd := c.isStringAdd(valueOf(r)); isAdd {
					top = false
				}
			}
			if !top {
				continue
			}
			nWrap++
			leaves := c.concatLeaves(bo)
			if len(leaves) != 3 {
				problems = append(problems, "a wrap is not left + v + right")
				continue
			}
			idx := func(l ssa.Value) int64 {
				if ld, ok := l.(*ssa.UnOp); ok {
					if ia, ok := ld.X.(*ssa.IndexAddr); ok {
						if k, ok := constIntOf(ia.Index); ok {
							return k
						}
					}
				}
				return -1
			}
			if idx(leaves[0]) != 0 || (idx(leaves[2]) != 0 && idx(leaves[2]) != 1) {
				problems = append(problems, "a wrap does not put element 0 on the left and element 0/1 on the right")
			}
			if _, isPhi := leaves[1].(*ssa.Phi); !isPhi {
				if _, isParam := leaves[1].(*ssa.Parameter); !isParam {
					problems = append(problems, "the middle of a wrap is not the value built so far")
				}
			}
		}
	}
	if nWrap != 2 {
		problems = append(problems, fmt.Sprintf("%d wraps in the loop, expected two (single character, pair)", nWrap))
	}
	// no value escapes the wrapping: a return that does not yield the value
	// built by the loop yields the argument itself, and only when there is no pair at all
	{
		tt := c.eng.tt
		noPairs := tt.mk(Term{K: "B", S: "==", A: c.intConst(0), B: tt.mk(Term{K: "LEN", A: tt.mk(Term{K: "P", N: 0})})})
		bad := false
		for _, rs := range fa.rets {
			if len(rs.ret.Results) != 1 {
				continue
			}
			rv := rs.ret.Results[0]
			if phi, ok := rv.(*ssa.Phi); ok && phi.Block() == hdr {
				continue // the value built so far, returned when the walk is over
			}
			if rv != ssa.Value(fn.Params[1]) || !c.provesFact(fa, rs.st, Fact{aTR, noPairs, true}, nil) {
				bad = true
			}
		}
		if bad {
			problems = append(problems, "a return leaves the value unwrapped although pairs are configured (every leaf text, the empty string included, goes inside the pairs)")
		}
	}
	if len(problems) == 0 {
		rep.ok("R-STR", relName(fn), "outermost pair first", pos, "i runs len(enc)..1, pair enc[i-1] wraps the value built so far: the first pair ends up outermost")
	} else {
		sort.Strings(problems)
		rep.bad("R-STR", relName(fn), "outermost pair first", pos, strings.Join(uniq(problems), "; "))
	}
}

func (c *Ctx) ruleStrParen() {
	basicK, _ := c.p.constVal("basic")
	c.runTable(ttTable{
		rule: "R-STR", fn: "stack.paren",
		atoms: []ttAtom{
			c.flagAtom("parens", "parens"),
			{"basic", func(fa *FnAnalysis, st *State) (bool, bool) {
				for _, call := range c.findCalls(fa.fn, "stack.stackType") {
					kt := fa.term(st, call)
					a, b := kt, c.intConst(basicK)
					if a.key > b.key {
						a, b = b, a
					}
					if v, known := fa.knownTerm(st, aTR, c.eng.tt.mk(Term{K: "B", S: "==", A: a, B: b})); known {
						return v, true
					}
				}
				return false, false
			}},
		},
		feasible: func(v map[string]bool) bool { return true },
		expect: func(v map[string]bool) string {
			if v["parens"] && !v["basic"] {
				return "wrapped"
			}
			return "v"
		},
		outcome: func(fa *FnAnalysis, st *State, ret *ssa.Return) string {
			rv := ret.Results[0]
			if t := fa.term(st, rv); t.K == "P" && t.N == 1 {
				return "v"
			}
			leaves := c.concatLeaves(rv)
			if len(leaves) == 5 {
				l0, ok0 := leaves[0].(*ssa.Const)
				l4, ok4 := leaves[4].(*ssa.Const)
				if ok0 && ok4 && l0.Value != nil && l4.Value != nil && constant.StringVal(l0.Value) == "(" && constant.StringVal(l4.Value) == ")" && leaves[2] == ssa.Value(fa.fn.Params[1]) && leaves[1] == leaves[3] {
					return "wrapped"
				}
			}
			return "other"
		},
	})
}

func (c *Ctx) ruleStr() {
	c.ruleStrNot()
	c.ruleStrEmpty()
	c.ruleStrUTF8()
	c.ruleStrEncap()
	c.ruleStrParen()
	c.ruleStrCondValid()
	c.ruleStrLeaf()
	c.ruleStrJoin()
	c.ruleStrLeadOnce()
	c.ruleStrVerbatimSettings()
	c.ruleStrOperatorPad()
	c.ruleStrFloatWidth()
	c.ruleStrNoBypass()
}

// ruleStrCondValid: the unguarded Condition renderer condition.string is
// called only where Condition.Valid of the very same instance has just
// returned nil - wherever in the package the call sits - so an invalid
// Condition contributes nothing to any rendering.
func (c *Ctx) ruleStrCondValid() {
	rep := c.rep
	target := c.anchor("R-STR", "condition.string")
	if target == nil {
		return
	}
	sites := c.callSitesOf(target)
	if len(sites) == 0 {
		rep.bad("R-STR", "condition.string", "INVALID: call sites", c.p.pos(target.Pos()), "the Condition renderer has no call site")
		return
	}
	ord := map[*ssa.Function]*ordinal{}
	for _, in := range sites {
		fn := in.Parent()
		if ord[fn] == nil {
			ord[fn] = newOrdinal()
		}
		construct := ord[fn].next("INVALID: call condition.string")
		pos := c.p.instrPos(in)
		cc := callCommon(in)
		fa := c.eng.analyze(fn, nil)
		valids := c.findCalls(fn, "Condition.Valid")
		good := len(valids) > 0 && len(cc.Args) > 0 && fa.allHold(in, func(s *State) bool {
			obj := handleBase(fa.term(s, cc.Args[0]))
			for _, vc := range valids {
				if handleBase(fa.term(s, vc.Call.Args[0])) != obj {
					continue
				}
				if v, k := fa.nonNil(s, vc); k && !v {
					return true
				}
			}
			return false
		})
		if good {
			rep.ok("R-STR", relName(fn), construct, pos, "reached only after Valid() of the same Condition returned nil")
		} else {
			rep.bad("R-STR", relName(fn), construct, pos, "a Condition is rendered without Valid() of that very Condition having returned nil (an invalid Condition would contribute text)")
		}
	}
}

// ruleStrLeaf: in defaultAssertionHandler the text of a leaf - the result of
// the value's own String method or of the primitive stringer - is used for
// nothing but the argument of the enclosing stack's encapv, whose result is
// used for nothing but the argument of padValue; encapv hands its argument
// and the receiver's own pair list to encapValue and returns that result.
func (c *Ctx) ruleStrLeaf() {
	rep := c.rep
	fn := c.anchor("R-STR", "stack.defaultAssertionHandler")
	encapv := c.anchor("R-STR", "stack.encapv")
	if fn == nil || encapv == nil {
		return
	}
	fa := c.eng.analyze(fn, nil)
	isRecv := func(f *ssa.Function, a *FnAnalysis, v ssa.Value) bool {
		// the receiver, a load of its spill slot, or the spill slot itself
		if ld, ok := v.(*ssa.UnOp); ok && ld.Op == token.MUL {
			v = ld.X
		}
		if al, ok := v.(*ssa.Alloc); ok {
			var stored ssa.Value
			n := 0
			for _, r := range *al.Referrers() {
				if st, ok := r.(*ssa.Store); ok && st.Addr == ssa.Value(al) {
					n++
					stored = st.Val
				}
			}
			if n != 1 {
				return false
			}
			v = stored
		}
		return len(f.Params) > 0 && v == ssa.Value(f.Params[0])
	}
	onlyUse := func(v ssa.Value) ssa.Instruction {
		var out ssa.Instruction
		n := 0
		for _, r := range *v.Referrers() {
			if _, dbg := r.(*ssa.DebugRef); dbg {
				continue
			}
			n++
			out = r
		}
		if n != 1 {
			return nil
		}
		return out
	}
	nLeaf := 0
	ord := newOrdinal()
	for _, b := range fn.Blocks {
		for _, in := range b.Instrs {
			call, ok := in.(*ssa.Call)
			if !ok {
				continue
			}
			kind := ""
			if cal := c.p.callee(&call.Call); cal != nil {
				if relName(cal) == "primitiveStringer" {
					kind = "primitive text"
				}
			} else if !call.Call.IsInvoke() {
				if sig, ok := call.Call.Value.Type().Underlying().(*types.Signature); ok && sig.Params().Len() == 0 && sig.Results().Len() == 1 {
					if bt, ok := sig.Results().At(0).Type().Underlying().(*types.Basic); ok && bt.Kind() == types.String {
						kind = "text of the value's own String method"
					}
				}
			}
			if kind == "" {
				continue
			}
			nLeaf++
			construct := ord.next("LEAF: " + kind)
			pos := c.p.instrPos(in)
			msg := ""
			u1 := onlyUse(call)
			ec, _ := u1.(*ssa.Call)
			switch {
			case ec == nil || c.p.callee(&ec.Call) != encapv:
				msg = "the leaf text is not handed (only) to encapv"
			case len(ec.Call.Args) != 2 || ec.Call.Args[1] != ssa.Value(call) || !isRecv(fn, fa, ec.Call.Args[0]):
				msg = "encapv is not applied by the enclosing stack to the leaf text"
			default:
				u2 := onlyUse(ec)
				pc, _ := u2.(*ssa.Call)
				if pc == nil || c.p.callee(&pc.Call) == nil || relName(c.p.callee(&pc.Call)) != "padValue" || len(pc.Call.Args) != 2 || pc.Call.Args[1] != ssa.Value(ec) {
					msg = "the encapsulated text is not what is padded and returned"
				} else if !c.flowsToReturn(fn, pc) {
					msg = "the padded, encapsulated text does not reach the result"
				}
			}
			if msg == "" {
				rep.ok("R-STR", relName(fn), construct, pos, "leaf text -> r.encapv -> padValue -> result, nothing in between")
			} else {
				rep.bad("R-STR", relName(fn), construct, pos, msg)
			}
		}
	}
	if nLeaf < 2 {
		rep.bad("R-STR", relName(fn), "LEAF: leaf arms", c.p.pos(fn.Pos()), fmt.Sprintf("expected the stringer arm and the primitive arm, found %d", nLeaf))
	}
	// encapv itself
	{
		ea := c.eng.analyze(encapv, nil)
		msg := ""
		calls := c.findCalls(encapv, "encapValue")
		if len(calls) != 1 {
			msg = "expected one call of encapValue"
		} else {
			ev := calls[0]
			ge, _ := ev.Call.Args[0].(*ssa.Call)
			switch {
			case ev.Call.Args[1] != ssa.Value(encapv.Params[1]):
				msg = "encapValue is not given the text to encapsulate"
			case ge == nil || c.p.callee(&ge.Call) == nil || !strings.HasSuffix(relName(c.p.callee(&ge.Call)), "stack).getEncap") && relName(c.p.callee(&ge.Call)) != "stack.getEncap" || !isRecv(encapv, ea, ge.Call.Args[0]):
				msg = "encapValue is not given the receiver's own pair list"
			case !c.flowsToReturn(encapv, ev):
				msg = "the encapsulated text is not returned"
			}
		}
		if msg == "" {
			rep.ok("R-STR", relName(encapv), "LEAF: own pairs, own text", c.p.pos(encapv.Pos()), "returns encapValue(r.getEncap(), v)")
		} else {
			rep.bad("R-STR", relName(encapv), "LEAF: own pairs, own text", c.p.pos(encapv.Pos()), msg)
		}
	}
}

// flowsToReturn: v reaches a return operand through phis only, and every use
// of it (and of those phis) is such a phi or the return.
func (c *Ctx) flowsToReturn(fn *ssa.Function, v ssa.Value) bool {
	seen := map[ssa.Value]bool{}
	reached := false
	var walk func(x ssa.Value) bool
	walk = func(x ssa.Value) bool {
		if seen[x] {
			return true
		}
		seen[x] = true
		for _, r := range *x.Referrers() {
			switch u := r.(type) {
			case *ssa.DebugRef:
			case *ssa.Return:
				reached = true
			case *ssa.Phi:
				if !walk(u) {
					return false
				}
			case *ssa.Store:
				// named result spilled because of a defer: not used here
				return false
			default:
				return false
			}
		}
		return true
	}
	return walk(v) && reached
}

// fieldVerbatim: every value fn returns is a load of the named nodeConfig
// field, or the result of an in-package getter for which the same holds -
// nothing is applied to it on the way.
func (c *Ctx) fieldVerbatim(fn *ssa.Function, field string, depth int) bool {
	if fn == nil || depth > 4 || len(fn.Blocks) == 0 {
		return false
	}
	seen := map[ssa.Value]bool{}
	var ok func(v ssa.Value) bool
	ok = func(v ssa.Value) bool {
		if seen[v] {
			return true
		}
		seen[v] = true
		switch x := v.(type) {
		case *ssa.Phi:
			for _, e := range x.Edges {
				if !ok(e) {
					return false
				}
			}
			return true
		case *ssa.UnOp:
			if x.Op != token.MUL {
				return false
			}
			if fa, isF := x.X.(*ssa.FieldAddr); isF {
				return fieldName(fa) == field
			}
			// a spilled named result
			if al, isA := x.X.(*ssa.Alloc); isA {
				n := 0
				good := true
				for _, r := range *al.Referrers() {
					if st, isS := r.(*ssa.Store); isS && st.Addr == ssa.Value(al) {
						n++
						if !ok(st.Val) {
							good = false
						}
					}
				}
				return n > 0 && good
			}
			return false
		case *ssa.Field:
			return false
		case *ssa.Call:
			cal := c.p.callee(&x.Call)
			return cal != nil && c.p.inPkg(cal) && c.fieldVerbatim(cal, field, depth+1)
		}
		return false
	}
	n := 0
	for _, b := range fn.Blocks {
		for _, in := range b.Instrs {
			if ret, isR := in.(*ssa.Return); isR {
				if len(ret.Results) != 1 {
					return false
				}
				n++
				if !ok(ret.Results[0]) {
					return false
				}
			}
		}
	}
	return n > 0
}

// ruleStrVerbatimSettings: the symbol and the LIST delimiter reach the
// rendering exactly as stored - the getters the rendering code calls return
// the configuration field itself - and stack.typ hands the symbol on untouched
// (case folding applies to operator words only).
func (c *Ctx) ruleStrVerbatimSettings() {
	rep := c.rep
	for _, g := range []struct{ fn, field, what string }{
		{"(*stack).getListDelimiter", "nodeConfig.ljc", "the LIST delimiter"},
		{"stack.getSymbol", "nodeConfig.sym", "the symbol"},
	} {
		fn := c.anchor("R-STR", g.fn)
		if fn == nil {
			continue
		}
		if c.fieldVerbatim(fn, g.field, 0) {
			rep.ok("R-STR", g.fn, "VERBATIM: "+g.what, c.p.pos(fn.Pos()), "returns the stored "+g.field+" itself, nothing applied to it")
		} else {
			rep.bad("R-STR", g.fn, "VERBATIM: "+g.what, c.p.pos(fn.Pos()), g.what+" is not handed to the rendering code exactly as stored (something is applied to "+g.field+" on the way)")
		}
	}
	// typ(): with a symbol set, result 0 is that symbol
	fn := c.anchor("R-STR", "stack.typ")
	if fn == nil {
		return
	}
	fa := c.eng.analyze(fn, nil)
	syms := c.findCalls(fn, "stack.getSymbol", "(*stack).getSymbol")
	var problems []string
	nSym := 0
	for _, rs := range fa.rets {
		if rs.st.dead || len(rs.ret.Results) < 1 {
			continue
		}
		for _, sc := range syms {
			st := fa.term(rs.st, sc)
			if v, k := c.strEmptiness(fa, rs.st, st); k && v {
				nSym++
				if fa.term(rs.st, rs.ret.Results[0]) != st {
					problems = append(problems, "with a symbol set the operator text returned is not the symbol itself: "+fa.term(rs.st, rs.ret.Results[0]).key)
				}
			}
		}
	}
	if nSym == 0 {
		problems = append(problems, "no return path on which a symbol is known to be set")
	}
	if len(problems) == 0 {
		rep.ok("R-STR", "stack.typ", "VERBATIM: symbol as operator", c.p.pos(fn.Pos()), "with a symbol set the operator text is exactly getSymbol()'s result (no folding, no padding)")
	} else {
		sort.Strings(problems)
		rep.bad("R-STR", "stack.typ", "VERBATIM: symbol as operator", c.p.pos(fn.Pos()), strings.Join(uniq(problems), "; "))
	}
}

// returnsOnlyFrom: every value fn returns is (through phis) one of the allowed
// values or an empty-string constant.
func (c *Ctx) returnsOnlyFrom(fn *ssa.Function, allowed func(ssa.Value) bool) bool {
	seen := map[ssa.Value]bool{}
	var ok func(v ssa.Value) bool
	ok = func(v ssa.Value) bool {
		if seen[v] {
			return true
		}
		seen[v] = true
		if allowed(v) {
			return true
		}
		switch x := v.(type) {
		case *ssa.Phi:
			for _, e := range x.Edges {
				if !ok(e) {
					return false
				}
			}
			return true
		case *ssa.Const:
			return x.Value != nil && x.Value.Kind() == constant.String && constant.StringVal(x.Value) == ""
		case *ssa.UnOp:
			// a spilled named result
			if al, isA := x.X.(*ssa.Alloc); isA && x.Op == token.MUL {
				n := 0
				for _, r := range *al.Referrers() {
					if st, isS := r.(*ssa.Store); isS && st.Addr == ssa.Value(al) {
						n++
						if !ok(st.Val) {
							return false
						}
					}
				}
				return n > 0
			}
		}
		return false
	}
	n := 0
	for _, b := range fn.Blocks {
		for _, in := range b.Instrs {
			if ret, isR := in.(*ssa.Return); isR && len(ret.Results) == 1 {
				n++
				if !ok(ret.Results[0]) {
					return false
				}
			}
		}
	}
	return n > 0
}

// ruleStrNoBypass: no rendering escapes the two normalising steps.  encapv
// returns encapValue's result or nothing (a leaf that "already looks
// encapsulated" is wrapped all the same); assembleStringStack returns
// condenseWHSP(paren(...)) on every path (no fast path around the
// condensation of blank runs inside leaf texts).
func (c *Ctx) ruleStrNoBypass() {
	rep := c.rep
	if fn := c.anchor("R-STR", "stack.encapv"); fn != nil {
		calls := c.findCalls(fn, "encapValue")
		good := len(calls) == 1 && c.returnsOnlyFrom(fn, func(v ssa.Value) bool { return len(calls) == 1 && v == ssa.Value(calls[0]) })
		if good {
			rep.ok("R-STR", "stack.encapv", "NOBYPASS: encapsulation", c.p.pos(fn.Pos()), "every result is encapValue's (or the empty string for BASIC)")
		} else {
			rep.bad("R-STR", "stack.encapv", "NOBYPASS: encapsulation", c.p.pos(fn.Pos()), "a leaf text can be returned without having gone through encapValue (e.g. because it already begins and ends with the pair)")
		}
	}
	if fn := c.anchor("R-STR", "stack.assembleStringStack"); fn != nil {
		good := c.returnsOnlyFrom(fn, func(v ssa.Value) bool {
			call, ok := v.(*ssa.Call)
			if !ok || c.calleeName(&call.Call) != "condenseWHSP" || len(call.Call.Args) != 1 {
				return false
			}
			inner, ok := call.Call.Args[0].(*ssa.Call)
			return ok && (c.calleeName(&inner.Call) == "stack.paren" || c.calleeName(&inner.Call) == "(*stack).paren")
		})
		// the empty-string escape of returnsOnlyFrom is not wanted here: require at least the call
		if good {
			rep.ok("R-STR", "stack.assembleStringStack", "NOBYPASS: condensation", c.p.pos(fn.Pos()), "every result is condenseWHSP(paren(...))")
		} else {
			rep.bad("R-STR", "stack.assembleStringStack", "NOBYPASS: condensation", c.p.pos(fn.Pos()), "a rendering can be returned without the condensation of blank runs (blanks and tabs inside leaf texts would survive)")
		}
	}
	// integer leaves keep their signedness: nothing in the primitive stringers converts an
	// unsigned integer to a signed one (a uint64 above MaxInt64 would print negative)
	if root := c.anchor("R-STR", "primitiveStringer"); root != nil {
		var bad []string
		for _, fn := range c.reach(root) {
			for _, b := range fn.Blocks {
				for _, in := range b.Instrs {
					cv, ok := in.(*ssa.Convert)
					if !ok {
						continue
					}
					from, ok1 := cv.X.Type().Underlying().(*types.Basic)
					to, ok2 := cv.Type().Underlying().(*types.Basic)
					if ok1 && ok2 && from.Info()&types.IsUnsigned != 0 && to.Info()&types.IsInteger != 0 && to.Info()&types.IsUnsigned == 0 {
						bad = append(bad, relName(fn)+" "+c.p.instrPos(in))
					}
				}
			}
		}
		sort.Strings(bad)
		if len(bad) == 0 {
			rep.ok("R-STR", "primitiveStringer", "NUMBER: signedness", c.p.pos(root.Pos()), "no unsigned integer is converted to a signed one on its way to the text")
		} else {
			rep.bad("R-STR", "primitiveStringer", "NUMBER: signedness", c.p.pos(root.Pos()), "an unsigned integer is converted to a signed type before formatting (values above the signed maximum print negative): "+strings.Join(bad, "; "))
		}
	}
}
