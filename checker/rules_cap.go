package main

import (
	"go/types"
	"fmt"
	"go/token"
	"os"
	"sort"
	"strings"

	"golang.org/x/tools/go/ssa"
)

// ---------------------------------------------------------------- R-SLOT0 / R-CAP
//
// Two inductive invariants of every slice header a stack object ever holds:
//
//   SLOT0  len(hdr) >= 1 and hdr[0] is the (non-nil) *nodeConfig the object was
//          created with;
//   CAP    cap == 0  ∨  len(hdr) <= cap   (cap >= 0), where cap is the capacity
//          word of that configuration.
//
// base   newStack builds the header as append(<empty>, cfg) with cfg a fresh
//        non-nil *nodeConfig whose cap word is 0 or the capacity the make()
//        succeeded with;
// frame  nodeConfig.cap is written by nobody else (R-CAPW); an element store
//        through a stack header uses an index >= 1 (R-SLOT0 element rule);
// step   every store of a header (`*p = X`, abstract location HDR; enumerated
//        from the SSA on every run) is proved to keep both: X derives from a
//        header loaded from the same address by re-slicing from 0 with high >= 1,
//        appending to a non-empty header, or appending to an empty slice whose
//        first element is that object's own configuration (SLOT0); and on every
//        path state reaching the store, assuming CAP for every header the object
//        held so far, the linear prover shows cap == 0 ∨ len(X) <= cap (CAP).
//
// A stack value passed by value (value receivers) is a copy of a loaded
// header (R-SLOT0 argument rule), so the invariants hold for it as well.

func (c *Ctx) capSym() *Term {
	return c.eng.tt.mk(Term{K: "G", S: "$cap"})
}

type hdrStore struct {
	fn *ssa.Function
	st *ssa.Store
}

func (c *Ctx) hdrStores() []hdrStore {
	var out []hdrStore
	for _, fn := range c.p.Funcs {
		for _, b := range fn.Blocks {
			for _, in := range b.Instrs {
				if st, ok := in.(*ssa.Store); ok && c.eff.classifyAddr(st.Addr) == "HDR" {
					out = append(out, hdrStore{fn, st})
				}
			}
		}
	}
	sort.SliceStable(out, func(i, j int) bool { return relName(out[i].fn) < relName(out[j].fn) })
	return out
}

func (c *Ctx) le1Len(fa *FnAnalysis, s *State, v ssa.Value, sv []ssa.Value) bool {
	lt := c.eng.tt.mk(Term{K: "LEN", A: fa.term(s, v)})
	return c.provesFact(fa, s, Fact{aTR, c.eng.tt.mk(Term{K: "B", S: "<=", A: c.intConst(1), B: lt}), true}, sv)
}

// sliceHyp: facts that hold once the slice expression x has been evaluated
// without panicking: 0 <= high (the runtime check); for a site whose range
// obligation is in the table of assumed sites (C08), also high <= len.
func (c *Ctx) sliceHyp(fa *FnAnalysis, s *State, x *ssa.Slice) *State {
	if x.High == nil {
		return s
	}
	tt := c.eng.tt
	tmp := s.clone()
	tmp.frozen = false
	ht := fa.term(s, x.High)
	tmp.add(aTR, tt.mk(Term{K: "B", S: "<=", A: c.intConst(0), B: ht}), true)
	key := "R-BND:" + relName(fa.fn) + ":slice " + typeStr(x.X.Type())
	if why, ok := censusAssumed[key]; ok {
		tmp.add(aTR, tt.mk(Term{K: "B", S: "<=", A: ht, B: tt.mk(Term{K: "LEN", A: fa.term(s, x.X)})}), true)
		c.rep.assume(key + ": " + why)
	}
	return tmp
}

// ge1: the int value v is >= 1 in state s.
func (c *Ctx) ge1(fa *FnAnalysis, s *State, v ssa.Value, sv []ssa.Value) bool {
	if k, ok := constIntOf(v); ok {
		return k >= 1
	}
	t := fa.term(s, v)
	if t.K == "C" {
		if k, ok := constInt64(t.Const); ok {
			return k >= 1
		}
	}
	return c.provesFact(fa, s, Fact{aTR, c.eng.tt.mk(Term{K: "B", S: "<=", A: c.intConst(1), B: t}), true}, sv)
}

func (c *Ctx) lenIs0(fa *FnAnalysis, s *State, v ssa.Value, sv []ssa.Value) bool {
	if isNilConst(v) {
		return true
	}
	if m, ok := v.(*ssa.MakeSlice); ok {
		if k, ok := constIntOf(m.Len); ok && k == 0 {
			return true
		}
	}
	if sl, ok := v.(*ssa.Slice); ok && sl.High != nil {
		// make(T, 0) of a constant size is lowered to new [n]T; slice [:0]
		if k, ok := constIntOf(sl.High); ok && k == 0 {
			return true
		}
	}
	lt := c.eng.tt.mk(Term{K: "LEN", A: fa.term(s, v)})
	return c.provesFact(fa, s, Fact{aTR, c.eng.tt.mk(Term{K: "B", S: "<=", A: lt, B: c.intConst(0)}), true}, nil)
}

// sameObjectLoad: v is a load of a stack header from the address `addr`
// (same SSA pointer, or the same term in state s).
func (c *Ctx) sameObjectLoad(fa *FnAnalysis, s *State, v ssa.Value, addr ssa.Value) bool {
	u, ok := v.(*ssa.UnOp)
	if !ok || u.Op != token.MUL {
		return false
	}
	if u.X == addr {
		return true
	}
	return fa.term(s, u.X) == fa.term(s, addr)
}

// slot0From: the value v (type stack) is a header whose slot 0 is the
// configuration of the object stored at addr.
func (c *Ctx) slot0From(fa *FnAnalysis, s *State, v ssa.Value, addr ssa.Value, sv []ssa.Value, seen map[ssa.Value]bool) (bool, string) {
	if seen[v] {
		return true, ""
	}
	seen[v] = true
	switch x := v.(type) {
	case *ssa.UnOp:
		if x.Op == token.MUL {
			if bv, ok := s.bind[x]; ok && bv != nil && bv != ssa.Value(x) {
				return c.slot0From(fa, s, bv, addr, sv, seen)
			}
			if c.sameObjectLoad(fa, s, x, addr) {
				return true, ""
			}
			return false, "a header loaded from a different object"
		}
	case *ssa.ChangeType:
		return c.slot0From(fa, s, x.X, addr, sv, seen)
	case *ssa.Phi:
		if bv, ok := s.bind[x]; ok && bv != nil && bv != ssa.Value(x) {
			return c.slot0From(fa, s, bv, addr, sv, seen)
		}
		for _, e := range x.Edges {
			if ok, why := c.slot0From(fa, s, e, addr, sv, seen); !ok {
				return false, why
			}
		}
		return true, ""
	case *ssa.Slice:
		if _, isArr := derefArray(x.X.Type()); isArr {
			return false, "a slice of an array"
		}
		if x.Low != nil {
			if k, ok := constIntOf(x.Low); !ok || k != 0 {
				return false, "re-sliced from a non-zero low bound: slot 0 is dropped"
			}
		}
		if x.High != nil {
			if !c.ge1(fa, c.sliceHyp(fa, s, x), x.High, sv) {
				if os.Getenv("CAPDEBUG") != "" {
					fmt.Printf("GE1 FAIL %s high=%s\n", relName(fa.fn), fa.term(s, x.High).key)
					for _, f := range s.factList() {
						if f.Kind == aTR && f.T.K == "B" {
							fmt.Printf("      %s=%v\n", f.T.key, f.Val)
						}
					}
				}
				return false, "re-sliced with a high bound not proved >= 1: slot 0 may be dropped"
			}
		}
		return c.slot0From(fa, s, x.X, addr, sv, seen)
	case *ssa.Call:
		if b, ok := x.Call.Value.(*ssa.Builtin); ok && b.Name() == "append" && len(x.Call.Args) == 2 {
			A := x.Call.Args[0]
			if c.lenIs0(fa, s, A, sv) {
				elems := variadicElems(x.Call.Args[1])
				if len(elems) >= 1 && c.isCfgOf(fa, s, elems[0], addr) {
					return true, ""
				}
				return false, "append to an empty slice whose first element is not the object's configuration"
			}
			if ok, _ := c.slot0From(fa, s, A, addr, sv, seen); ok && c.le1Len(fa, s, A, sv) {
				return true, ""
			}
			ok2, why2 := c.slot0From(fa, s, A, addr, sv, map[ssa.Value]bool{})
			return false, fmt.Sprintf("append to a slice that is neither a non-empty header of the object (header: %v %s; len>=1: %v) nor provably empty", ok2, why2, c.le1Len(fa, s, A, sv))
		}
	}
	return false, "value of unknown origin (" + strings.TrimSpace(fmt.Sprintf("%T", v)) + ")"
}

// isCfgOf: v is the configuration pointer found in slot 0 of the object at
// addr, converted to `any`.
func (c *Ctx) isCfgOf(fa *FnAnalysis, s *State, v ssa.Value, addr ssa.Value) bool {
	mi, ok := v.(*ssa.MakeInterface)
	if !ok || !c.p.isPtrToNamed(mi.X.Type(), "nodeConfig") {
		return false
	}
	t := fa.term(s, mi.X)
	return c.isCfgTerm(fa, s, t, addr)
}

func (c *Ctx) isCfgTerm(fa *FnAnalysis, s *State, t *Term, addr ssa.Value) bool {
	at := fa.term(s, addr)
	// TA(*nodeConfig, L(IA(L(addr@e#HDR), 0)))
	if t.K == "TA" && t.A != nil && t.A.K == "L" && t.A.A != nil && t.A.A.K == "IA" {
		ia := t.A.A
		if ia.B != nil && ia.B.K == "C" && ia.B.S == "0" && ia.A != nil && ia.A.K == "L" && ia.A.S == "HDR" && ia.A.A == at {
			return true
		}
	}
	// X(APP((*stack).config@e: AL(addr)), 0)
	if t.K == "X" && t.N == 0 && t.A != nil && t.A.K == "APP" && t.A.S == "(*stack).config" && t.A.A != nil && t.A.A.A == at {
		return true
	}
	return false
}

func (c *Ctx) ruleSlot0() {
	c.ruleSlot0Stores()
	c.ruleSlot0New()
	c.ruleSlot0Args()
	c.ruleSlot0Elems()
}

// ruleSlot0Stores: the header-store part of R-SLOT0 (also re-run in concurrent mode by C10).
func (c *Ctx) ruleSlot0Stores() {
	rep := c.rep
	stores := c.hdrStores()
	ords := map[*ssa.Function]*ordinal{}
	nReal := 0
	for _, hs := range stores {
		fn, st := hs.fn, hs.st
		if ords[fn] == nil {
			ords[fn] = newOrdinal()
		}
		pos := c.p.instrPos(st)
		// spilled value receiver / local copy: a fresh local cell initialised with a header passed by value
		if al, _ := allocCell(st.Addr); al != nil && ssa.Value(al) == st.Addr {
			if p, isParam := st.Val.(*ssa.Parameter); isParam && c.p.isNamed(p.Type(), "stack") {
				continue // a by-value copy of a header (argument rule below)
			}
			if relName(fn) == "newStack" {
				continue // creation: judged as a whole below
			}
		}
		construct := ords[fn].next("store *r")
		nReal++
		fa := c.eng.analyze(fn, nil)
		sv := c.stackValues(fn)
		var problems []string
		for _, s := range fa.statesBefore(st) {
			if c.stateInfeasible(fa, s, sv) {
				continue
			}
			if ok, why := c.slot0From(fa, s, st.Val, st.Addr, sv, map[ssa.Value]bool{}); !ok {
				problems = append(problems, why)
			}
		}
		if !fa.reachable(st) {
			rep.ok("R-SLOT0", relName(fn), construct, pos, "unreachable")
			continue
		}
		if len(problems) == 0 {
			rep.ok("R-SLOT0", relName(fn), construct, pos, "the stored header keeps slot 0: derived from the object's own header (re-slice from 0 with high >= 1, append to a non-empty header, or rebuilt from its own configuration)")
		} else {
			sort.Strings(problems)
			rep.bad("R-SLOT0", relName(fn), construct, pos, "the stored header may lose or replace the configuration slot: "+strings.Join(uniq(problems), "; "))
		}
	}
	if nReal < 8 {
		rep.bad("R-SLOT0", "package", "header stores", "?", fmt.Sprintf("only %d header stores found (expected >= 8): the store enumeration no longer matches the code", nReal))
	}
}

// ruleSlot0New: the only place a stack object is created is newStack, whose
// header is append(<empty>, cfg) with cfg a fresh *nodeConfig.
func (c *Ctx) ruleSlot0New() {
	rep := c.rep
	// every escaping allocation of a `stack` cell outside newStack is a spilled by-value copy
	for _, fn := range c.p.Funcs {
		for _, b := range fn.Blocks {
			for _, in := range b.Instrs {
				al, ok := in.(*ssa.Alloc)
				if !ok || !c.p.isNamed(derefType(al.Type()), "stack") {
					continue
				}
				if relName(fn) == "newStack" {
					continue
				}
				// stores into it
				okInit := true
				n := 0
				for _, r := range *al.Referrers() {
					if st, isSt := r.(*ssa.Store); isSt && st.Addr == ssa.Value(al) {
						n++
						if p, isParam := st.Val.(*ssa.Parameter); !isParam || !c.p.isNamed(p.Type(), "stack") {
							okInit = false
						}
					}
				}
				if n == 0 || !okInit {
					// a local stack variable built piecemeal: fine as long as it never escapes as *stack
					fa := c.eng.analyze(fn, nil)
					if info := fa.allocs[al]; info == nil || info.opaque {
						rep.bad("R-SLOT0", relName(fn), "stack cell "+al.Comment, c.p.instrPos(al), "a stack object is created outside newStack (its header is not known to start with the configuration slot)")
					}
				}
			}
		}
	}
	fn := c.anchor("R-SLOT0", "newStack")
	if fn == nil {
		return
	}
	var cell *ssa.Alloc
	var cfg *ssa.Alloc
	for _, b := range fn.Blocks {
		for _, in := range b.Instrs {
			if al, ok := in.(*ssa.Alloc); ok {
				if c.p.isNamed(derefType(al.Type()), "stack") {
					cell = al
				}
				if c.p.isNamed(derefType(al.Type()), "nodeConfig") {
					cfg = al
				}
			}
		}
	}
	pos := c.p.pos(fn.Pos())
	if cell == nil || cfg == nil {
		rep.bad("R-SLOT0", "newStack", "creation", pos, "newStack no longer allocates one stack cell and one nodeConfig")
		return
	}
	var appendStore *ssa.Store
	var problems []string
	for _, r := range *cell.Referrers() {
		st, ok := r.(*ssa.Store)
		if !ok || st.Addr != ssa.Value(cell) {
			continue
		}
		if m, isMake := st.Val.(*ssa.MakeSlice); isMake {
			if k, ok := constIntOf(m.Len); !ok || k != 0 {
				problems = append(problems, "make() with a non-zero length")
			}
			continue
		}
		if sl, isSl := st.Val.(*ssa.Slice); isSl && sl.High != nil {
			if k, ok := constIntOf(sl.High); ok && k == 0 {
				continue // make(stack, 0)
			}
		}
		call, isCall := st.Val.(*ssa.Call)
		if isCall {
			if b, ok := call.Call.Value.(*ssa.Builtin); ok && b.Name() == "append" && len(call.Call.Args) == 2 {
				elems := variadicElems(call.Call.Args[1])
				ld, isLoad := call.Call.Args[0].(*ssa.UnOp)
				if len(elems) == 1 && isLoad && ld.X == ssa.Value(cell) {
					if mi, ok := elems[0].(*ssa.MakeInterface); ok && mi.X == ssa.Value(cfg) {
						if appendStore != nil {
							problems = append(problems, "more than one append of the configuration")
						}
						appendStore = st
						continue
					}
				}
			}
		}
		problems = append(problems, "the header cell is stored with something other than an empty make() or append(st, cfg)")
	}
	if appendStore == nil {
		problems = append(problems, "no `st = append(st, cfg)` found")
	} else {
		// the append is executed on every path to the return and nothing is stored after it
		for _, b := range fn.Blocks {
			for _, in := range b.Instrs {
				if _, ok := in.(*ssa.Return); ok && !appendStore.Block().Dominates(b) {
					problems = append(problems, "a return path does not pass the append of the configuration")
				}
				if st, ok := in.(*ssa.Store); ok && st.Addr == ssa.Value(cell) && st != appendStore && appendStore.Block().Dominates(b) && (b != appendStore.Block() || instrIndex(st) > instrIndex(appendStore)) {
					problems = append(problems, "the header is stored again after the configuration was appended")
				}
			}
		}
	}
	// the returned pointer is the cell
	for _, b := range fn.Blocks {
		for _, in := range b.Instrs {
			if ret, ok := in.(*ssa.Return); ok {
				if len(ret.Results) != 1 || ret.Results[0] != ssa.Value(cell) {
					problems = append(problems, "newStack returns something other than the cell it initialised")
				}
			}
		}
	}
	if len(problems) == 0 {
		rep.ok("R-SLOT0", "newStack", "creation", pos, "the new object's header is append(<empty>, cfg) with cfg a fresh *nodeConfig, on every return path")
	} else {
		sort.Strings(problems)
		rep.bad("R-SLOT0", "newStack", "creation", pos, strings.Join(uniq(problems), "; "))
	}
}

func instrIndex(in ssa.Instruction) int {
	for i, x := range in.Block().Instrs {
		if x == in {
			return i
		}
	}
	return -1
}

// ruleSlot0Args: a value of type stack passed to a function (value
// receivers) is a loaded header or a by-value parameter handed on.
func (c *Ctx) ruleSlot0Args() {
	rep := c.rep
	n := 0
	bad := 0
	for _, fn := range c.p.Funcs {
		ord := newOrdinal()
		for _, b := range fn.Blocks {
			for _, in := range b.Instrs {
				cc := callCommon(in)
				if cc == nil {
					continue
				}
				if _, isB := cc.Value.(*ssa.Builtin); isB {
					continue
				}
				for _, a := range cc.Args {
					if !c.p.isNamed(a.Type(), "stack") {
						continue
					}
					n++
					okArg := false
					switch x := a.(type) {
					case *ssa.Parameter:
						okArg = true
					case *ssa.UnOp:
						if x.Op == token.MUL && c.eff.classifyAddr(x.X) == "HDR" {
							okArg = true
						}
					}
					if !okArg {
						bad++
						name := "?"
						if cal := c.p.callee(cc); cal != nil {
							name = shortFn(cal)
						}
						rep.bad("R-SLOT0", relName(fn), ord.next("stack argument of "+name), c.p.instrPos(in), "a stack value that is not a loaded header is passed by value: callees assume slot 0 holds the configuration")
					}
				}
			}
		}
	}
	if bad == 0 {
		rep.ok("R-SLOT0", "package", "stack values passed by value", "?", fmt.Sprintf("all %d by-value stack arguments are loaded headers or forwarded by-value parameters", n))
	}
	if n < 100 {
		rep.bad("R-SLOT0", "package", "stack arguments", "?", fmt.Sprintf("only %d by-value stack arguments found (expected >= 100)", n))
	}
}

// ruleSlot0Elems: an element store through a stack header uses an index
// >= 1 (the R-BND obligations "element store on stack (slot >= 1)" of the
// interprocedural census, lower and upper bound), and no bulk copy targets a
// header from slot 0.
func (c *Ctx) ruleSlot0Elems() { c.ruleSlot0ElemsIn(nil) }

func (c *Ctx) ruleSlot0ElemsIn(scope []*ssa.Function) {
	rep := c.rep
	marker := "element store on stack (slot >= 1)"
	c.censusOnly = func(what, detail string) bool {
		return what == marker || strings.Contains(detail, marker)
	}
	c.ruleCensus(scope, map[string]bool{"R-BND": true})
	c.censusOnly = nil
	n := 0
	for _, o := range rep.Obls {
		if o.Rule == "R-BND" && strings.Contains(o.Key, marker) {
			n++
		}
	}
	if n < 3 {
		rep.bad("R-SLOT0", "package", "element stores", "?", fmt.Sprintf("only %d element stores found (expected >= 3)", n))
	}
	// builtin copy into a stack header
	for _, fn := range c.p.Funcs {
		ord := newOrdinal()
		for _, b := range fn.Blocks {
			for _, in := range b.Instrs {
				call, ok := in.(*ssa.Call)
				if !ok {
					continue
				}
				bi, ok := call.Call.Value.(*ssa.Builtin)
				if !ok || bi.Name() != "copy" || len(call.Call.Args) != 2 {
					continue
				}
				dst := call.Call.Args[0]
				if !c.p.isNamed(dst.Type(), "stack") {
					continue
				}
				construct := ord.next("copy into a stack header")
				fa := c.eng.analyze(fn, nil)
				sv := c.stackValues(fn)
				okAll := false
				if sl, isSl := dst.(*ssa.Slice); isSl && sl.Low != nil {
					okAll = fa.allHold(in, func(s *State) bool { return c.ge1(fa, s, sl.Low, sv) })
				}
				if okAll {
					rep.ok("R-SLOT0", relName(fn), construct, c.p.instrPos(in), "bulk copy starts at a slot >= 1")
				} else {
					rep.bad("R-SLOT0", relName(fn), construct, c.p.instrPos(in), "a bulk copy into a stack header is not proved to start at a slot >= 1: the configuration slot may be overwritten")
				}
			}
		}
	}
}

// ---------------------------------------------------------------- R-CAPW

// ruleCapW: the capacity word is written only by newStack, into the
// configuration it has just allocated.
func (c *Ctx) ruleCapW() {
	rep := c.rep
	n := 0
	for _, fn := range c.p.Funcs {
		ord := newOrdinal()
		for _, b := range fn.Blocks {
			for _, in := range b.Instrs {
				st, ok := in.(*ssa.Store)
				if !ok {
					continue
				}
				if f, ok := st.Addr.(*ssa.FieldAddr); ok && fieldName(f) == "nodeConfig.cap" {
					n++
					_, isAlloc := f.X.(*ssa.Alloc)
					if relName(fn) == "newStack" && isAlloc {
						rep.ok("R-CAPW", relName(fn), ord.next("store nodeConfig.cap"), c.p.instrPos(in), "capacity word initialised on the fresh configuration")
					} else {
						rep.bad("R-CAPW", relName(fn), ord.next("store nodeConfig.cap"), c.p.instrPos(in), "the capacity of an existing stack is overwritten: Cap() would change after creation")
					}
					continue
				}
				// whole-struct store into a configuration
				if c.p.isPtrToNamed(st.Addr.Type(), "nodeConfig") {
					if _, isAlloc := st.Addr.(*ssa.Alloc); !isAlloc {
						rep.bad("R-CAPW", relName(fn), ord.next("store *nodeConfig"), c.p.instrPos(in), "a whole configuration is overwritten (capacity included)")
					}
				}
			}
		}
	}
	if n == 0 {
		rep.bad("R-CAPW", "package", "store nodeConfig.cap", "?", "no initialisation of the capacity word found")
	}
}

// ---------------------------------------------------------------- R-CAP (step)

// headerTerms collects the header terms of the object at address term `at`
// occurring in the facts of s: loads L(at@e#HDR).
func collectSub(t *Term, pred func(*Term) bool, out map[*Term]bool) {
	if t == nil {
		return
	}
	if pred(t) {
		out[t] = true
	}
	collectSub(t.A, pred, out)
	collectSub(t.B, pred, out)
}

// capHypotheses returns a copy of s in which (a) every capacity reading of a
// header of the object is equated with the symbol K, (b) CAP is assumed for
// every header the object held (case K != 0), (c) the verdicts of isFull on
// such headers are expanded (R-CAPEQ proves isFull(h) == (K != 0 ∧ len(h) == K)).
func (c *Ctx) capHypotheses(fa *FnAnalysis, s *State, isHdr func(*Term) bool, extra []*Term, kZero bool) *State {
	tt := c.eng.tt
	K := c.capSym()
	tmp := s.clone()
	tmp.frozen = false
	hdrs := map[*Term]bool{}
	apps := map[*Term]bool{}
	isApp := func(t *Term) bool { return t.K == "APP" }
	for _, f := range s.factList() {
		collectSub(f.T, isHdr, hdrs)
		collectSub(f.T, isApp, apps)
	}
	for _, t := range s.terms {
		collectSub(t, isHdr, hdrs)
		collectSub(t, isApp, apps)
	}
	for _, t := range extra {
		hdrs[t] = true
		collectSub(t, isApp, apps)
	}
	zero := c.intConst(0)
	eq := func(a, b *Term) *Term {
		if a.key > b.key {
			a, b = b, a
		}
		return tt.mk(Term{K: "B", S: "==", A: a, B: b})
	}
	if kZero {
		tmp.add(aTR, eq(K, zero), true)
	} else {
		// K >= 1 (case K != 0; K >= 0 holds by the base case)
		tmp.add(aTR, tt.mk(Term{K: "B", S: "<=", A: c.intConst(1), B: K}), true)
	}
	var hl []*Term
	for h := range hdrs {
		hl = append(hl, h)
	}
	sort.Slice(hl, func(i, j int) bool { return hl[i].key < hl[j].key })
	for _, h := range hl {
		if !kZero {
			tmp.add(aTR, tt.mk(Term{K: "B", S: "<=", A: tt.mk(Term{K: "LEN", A: h}), B: K}), true)
		}
		tmp.add(aTR, tt.mk(Term{K: "B", S: "<=", A: c.intConst(1), B: tt.mk(Term{K: "LEN", A: h})}), true)
	}
	var al []*Term
	for a := range apps {
		al = append(al, a)
	}
	sort.Slice(al, func(i, j int) bool { return al[i].key < al[j].key })
	for _, a := range al {
		if a.A == nil || a.A.B != nil || !hdrs[a.A.A] {
			continue // not a one-argument call on a header of the object
		}
		h := a.A.A
		switch a.S {
		case "stack.cap":
			tmp.add(aTR, eq(a, K), true)
		case "stack.isFull":
			if v, known := s.get(aTR, a); known {
				// isFull(h) == (K != 0 ∧ len(h) == K)
				if kZero {
					if v {
						tmp.dead = true
					}
				} else {
					tmp.add(aTR, eq(tt.mk(Term{K: "LEN", A: h}), K), v)
				}
			}
		}
	}
	return tmp
}

func (c *Ctx) ruleCapInv() {
	rep := c.rep
	dbg := os.Getenv("CAPDEBUG") != ""
	tt := c.eng.tt
	K := c.capSym()
	ords := map[*ssa.Function]*ordinal{}
	n := 0
	for _, hs := range c.hdrStores() {
		fn, st := hs.fn, hs.st
		if al, _ := allocCell(st.Addr); al != nil && ssa.Value(al) == st.Addr {
			if p, isParam := st.Val.(*ssa.Parameter); isParam && c.p.isNamed(p.Type(), "stack") {
				continue
			}
			if relName(fn) == "newStack" {
				continue
			}
		}
		if ords[fn] == nil {
			ords[fn] = newOrdinal()
		}
		construct := ords[fn].next("store *r")
		pos := c.p.instrPos(st)
		n++
		fa := c.eng.analyze(fn, nil)
		sv := c.stackValues(fn)
		var problems []string
		for _, s := range fa.statesBefore(st) {
			if c.stateInfeasible(fa, s, sv) {
				continue
			}
			at := fa.term(s, st.Addr)
			var extra []*Term
			if cell, ok := s.heap[at.key]; ok {
				extra = append(extra, fa.term(s, cell.val))
			}
			s0 := s
			if sl, ok := st.Val.(*ssa.Slice); ok {
				s0 = c.sliceHyp(fa, s, sl)
			}
			tmp := c.capHypotheses(fa, s0, func(t *Term) bool { return t.K == "L" && t.S == "HDR" && t.A == at }, extra, false)
			newLen := tt.mk(Term{K: "LEN", A: fa.term(s, st.Val)})
			goal := Fact{aTR, tt.mk(Term{K: "B", S: "<=", A: newLen, B: K}), true}
			if c.stateInfeasible(fa, tmp, nil) {
				continue // the path is taken only without a capacity (K == 0): nothing to show
			}
			if !c.provesFactUncached(fa, tmp, goal, nil) {
				if dbg {
					fmt.Printf("CAP FAIL %s %s new=%s\n", relName(fn), pos, fa.term(s, st.Val).key)
					for _, f := range tmp.factList() {
						if f.Kind == aTR {
							fmt.Printf("      %s=%v\n", f.T.key, f.Val)
						}
					}
				}
				problems = append(problems, "len(new header) <= capacity is not implied on a path where a capacity is set")
			}
		}
		if !fa.reachable(st) {
			rep.ok("R-CAP", relName(fn), construct, pos, "unreachable")
			continue
		}
		if len(problems) == 0 {
			rep.ok("R-CAP", relName(fn), construct, pos, "cap == 0 ∨ len(new header) <= cap proved on every path (linear entailment from the path's guards, assuming the invariant for the headers read so far)")
		} else {
			rep.bad("R-CAP", relName(fn), construct, pos, "the stored header may exceed the capacity: "+strings.Join(uniq(problems), "; "))
		}
	}
	if n < 8 {
		rep.bad("R-CAP", "package", "header stores", "?", fmt.Sprintf("only %d header stores found (expected >= 8)", n))
	}
}

// ---------------------------------------------------------------- R-CAPEQ
//
// The observers agree with the invariant's quantities:  with K the capacity
// word and h the current header,
//   isFull(h)  == (K != 0 ∧ len(h) == K)        (used by R-CAP above)
//   Len()      == len(h) - 1
//   Cap()      == K - 1   when K != 0,  -1 otherwise
//   Avail()    == K - len(h)  when K != 0,  -1 otherwise    (== Cap() - Len())
//   IsFull()   == isFull(h)
// and newStack records K == c + 1 for a requested capacity c > 0 (else 0), with
// a backing array allocated for exactly K slots.

// capObserverStates yields, for every feasible return state of fn, the two
// hypothesis states (capacity set / no capacity) with the capacity readings
// of the receiver's header equated to K.
func (c *Ctx) capHeaderPred(fa *FnAnalysis, s *State) (func(*Term) bool, *Term, bool) {
	// the header: the single argument of the stack.cap / stack.len / stack.ulen / stack.isFull readings
	hs := map[*Term]bool{}
	pick := func(t *Term) bool {
		return t.K == "APP" && (t.S == "stack.cap" || t.S == "stack.isFull") && t.A != nil && t.A.B == nil
	}
	apps := map[*Term]bool{}
	for _, f := range s.factList() {
		collectSub(f.T, pick, apps)
	}
	for _, t := range s.terms {
		collectSub(t, pick, apps)
	}
	for a := range apps {
		hs[a.A.A] = true
	}
	if len(hs) != 1 {
		return nil, nil, false
	}
	var h *Term
	for x := range hs {
		h = x
	}
	return func(t *Term) bool { return t == h }, h, true
}

func (c *Ctx) ruleCapEq() {
	rep := c.rep
	tt := c.eng.tt
	K := c.capSym()
	lenOf := func(h *Term) *Term { return tt.mk(Term{K: "LEN", A: h}) }
	plus := func(a *Term, k int64) *Term { return tt.mk(Term{K: "B", S: "+", A: a, B: c.intConst(k)}) }
	eq := func(a, b *Term) *Term {
		if a.key > b.key {
			a, b = b, a
		}
		return tt.mk(Term{K: "B", S: "==", A: a, B: b})
	}
	type obs struct {
		name string
		// expected value of the int result as a function of (h, capacity set?)
		want func(h *Term, set bool) *Term
		isBool bool
	}
	observers := []obs{
		{"stack.isFull", nil, true},
		{"Stack.IsFull", nil, true},
		{"Stack.Len", func(h *Term, set bool) *Term { return plus(lenOf(h), -1) }, false},
		{"Stack.Cap", func(h *Term, set bool) *Term {
			if set {
				return plus(K, -1)
			}
			return c.intConst(-1)
		}, false},
		{"Stack.Avail", func(h *Term, set bool) *Term {
			if set {
				return tt.mk(Term{K: "B", S: "-", A: K, B: lenOf(h)})
			}
			return c.intConst(-1)
		}, false},
	}
	for _, ob := range observers {
		fn := c.anchor("R-CAPEQ", ob.name)
		if fn == nil {
			continue
		}
		fa := c.eng.analyze(fn, nil)
		pos := c.p.pos(fn.Pos())
		var problems []string
		checked := 0
		initCalls := c.findCalls(fn, "Stack.IsInit")
		for _, ret := range c.returnsOf(fn) {
			if len(ret.Results) != 1 {
				problems = append(problems, "unexpected result arity")
				continue
			}
			for _, s := range fa.statesBefore(ret) {
				if c.stateInfeasible(fa, s, c.stackValues(fn)) {
					continue
				}
				// uninitialised receiver: zero answers are C17's business
				skip := false
				for _, ic := range initCalls {
					if v, known := fa.knownTerm(s, aTR, fa.term(s, ic)); known && !v {
						skip = true
					}
					if _, did := s.cep[ic]; !did {
						skip = true
					}
				}
				if len(initCalls) > 0 && skip {
					continue
				}
				rt := fa.term(s, ret.Results[0])
				var h *Term
				var isHdr func(*Term) bool
				if ob.name == "Stack.Len" {
					// the header read by ulen
					hs := map[*Term]bool{}
					for _, t := range s.terms {
						collectSub(t, func(t *Term) bool { return t.K == "L" && t.S == "HDR" }, hs)
					}
					collectSub(rt, func(t *Term) bool { return t.K == "L" && t.S == "HDR" }, hs)
					for _, f := range s.factList() {
						collectSub(f.T, func(t *Term) bool { return t.K == "L" && t.S == "HDR" }, hs)
					}
					if len(hs) != 1 {
						problems = append(problems, fmt.Sprintf("cannot identify the receiver's header (%d candidates)", len(hs)))
						continue
					}
					for x := range hs {
						h = x
					}
					isHdr = func(t *Term) bool { return t == h }
				} else {
					var ok bool
					isHdr, h, ok = c.capHeaderPred(fa, s)
					if !ok {
						if ob.isBool {
							// IsFull: the result is the worker's verdict on the receiver's header
							if rt.K == "APP" && rt.S == "stack.isFull" {
								checked++
								continue
							}
						}
						problems = append(problems, "the capacity word is not read on an initialised path")
						continue
					}
				}
				for _, set := range []bool{true, false} {
					if !ob.isBool {
						tmp := c.capHypotheses(fa, s, isHdr, []*Term{h}, !set)
						if tmp.dead || c.stateInfeasible(fa, tmp, nil) {
							continue
						}
						checked++
						want := ob.want(h, set)
						if rt != want && !c.provesFactUncached(fa, tmp, Fact{aTR, eq(rt, want), true}, nil) {
							problems = append(problems, fmt.Sprintf("result %s is not proved equal to %s (capacity set: %v)", rt.key, want.key, set))
						}
						continue
					}
					// Boolean observers: split on the result
					if ob.name == "Stack.IsFull" && rt.K == "APP" && rt.S == "stack.isFull" && rt.A != nil && rt.A.B == nil && rt.A.A == h {
						checked++
						continue
					}
					for _, pol := range []bool{true, false} {
						sp := s.clone()
						sp.frozen = false
						fa.assumeVal(sp, ret.Results[0], pol)
						if sp.dead {
							continue
						}
						tmp := c.capHypotheses(fa, sp, isHdr, []*Term{h}, !set)
						if tmp.dead || c.stateInfeasible(fa, tmp, nil) {
							continue
						}
						checked++
						full := eq(lenOf(h), K)
						if !set {
							if pol {
								problems = append(problems, "reports full although no capacity is set")
							}
							continue
						}
						if pol {
							if !c.provesFactUncached(fa, tmp, Fact{aTR, full, true}, nil) {
								problems = append(problems, "reports full on a path where len(header) == capacity is not implied")
							}
						} else {
							p := c.newProver(fa, tmp)
							if !(p.lt(lenOf(h), K) || p.lt(K, lenOf(h))) {
								problems = append(problems, "reports not full on a path where len(header) != capacity is not implied")
							}
						}
					}
				}
			}
		}
		if checked == 0 {
			problems = append(problems, "no initialised return path could be examined")
		}
		if len(problems) == 0 {
			rep.ok("R-CAPEQ", ob.name, "result", pos, fmt.Sprintf("result equals its linear form over (len(header), capacity word) on all %d initialised return cases", checked))
		} else {
			sort.Strings(problems)
			rep.bad("R-CAPEQ", ob.name, "result", pos, strings.Join(uniq(problems), "; "))
		}
	}
	c.ruleCapBase()
}

// ruleCapBase: newStack records K == c+1 for a requested capacity c > 0 and
// allocates the backing array with exactly that capacity; otherwise K stays 0.
func (c *Ctx) ruleCapBase() {
	rep := c.rep
	tt := c.eng.tt
	fn := c.anchor("R-CAPEQ", "newStack")
	if fn == nil {
		return
	}
	fa := c.eng.analyze(fn, nil)
	pos := c.p.pos(fn.Pos())
	var capStore *ssa.Store
	var mk *ssa.MakeSlice
	for _, b := range fn.Blocks {
		for _, in := range b.Instrs {
			if st, ok := in.(*ssa.Store); ok {
				if f, ok := st.Addr.(*ssa.FieldAddr); ok && fieldName(f) == "nodeConfig.cap" {
					capStore = st
				}
			}
			if m, ok := in.(*ssa.MakeSlice); ok && c.p.isNamed(m.Type(), "stack") {
				mk = m
			}
		}
	}
	var problems []string
	if capStore == nil {
		rep.bad("R-CAPEQ", "newStack", "capacity word", pos, "newStack no longer records the capacity")
		return
	}
	// the backing array is made with the recorded capacity, after it was recorded
	if mk == nil {
		problems = append(problems, "no make(stack, 0, cap) found")
	} else {
		ld, ok := mk.Cap.(*ssa.UnOp)
		okCap := false
		if ok && ld.Op == token.MUL {
			if f, ok := ld.X.(*ssa.FieldAddr); ok && fieldName(f) == "nodeConfig.cap" && f.X == capStore.Addr.(*ssa.FieldAddr).X {
				okCap = mk.Block() == capStore.Block() && instrIndex(mk) > instrIndex(capStore)
			}
		}
		if !okCap {
			problems = append(problems, "the backing array is not allocated with the recorded capacity word")
		}
		if k, ok := constIntOf(mk.Len); !ok || k != 0 {
			problems = append(problems, "the backing array is not created empty")
		}
	}
	// the value recorded: c[0] + 1 under c[0] > 0
	n := 0
	for _, s := range fa.statesBefore(capStore) {
		n++
		vt := fa.term(s, capStore.Val)
		if vt.K != "B" || vt.S != "+" || vt.B == nil || vt.B.K != "C" || vt.B.S != "1" {
			problems = append(problems, "the recorded capacity word is not <requested capacity> + 1: "+vt.key)
			continue
		}
		req := vt.A
		if !(req.K == "L" && req.A != nil && req.A.K == "IA" && req.A.A != nil && req.A.A.K == "P" && req.A.B != nil && req.A.B.S == "0") {
			problems = append(problems, "the recorded capacity is not derived from the first capacity argument: "+req.key)
			continue
		}
		if !c.provesFact(fa, s, Fact{aTR, tt.mk(Term{K: "B", S: "<", A: c.intConst(0), B: req}), true}, nil) {
			problems = append(problems, "a capacity is recorded although the requested capacity is not known to be positive")
		}
	}
	if n == 0 {
		problems = append(problems, "the capacity store is unreachable")
	}
	// conversely: a return path on which no capacity was recorded had no positive request
	capAddr := capStore.Addr
	for _, ret := range c.returnsOf(fn) {
		for _, s := range fa.statesBefore(ret) {
			if _, stored := s.heap[fa.term(s, capAddr).key]; stored {
				continue
			}
			cp := fn.Params[len(fn.Params)-1]
			lenC := tt.mk(Term{K: "LEN", A: fa.term(s, cp)})
			none := c.provesFact(fa, s, Fact{aTR, tt.mk(Term{K: "B", S: "<=", A: lenC, B: c.intConst(0)}), true}, nil)
			if !none {
				req := tt.mk(Term{K: "L", A: tt.mk(Term{K: "IA", A: fa.term(s, cp), B: c.intConst(0)}), N: 0})
				// the request as loaded in this function (any epoch): look for the load term in the state's facts
				okNeg := false
				for _, f := range s.factList() {
					for _, side := range []*Term{f.T.A, f.T.B} {
						if side != nil && side.K == "L" && side.A != nil && side.A.K == "IA" && side.A.A == fa.term(s, cp) {
							req = side
						}
					}
				}
				if c.provesFact(fa, s, Fact{aTR, tt.mk(Term{K: "B", S: "<=", A: req, B: c.intConst(0)}), true}, nil) {
					okNeg = true
				}
				if !okNeg {
					problems = append(problems, "a stack can be created without a capacity word although a positive capacity may have been requested (e.g. a request of exactly 1 ignored)")
				}
			}
		}
	}
	if len(problems) == 0 {
		rep.ok("R-CAPEQ", "newStack", "capacity word", pos, "K = requested capacity + 1 is recorded only for a positive request, and the empty backing array is made with capacity K (so K >= 1 when set: a wrapped sum would make make() fail)")
	} else {
		sort.Strings(problems)
		rep.bad("R-CAPEQ", "newStack", "capacity word", pos, strings.Join(uniq(problems), "; "))
	}
}

func (c *Ctx) returnsOf(fn *ssa.Function) []*ssa.Return {
	var out []*ssa.Return
	for _, b := range fn.Blocks {
		for _, in := range b.Instrs {
			if r, ok := in.(*ssa.Return); ok {
				out = append(out, r)
			}
		}
	}
	return out
}

// ruleBackingCap: the capacity that matters is the configured one (the word
// in the configuration record); the capacity of the backing array - builtin
// cap() of a stack header - depends on allocation history (append growth,
// re-slicing) and must never take part in a decision or a comparison.  Every
// builtin cap() whose operand is a stack is reported.
func (c *Ctx) ruleBackingCap() {
	rep := c.rep
	n := 0
	for _, fn := range c.p.Funcs {
		ord := newOrdinal()
		for _, b := range fn.Blocks {
			for _, in := range b.Instrs {
				call, ok := in.(*ssa.Call)
				if !ok {
					continue
				}
				bi, ok := call.Call.Value.(*ssa.Builtin)
				if !ok || bi.Name() != "cap" || len(call.Call.Args) != 1 {
					continue
				}
				t := call.Call.Args[0].Type()
				if pt, ok := t.Underlying().(*types.Pointer); ok {
					t = pt.Elem()
				}
				if !c.eff.isStackTyped(t) {
					continue
				}
				n++
				rep.bad("R-BACKCAP", relName(fn), ord.next("cap() of a stack header"), c.p.instrPos(in), "the backing array's capacity of a stack is consulted: it differs from the configured capacity as soon as the array was re-allocated (remove, insert, append growth)")
			}
		}
	}
	rep.Extra["backing_array_capacity_reads"] = n
	if n == 0 {
		rep.ok("R-BACKCAP", "package", "cap() of a stack header", "?", "builtin cap() is never applied to a stack: only the configured capacity is ever consulted")
	}
}

// ruleCtorForward: every Stack constructor hands its capacity argument to
// newStack (the variadic parameter itself is the last argument of the call):
// a kind whose constructor drops it would silently be unlimited.
func (c *Ctx) ruleCtorForward() {
	rep := c.rep
	for _, name := range []string{"And", "Or", "Not", "List", "Basic"} {
		fn := c.anchor("R-CAPEQ", name)
		if fn == nil {
			continue
		}
		pos := c.p.pos(fn.Pos())
		calls := c.findCalls(fn, "newStack")
		good := len(calls) == 1 && len(fn.Params) >= 1
		if good {
			args := calls[0].Call.Args
			good = len(args) > 0 && args[len(args)-1] == ssa.Value(fn.Params[len(fn.Params)-1])
		}
		if good {
			rep.ok("R-CAPEQ", name, "capacity forwarded", pos, "newStack receives the constructor's own capacity argument")
		} else {
			rep.bad("R-CAPEQ", name, "capacity forwarded", pos, "the constructor does not hand its capacity argument to newStack: stacks of this kind would be unlimited whatever was asked")
		}
	}
}
