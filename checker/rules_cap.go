package main

import (
	"fmt"
	"go/token"
	"os"
	"sort"
	"strings"

	"golang.org/x/tools/go/ssa"
)

// ---------------------------------------------------------------- R-SLOT0 / R-CAP
//
// Two inductive invariants of every slice header a stack object ever holds:
//
//   SLOT0  len(hdr) >= 1 and hdr[0] is the (non-nil) *nodeConfig the object was
//          created with;
//   CAP    cap == 0  ∨  len(hdr) <= cap   (cap >= 0), where cap is the capacity
//          word of that configuration.
//
// base   newStack builds the header as append(<empty>, cfg) with cfg a fresh
//        non-nil *nodeConfig whose cap word is 0 or the capacity the make()
//        succeeded with;
// frame  nodeConfig.cap is written by nobody else (R-CAPW); an element store
//        through a stack header uses an index >= 1 (R-SLOT0 element rule);
// step   every store of a header (`*p = X`, abstract location HDR; enumerated
//        from the SSA on every run) is proved to keep both: X derives from a
//        header loaded from the same address by re-slicing from 0 with high >= 1,
//        appending to a non-empty header, or appending to an empty slice whose
//        first element is that object's own configuration (SLOT0); and on every
//        path state reaching the store, assuming CAP for every header the object
//        held so far, the linear prover shows cap == 0 ∨ len(X) <= cap (CAP).
//
// A stack value passed by value (value receivers) is a copy of a loaded
// header (R-SLOT0 argument rule), so the invariants hold for it as well.

func (c *Ctx) capSym() *Term {
	return c.eng.tt.mk(Term{K: "G", S: "$cap"})
}

type hdrStore struct {
	fn *ssa.Function
	st *ssa.Store
}

func (c *Ctx) hdrStores() []hdrStore {
	var out []hdrStore
	for _, fn := range c.p.Funcs {
		for _, b := range fn.Blocks {
			for _, in := range b.Instrs {
				if st, ok := in.(*ssa.Store); ok && c.eff.classifyAddr(st.Addr) == "HDR" {
					out = append(out, hdrStore{fn, st})
				}
			}
		}
	}
	sort.SliceStable(out, func(i, j int) bool { return relName(out[i].fn) < relName(out[j].fn) })
	return out
}

func (c *Ctx) le1Len(fa *FnAnalysis, s *State, v ssa.Value, sv []ssa.Value) bool {
	lt := c.eng.tt.mk(Term{K: "LEN", A: fa.term(s, v)})
	return c.provesFact(fa, s, Fact{aTR, c.eng.tt.mk(Term{K: "B", S: "<=", A: c.intConst(1), B: lt}), true}, sv)
}

func (c *Ctx) lenIs0(fa *FnAnalysis, s *State, v ssa.Value, sv []ssa.Value) bool {
	if isNilConst(v) {
		return true
	}
	if m, ok := v.(*ssa.MakeSlice); ok {
		if k, ok := constIntOf(m.Len); ok && k == 0 {
			return true
		}
	}
	lt := c.eng.tt.mk(Term{K: "LEN", A: fa.term(s, v)})
	return c.provesFact(fa, s, Fact{aTR, c.eng.tt.mk(Term{K: "B", S: "<=", A: lt, B: c.intConst(0)}), true}, nil)
}

// sameObjectLoad: v is a load of a stack header from the address `addr`
// (same SSA pointer, or the same term in state s).
func (c *Ctx) sameObjectLoad(fa *FnAnalysis, s *State, v ssa.Value, addr ssa.Value) bool {
	u, ok := v.(*ssa.UnOp)
	if !ok || u.Op != token.MUL {
		return false
	}
	if u.X == addr {
		return true
	}
	return fa.term(s, u.X) == fa.term(s, addr)
}

// slot0From: the value v (type stack) is a header whose slot 0 is the
// configuration of the object stored at addr.
func (c *Ctx) slot0From(fa *FnAnalysis, s *State, v ssa.Value, addr ssa.Value, sv []ssa.Value, seen map[ssa.Value]bool) (bool, string) {
	if seen[v] {
		return true, ""
	}
	seen[v] = true
	switch x := v.(type) {
	case *ssa.UnOp:
		if x.Op == token.MUL {
			if bv, ok := s.bind[x]; ok && bv != nil && bv != ssa.Value(x) {
				return c.slot0From(fa, s, bv, addr, sv, seen)
			}
			if c.sameObjectLoad(fa, s, x, addr) {
				return true, ""
			}
			return false, "a header loaded from a different object"
		}
	case *ssa.ChangeType:
		return c.slot0From(fa, s, x.X, addr, sv, seen)
	case *ssa.Phi:
		for _, e := range x.Edges {
			if ok, why := c.slot0From(fa, s, e, addr, sv, seen); !ok {
				return false, why
			}
		}
		return true, ""
	case *ssa.Slice:
		if _, isArr := derefArray(x.X.Type()); isArr {
			return false, "a slice of an array"
		}
		if x.Low != nil {
			if k, ok := constIntOf(x.Low); !ok || k != 0 {
				return false, "re-sliced from a non-zero low bound: slot 0 is dropped"
			}
		}
		if x.High != nil {
			ht := fa.term(s, x.High)
			if !c.provesFact(fa, s, Fact{aTR, c.eng.tt.mk(Term{K: "B", S: "<=", A: c.intConst(1), B: ht}), true}, sv) {
				return false, "re-sliced with a high bound not proved >= 1: slot 0 may be dropped"
			}
		}
		return c.slot0From(fa, s, x.X, addr, sv, seen)
	case *ssa.Call:
		if b, ok := x.Call.Value.(*ssa.Builtin); ok && b.Name() == "append" && len(x.Call.Args) == 2 {
			A := x.Call.Args[0]
			if c.lenIs0(fa, s, A, sv) {
				elems := variadicElems(x.Call.Args[1])
				if len(elems) >= 1 && c.isCfgOf(fa, s, elems[0], addr) {
					return true, ""
				}
				return false, "append to an empty slice whose first element is not the object's configuration"
			}
			if ok, _ := c.slot0From(fa, s, A, addr, sv, seen); ok && c.le1Len(fa, s, A, sv) {
				return true, ""
			}
			return false, "append to a slice that is neither a non-empty header of the object nor provably empty"
		}
	}
	return false, "value of unknown origin (" + strings.TrimSpace(fmt.Sprintf("%T", v)) + ")"
}

// isCfgOf: v is the configuration pointer found in slot 0 of the object at
// addr, converted to `any`.
func (c *Ctx) isCfgOf(fa *FnAnalysis, s *State, v ssa.Value, addr ssa.Value) bool {
	mi, ok := v.(*ssa.MakeInterface)
	if !ok || !c.p.isPtrToNamed(mi.X.Type(), "nodeConfig") {
		return false
	}
	t := fa.term(s, mi.X)
	return c.isCfgTerm(fa, s, t, addr)
}

func (c *Ctx) isCfgTerm(fa *FnAnalysis, s *State, t *Term, addr ssa.Value) bool {
	at := fa.term(s, addr)
	// TA(*nodeConfig, L(IA(L(addr@e#HDR), 0)))
	if t.K == "TA" && t.A != nil && t.A.K == "L" && t.A.A != nil && t.A.A.K == "IA" {
		ia := t.A.A
		if ia.B != nil && ia.B.K == "C" && ia.B.S == "0" && ia.A != nil && ia.A.K == "L" && ia.A.S == "HDR" && ia.A.A == at {
			return true
		}
	}
	// X(APP((*stack).config@e: AL(addr)), 0)
	if t.K == "X" && t.N == 0 && t.A != nil && t.A.K == "APP" && t.A.S == "(*stack).config" && t.A.A != nil && t.A.A.A == at {
		return true
	}
	return false
}

func (c *Ctx) ruleSlot0() {
	rep := c.rep
	stores := c.hdrStores()
	ords := map[*ssa.Function]*ordinal{}
	nReal := 0
	for _, hs := range stores {
		fn, st := hs.fn, hs.st
		if ords[fn] == nil {
			ords[fn] = newOrdinal()
		}
		pos := c.p.instrPos(st)
		// spilled value receiver / local copy: a fresh local cell initialised with a header passed by value
		if al, _ := allocCell(st.Addr); al != nil && ssa.Value(al) == st.Addr {
			if p, isParam := st.Val.(*ssa.Parameter); isParam && c.p.isNamed(p.Type(), "stack") {
				continue // a by-value copy of a header (argument rule below)
			}
			if relName(fn) == "newStack" {
				continue // creation: judged as a whole below
			}
		}
		construct := ords[fn].next("store *r")
		nReal++
		fa := c.eng.analyze(fn, nil)
		sv := c.stackValues(fn)
		var problems []string
		for _, s := range fa.statesBefore(st) {
			if c.stateInfeasible(fa, s, sv) {
				continue
			}
			if ok, why := c.slot0From(fa, s, st.Val, st.Addr, sv, map[ssa.Value]bool{}); !ok {
				problems = append(problems, why)
			}
		}
		if !fa.reachable(st) {
			rep.ok("R-SLOT0", relName(fn), construct, pos, "unreachable")
			continue
		}
		if len(problems) == 0 {
			rep.ok("R-SLOT0", relName(fn), construct, pos, "the stored header keeps slot 0: derived from the object's own header (re-slice from 0 with high >= 1, append to a non-empty header, or rebuilt from its own configuration)")
		} else {
			sort.Strings(problems)
			rep.bad("R-SLOT0", relName(fn), construct, pos, "the stored header may lose or replace the configuration slot: "+strings.Join(uniq(problems), "; "))
		}
	}
	if nReal < 8 {
		rep.bad("R-SLOT0", "package", "header stores", "?", fmt.Sprintf("only %d header stores found (expected >= 8): the store enumeration no longer matches the code", nReal))
	}
	c.ruleSlot0New()
	c.ruleSlot0Args()
	c.ruleSlot0Elems()
}

// ruleSlot0New: the only place a stack object is created is newStack, whose
// header is append(<empty>, cfg) with cfg a fresh *nodeConfig.
func (c *Ctx) ruleSlot0New() {
	rep := c.rep
	// every escaping allocation of a `stack` cell outside newStack is a spilled by-value copy
	for _, fn := range c.p.Funcs {
		for _, b := range fn.Blocks {
			for _, in := range b.Instrs {
				al, ok := in.(*ssa.Alloc)
				if !ok || !c.p.isNamed(derefType(al.Type()), "stack") {
					continue
				}
				if relName(fn) == "newStack" {
					continue
				}
				// stores into it
				okInit := true
				n := 0
				for _, r := range *al.Referrers() {
					if st, isSt := r.(*ssa.Store); isSt && st.Addr == ssa.Value(al) {
						n++
						if p, isParam := st.Val.(*ssa.Parameter); !isParam || !c.p.isNamed(p.Type(), "stack") {
							okInit = false
						}
					}
				}
				if n == 0 || !okInit {
					// a local stack variable built piecemeal: fine as long as it never escapes as *stack
					fa := c.eng.analyze(fn, nil)
					if info := fa.allocs[al]; info == nil || info.opaque {
						rep.bad("R-SLOT0", relName(fn), "stack cell "+al.Comment, c.p.instrPos(al), "a stack object is created outside newStack (its header is not known to start with the configuration slot)")
					}
				}
			}
		}
	}
	fn := c.anchor("R-SLOT0", "newStack")
	if fn == nil {
		return
	}
	var cell *ssa.Alloc
	var cfg *ssa.Alloc
	for _, b := range fn.Blocks {
		for _, in := range b.Instrs {
			if al, ok := in.(*ssa.Alloc); ok {
				if c.p.isNamed(derefType(al.Type()), "stack") {
					cell = al
				}
				if c.p.isNamed(derefType(al.Type()), "nodeConfig") {
					cfg = al
				}
			}
		}
	}
	pos := c.p.pos(fn.Pos())
	if cell == nil || cfg == nil {
		rep.bad("R-SLOT0", "newStack", "creation", pos, "newStack no longer allocates one stack cell and one nodeConfig")
		return
	}
	var appendStore *ssa.Store
	var problems []string
	for _, r := range *cell.Referrers() {
		st, ok := r.(*ssa.Store)
		if !ok || st.Addr != ssa.Value(cell) {
			continue
		}
		if m, isMake := st.Val.(*ssa.MakeSlice); isMake {
			if k, ok := constIntOf(m.Len); !ok || k != 0 {
				problems = append(problems, "make() with a non-zero length")
			}
			continue
		}
		call, isCall := st.Val.(*ssa.Call)
		if isCall {
			if b, ok := call.Call.Value.(*ssa.Builtin); ok && b.Name() == "append" && len(call.Call.Args) == 2 {
				elems := variadicElems(call.Call.Args[1])
				ld, isLoad := call.Call.Args[0].(*ssa.UnOp)
				if len(elems) == 1 && isLoad && ld.X == ssa.Value(cell) {
					if mi, ok := elems[0].(*ssa.MakeInterface); ok && mi.X == ssa.Value(cfg) {
						if appendStore != nil {
							problems = append(problems, "more than one append of the configuration")
						}
						appendStore = st
						continue
					}
				}
			}
		}
		problems = append(problems, "the header cell is stored with something other than an empty make() or append(st, cfg)")
	}
	if appendStore == nil {
		problems = append(problems, "no `st = append(st, cfg)` found")
	} else {
		// the append is executed on every path to the return and nothing is stored after it
		for _, b := range fn.Blocks {
			for _, in := range b.Instrs {
				if _, ok := in.(*ssa.Return); ok && !appendStore.Block().Dominates(b) {
					problems = append(problems, "a return path does not pass the append of the configuration")
				}
				if st, ok := in.(*ssa.Store); ok && st.Addr == ssa.Value(cell) && st != appendStore && appendStore.Block().Dominates(b) && (b != appendStore.Block() || instrIndex(st) > instrIndex(appendStore)) {
					problems = append(problems, "the header is stored again after the configuration was appended")
				}
			}
		}
	}
	// the returned pointer is the cell
	for _, b := range fn.Blocks {
		for _, in := range b.Instrs {
			if ret, ok := in.(*ssa.Return); ok {
				if len(ret.Results) != 1 || ret.Results[0] != ssa.Value(cell) {
					problems = append(problems, "newStack returns something other than the cell it initialised")
				}
			}
		}
	}
	if len(problems) == 0 {
		rep.ok("R-SLOT0", "newStack", "creation", pos, "the new object's header is append(<empty>, cfg) with cfg a fresh *nodeConfig, on every return path")
	} else {
		sort.Strings(problems)
		rep.bad("R-SLOT0", "newStack", "creation", pos, strings.Join(uniq(problems), "; "))
	}
}

func instrIndex(in ssa.Instruction) int {
	for i, x := range in.Block().Instrs {
		if x == in {
			return i
		}
	}
	return -1
}

// ruleSlot0Args: a value of type stack passed to a function (value
// receivers) is a loaded header or a by-value parameter handed on.
func (c *Ctx) ruleSlot0Args() {
	rep := c.rep
	n := 0
	bad := 0
	for _, fn := range c.p.Funcs {
		ord := newOrdinal()
		for _, b := range fn.Blocks {
			for _, in := range b.Instrs {
				cc := callCommon(in)
				if cc == nil {
					continue
				}
				for _, a := range cc.Args {
					if !c.p.isNamed(a.Type(), "stack") {
						continue
					}
					n++
					okArg := false
					switch x := a.(type) {
					case *ssa.Parameter:
						okArg = true
					case *ssa.UnOp:
						if x.Op == token.MUL && c.eff.classifyAddr(x.X) == "HDR" {
							okArg = true
						}
					}
					if !okArg {
						bad++
						name := "?"
						if cal := c.p.callee(cc); cal != nil {
							name = shortFn(cal)
						}
						rep.bad("R-SLOT0", relName(fn), ord.next("stack argument of "+name), c.p.instrPos(in), "a stack value that is not a loaded header is passed by value: callees assume slot 0 holds the configuration")
					}
				}
			}
		}
	}
	if bad == 0 {
		rep.ok("R-SLOT0", "package", "stack values passed by value", "?", fmt.Sprintf("all %d by-value stack arguments are loaded headers or forwarded by-value parameters", n))
	}
	if n < 100 {
		rep.bad("R-SLOT0", "package", "stack arguments", "?", fmt.Sprintf("only %d by-value stack arguments found (expected >= 100)", n))
	}
}

// ruleSlot0Elems: an element store through a stack header uses index >= 1.
func (c *Ctx) ruleSlot0Elems() {
	rep := c.rep
	n := 0
	for _, fn := range c.p.Funcs {
		var fa *FnAnalysis
		ord := newOrdinal()
		for _, b := range fn.Blocks {
			for _, in := range b.Instrs {
				st, ok := in.(*ssa.Store)
				if !ok {
					continue
				}
				ia, ok := st.Addr.(*ssa.IndexAddr)
				if !ok || !c.p.isNamed(ia.X.Type(), "stack") {
					continue
				}
				n++
				if fa == nil {
					fa = c.eng.analyze(fn, nil)
				}
				sv := c.stackValues(fn)
				construct := ord.next("element store")
				okAll := true
				for _, s := range fa.statesBefore(st) {
					if c.stateInfeasible(fa, s, sv) {
						continue
					}
					it := fa.term(s, ia.Index)
					if !c.provesFact(fa, s, Fact{aTR, c.eng.tt.mk(Term{K: "B", S: "<=", A: c.intConst(1), B: it}), true}, sv) {
						// a slice under construction that is not yet a header (rebuilt copy): index into a local value
						okAll = false
					}
				}
				if okAll {
					rep.ok("R-SLOT0", relName(fn), construct, c.p.instrPos(st), "index >= 1 on every path: the configuration slot is never overwritten")
				} else {
					rep.bad("R-SLOT0", relName(fn), construct, c.p.instrPos(st), "an element store through a stack header is not proved to use index >= 1: the configuration slot may be overwritten")
				}
			}
		}
	}
	if n < 3 {
		rep.bad("R-SLOT0", "package", "element stores", "?", fmt.Sprintf("only %d element stores found (expected >= 3)", n))
	}
}

// ---------------------------------------------------------------- R-CAPW

// ruleCapW: the capacity word is written only by newStack, into the
// configuration it has just allocated.
func (c *Ctx) ruleCapW() {
	rep := c.rep
	n := 0
	for _, fn := range c.p.Funcs {
		ord := newOrdinal()
		for _, b := range fn.Blocks {
			for _, in := range b.Instrs {
				st, ok := in.(*ssa.Store)
				if !ok {
					continue
				}
				if f, ok := st.Addr.(*ssa.FieldAddr); ok && fieldName(f) == "nodeConfig.cap" {
					n++
					_, isAlloc := f.X.(*ssa.Alloc)
					if relName(fn) == "newStack" && isAlloc {
						rep.ok("R-CAPW", relName(fn), ord.next("store nodeConfig.cap"), c.p.instrPos(in), "capacity word initialised on the fresh configuration")
					} else {
						rep.bad("R-CAPW", relName(fn), ord.next("store nodeConfig.cap"), c.p.instrPos(in), "the capacity of an existing stack is overwritten: Cap() would change after creation")
					}
					continue
				}
				// whole-struct store into a configuration
				if c.p.isPtrToNamed(st.Addr.Type(), "nodeConfig") {
					if _, isAlloc := st.Addr.(*ssa.Alloc); !isAlloc {
						rep.bad("R-CAPW", relName(fn), ord.next("store *nodeConfig"), c.p.instrPos(in), "a whole configuration is overwritten (capacity included)")
					}
				}
			}
		}
	}
	if n == 0 {
		rep.bad("R-CAPW", "package", "store nodeConfig.cap", "?", "no initialisation of the capacity word found")
	}
}

// ---------------------------------------------------------------- R-CAP (step)

// headerTerms collects the header terms of the object at address term `at`
// occurring in the facts of s: loads L(at@e#HDR).
func collectSub(t *Term, pred func(*Term) bool, out map[*Term]bool) {
	if t == nil {
		return
	}
	if pred(t) {
		out[t] = true
	}
	collectSub(t.A, pred, out)
	collectSub(t.B, pred, out)
}

// capHypotheses returns a copy of s in which (a) every capacity reading of a
// header of the object is equated with the symbol K, (b) CAP is assumed for
// every header the object held (case K != 0), (c) the verdicts of isFull on
// such headers are expanded (R-CAPEQ proves isFull(h) == (K != 0 ∧ len(h) == K)).
func (c *Ctx) capHypotheses(fa *FnAnalysis, s *State, at *Term, extra []*Term) *State {
	tt := c.eng.tt
	K := c.capSym()
	tmp := s.clone()
	tmp.frozen = false
	hdrs := map[*Term]bool{}
	apps := map[*Term]bool{}
	isHdr := func(t *Term) bool { return t.K == "L" && t.S == "HDR" && t.A == at }
	isApp := func(t *Term) bool { return t.K == "APP" }
	for _, f := range s.factList() {
		collectSub(f.T, isHdr, hdrs)
		collectSub(f.T, isApp, apps)
	}
	for _, t := range s.terms {
		collectSub(t, isHdr, hdrs)
		collectSub(t, isApp, apps)
	}
	for _, t := range extra {
		hdrs[t] = true
		collectSub(t, isApp, apps)
	}
	zero := c.intConst(0)
	eq := func(a, b *Term) *Term {
		if a.key > b.key {
			a, b = b, a
		}
		return tt.mk(Term{K: "B", S: "==", A: a, B: b})
	}
	// K >= 1 (case K != 0; K >= 0 holds by the base case)
	tmp.add(aTR, tt.mk(Term{K: "B", S: "<=", A: c.intConst(1), B: K}), true)
	var hl []*Term
	for h := range hdrs {
		hl = append(hl, h)
	}
	sort.Slice(hl, func(i, j int) bool { return hl[i].key < hl[j].key })
	for _, h := range hl {
		tmp.add(aTR, tt.mk(Term{K: "B", S: "<=", A: tt.mk(Term{K: "LEN", A: h}), B: K}), true)
		tmp.add(aTR, tt.mk(Term{K: "B", S: "<=", A: c.intConst(1), B: tt.mk(Term{K: "LEN", A: h})}), true)
	}
	var al []*Term
	for a := range apps {
		al = append(al, a)
	}
	sort.Slice(al, func(i, j int) bool { return al[i].key < al[j].key })
	for _, a := range al {
		if a.A == nil || a.A.B != nil || !hdrs[a.A.A] {
			continue // not a one-argument call on a header of the object
		}
		h := a.A.A
		switch a.S {
		case "stack.cap":
			tmp.add(aTR, eq(a, K), true)
		case "stack.isFull":
			if v, known := s.get(aTR, a); known {
				// isFull(h) == (K != 0 ∧ len(h) == K); here K != 0
				tmp.add(aTR, eq(tt.mk(Term{K: "LEN", A: h}), K), v)
			}
		}
	}
	_ = zero
	return tmp
}

func (c *Ctx) ruleCapInv() {
	rep := c.rep
	dbg := os.Getenv("CAPDEBUG") != ""
	tt := c.eng.tt
	K := c.capSym()
	ords := map[*ssa.Function]*ordinal{}
	n := 0
	for _, hs := range c.hdrStores() {
		fn, st := hs.fn, hs.st
		if al, _ := allocCell(st.Addr); al != nil && ssa.Value(al) == st.Addr {
			if p, isParam := st.Val.(*ssa.Parameter); isParam && c.p.isNamed(p.Type(), "stack") {
				continue
			}
			if relName(fn) == "newStack" {
				continue
			}
		}
		if ords[fn] == nil {
			ords[fn] = newOrdinal()
		}
		construct := ords[fn].next("store *r")
		pos := c.p.instrPos(st)
		n++
		fa := c.eng.analyze(fn, nil)
		sv := c.stackValues(fn)
		var problems []string
		for _, s := range fa.statesBefore(st) {
			if c.stateInfeasible(fa, s, sv) {
				continue
			}
			at := fa.term(s, st.Addr)
			var extra []*Term
			if cell, ok := s.heap[at.key]; ok {
				extra = append(extra, fa.term(s, cell.val))
			}
			tmp := c.capHypotheses(fa, s, at, extra)
			newLen := tt.mk(Term{K: "LEN", A: fa.term(s, st.Val)})
			goal := Fact{aTR, tt.mk(Term{K: "B", S: "<=", A: newLen, B: K}), true}
			if c.stateInfeasible(fa, tmp, nil) {
				continue // the path is taken only without a capacity (K == 0): nothing to show
			}
			if !c.provesFactUncached(fa, tmp, goal, nil) {
				if dbg {
					fmt.Printf("CAP FAIL %s %s new=%s\n", relName(fn), pos, fa.term(s, st.Val).key)
					for _, f := range tmp.factList() {
						if f.Kind == aTR {
							fmt.Printf("      %s=%v\n", f.T.key, f.Val)
						}
					}
				}
				problems = append(problems, "len(new header) <= capacity is not implied on a path where a capacity is set")
			}
		}
		if !fa.reachable(st) {
			rep.ok("R-CAP", relName(fn), construct, pos, "unreachable")
			continue
		}
		if len(problems) == 0 {
			rep.ok("R-CAP", relName(fn), construct, pos, "cap == 0 ∨ len(new header) <= cap proved on every path (linear entailment from the path's guards, assuming the invariant for the headers read so far)")
		} else {
			rep.bad("R-CAP", relName(fn), construct, pos, "the stored header may exceed the capacity: "+strings.Join(uniq(problems), "; "))
		}
	}
	if n < 8 {
		rep.bad("R-CAP", "package", "header stores", "?", fmt.Sprintf("only %d header stores found (expected >= 8)", n))
	}
}
