package main

import (
	"fmt"
	"go/constant"
	"os"
	"sort"
	"strings"

	"golang.org/x/tools/go/ssa"
)

// ---------------------------------------------------------------- R-CAP
//
// Capacity invariant  INV:  cap == 0  ∨  len(hdr) <= cap   for every slice
// header a stack object ever holds, where cap is the capacity word of the
// configuration in slot 0.  The invariant is inductive:
//
//   base   newStack stores cap = c+1 (or leaves 0) and a header of length 1
//          whose make() succeeded with that capacity (so 1 <= cap when cap != 0);
//   cap    nodeConfig.cap is written by nobody else (R-CAPW), and slot 0 keeps
//          holding the same configuration (R-SLOT0), so "cap" denotes one value
//          per stack object for its whole life;
//   step   every store of a header (`*r = X`, abstract location HDR; the stores
//          are enumerated from the effect analysis on every run) is proved to
//          keep INV: on every path state reaching the store, assuming INV for
//          every header value the function has read from the same object so
//          far, the linear prover shows  cap == 0  ∨  len(X) <= cap.
//
// Len() == len(hdr)-1 and Cap() == cap-1 (R-CAPEQ), hence Len() <= k.

// capSym is the symbolic capacity word of the object a function stores
// headers into.
func (c *Ctx) capSym() *Term {
	return c.eng.tt.mk(Term{K: "G", S: "$cap"})
}

// isCapLoad recognises the normal form of "the capacity word of a stack
// header": a load of field nodeConfig.cap.
func (c *Ctx) isCapLoad(t *Term) bool {
	if t == nil || t.K != "L" || t.A == nil || t.A.K != "FA" {
		return false
	}
	return c.faFieldName(t.A) == "nodeConfig.cap"
}

// faFieldName names the field selected by an FA term (via the type of its base).
func (c *Ctx) faFieldName(fa *Term) string {
	if fa.S != "" {
		return fa.S
	}
	return ""
}

func (c *Ctx) hdrStores() map[*ssa.Function][]*ssa.Store {
	out := map[*ssa.Function][]*ssa.Store{}
	for _, fn := range c.p.Funcs {
		for _, b := range fn.Blocks {
			for _, in := range b.Instrs {
				if st, ok := in.(*ssa.Store); ok && c.eff.classifyAddr(st.Addr) == "HDR" {
					out[fn] = append(out[fn], st)
				}
			}
		}
	}
	return out
}

func (c *Ctx) ruleCapInv() {
	dbg := os.Getenv("CAPDEBUG") != ""
	stores := c.hdrStores()
	var fns []*ssa.Function
	for fn := range stores {
		fns = append(fns, fn)
	}
	sort.Slice(fns, func(i, j int) bool { return relName(fns[i]) < relName(fns[j]) })
	for _, fn := range fns {
		fa := c.eng.analyze(fn, nil)
		ord := newOrdinal()
		for _, st := range stores[fn] {
			construct := ord.next("store *r")
			pos := c.p.instrPos(st)
			if dbg {
				fmt.Printf("== %s %s %s\n", relName(fn), pos, construct)
				for _, s := range fa.statesBefore(st) {
					fmt.Printf("   new=%s\n", fa.term(s, st.Val).key)
					var fs []string
					for _, f := range s.factList() {
						if f.Kind == aTR {
							fs = append(fs, fmt.Sprintf("%s=%v", f.T.key, f.Val))
						}
					}
					fmt.Printf("      %s\n", strings.Join(fs, "\n      "))
				}
			}
		}
	}
	_ = constant.MakeInt64
}
