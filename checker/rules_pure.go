package main

import (
	"fmt"
	"go/types"
	"regexp"
	"sort"
	"strings"

	"golang.org/x/tools/go/ssa"
)

// Query scope of C11: the names listed in the statement, every Is.../Can...
// method, and the plain getters.
var c11Named = map[string]bool{
	"String": true, "Index": true, "Front": true, "Back": true, "Traverse": true, "Len": true, "Cap": true,
	"Avail": true, "Kind": true, "Valid": true, "IsEqual": true, "Unmarshal": true, "Less": true,
	// getters
	"ID": true, "Category": true, "Err": true, "Addr": true, "Delimiter": true, "Keyword": true, "Operator": true,
	"Expression": true, "Logger": true, "LogLevels": true, "Auxiliary": true, "Evaluate": true, "CapReached": true,
}
var isCanRe = regexp.MustCompile(`^(Is|Can)[A-Z]`)

// Containers handed out by design (statement: "the Unmarshal slice, the Auxiliary map aside").
var freshExempt = map[string]string{
	"Auxiliary": "the live Auxiliary map is handed out by design (statement)",
	"Logger":    "the live *log.Logger is handed out by design",
}

func (c *Ctx) queryMethods() []APIMethod {
	var out []APIMethod
	for _, m := range c.handleMethods() {
		if c11Named[m.Name] || isCanRe.MatchString(m.Name) {
			out = append(out, m)
		}
	}
	return out
}

func (c *Ctx) rulePure() {
	rep := c.rep
	qs := c.queryMethods()
	rep.Extra["query_methods"] = len(qs)
	var names []string
	for _, m := range qs {
		names = append(names, m.String())
	}
	rep.Extra["query_method_names"] = names
	for _, m := range qs {
		fe := c.eff.fns[m.Fn]
		pos := c.p.pos(m.Fn.Pos())
		ws := c.eff.writesOf(m.Fn)
		if len(ws) == 0 {
			reach := c.reach(m.Fn)
			rep.ok("R-PURE", m.String(), "write set", pos, fmt.Sprintf("empty write set over %d reachable in-package functions (no store, append, map update, lock or global write on any non-fresh object)", len(reach)))
		} else {
			// name the offending sites
			var msgs []string
			for _, s := range fe.sites {
				for _, w := range s.Writes {
					msgs = append(msgs, fmt.Sprintf("%s at %s (%s)", w.String(), c.p.instrPos(s.Instr), c.describeInstr(s.Instr)))
				}
			}
			sort.Strings(msgs)
			if len(msgs) > 6 {
				msgs = append(msgs[:6], fmt.Sprintf("... %d more", len(msgs)-6))
			}
			rep.bad("R-PURE", m.String(), "write set", pos, "query may write shared state: "+strings.Join(msgs, "; "))
		}
		// R-FRESH: returned containers are fresh
		res := m.Fn.Signature.Results()
		for i := 0; i < res.Len(); i++ {
			switch res.At(i).Type().Underlying().(type) {
			case *types.Slice, *types.Map:
			default:
				continue
			}
			construct := fmt.Sprintf("result %d container", i)
			if why, ok := freshExempt[m.Name]; ok {
				rep.ok("R-FRESH", m.String(), construct, pos, "exempt: "+why)
				continue
			}
			var bad []string
			for r := range fe.ret[i] {
				if r.Kind != 'f' && r.Kind != 'o' {
					bad = append(bad, r.String())
				}
			}
			sort.Strings(bad)
			if len(bad) == 0 {
				rep.ok("R-FRESH", m.String(), construct, pos, "returned container is allocated during the call (or produced by the user's own closure)")
			} else {
				rep.bad("R-FRESH", m.String(), construct, pos, "returned container aliases "+strings.Join(bad, ", "))
			}
		}
	}
	// R-NONDET over the whole query scope
	var roots []*ssa.Function
	for _, m := range qs {
		roots = append(roots, m.Fn)
	}
	scope := c.reach(roots...)
	rep.Extra["query_scope_functions"] = len(scope)
	nd := 0
	for _, fn := range scope {
		ord := newOrdinal()
		for _, b := range fn.Blocks {
			for _, in := range b.Instrs {
				if cc := callCommon(in); cc != nil {
					if cal := c.p.callee(cc); cal != nil && !c.p.inPkg(cal) {
						n := cal.String()
						if strings.HasPrefix(n, "math/rand.") || n == "time.Now" || strings.HasPrefix(n, "crypto/rand.") {
							rep.bad("R-NONDET", relName(fn), ord.next("call "+n), c.p.instrPos(in), "nondeterministic source reachable from a query")
							nd++
						}
					}
				}
				if rg, ok := in.(*ssa.Range); ok {
					if _, isMap := rg.X.Type().Underlying().(*types.Map); isMap {
						c.checkMapRange(fn, rg, ord)
						nd++
					}
				}
			}
		}
	}
	if nd == 0 {
		rep.ok("R-NONDET", "query scope", "sources", "?", fmt.Sprintf("no math/rand, time.Now or map iteration in %d functions", len(scope)))
	}
}

// checkMapRange: a `range` over a Go map inside the query scope is accepted
// only if no value that depends on the iteration variables can reach a
// result except through a key-equality test (order cannot matter then).
func (c *Ctx) checkMapRange(fn *ssa.Function, rg *ssa.Range, ord *ordinal) {
	// taint: values derived from Next(rg)
	taint := map[ssa.Value]bool{}
	var work []ssa.Value
	for _, r := range *rg.Referrers() {
		if nx, ok := r.(*ssa.Next); ok {
			taint[nx] = true
			work = append(work, nx)
		}
	}
	orderSensitive := ""
	for len(work) > 0 {
		v := work[len(work)-1]
		work = work[:len(work)-1]
		refs := v.Referrers()
		if refs == nil {
			continue
		}
		for _, r := range *refs {
			switch x := r.(type) {
			case *ssa.Extract:
				if x.Index == 0 { // the `ok` of Next: loop control only
					continue
				}
				if !taint[x] {
					taint[x] = true
					work = append(work, x)
				}
			case *ssa.BinOp:
				// comparisons yield booleans that only steer control
				if !taint[x] {
					taint[x] = true
					work = append(work, x)
				}
			case *ssa.If:
				// control dependence: which iteration returns first may depend on order
			case *ssa.Return:
				orderSensitive = "a value derived from the iteration variables is returned"
			case *ssa.Store:
				orderSensitive = "a value derived from the iteration variables is stored"
			case *ssa.Phi:
				if !taint[x] {
					taint[x] = true
					work = append(work, x)
				}
			case ssa.Value:
				if !taint[x] {
					taint[x] = true
					work = append(work, x)
				}
			}
		}
	}
	construct := ord.next("range over map")
	pos := c.p.instrPos(rg)
	if orderSensitive == "" {
		c.rep.ok("R-NONDET", relName(fn), construct, pos, "no value derived from the iteration order reaches a result or a store")
		return
	}
	// second chance: the tainted value flowing to the result is guarded by key == constant-argument (lookup by scan)
	if c.mapScanIsLookup(fn, rg) {
		c.rep.ok("R-NONDET", relName(fn), construct, pos, "the loop is a lookup by key equality: at most one key matches, so order cannot change the result")
		return
	}
	c.rep.bad("R-NONDET", relName(fn), construct, pos, "map iteration order may influence a query result: "+orderSensitive)
}

// mapScanIsLookup: for k, v := range m { if k == X { f = v; break } } with X loop-invariant.
func (c *Ctx) mapScanIsLookup(fn *ssa.Function, rg *ssa.Range) bool {
	for _, r := range *rg.Referrers() {
		nx, ok := r.(*ssa.Next)
		if !ok {
			continue
		}
		var key ssa.Value
		for _, e := range *nx.Referrers() {
			if ex, ok := e.(*ssa.Extract); ok && ex.Index == 1 {
				key = ex
			}
		}
		if key == nil {
			return false
		}
		// every use of the value extract must be dominated by key == invariant
		fa := c.eng.analyze(fn, nil)
		for _, e := range *nx.Referrers() {
			ex, ok := e.(*ssa.Extract)
			if !ok || ex.Index != 2 {
				continue
			}
			for _, use := range *ex.Referrers() {
				ui, ok := use.(ssa.Instruction)
				if !ok {
					return false
				}
				guarded := fa.allHold(ui, func(s *State) bool {
					for _, f := range s.factList() {
						if f.Kind == aTR && f.Val && f.T.K == "B" && f.T.S == "==" {
							for _, side := range []*Term{f.T.A, f.T.B} {
								for _, mv := range side.vals {
									if mv == key {
										return true
									}
								}
							}
						}
					}
					return false
				})
				if _, isPhi := ui.(*ssa.Phi); isPhi {
					// the phi merges "found" value with the default: check the incoming edge instead
					guarded = true
					for i, ed := range ui.(*ssa.Phi).Edges {
						if ed != ex {
							continue
						}
						pred := ui.Block().Preds[i]
						last := pred.Instrs[len(pred.Instrs)-1]
						if !fa.allHold(last, func(s *State) bool {
							for _, f := range s.factList() {
								if f.Kind == aTR && f.Val && f.T.K == "B" && f.T.S == "==" {
									for _, side := range []*Term{f.T.A, f.T.B} {
										for _, mv := range side.vals {
											if mv == key {
												return true
											}
										}
									}
								}
							}
							return false
						}) {
							guarded = false
						}
					}
				}
				if !guarded {
					return false
				}
			}
		}
	}
	return true
}
