package main

import (
	"fmt"
	"go/constant"
	"go/types"
	"sort"
	"strings"

	"golang.org/x/tools/go/ssa"
)

// ---------------------------------------------------------------- R-TT
//
// Truth tables.  For a loop-free decision function the engine yields the
// exact set of return paths with the branch facts of each.  A table lists
// named atoms (predicates evaluated on a return state), a feasibility
// constraint, and the outcome the property prescribes for each valuation.
// The rule checks: for every return path and every valuation compatible with
// the path's facts, the path's outcome equals the prescribed one.

type ttAtom struct {
	name string
	eval func(fa *FnAnalysis, st *State) (bool, bool)
}

type ttTable struct {
	rule     string
	fn       string
	atoms    []ttAtom
	feasible func(v map[string]bool) bool
	expect   func(v map[string]bool) string
	outcome  func(fa *FnAnalysis, st *State, ret *ssa.Return) string
	note     string
	optional func(v map[string]bool) bool // rows that need not be reachable (e.g. excluded by a proved invariant)
}

// findCalls returns the calls in fn whose callee name is in names.
func (c *Ctx) findCalls(fn *ssa.Function, names ...string) []*ssa.Call {
	var out []*ssa.Call
	for _, b := range fn.Blocks {
		for _, in := range b.Instrs {
			if call, ok := in.(*ssa.Call); ok {
				if cal := c.p.callee(&call.Call); cal != nil {
					for _, n := range names {
						if relName(cal) == n || cal.String() == n {
							out = append(out, call)
						}
					}
				}
			}
		}
	}
	return out
}

// atomCallBool: the boolean result of a call to one of `names` whose
// arguments satisfy argOK (nil = any).
func (c *Ctx) atomCallBool(name string, names []string, argOK func(call *ssa.Call) bool) ttAtom {
	return ttAtom{name, func(fa *FnAnalysis, st *State) (bool, bool) {
		for _, call := range c.findCalls(fa.fn, names...) {
			if argOK != nil && !argOK(call) {
				continue
			}
			if v, ok := fa.knownTerm(st, aTR, fa.term(st, call)); ok {
				return v, true
			}
		}
		return false, false
	}}
}

func (c *Ctx) atomTerm(name, kind string, mk func(fa *FnAnalysis, st *State) *Term, negate bool) ttAtom {
	return ttAtom{name, func(fa *FnAnalysis, st *State) (bool, bool) {
		t := mk(fa, st)
		if t == nil {
			return false, false
		}
		v, ok := fa.knownTerm(st, kind, t)
		if !ok && kind == aTR && t.K == "B" {
			// any spelling of the same test: decide the comparison by linear entailment
			v, ok = c.decideCmp(fa, st, t)
		}
		if negate {
			v = !v
		}
		return v, ok
	}}
}

// decideCmp: truth of the comparison t (B with <, <= or ==) in state st by linear entailment.
func (c *Ctx) decideCmp(fa *FnAnalysis, st *State, t *Term) (bool, bool) {
	tt := c.eng.tt
	switch t.S {
	case "<":
		if c.provesFact(fa, st, Fact{aTR, t, true}, nil) {
			return true, true
		}
		if c.provesFact(fa, st, Fact{aTR, tt.mk(Term{K: "B", S: "<=", A: t.B, B: t.A}), true}, nil) {
			return false, true
		}
	case "<=":
		if c.provesFact(fa, st, Fact{aTR, t, true}, nil) {
			return true, true
		}
		if c.provesFact(fa, st, Fact{aTR, tt.mk(Term{K: "B", S: "<", A: t.B, B: t.A}), true}, nil) {
			return false, true
		}
	case "==":
		if c.provesFact(fa, st, Fact{aTR, t, true}, nil) {
			return true, true
		}
		if c.provesFact(fa, st, Fact{aTR, tt.mk(Term{K: "B", S: "<", A: t.A, B: t.B}), true}, nil) ||
			c.provesFact(fa, st, Fact{aTR, tt.mk(Term{K: "B", S: "<", A: t.B, B: t.A}), true}, nil) {
			return false, true
		}
	}
	return false, false
}

func (c *Ctx) param(fa *FnAnalysis, k int) *Term {
	if k >= len(fa.fn.Params) {
		return nil
	}
	return c.eng.tt.mk(Term{K: "P", N: k, S: fa.fn.Params[k].Name()})
}

func (c *Ctx) intConst(n int64) *Term {
	return c.eng.tt.mk(Term{K: "C", S: fmt.Sprint(n), Const: constant.MakeInt64(n)})
}

// didCall: some call to one of names was executed on the path.
func (c *Ctx) didCall(fa *FnAnalysis, st *State, names ...string) bool {
	for _, call := range c.findCalls(fa.fn, names...) {
		if v, ok := st.get(aDID, c.eng.tt.mk(Term{K: "V", V: call})); ok && v {
			return true
		}
	}
	return false
}

func (c *Ctx) runTable(tb ttTable) {
	rep := c.rep
	fn := c.anchor(tb.rule, tb.fn)
	if fn == nil {
		return
	}
	fa := c.eng.analyze(fn, nil)
	pos := c.p.pos(fn.Pos())
	if fa.unstable || len(fa.collapsed) > 0 {
		rep.undecided(tb.rule, tb.fn, "table", pos, "the function is not a loop-free decision the engine can enumerate exactly (states were merged)")
		return
	}
	if len(fa.loopOf) > 0 {
		rep.undecided(tb.rule, tb.fn, "table", pos, "function contains a loop: not a finite decision table")
		return
	}
	// split return states on boolean results so that outcomes are constants
	type path struct {
		st  *State
		ret *ssa.Return
	}
	var paths []path
	for _, rs := range fa.rets {
		states := []*State{rs.st}
		for k, rv := range rs.ret.Results {
			_ = k
			if b, ok := rv.Type().Underlying().(*types.Basic); ok && b.Kind() == types.Bool {
				var next []*State
				for _, s := range states {
					if _, known := fa.knownTerm(s, aTR, fa.term(s, rv)); known {
						next = append(next, s)
						continue
					}
					for _, pol := range []bool{true, false} {
						t := s.clone()
						fa.assumeVal(t, rv, pol)
						if !t.dead {
							next = append(next, t)
						}
					}
				}
				states = next
			}
		}
		for _, s := range states {
			paths = append(paths, path{s, rs.ret})
		}
	}
	n := len(tb.atoms)
	rows := 0
	var bad []string
	seenOutcome := map[string]bool{}
	for mask := 0; mask < 1<<n; mask++ {
		v := map[string]bool{}
		for i, a := range tb.atoms {
			v[a.name] = mask&(1<<i) != 0
		}
		if tb.feasible != nil && !tb.feasible(v) {
			continue
		}
		rows++
		want := tb.expect(v)
		matched := 0
		for _, p := range paths {
			compat := true
			for _, a := range tb.atoms {
				if val, known := a.eval(fa, p.st); known && val != v[a.name] {
					compat = false
					break
				}
			}
			if !compat {
				continue
			}
			matched++
			got := tb.outcome(fa, p.st, p.ret)
			seenOutcome[got] = true
			if got != want {
				bad = append(bad, fmt.Sprintf("%s: returns %s, the property prescribes %s", fmtValuation(tb.atoms, v), got, want))
			}
		}
		if matched == 0 && !(tb.optional != nil && tb.optional(v)) {
			bad = append(bad, fmt.Sprintf("%s: no return path is compatible with this row", fmtValuation(tb.atoms, v)))
		}
	}
	if len(bad) == 0 {
		var outs []string
		for o := range seenOutcome {
			outs = append(outs, o)
		}
		sort.Strings(outs)
		rep.ok(tb.rule, tb.fn, "table", pos, fmt.Sprintf("%d return paths agree with the prescribed table on all %d feasible rows over atoms %s (outcomes: %s)", len(paths), rows, atomNames(tb.atoms), strings.Join(outs, ",")))
		return
	}
	sort.Strings(bad)
	bad = uniq(bad)
	if len(bad) > 4 {
		bad = append(bad[:4], fmt.Sprintf("... %d more rows", len(bad)-4))
	}
	rep.bad(tb.rule, tb.fn, "table", pos, strings.Join(bad, "; "))
}

func uniq(ss []string) []string {
	var out []string
	for i, s := range ss {
		if i == 0 || s != ss[i-1] {
			out = append(out, s)
		}
	}
	return out
}

func atomNames(as []ttAtom) string {
	var ns []string
	for _, a := range as {
		ns = append(ns, a.name)
	}
	return "{" + strings.Join(ns, ",") + "}"
}

func fmtValuation(as []ttAtom, v map[string]bool) string {
	var ps []string
	for _, a := range as {
		if v[a.name] {
			ps = append(ps, a.name)
		} else {
			ps = append(ps, "¬"+a.name)
		}
	}
	return strings.Join(ps, "∧")
}

// boolOutcome: the (constant, after splitting) boolean result k.
func (c *Ctx) boolOutcome(k int) func(fa *FnAnalysis, st *State, ret *ssa.Return) string {
	return func(fa *FnAnalysis, st *State, ret *ssa.Return) string {
		if k >= len(ret.Results) {
			return "?"
		}
		if v, ok := fa.knownTerm(st, aTR, fa.term(st, ret.Results[k])); ok {
			return fmt.Sprint(v)
		}
		return "unknown"
	}
}

func (c *Ctx) isRecvArg(fa *FnAnalysis, v ssa.Value) bool {
	t := fa.term(nil, v)
	if t.K == "P" && t.N == 0 {
		return true
	}
	// field 0 of the receiver (r.stack / r.condition) or a load of the pointer receiver
	if t.K == "F" && t.A.K == "P" && t.A.N == 0 {
		return true
	}
	if u, ok := v.(*ssa.UnOp); ok {
		tt := fa.term(nil, u.X)
		if tt.K == "P" && tt.N == 0 {
			return true
		}
		if tt.K == "FA" && tt.A.K == "P" && tt.A.N == 0 {
			return true
		}
	}
	return false
}

// flagAtom: the result of getState(recv, <flag>) / positive(recv..., <flag>).
func (c *Ctx) flagAtom(name, flagConst string) ttAtom {
	val, _ := c.p.constVal(flagConst)
	return c.atomCallBool(name, []string{"Stack.getState", "Condition.getState", "stack.positive", "(*condition).positive", "nodeConfig.positive"}, func(call *ssa.Call) bool {
		args := call.Call.Args
		return len(args) == 2 && isConstInt(args[1], val)
	})
}

func (c *Ctx) initAtom() ttAtom {
	return c.atomCallBool("INIT", []string{"Stack.IsInit", "Condition.IsInit"}, nil)
}

// ---------------------------------------------------------------- tables

func (c *Ctx) ttSetState() {
	for _, recv := range []string{"Stack", "Condition"} {
		recv := recv
		inner := "(*stack)."
		if recv == "Condition" {
			inner = "(*condition)."
		}
		tb := ttTable{
			rule: "R-TT", fn: recv + ".setState",
			atoms: []ttAtom{
				c.initAtom(),
				c.flagAtom("RO", "ronly"),
				c.atomTerm("cf==ronly", aTR, func(fa *FnAnalysis, st *State) *Term {
					return c.eng.tt.mk(Term{K: "B", S: "==", A: c.intConst(c.ronly), B: c.param(fa, 1)})
				}, false),
				c.atomTerm("len(state)>0", aTR, func(fa *FnAnalysis, st *State) *Term {
					return c.eng.tt.mk(Term{K: "B", S: "<", A: c.intConst(0), B: c.eng.tt.mk(Term{K: "LEN", A: c.param(fa, 2)})})
				}, false),
				{"state[0]", func(fa *FnAnalysis, st *State) (bool, bool) {
					// the load of state[0]
					for _, b := range fa.fn.Blocks {
						for _, in := range b.Instrs {
							if u, ok := in.(*ssa.UnOp); ok {
								if ia, ok := u.X.(*ssa.IndexAddr); ok && ia.X == fa.fn.Params[2] && isConstInt(ia.Index, 0) {
									if v, ok := fa.knownTerm(st, aTR, fa.term(st, u)); ok {
										return v, true
									}
								}
							}
						}
					}
					return false, false
				}},
			},
			feasible: func(v map[string]bool) bool {
				if v["RO"] && !v["INIT"] {
					return false
				}
				if v["state[0]"] && !v["len(state)>0"] {
					return false
				}
				return true
			},
			expect: func(v map[string]bool) string {
				if !v["INIT"] || (v["RO"] && !v["cf==ronly"]) {
					return "none"
				}
				if !v["len(state)>0"] {
					return "toggle"
				}
				if v["state[0]"] {
					return "set"
				}
				return "unset"
			},
			outcome: func(fa *FnAnalysis, st *State, ret *ssa.Return) string {
				var did []string
				if c.didCall(fa, st, inner+"setOpt") {
					did = append(did, "set")
				}
				if c.didCall(fa, st, inner+"unsetOpt") {
					did = append(did, "unset")
				}
				if c.didCall(fa, st, inner+"toggleOpt") {
					did = append(did, "toggle")
				}
				if len(did) == 0 {
					return "none"
				}
				return strings.Join(did, "+")
			},
		}
		c.runTable(tb)
	}
}

// getter polarity: outcome of a niladic bool getter as a function of INIT and one flag.
func (c *Ctx) ttGetter(method, flag string, positive bool) {
	tb := ttTable{
		rule: "R-TT", fn: method,
		atoms: []ttAtom{c.initAtom(), c.flagAtom("BIT("+flag+")", flag)},
		feasible: func(v map[string]bool) bool { return !(v["BIT("+flag+")"] && !v["INIT"]) },
		expect: func(v map[string]bool) string {
			if !v["INIT"] {
				// an uninitialised instance answers false, except IsPadded which reports the default (padded)
				if method == "Stack.IsPadded" || method == "Condition.IsPadded" {
					return "true"
				}
				return "false"
			}
			return fmt.Sprint(v["BIT("+flag+")"] == positive)
		},
		outcome: c.boolOutcome(0),
	}
	c.runTable(tb)
}

func (c *Ctx) ttCanPushNester() {
	c.runTable(ttTable{
		rule: "R-TT", fn: "(*stack).canPushNester",
		atoms: []ttAtom{c.stackKindAtom(1), c.flagAtom("nnest", "nnest")},
		expect:  func(v map[string]bool) string { return fmt.Sprint(!(v["isStackKind(x)"] && v["nnest"])) },
		outcome: c.boolOutcome(0),
	})
	c.ttIsStackKind()
}

// stackKindAtom: isStackKind() was applied to parameter k and its verdict is known.
func (c *Ctx) stackKindAtom(k int) ttAtom {
	return ttAtom{"isStackKind(x)", func(fa *FnAnalysis, st *State) (bool, bool) {
		for _, call := range c.findCalls(fa.fn, "isStackKind") {
			if t := fa.term(st, call.Call.Args[0]); t.K == "P" && t.N == k {
				if v, ok := fa.knownTerm(st, aTR, fa.term(st, call)); ok {
					return v, true
				}
			}
		}
		return false, false
	}}
}

// ttIsStackKind: the type-level test itself: false for nil; true for the native type; otherwise
// exactly ConvertibleTo(Stack) of the pointer-flattened type of the argument.
func (c *Ctx) ttIsStackKind() {
	rep := c.rep
	fn := c.anchor("R-TT", "isStackKind")
	if fn == nil {
		return
	}
	fa := c.eng.analyze(fn, nil)
	tt := c.eng.tt
	var problems []string
	var ct *ssa.Call
	for _, b := range fn.Blocks {
		for _, in := range b.Instrs {
			if call, ok := in.(*ssa.Call); ok && call.Call.IsInvoke() && call.Call.Method.Name() == "ConvertibleTo" {
				ct = call
			}
		}
	}
	dps := c.findCalls(fn, "derefPtr")
	if ct == nil || len(dps) != 1 {
		problems = append(problems, "expected one derefPtr call and one ConvertibleTo test")
	} else {
		if ex, ok := ct.Call.Value.(*ssa.Extract); !ok || ex.Tuple != ssa.Value(dps[0]) || ex.Index != 0 {
			problems = append(problems, "the convertibility test is not made on the pointer-flattened type")
		}
		for k, want := range []string{"reflect.TypeOf", "reflect.ValueOf"} {
			ac, ok := dps[0].Call.Args[k].(*ssa.Call)
			if !ok || c.calleeName(&ac.Call) != want || ac.Call.Args[0] != ssa.Value(fn.Params[0]) {
				problems = append(problems, "derefPtr is not applied to (typOf(x), valOf(x)) of the argument itself")
			}
		}
		typ := c.p.Types.Scope().Lookup("Stack").Type()
		taok := tt.mk(Term{K: "TAOK", S: typeStr(typ), Typ: typ, A: tt.mk(Term{K: "P", N: 0, S: fn.Params[0].Name()})})
		for _, ret := range c.returnsOf(fn) {
			for _, s := range fa.statesBefore(ret) {
				rt := fa.term(s, ret.Results[0])
				if nn, known := fa.nonNil(s, fn.Params[0]); known && !nn {
					if v, k := c.knownBool(fa, s, ret.Results[0]); !k || v {
						problems = append(problems, "nil is not declined")
					}
					continue
				}
				if v, known := fa.knownTerm(s, aTR, taok); known && v {
					if r, k := c.knownBool(fa, s, ret.Results[0]); !k || !r {
						problems = append(problems, "a native Stack is not recognised")
					}
					continue
				}
				// otherwise the verdict is the convertibility test's
				if rt != fa.term(s, ct) {
					if v, k := c.knownBool(fa, s, ret.Results[0]); k {
						if cv, ck := fa.knownTerm(s, aTR, fa.term(s, ct)); !ck || cv != v {
							problems = append(problems, "the verdict is not the convertibility of the pointer-flattened type")
						}
					} else {
						problems = append(problems, "the verdict is not the convertibility of the pointer-flattened type: "+rt.key)
					}
				}
			}
		}
	}
	pos := c.p.pos(fn.Pos())
	if len(problems) == 0 {
		rep.ok("R-TT", "isStackKind", "type-level Stack test", pos, "false for nil, true for the native type, otherwise ConvertibleTo(Stack) of derefPtr(typOf(x), valOf(x))")
	} else {
		sort.Strings(problems)
		rep.bad("R-TT", "isStackKind", "type-level Stack test", pos, strings.Join(uniq(problems), "; "))
	}
}

// ttGetState: the read-only test everything else relies on.  getState(cf)
// answers the raw option bit of an initialised instance and false otherwise;
// it depends on nothing else - in particular no user code (a validity closure)
// is reachable from it, so no user closure can switch a guard off.
func (c *Ctx) ttGetState() {
	for _, recv := range []string{"Stack", "Condition"} {
		name := recv + ".getState"
		tb := ttTable{
			rule: "R-TT", fn: name,
			atoms: []ttAtom{
				c.initAtom(),
				c.atomCallBool("BIT(cf)", []string{"stack.positive", "(*condition).positive", "condition.positive", "nodeConfig.positive", "(*nodeConfig).positive", "cfgFlag.positive"}, nil),
			},
			feasible: func(v map[string]bool) bool { return !(v["BIT(cf)"] && !v["INIT"]) },
			expect: func(v map[string]bool) string { return fmt.Sprint(v["INIT"] && v["BIT(cf)"]) },
			outcome: c.boolOutcome(0),
		}
		c.runTable(tb)
		fn := c.p.ByName[name]
		if fn == nil {
			continue
		}
		inReach := map[*ssa.Function]bool{}
		for _, f := range c.reach(fn) {
			inReach[f] = true
		}
		var user []string
		for _, u := range c.eff.users {
			if inReach[u.Fn] {
				user = append(user, relName(u.Fn)+" "+c.p.instrPos(u.Instr)+": "+u.What)
			}
		}
		sort.Strings(user)
		if len(user) == 0 {
			c.rep.ok("R-TT", name, "no user code", c.p.pos(fn.Pos()), "nothing reachable from the option test calls user code")
		} else {
			c.rep.bad("R-TT", name, "no user code", c.p.pos(fn.Pos()), "user code is reachable from the option test (a closure could make every guard that relies on it fail open): "+strings.Join(user, "; "))
		}
	}
}

// ttIsNestingWrappers: Stack.IsNesting answers its worker's verdict for every
// initialised receiver, whatever the no-nesting option says (elements already
// present are not affected by the switch); condition.isNesting is exactly
// isStackKind of the expression (a zero-valued Stack counts: it is refused
// under no-nesting, too).
func (c *Ctx) ttIsNestingWrappers() {
	c.runTable(ttTable{
		rule: "R-TT", fn: "Stack.IsNesting",
		atoms: []ttAtom{
			c.initAtom(),
			c.atomCallBool("scan", []string{"stack.isNesting", "(*stack).isNesting"}, nil),
		},
		feasible: func(v map[string]bool) bool { return !(v["scan"] && !v["INIT"]) },
		expect:   func(v map[string]bool) string { return fmt.Sprint(v["INIT"] && v["scan"]) },
		outcome:  c.boolOutcome(0),
	})
	c.runTable(ttTable{
		rule: "R-TT", fn: "condition.isNesting",
		atoms: []ttAtom{
			{"isStackKind(ex)", func(fa *FnAnalysis, st *State) (bool, bool) {
				for _, call := range c.findCalls(fa.fn, "isStackKind") {
					if c.isFieldLoad(unMI(fa.term(st, call.Call.Args[0])), "condition.ex") {
						if v, ok := fa.knownTerm(st, aTR, fa.term(st, call)); ok {
							return v, true
						}
					}
				}
				return false, false
			}},
		},
		expect:  func(v map[string]bool) string { return fmt.Sprint(v["isStackKind(ex)"]) },
		outcome: c.boolOutcome(0),
	})
}

// ttIsEmpty: IsEmpty is true exactly for an uninitialised instance or one of
// length zero - what the Pop/Reverse wrappers gate on; nil elements count.
func (c *Ctx) ttIsEmpty() {
	c.runTable(ttTable{
		rule: "R-TT", fn: "Stack.IsEmpty",
		atoms: []ttAtom{
			c.initAtom(),
			c.atomTerm("Len()==0", aTR, func(fa *FnAnalysis, st *State) *Term {
				for _, call := range c.findCalls(fa.fn, "Stack.Len") {
					return c.eng.tt.mk(Term{K: "B", S: "==", A: c.intConst(0), B: fa.term(st, call)})
				}
				return nil
			}, false),
		},
		feasible: func(v map[string]bool) bool { return !(v["INIT"] == false && v["Len()==0"] == false) || true },
		expect: func(v map[string]bool) string {
			if !v["INIT"] {
				return "true"
			}
			return fmt.Sprint(v["Len()==0"])
		},
		outcome: c.boolOutcome(0),
	})
}

// ttCapLenEqual: two length/capacity pairs are "equal" exactly when both the
// capacities and the lengths agree.
func (c *Ctx) ttCapLenEqual() {
	eq := func(name string, a, b int) ttAtom {
		return c.atomTerm(name, aTR, func(fa *FnAnalysis, st *State) *Term {
			return c.eng.tt.mk(Term{K: "B", S: "==", A: c.param(fa, a), B: c.param(fa, b)})
		}, false)
	}
	c.runTable(ttTable{
		rule: "R-TT", fn: "capLenEqual",
		atoms:   []ttAtom{eq("c1==c2", 0, 1), eq("l1==l2", 2, 3)},
		expect:  func(v map[string]bool) string { return fmt.Sprint(v["c1==c2"] && v["l1==l2"]) },
		outcome: c.boolOutcome(0),
	})
}

// ttStackValid: a stack is valid exactly when it is initialised and its
// validity closure - if one is installed - returns nil.  Nothing else (a
// recorded error, an option) makes a stack invalid: Traverse, String and
// Valid all gate on this verdict.
func (c *Ctx) ttStackValid() {
	slotIdx := c.fieldIndex("nodeConfig", "vpf")
	c.runTable(ttTable{
		rule: "R-TT", fn: "(*stack).valid",
		atoms: []ttAtom{
			c.atomCallBool("INIT", []string{"(*stack).isInit", "stack.isInit"}, nil),
			{"closure", func(fa *FnAnalysis, st *State) (bool, bool) {
				for _, f := range st.factList() {
					if f.Kind == aNN && f.T.K == "L" && f.T.A != nil && f.T.A.K == "FA" && f.T.A.N == slotIdx {
						return f.Val, true
					}
				}
				return false, false
			}},
			{"verdict==nil", func(fa *FnAnalysis, st *State) (bool, bool) {
				for _, call := range c.closureCalls(fa.fn, "vpf") {
					if v, known := fa.nonNil(st, call); known {
						return !v, true
					}
				}
				return false, false
			}},
		},
		feasible: func(v map[string]bool) bool {
			if !v["INIT"] && (v["closure"] || v["verdict==nil"]) {
				return false
			}
			if !v["closure"] && v["verdict==nil"] {
				return false
			}
			return true
		},
		expect: func(v map[string]bool) string {
			if !v["INIT"] {
				return "false"
			}
			if !v["closure"] {
				return "true"
			}
			return fmt.Sprint(v["verdict==nil"])
		},
		// the engine assumes the pointer receiver non-nil and slot 0 to hold the configuration,
		// which leaves no "not initialised" path in this function
		optional: func(v map[string]bool) bool { return !v["INIT"] },
		outcome:  c.boolOutcome(0),
	})
}
