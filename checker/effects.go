package main

import (
	"fmt"
	"go/token"
	"go/types"
	"sort"
	"strings"

	"golang.org/x/tools/go/ssa"
)

// Root says which object a pointer-like value is reached from.
type Root struct {
	Kind byte   // 'p' parameter, 'g' global, 'f' fresh allocation, 'u' unknown, 'v' free variable, 'o' result of opaque user code
	Idx  int    // parameter index (receiver = 0)
	Elem bool   // reached through a user element (slot >= 1, condition.ex, map value)
	Name string // global name or alloc id
}

func (r Root) String() string {
	s := ""
	switch r.Kind {
	case 'p':
		s = fmt.Sprintf("param%d", r.Idx)
	case 'v':
		s = fmt.Sprintf("freevar%d", r.Idx)
	case 'g':
		s = "global:" + r.Name
	case 'f':
		s = "fresh:" + r.Name
	case 'u':
		s = "unknown"
	case 'o':
		s = "user-result"
	}
	if r.Elem {
		s = "elem(" + s + ")"
	}
	return s
}

type RootSet map[Root]bool

func (rs RootSet) addAll(o RootSet) bool {
	ch := false
	for r := range o {
		if !rs[r] {
			rs[r] = true
			ch = true
		}
	}
	return ch
}

func (rs RootSet) sorted() []string {
	var out []string
	for r := range rs {
		out = append(out, r.String())
	}
	sort.Strings(out)
	return out
}

func (rs RootSet) elemOf() RootSet {
	o := RootSet{}
	for r := range rs {
		if r.Kind == 'f' {
			// an element of a fresh container is whatever was put there:
			// handled through contents; keep fresh
			o[r] = true
			continue
		}
		r.Elem = true
		o[r] = true
	}
	return o
}

// Write is one abstract store effect.
type Write struct {
	Loc     string
	Root    Root
	Shallow bool // the written cell lies inside the object the root pointer itself points at (no load in between)
}

func (w Write) String() string { return w.Loc + "@" + w.Root.String() }

// WriteSite is a concrete instruction with the abstract writes it causes.
type WriteSite struct {
	Instr  ssa.Instruction
	Writes []Write
	Callee *ssa.Function // for call sites
	Direct bool          // a Store / MapUpdate / builtin in this function (not via callee)
}

type UserEdge struct {
	Fn    *ssa.Function
	Instr ssa.Instruction
	What  string
}

type fnEffects struct {
	fn       *ssa.Function
	roots    map[ssa.Value]RootSet
	contents map[string]RootSet // alloc id -> roots of values stored in it
	ret      []RootSet          // per result
	writes   map[Write]bool     // summary, in terms of own params
	sites    []*WriteSite
	derefW   map[int]bool // parameter k is written through directly (*Pk = ...)
}

type Effects struct {
	p     *Program
	fns   map[*ssa.Function]*fnEffects
	users []UserEdge
	bound map[*ssa.Function]bool // in-package functions whose value is taken (closures / bound methods)
	extUnknown map[string]bool
}

// External functions known not to write through their arguments and to
// return values that do not alias them ("pure/fresh"), by qualified name
// prefix.  Everything in these packages only reads its arguments.
var pureExternalPrefixes = []string{
	"strings.", "(*strings.Builder).String", "(*strings.Builder).Len", "strconv.", "unicode.", "errors.New", "fmt.Sprintf",
	"fmt.Sprint", "reflect.TypeOf", "(reflect.Type).", "(*reflect.rtype).", "time.Now", "(time.Time).",
	"math/rand.Int63", "log.New", "(*log.Logger).Writer", "(reflect.Kind).", "(reflect.Value).Kind", "(reflect.Value).IsValid",
	"(reflect.Value).IsZero", "(reflect.Value).IsNil", "(reflect.Value).Len", "(reflect.Value).Cap", "(reflect.Value).Type",
	"(reflect.Value).Equal", "(reflect.Value).NumField", "(reflect.Value).CanInterface", "(reflect.Value).Comparable",
	"(reflect.Value).Pointer", "(reflect.Value).String", "(reflect.Value).Int", "(reflect.Value).Uint", "(reflect.Value).Float", "(reflect.Value).Bool",
}

// External functions whose result aliases their receiver/argument.
var aliasExternal = map[string]bool{
	"reflect.ValueOf": true, "(reflect.Value).Elem": true, "(reflect.Value).Interface": true,
	"(reflect.Value).Convert": true, "(reflect.Value).Field": true, "(reflect.Value).Index": true,
	"(reflect.Value).MapIndex": true, "(reflect.Value).MapKeys": true, "(reflect.Value).MethodByName": true,
	"(reflect.Value).Slice": true, "(reflect.Value).FieldByName": true, "(reflect.Value).Method": true,
}

// External functions that write through their receiver (first argument).
var writerExternal = map[string]string{
	"(*sync.Mutex).Lock":              "EXT:Mutex.Lock",
	"(*sync.Mutex).Unlock":            "EXT:Mutex.Unlock",
	"(*sync.Mutex).TryLock":           "EXT:Mutex.TryLock",
	"(*strings.Builder).WriteString":  "EXT:Builder.Write",
	"(*strings.Builder).WriteRune":    "EXT:Builder.Write",
	"(*strings.Builder).WriteByte":    "EXT:Builder.Write",
	"(*strings.Builder).Write":        "EXT:Builder.Write",
	"(*strings.Builder).Grow":         "EXT:Builder.Write",
	"(*strings.Builder).Reset":        "EXT:Builder.Write",
	"(*log.Logger).SetOutput":         "EXT:Logger.Set",
	"(*log.Logger).SetFlags":          "EXT:Logger.Set",
	"(*log.Logger).SetPrefix":         "EXT:Logger.Set",
	"(*log.Logger).Printf":            "EXT:Logger.Print",
	"(*log.Logger).Println":           "EXT:Logger.Print",
	"(*log.Logger).Print":             "EXT:Logger.Print",
	"fmt.Printf":                      "EXT:stdout",
	"fmt.Println":                     "EXT:stdout",
}

func isPureExternal(name string) bool {
	for _, p := range pureExternalPrefixes {
		if strings.HasPrefix(name, p) {
			return true
		}
	}
	return false
}

func hasPointers(t types.Type) bool {
	switch u := t.Underlying().(type) {
	case *types.Basic:
		return u.Kind() == types.UnsafePointer
	case *types.Pointer, *types.Map, *types.Slice, *types.Chan, *types.Signature, *types.Interface:
		return true
	case *types.Struct:
		for i := 0; i < u.NumFields(); i++ {
			if hasPointers(u.Field(i).Type()) {
				return true
			}
		}
		return false
	case *types.Array:
		return hasPointers(u.Elem())
	case *types.Tuple:
		for i := 0; i < u.Len(); i++ {
			if hasPointers(u.At(i).Type()) {
				return true
			}
		}
		return false
	}
	return true
}

func computeEffects(p *Program) *Effects {
	e := &Effects{p: p, fns: map[*ssa.Function]*fnEffects{}, bound: map[*ssa.Function]bool{}, extUnknown: map[string]bool{}}
	for _, fn := range p.Funcs {
		fe := &fnEffects{fn: fn, roots: map[ssa.Value]RootSet{}, contents: map[string]RootSet{}, writes: map[Write]bool{}, derefW: map[int]bool{}}
		n := fn.Signature.Results().Len()
		fe.ret = make([]RootSet, n)
		for i := range fe.ret {
			fe.ret[i] = RootSet{}
		}
		e.fns[fn] = fe
	}
	// global fixpoint: roots & return provenance
	for iter := 0; iter < 50; iter++ {
		changed := false
		for _, fn := range p.Funcs {
			if e.propagateRoots(e.fns[fn]) {
				changed = true
			}
		}
		if !changed {
			break
		}
	}
	// writes: local sites then transitive closure
	for _, fn := range p.Funcs {
		e.localWrites(e.fns[fn])
	}
	for iter := 0; iter < 50; iter++ {
		changed := false
		for _, fn := range p.Funcs {
			if e.propagateWrites(e.fns[fn]) {
				changed = true
			}
		}
		if !changed {
			break
		}
	}
	for _, fn := range p.Funcs {
		e.finalSites(e.fns[fn])
	}
	return e
}

func (e *Effects) paramIndex(fn *ssa.Function, v *ssa.Parameter) int {
	for i, q := range fn.Params {
		if q == v {
			return i
		}
	}
	return -1
}

func (e *Effects) rootsOf(fe *fnEffects, v ssa.Value) RootSet {
	if v == nil {
		return RootSet{}
	}
	if rs, ok := fe.roots[v]; ok {
		return rs
	}
	switch x := v.(type) {
	case *ssa.Parameter:
		return RootSet{Root{Kind: 'p', Idx: e.paramIndex(fe.fn, x)}: true}
	case *ssa.FreeVar:
		for i, fv := range fe.fn.FreeVars {
			if fv == x {
				return RootSet{Root{Kind: 'v', Idx: i}: true}
			}
		}
	case *ssa.Global:
		return RootSet{Root{Kind: 'g', Name: x.Name()}: true}
	case *ssa.Const, *ssa.Function, *ssa.Builtin:
		return RootSet{}
	}
	return RootSet{}
}

func allocID(a ssa.Value) string { return valueID(a) }

// isStackTyped reports whether t is the package's `stack` slice type.
func (e *Effects) isStackTyped(t types.Type) bool {
	return e.p.isNamed(t, "stack")
}

func (e *Effects) propagateRoots(fe *fnEffects) bool {
	changed := false
	set := func(v ssa.Value, rs RootSet) {
		cur, ok := fe.roots[v]
		if !ok {
			cur = RootSet{}
			fe.roots[v] = cur
		}
		if cur.addAll(rs) {
			changed = true
		}
	}
	// loadFrom: roots of the value obtained by loading through an address
	// with the given roots; elem says the cell is a user-element cell.
	loadFrom := func(addrRoots RootSet, elem bool) RootSet {
		out := RootSet{}
		for r := range addrRoots {
			if r.Kind == 'f' {
				if c, ok := fe.contents[r.Name]; ok {
					out.addAll(c)
				}
				continue
			}
			if elem {
				r.Elem = true
			}
			out[r] = true
		}
		return out
	}
	for _, b := range fe.fn.Blocks {
		for _, in := range b.Instrs {
			switch x := in.(type) {
			case *ssa.Alloc:
				set(x, RootSet{Root{Kind: 'f', Name: allocID(x)}: true})
			case *ssa.MakeSlice, *ssa.MakeMap, *ssa.MakeChan:
				set(x.(ssa.Value), RootSet{Root{Kind: 'f', Name: allocID(x.(ssa.Value))}: true})
			case *ssa.MakeClosure:
				rs := RootSet{Root{Kind: 'f', Name: allocID(x)}: true}
				set(x, rs)
				if fn, ok := x.Fn.(*ssa.Function); ok {
					e.noteBound(fn)
				}
				// captured values become contents
				c := fe.contents[allocID(x)]
				if c == nil {
					c = RootSet{}
					fe.contents[allocID(x)] = c
				}
				for _, bv := range x.Bindings {
					if c.addAll(e.rootsOf(fe, bv)) {
						changed = true
					}
				}
			case *ssa.Store:
				// contents of fresh objects
				for r := range e.rootsOf(fe, x.Addr) {
					if r.Kind == 'f' {
						c := fe.contents[r.Name]
						if c == nil {
							c = RootSet{}
							fe.contents[r.Name] = c
						}
						if c.addAll(e.rootsOf(fe, x.Val)) {
							changed = true
						}
					}
				}
			case *ssa.MapUpdate:
				for r := range e.rootsOf(fe, x.Map) {
					if r.Kind == 'f' {
						c := fe.contents[r.Name]
						if c == nil {
							c = RootSet{}
							fe.contents[r.Name] = c
						}
						if c.addAll(e.rootsOf(fe, x.Value)) {
							changed = true
						}
					}
				}
			case *ssa.UnOp:
				if x.Op == token.MUL {
					elem := false
					// load of a user-element cell?
					if ia, ok := x.X.(*ssa.IndexAddr); ok {
						elem = e.elemIndex(ia.X.Type(), ia.Index)
					} else if fa, ok := x.X.(*ssa.FieldAddr); ok {
						elem = e.elemField(fa.X.Type(), fa.Field)
					}
					set(x, loadFrom(e.rootsOf(fe, x.X), elem))
				} else {
					set(x, RootSet{})
				}
			case *ssa.FieldAddr:
				set(x, e.rootsOf(fe, x.X))
			case *ssa.Field:
				rs := e.rootsOf(fe, x.X)
				if e.elemField(types.NewPointer(x.X.Type()), x.Field) {
					rs = rs.elemOf()
				}
				set(x, rs)
			case *ssa.IndexAddr:
				set(x, e.rootsOf(fe, x.X))
			case *ssa.Index:
				rs := e.rootsOf(fe, x.X)
				if e.elemIndex(x.X.Type(), x.Index) {
					rs = rs.elemOf()
				}
				set(x, rs)
			case *ssa.Lookup:
				if _, isMap := x.X.Type().Underlying().(*types.Map); isMap {
					set(x, loadFrom(e.rootsOf(fe, x.X), true))
				} else {
					set(x, RootSet{})
				}
			case *ssa.Slice:
				set(x, e.rootsOf(fe, x.X))
			case *ssa.ChangeType:
				set(x, e.rootsOf(fe, x.X))
			case *ssa.Convert:
				if hasPointers(x.Type()) {
					set(x, e.rootsOf(fe, x.X))
				} else {
					set(x, RootSet{})
				}
			case *ssa.ChangeInterface:
				set(x, e.rootsOf(fe, x.X))
			case *ssa.MakeInterface:
				set(x, e.rootsOf(fe, x.X))
			case *ssa.TypeAssert:
				set(x, e.rootsOf(fe, x.X))
			case *ssa.Extract:
				if c, ok := x.Tuple.(*ssa.Call); ok {
					set(x, e.callResultRoots(fe, c, x.Index))
				} else {
					set(x, e.rootsOf(fe, x.Tuple))
				}
			case *ssa.Phi:
				rs := RootSet{}
				for _, ed := range x.Edges {
					rs.addAll(e.rootsOf(fe, ed))
				}
				set(x, rs)
			case *ssa.Call:
				if x.Call.Signature().Results().Len() == 1 {
					set(x, e.callResultRoots(fe, x, 0))
				} else {
					set(x, RootSet{})
				}
			case *ssa.BinOp:
				set(x, RootSet{})
			case *ssa.Range:
				set(x, e.rootsOf(fe, x.X))
			case *ssa.Next:
				// (ok, key, value) of a range over map/string
				set(x, e.rootsOf(fe, x.Iter).elemOf())
			case *ssa.Return:
				for i, r := range x.Results {
					if i < len(fe.ret) {
						if fe.ret[i].addAll(e.rootsOf(fe, r)) {
							changed = true
						}
					}
				}
			}
		}
	}
	return changed
}

func (e *Effects) noteBound(fn *ssa.Function) {
	// bound method wrapper: follow to the underlying function
	if fn.Synthetic != "" {
		for _, b := range fn.Blocks {
			for _, in := range b.Instrs {
				if c, ok := in.(*ssa.Call); ok {
					if cal := c.Call.StaticCallee(); cal != nil && e.p.inPkg(cal) {
						e.bound[cal] = true
					}
				}
			}
		}
		return
	}
	if e.p.inPkg(fn) {
		e.bound[fn] = true
	}
}

// elemIndex: does indexing a value of type t at idx address a user element?
func (e *Effects) elemIndex(t types.Type, idx ssa.Value) bool {
	if pt, ok := t.Underlying().(*types.Pointer); ok {
		t = pt.Elem()
	}
	if !e.isStackTyped(t) {
		// []any that came out of a stack is still user data
		if s, ok := t.Underlying().(*types.Slice); ok {
			if _, isIface := s.Elem().Underlying().(*types.Interface); isIface {
				return true
			}
		}
		return false
	}
	if c, ok := idx.(*ssa.Const); ok {
		if v, ok := constInt64(c.Value); ok && v == 0 {
			return false
		}
	}
	return true
}

// elemField: is field f of the struct pointed to by t a user-value cell
// (condition.ex)?
func (e *Effects) elemField(t types.Type, f int) bool {
	pt, ok := t.Underlying().(*types.Pointer)
	if !ok {
		return false
	}
	if e.p.isNamed(pt.Elem(), "condition") {
		st := pt.Elem().Underlying().(*types.Struct)
		return st.Field(f).Name() == "ex"
	}
	return false
}

func (e *Effects) callResultRoots(fe *fnEffects, c *ssa.Call, idx int) RootSet {
	out := RootSet{}
	sig := c.Call.Signature()
	if idx < sig.Results().Len() && !hasPointers(sig.Results().At(idx).Type()) {
		return out
	}
	args := e.callArgs(&c.Call)
	if c.Call.IsInvoke() {
		// interface method: opaque user code
		out[Root{Kind: 'o'}] = true
		return out
	}
	callee := e.p.callee(&c.Call)
	if callee == nil {
		if _, ok := c.Call.Value.(*ssa.Builtin); ok {
			b := c.Call.Value.(*ssa.Builtin)
			switch b.Name() {
			case "append":
				if len(args) > 0 {
					out.addAll(e.rootsOf(fe, args[0]))
				}
				// appended values become contents of the result when it is fresh
				for r := range out {
					if r.Kind == 'f' {
						cset := fe.contents[r.Name]
						if cset == nil {
							cset = RootSet{}
							fe.contents[r.Name] = cset
						}
						for _, a := range args[1:] {
							cset.addAll(e.rootsOf(fe, a))
						}
					}
				}
				if len(out) == 0 {
					// append(nil, xs...): a fresh slice holding xs
					id := allocID(c)
					out[Root{Kind: 'f', Name: id}] = true
					cset := fe.contents[id]
					if cset == nil {
						cset = RootSet{}
						fe.contents[id] = cset
					}
					for _, a := range args[1:] {
						cset.addAll(e.rootsOf(fe, a))
					}
				}
			}
			return out
		}
		// dynamic call of a function value: opaque user code
		out[Root{Kind: 'o'}] = true
		return out
	}
	if ce, ok := e.fns[callee]; ok {
		if idx < len(ce.ret) {
			for r := range ce.ret[idx] {
				switch r.Kind {
				case 'p':
					if r.Idx < len(args) {
						ar := e.rootsOf(fe, args[r.Idx])
						if r.Elem {
							ar = ar.elemOf()
						}
						out.addAll(ar)
						// The callee says only "derived from parameter k": the value may be the
						// argument itself or something loaded through it.  When the argument is
						// (the address of) a local copy, what is loaded through it is what the copy
						// holds - memory shared with the original (config() on a spilled value
						// receiver returns the shared *nodeConfig).  Keep both possibilities.
						for q := range ar {
							if q.Kind == 'f' {
								if cset, ok := fe.contents[q.Name]; ok {
									for cr := range cset {
										if r.Elem {
											cr.Elem = true
										}
										out[cr] = true
									}
								}
							}
						}
					}
				case 'f':
					// fresh in callee: fresh here, identified by the call
					id := allocID(c)
					out[Root{Kind: 'f', Name: id}] = true
					// contents of the callee's fresh object expressed in caller terms
					cset := fe.contents[id]
					if cset == nil {
						cset = RootSet{}
						fe.contents[id] = cset
					}
					if cc, ok := ce.contents[r.Name]; ok {
						for q := range cc {
							switch q.Kind {
							case 'p':
								if q.Idx < len(args) {
									ar := e.rootsOf(fe, args[q.Idx])
									if q.Elem {
										ar = ar.elemOf()
									}
									cset.addAll(ar)
								}
							case 'f':
								// nested fresh: keep as the same fresh object
								cset[Root{Kind: 'f', Name: id}] = true
							default:
								cset[q] = true
							}
						}
					}
				default:
					out[r] = true
				}
			}
		}
		return out
	}
	// external
	name := callee.String()
	if aliasExternal[name] {
		for _, a := range args {
			out.addAll(e.rootsOf(fe, a))
		}
		return out
	}
	if isPureExternal(name) {
		out[Root{Kind: 'f', Name: allocID(c)}] = true
		return out
	}
	if name == "log.New" {
		out[Root{Kind: 'f', Name: allocID(c)}] = true
		return out
	}
	e.extUnknown[name] = true
	for _, a := range args {
		out.addAll(e.rootsOf(fe, a))
	}
	out[Root{Kind: 'f', Name: allocID(c)}] = true
	return out
}

// callArgs returns the full argument list including the receiver.
func (e *Effects) callArgs(c *ssa.CallCommon) []ssa.Value {
	if c.IsInvoke() {
		return append([]ssa.Value{c.Value}, c.Args...)
	}
	return c.Args
}

// classifyAddr names the abstract location written by a store through addr.
func (e *Effects) classifyAddr(addr ssa.Value) string {
	switch a := addr.(type) {
	case *ssa.FieldAddr:
		pt := a.X.Type().Underlying().(*types.Pointer)
		st := pt.Elem().Underlying().(*types.Struct)
		name := "struct"
		if n, ok := pt.Elem().(*types.Named); ok {
			name = n.Obj().Name()
		}
		f := st.Field(a.Field).Name()
		if (name == "Stack" && f == "stack") || (name == "Condition" && f == "condition") {
			return "HANDLE"
		}
		return name + "." + f
	case *ssa.IndexAddr:
		t := a.X.Type()
		if pt, ok := t.Underlying().(*types.Pointer); ok {
			t = pt.Elem()
		}
		if e.isStackTyped(t) {
			return "SLOT"
		}
		return "ELEM:" + types.TypeString(t, func(*types.Package) string { return "" })
	case *ssa.Global:
		return "GLOBAL." + a.Name()
	}
	// a plain pointer
	if pt, ok := addr.Type().Underlying().(*types.Pointer); ok {
		if e.isStackTyped(pt.Elem()) {
			return "HDR"
		}
		if e.p.isNamed(pt.Elem(), "Stack") || e.p.isNamed(pt.Elem(), "Condition") {
			return "HANDLE"
		}
		return "DEREF:" + types.TypeString(pt.Elem(), func(*types.Package) string { return "" })
	}
	return "DEREF:?"
}

func (e *Effects) addSite(fe *fnEffects, in ssa.Instruction, direct bool, callee *ssa.Function, ws []Write) {
	if len(ws) == 0 {
		return
	}
	for _, s := range fe.sites {
		if s.Instr == in {
			for _, w := range ws {
				dup := false
				for _, x := range s.Writes {
					if x == w {
						dup = true
					}
				}
				if !dup {
					s.Writes = append(s.Writes, w)
				}
			}
			return
		}
	}
	fe.sites = append(fe.sites, &WriteSite{Instr: in, Writes: ws, Callee: callee, Direct: direct})
}

// shallowParam: addr is the pointer parameter itself or a field/element
// address computed from it without any load.
func shallowAddr(addr ssa.Value) bool {
	for {
		switch a := addr.(type) {
		case *ssa.Parameter:
			_, isPtr := a.Type().Underlying().(*types.Pointer)
			return isPtr
		case *ssa.FieldAddr:
			addr = a.X
		case *ssa.IndexAddr:
			if _, isPtr := a.X.Type().Underlying().(*types.Pointer); !isPtr {
				return false
			}
			addr = a.X
		default:
			return false
		}
	}
}

// isLocalAddr: v is the address of a local allocation or of a field / array
// element inside one (no load, call or conversion in between).
func isLocalAddr(v ssa.Value) bool {
	for {
		switch a := v.(type) {
		case *ssa.Alloc:
			return true
		case *ssa.FieldAddr:
			v = a.X
		case *ssa.IndexAddr:
			if _, isPtr := a.X.Type().Underlying().(*types.Pointer); !isPtr {
				return false
			}
			v = a.X
		default:
			return false
		}
	}
}

// expandFresh replaces fresh roots by the non-fresh roots of what the fresh
// objects contain (a pointer to a local copy still leads to shared memory
// one level down).
func (e *Effects) expandFresh(fe *fnEffects, rs RootSet) []Root {
	out := RootSet{}
	seen := map[string]bool{}
	var visit func(r Root)
	visit = func(r Root) {
		if r.Kind != 'f' {
			out[r] = true
			return
		}
		if seen[r.Name] {
			return
		}
		seen[r.Name] = true
		for q := range fe.contents[r.Name] {
			visit(q)
		}
	}
	for r := range rs {
		visit(r)
	}
	return nonFresh(out)
}

func nonFresh(rs RootSet) []Root {
	var out []Root
	for r := range rs {
		if r.Kind != 'f' {
			out = append(out, r)
		}
	}
	sort.Slice(out, func(i, j int) bool { return out[i].String() < out[j].String() })
	return out
}

func (e *Effects) localWrites(fe *fnEffects) {
	for _, b := range fe.fn.Blocks {
		for _, in := range b.Instrs {
			switch x := in.(type) {
			case *ssa.Store:
				loc := e.classifyAddr(x.Addr)
				var ws []Write
				for _, r := range nonFresh(e.rootsOf(fe, x.Addr)) {
					l := loc
					// a direct deref of a pointer parameter: remember so that
					// call sites can re-classify through the actual argument
					if p, ok := x.Addr.(*ssa.Parameter); ok && strings.HasPrefix(loc, "DEREF:") {
						fe.derefW[e.paramIndex(fe.fn, p)] = true
					}
					ws = append(ws, Write{Loc: l, Root: r, Shallow: shallowAddr(x.Addr)})
				}
				e.addSite(fe, in, true, nil, ws)
			case *ssa.MapUpdate:
				var ws []Write
				for _, r := range nonFresh(e.rootsOf(fe, x.Map)) {
					ws = append(ws, Write{Loc: "MAP:" + types.TypeString(x.Map.Type(), func(*types.Package) string { return "" }), Root: r})
				}
				e.addSite(fe, in, true, nil, ws)
			case *ssa.Send:
				var ws []Write
				for _, r := range nonFresh(e.rootsOf(fe, x.Chan)) {
					ws = append(ws, Write{Loc: "CHAN", Root: r})
				}
				e.addSite(fe, in, true, nil, ws)
			case *ssa.Call:
				e.localCallWrites(fe, in, &x.Call)
			case *ssa.Defer:
				e.localCallWrites(fe, in, &x.Call)
			case *ssa.Go:
				e.localCallWrites(fe, in, &x.Call)
			}
		}
	}
	for _, s := range fe.sites {
		for _, w := range s.Writes {
			fe.writes[w] = true
		}
	}
}

func (e *Effects) localCallWrites(fe *fnEffects, in ssa.Instruction, c *ssa.CallCommon) {
	args := e.callArgs(c)
	if b, ok := c.Value.(*ssa.Builtin); ok {
		var ws []Write
		switch b.Name() {
		case "append":
			// append may write the spare capacity of its first argument
			if len(args) > 0 {
				for _, r := range nonFresh(e.rootsOf(fe, args[0])) {
					loc := "APPEND"
					if e.isStackTyped(args[0].Type()) {
						loc = "APPEND:stack"
					}
					ws = append(ws, Write{Loc: loc, Root: r})
				}
			}
		case "copy":
			if len(args) > 0 {
				for _, r := range nonFresh(e.rootsOf(fe, args[0])) {
					ws = append(ws, Write{Loc: "COPY", Root: r})
				}
			}
		case "delete":
			if len(args) > 0 {
				for _, r := range nonFresh(e.rootsOf(fe, args[0])) {
					ws = append(ws, Write{Loc: "MAP:" + types.TypeString(args[0].Type(), func(*types.Package) string { return "" }), Root: r})
				}
			}
		case "clear":
			if len(args) > 0 {
				for _, r := range nonFresh(e.rootsOf(fe, args[0])) {
					ws = append(ws, Write{Loc: "CLEAR", Root: r})
				}
			}
		}
		e.addSite(fe, in, true, nil, ws)
		return
	}
	if c.IsInvoke() {
		e.users = append(e.users, UserEdge{fe.fn, in, "invoke " + c.Method.FullName()})
		return
	}
	callee := e.p.callee(c)
	if callee == nil {
		e.users = append(e.users, UserEdge{fe.fn, in, "dynamic call of " + c.Value.Name() + " (" + c.Value.Type().String() + ")"})
		return
	}
	if _, ok := e.fns[callee]; ok {
		return // handled by propagateWrites
	}
	name := callee.String()
	if loc, ok := writerExternal[name]; ok {
		var ws []Write
		if len(args) > 0 {
			for _, r := range nonFresh(e.rootsOf(fe, args[0])) {
				ws = append(ws, Write{Loc: loc, Root: r})
			}
			if strings.HasPrefix(loc, "EXT:stdout") {
				ws = append(ws, Write{Loc: loc, Root: Root{Kind: 'g', Name: "os.Stdout"}})
			}
		}
		e.addSite(fe, in, true, callee, ws)
		return
	}
	if isPureExternal(name) || aliasExternal[name] {
		return
	}
	// unknown external: assume it may write through every pointer argument
	e.extUnknown[name] = true
	var ws []Write
	for _, a := range args {
		if !hasPointers(a.Type()) {
			continue
		}
		for _, r := range nonFresh(e.rootsOf(fe, a)) {
			ws = append(ws, Write{Loc: "EXT?:" + name, Root: r})
		}
	}
	e.addSite(fe, in, true, callee, ws)
}

// instantiate maps a callee-side write to caller-side writes at a call.
func (e *Effects) instantiate(fe *fnEffects, c *ssa.CallCommon, ce *fnEffects, w Write) []Write {
	args := e.callArgs(c)
	switch w.Root.Kind {
	case 'p':
		if w.Root.Idx >= len(args) {
			return nil
		}
		arg := args[w.Root.Idx]
		loc := w.Loc
		if strings.HasPrefix(loc, "DEREF:") && !w.Root.Elem {
			// the callee writes *Pk: name the location by what the argument points at
			loc = e.classifyAddr(arg)
		}
		var out []Write
		if w.Shallow && !w.Root.Elem {
			for _, r := range nonFresh(e.rootsOf(fe, arg)) {
				out = append(out, Write{Loc: loc, Root: r, Shallow: shallowAddr(arg)})
			}
			// The callee writes the cell its pointer argument points at.  That is a write to a
			// local copy only when the argument IS the address of (a part of) a local allocation.
			// A pointer merely derived from a local copy - returned by a call on it, loaded out
			// of it (config() on a spilled value receiver yields the shared *nodeConfig) - points
			// into whatever the copy shares with its original: one level down, i.e. shared memory.
			if !isLocalAddr(arg) {
				for _, r := range e.expandFresh(fe, e.rootsOf(fe, arg)) {
					dup := false
					for _, o := range out {
						if o.Root == r && o.Loc == loc {
							dup = true
						}
					}
					if !dup {
						out = append(out, Write{Loc: loc, Root: r})
					}
				}
			}
			return out
		}
		for _, r := range e.expandFresh(fe, e.rootsOf(fe, arg)) {
			if w.Root.Elem {
				r.Elem = true
			}
			out = append(out, Write{Loc: loc, Root: r})
		}
		return out
	case 'v':
		// free variable of a closure: opaque here
		return []Write{{Loc: w.Loc, Root: Root{Kind: 'u'}}}
	default:
		return []Write{w}
	}
}

func (e *Effects) propagateWrites(fe *fnEffects) bool {
	changed := false
	for _, b := range fe.fn.Blocks {
		for _, in := range b.Instrs {
			var c *ssa.CallCommon
			switch x := in.(type) {
			case *ssa.Call:
				c = &x.Call
			case *ssa.Defer:
				c = &x.Call
			case *ssa.Go:
				c = &x.Call
			}
			if c == nil {
				continue
			}
			callee := e.p.callee(c)
			ce, ok := e.fns[callee]
			if !ok {
				continue
			}
			for w := range ce.writes {
				for _, nw := range e.instantiate(fe, c, ce, w) {
					if !fe.writes[nw] {
						fe.writes[nw] = true
						changed = true
					}
				}
			}
		}
	}
	return changed
}

func (e *Effects) finalSites(fe *fnEffects) {
	for _, b := range fe.fn.Blocks {
		for _, in := range b.Instrs {
			var c *ssa.CallCommon
			switch x := in.(type) {
			case *ssa.Call:
				c = &x.Call
			case *ssa.Defer:
				c = &x.Call
			case *ssa.Go:
				c = &x.Call
			}
			if c == nil {
				continue
			}
			callee := e.p.callee(c)
			ce, ok := e.fns[callee]
			if !ok {
				continue
			}
			var ws []Write
			seen := map[Write]bool{}
			for w := range ce.writes {
				for _, nw := range e.instantiate(fe, c, ce, w) {
					if !seen[nw] {
						seen[nw] = true
						ws = append(ws, nw)
					}
				}
			}
			sort.Slice(ws, func(i, j int) bool { return ws[i].String() < ws[j].String() })
			e.addSite(fe, in, false, callee, ws)
		}
	}
	sort.SliceStable(fe.sites, func(i, j int) bool {
		return e.p.Fset.Position(fe.sites[i].Instr.Pos()).Offset < e.p.Fset.Position(fe.sites[j].Instr.Pos()).Offset
	})
}

// writesOf returns the sorted write summary of fn.
func (e *Effects) writesOf(fn *ssa.Function) []Write {
	fe := e.fns[fn]
	if fe == nil {
		return nil
	}
	var ws []Write
	for w := range fe.writes {
		ws = append(ws, w)
	}
	sort.Slice(ws, func(i, j int) bool { return ws[i].String() < ws[j].String() })
	return ws
}

// pure reports whether a call to fn cannot write non-fresh memory.
func (e *Effects) pure(fn *ssa.Function) bool {
	fe := e.fns[fn]
	if fe == nil {
		return false
	}
	return len(fe.writes) == 0
}
