package main

import (
	"fmt"
	"go/token"
	"go/types"
	"sort"
	"strings"

	"golang.org/x/tools/go/ssa"
)

// ---------------------------------------------------------------- R-NIL
//
// Census of every nil-panic-capable instruction of the package.  Each is
// discharged by a NONNIL fact on every path reaching it, by provenance
// (fresh allocation, object invariant), or becomes a *precondition* of the
// enclosing unexported function when the value is parameter-rooted; the
// precondition is then an obligation at every call site.  Exported entry
// points may have no precondition (except A-RECV: the pointer receiver of a
// pointer-receiver method).

type nilReq struct {
	fact   Fact
	origin string // where the requirement comes from (function chain + position)
}

type nilSite struct {
	instr ssa.Instruction
	val   ssa.Value // value that must be non-nil (nil for call-precondition sites)
	what  string
	reqs  []nilReq // for call sites: callee preconditions (already in callee terms)
	call  *ssa.CallCommon
}

type nilAnalysis struct {
	c        *Ctx
	requires map[*ssa.Function][]nilReq
	sites    map[*ssa.Function][]nilSite
	failed   map[*ssa.Function][]nilFail
	nsites   int
}

type nilFail struct {
	site   nilSite
	term   *Term
	detail string
}

func (c *Ctx) nilAnalysis() *nilAnalysis {
	if c.nilA != nil {
		return c.nilA
	}
	na := &nilAnalysis{c: c, requires: map[*ssa.Function][]nilReq{}, sites: map[*ssa.Function][]nilSite{}, failed: map[*ssa.Function][]nilFail{}}
	c.nilA = na
	for _, fn := range c.p.Funcs {
		na.sites[fn] = na.collectSites(fn)
		na.nsites += len(na.sites[fn])
	}
	for iter := 0; iter < 30; iter++ {
		changed := false
		for _, fn := range c.p.Funcs {
			if na.step(fn) {
				changed = true
			}
		}
		if !changed {
			break
		}
	}
	return na
}

func isPtr(t types.Type) bool {
	_, ok := t.Underlying().(*types.Pointer)
	return ok
}

func (na *nilAnalysis) collectSites(fn *ssa.Function) []nilSite {
	c := na.c
	var out []nilSite
	for _, b := range fn.Blocks {
		for _, in := range b.Instrs {
			switch x := in.(type) {
			case *ssa.UnOp:
				if x.Op == token.MUL {
					if a, _ := allocCell(x.X); a != nil {
						continue
					}
					out = append(out, nilSite{instr: in, val: x.X, what: "load through " + describePtr(x.X)})
				}
			case *ssa.Store:
				if a, _ := allocCell(x.Addr); a != nil {
					continue
				}
				switch x.Addr.(type) {
				case *ssa.FieldAddr, *ssa.IndexAddr, *ssa.Global:
					continue // the address computation itself carries the obligation
				}
				out = append(out, nilSite{instr: in, val: x.Addr, what: "store through " + describePtr(x.Addr)})
			case *ssa.FieldAddr:
				if _, ok := x.X.(*ssa.Alloc); ok {
					continue
				}
				out = append(out, nilSite{instr: in, val: x.X, what: "field " + fieldName(x) + " of " + describePtr(x.X)})
			case *ssa.IndexAddr:
				if isPtr(x.X.Type()) {
					if _, ok := x.X.(*ssa.Alloc); ok {
						continue
					}
					out = append(out, nilSite{instr: in, val: x.X, what: "index through array pointer"})
				}
			case *ssa.Slice:
				if isPtr(x.X.Type()) {
					if _, ok := x.X.(*ssa.Alloc); ok {
						continue
					}
					out = append(out, nilSite{instr: in, val: x.X, what: "slice of array pointer"})
				}
			case *ssa.MapUpdate:
				out = append(out, nilSite{instr: in, val: x.Map, what: "write to map"})
			case *ssa.Call, *ssa.Defer, *ssa.Go:
				cc := callCommon(in)
				if cc.IsInvoke() {
					out = append(out, nilSite{instr: in, val: cc.Value, what: "invoke " + cc.Method.Name() + " on interface " + typeStr(cc.Value.Type())})
					continue
				}
				if _, ok := cc.Value.(*ssa.Builtin); ok {
					continue
				}
				cal := c.p.callee(cc)
				if cal == nil {
					out = append(out, nilSite{instr: in, val: cc.Value, what: "call of function value"})
					continue
				}
				if c.p.inPkg(cal) {
					out = append(out, nilSite{instr: in, call: cc, what: "preconditions of " + relName(cal)})
					continue
				}
				// external method with pointer receiver: the receiver must not be nil
				if recv := cal.Signature.Recv(); recv != nil && isPtr(recv.Type()) && len(cc.Args) > 0 {
					out = append(out, nilSite{instr: in, val: cc.Args[0], what: "receiver of " + cal.String()})
				}
			}
		}
	}
	return out
}

func describePtr(v ssa.Value) string {
	switch x := v.(type) {
	case *ssa.Parameter:
		return "parameter " + x.Name()
	case *ssa.FieldAddr:
		return "&" + fieldName(x)
	case *ssa.Extract:
		if c, ok := x.Tuple.(*ssa.Call); ok {
			if cal := c.Call.StaticCallee(); cal != nil {
				return fmt.Sprintf("result %d of %s", x.Index, relName(cal))
			}
		}
	case *ssa.Call:
		if cal := x.Call.StaticCallee(); cal != nil {
			return "result of " + relName(cal)
		}
	case *ssa.UnOp:
		if x.Op == token.MUL {
			return "value loaded from " + describePtr(x.X)
		}
	}
	return typeStr(v.Type()) + " value"
}

func (na *nilAnalysis) assumptions(fn *ssa.Function) []Fact {
	var out []Fact
	for _, r := range na.requires[fn] {
		out = append(out, r.fact)
	}
	return out
}

func (na *nilAnalysis) addReq(fn *ssa.Function, r nilReq) bool {
	for _, x := range na.requires[fn] {
		if x.fact.Kind == r.fact.Kind && x.fact.T == r.fact.T && x.fact.Val == r.fact.Val {
			return false
		}
	}
	na.requires[fn] = append(na.requires[fn], r)
	sort.Slice(na.requires[fn], func(i, j int) bool {
		return factKey(na.requires[fn][i].fact.Kind, na.requires[fn][i].fact.T) < factKey(na.requires[fn][j].fact.Kind, na.requires[fn][j].fact.T)
	})
	return true
}

// step re-analyses fn under its current preconditions; returns true when a
// new precondition was added.
func (na *nilAnalysis) step(fn *ssa.Function) bool {
	c := na.c
	fa := c.eng.analyze(fn, na.assumptions(fn))
	changed := false
	var fails []nilFail
	for _, site := range na.sites[fn] {
		states := fa.statesBefore(site.instr)
		if site.call == nil {
			ok := true
			var t *Term
			for _, s := range states {
				if v, known := fa.nonNil(s, site.val); !known || !v {
					ok = false
					t = fa.term(s, site.val)
					break
				}
			}
			if ok {
				continue
			}
			if t != nil && t.paramRooted() && t.mentionsParam() {
				if na.addReq(fn, nilReq{Fact{aNN, t, true}, fmt.Sprintf("%s %s: %s", relName(fn), c.p.instrPos(site.instr), site.what)}) {
					changed = true
				}
				continue
			}
			if cand := na.abduce(fn, site); cand != nil {
				if cand.Kind == "noop" {
					changed = true
					continue
				}
				if na.addReq(fn, nilReq{*cand, fmt.Sprintf("%s %s: %s", relName(fn), c.p.instrPos(site.instr), site.what)}) {
					changed = true
				}
				continue
			}
			fails = append(fails, nilFail{site: site, term: t, detail: site.what + " may be nil here"})
			continue
		}
		// call site: callee preconditions
		cal := c.p.callee(site.call)
		for _, rq := range na.requires[cal] {
			ok := true
			var t *Term
			for _, s := range states {
				args := fa.argTerms(s, site.call)
				tt := c.eng.tt.subst(rq.fact.T, args)
				t = tt
				if tt == nil {
					ok = false
					break
				}
				if v, known := fa.knownTerm(s, rq.fact.Kind, tt); !known || v != rq.fact.Val {
					// try the value-level oracle for plain arguments
					if rq.fact.T.K == "P" && rq.fact.T.N < len(site.call.Args) {
						if v2, k2 := fa.nonNil(s, site.call.Args[rq.fact.T.N]); k2 && v2 == rq.fact.Val {
							continue
						}
					}
					ok = false
					break
				}
			}
			if ok {
				continue
			}
			if t != nil && t.paramRooted() && t.mentionsParam() {
				if na.addReq(fn, nilReq{Fact{rq.fact.Kind, t, rq.fact.Val}, fmt.Sprintf("%s %s -> %s", relName(fn), c.p.instrPos(site.instr), rq.origin)}) {
					changed = true
				}
				continue
			}
			if cand := na.abduce(fn, site); cand != nil {
				if cand.Kind == "noop" {
					changed = true
					continue
				}
				if na.addReq(fn, nilReq{*cand, fmt.Sprintf("%s %s -> %s", relName(fn), c.p.instrPos(site.instr), rq.origin)}) {
					changed = true
				}
				continue
			}
			fails = append(fails, nilFail{site: site, term: t, detail: fmt.Sprintf("%s requires %s non-nil (needed at %s)", relName(cal), rq.fact.T.key, rq.origin)})
		}
	}
	na.failed[fn] = fails
	return changed
}

// siteOK re-evaluates one site under the given analysis.
func (na *nilAnalysis) siteOK(fa *FnAnalysis, site nilSite) bool {
	c := na.c
	states := fa.statesBefore(site.instr)
	if site.call == nil {
		for _, s := range states {
			if v, known := fa.nonNil(s, site.val); !known || !v {
				return false
			}
		}
		return true
	}
	cal := c.p.callee(site.call)
	for _, rq := range na.requires[cal] {
		for _, s := range states {
			args := fa.argTerms(s, site.call)
			tt := c.eng.tt.subst(rq.fact.T, args)
			if tt == nil {
				return false
			}
			if v, known := fa.knownTerm(s, rq.fact.Kind, tt); !known || v != rq.fact.Val {
				if rq.fact.T.K == "P" && rq.fact.T.N < len(site.call.Args) {
					if v2, k2 := fa.nonNil(s, site.call.Args[rq.fact.T.N]); k2 && v2 == rq.fact.Val {
						continue
					}
				}
				return false
			}
		}
	}
	return true
}

// abduce looks for a single parameter-rooted non-nil hypothesis under which
// the failing site is discharged (e.g. "config() returns non-nil when the
// receiver is non-nil").  Candidates: every pointer/interface/map/func
// parameter, and the embedded pointer of every Stack/Condition parameter.
func (na *nilAnalysis) abduce(fn *ssa.Function, site nilSite) *Fact {
	c := na.c
	var cands []Fact
	for i, p := range fn.Params {
		pt := c.eng.tt.mk(Term{K: "P", N: i, S: p.Name()})
		if c.p.isNamed(p.Type(), "Stack") || c.p.isNamed(p.Type(), "Condition") {
			cands = append(cands, Fact{aNN, c.eng.tt.mk(Term{K: "F", A: pt, N: 0}), true})
			continue
		}
		switch p.Type().Underlying().(type) {
		case *types.Pointer, *types.Interface, *types.Map, *types.Signature:
			cands = append(cands, Fact{aNN, pt, true})
		}
	}
	base := na.assumptions(fn)
	if fa0 := c.eng.analyze(fn, base); na.siteOK(fa0, site) {
		// already discharged by a precondition added earlier in this round
		return &Fact{Kind: "noop"}
	}
	for _, cand := range cands {
		dup := false
		for _, b := range base {
			if b.Kind == cand.Kind && b.T == cand.T {
				dup = true
			}
		}
		if dup {
			continue
		}
		fa := c.eng.analyze(fn, append(append([]Fact{}, base...), cand))
		if na.siteOK(fa, site) {
			cc := cand
			return &cc
		}
	}
	return nil
}

func describeTermForUser(fn *ssa.Function, t *Term) string {
	if t == nil {
		return "?"
	}
	switch t.K {
	case "P":
		if t.N < len(fn.Params) {
			return fn.Params[t.N].Name()
		}
	case "F":
		base := describeTermForUser(fn, t.A)
		return base + fmt.Sprintf(".field%d", t.N)
	case "L":
		return "*" + describeTermForUser(fn, t.A)
	}
	return t.key
}

// ruleNil reports the census for the functions in scope (nil = whole
// package).  Preconditions of exported entry points are violations.
func (c *Ctx) ruleNil(rule string, scope []*ssa.Function) {
	na := c.nilAnalysis()
	rep := c.rep
	inScope := map[*ssa.Function]bool{}
	if scope == nil {
		scope = c.p.Funcs
	}
	for _, fn := range scope {
		inScope[fn] = true
	}
	exported := map[*ssa.Function]APIMethod{}
	for _, m := range c.api {
		exported[m.Fn] = m
	}
	total := 0
	for _, fn := range scope {
		fa := c.eng.analyze(fn, na.assumptions(fn))
		if fa.unstable {
			rep.undecided(rule, relName(fn), "analysis", c.p.pos(fn.Pos()), "fact propagation did not stabilise")
		}
		ord := newOrdinal()
		failed := map[ssa.Instruction][]nilFail{}
		for _, f := range na.failed[fn] {
			failed[f.site.instr] = append(failed[f.site.instr], f)
		}
		for _, site := range na.sites[fn] {
			total++
			construct := ord.next(site.what)
			pos := c.p.instrPos(site.instr)
			if fs := failed[site.instr]; len(fs) > 0 {
				var ds []string
				for _, f := range fs {
					ds = append(ds, f.detail)
				}
				rep.bad(rule, relName(fn), construct, pos, strings.Join(ds, "; "))
				continue
			}
			o := Obligation{Rule: rule, Key: rule + ":" + relName(fn) + ":" + construct, Fn: relName(fn), Pos: pos, Status: "discharged", By: "non-nil on every path (guard fact, provenance, invariant or caller-established precondition)"}
			rep.add(o)
		}
		// exported entry points: no precondition allowed
		if m, ok := exported[fn]; ok {
			for _, rq := range na.requires[fn] {
				if m.PtrRecv && rq.fact.T.K == "P" && rq.fact.T.N == 0 {
					rep.assume("A-RECV: the pointer receiver of " + m.String() + " is not nil")
					continue
				}
				rep.bad(rule, m.String(), "entry requires "+describeTermForUser(fn, rq.fact.T)+" non-nil", c.p.pos(fn.Pos()),
					fmt.Sprintf("exported entry point dereferences %s with no guard on some path: %s", describeTermForUser(fn, rq.fact.T), rq.origin))
			}
		}
	}
	rep.Extra[rule+"_sites"] = total
}

// ---------------------------------------------------------------- R-INV

// ruleInv proves the object invariants used as provenance by R-NIL:
// a field that is (1) set to a non-nil value by every function that
// allocates the struct and (2) never stored with a possibly-nil value.
func (c *Ctx) ruleInv() {
	type inv struct{ strct, field string }
	invs := []inv{{"condition", "cfg"}, {"nodeConfig", "log"}}
	// start without the invariants, prove them, then enable
	for _, iv := range invs {
		name := iv.strct + "." + iv.field
		okAll := true
		nalloc := 0
		nstore := 0
		for _, fn := range c.p.Funcs {
			var fa *FnAnalysis
			for _, b := range fn.Blocks {
				for _, in := range b.Instrs {
					switch x := in.(type) {
					case *ssa.Alloc:
						pt := x.Type().Underlying().(*types.Pointer)
						if !c.p.isNamed(pt.Elem(), iv.strct) {
							continue
						}
						// a local copy of an existing value (value receiver spill) is not a construction site
						if isSpill(x) {
							continue
						}
						nalloc++
						// the allocating function must store a value into the field of this
						// very object (address resolved through store-to-load forwarding),
						// in a block that dominates every return
						found := false
						if fa == nil {
							fa = c.eng.analyze(fn, nil)
						}
						allocTerm := c.eng.tt.mk(Term{K: "V", V: x})
						for _, b2 := range fn.Blocks {
							for _, in2 := range b2.Instrs {
								st, ok := in2.(*ssa.Store)
								if !ok {
									continue
								}
								f, ok := st.Addr.(*ssa.FieldAddr)
								if !ok || fieldName(f) != name {
									continue
								}
								same := fa.reachable(in2) && fa.allHold(in2, func(s *State) bool { return fa.term(s, f.X) == allocTerm })
								if !same {
									continue
								}
								dom := true
								for _, b3 := range fn.Blocks {
									if _, isRet := b3.Instrs[len(b3.Instrs)-1].(*ssa.Return); isRet && !b2.Dominates(b3) {
										dom = false
									}
								}
								if dom {
									found = true
								}
							}
						}
						if !found {
							okAll = false
							c.rep.bad("R-INV", relName(fn), "alloc "+iv.strct, c.p.instrPos(in), "allocates "+iv.strct+" without initialising "+iv.field)
						} else {
							c.rep.ok("R-INV", relName(fn), "alloc "+iv.strct+" sets "+iv.field, c.p.instrPos(in), "constructor stores the field")
						}
					case *ssa.Store:
						f, ok := x.Addr.(*ssa.FieldAddr)
						if !ok || fieldName(f) != name {
							continue
						}
						nstore++
						if fa == nil {
							fa = c.eng.analyze(fn, nil)
						}
						good := fa.allHold(in, func(s *State) bool {
							v, known := fa.nonNil(s, x.Val)
							return known && v
						})
						if good {
							c.rep.ok("R-INV", relName(fn), "store "+name, c.p.instrPos(in), "stored value is non-nil on every path")
						} else {
							okAll = false
							c.rep.bad("R-INV", relName(fn), "store "+name, c.p.instrPos(in), "a possibly nil value is stored into "+name+", which other code dereferences without a check")
						}
					}
				}
			}
		}
		if nalloc == 0 || nstore == 0 {
			okAll = false
			c.rep.bad("R-INV", iv.strct, "anchor "+name, "?", "no allocation or store of "+name+" found: anchor no longer resolves")
		}
		if okAll {
			c.eng.fieldNonNil[name] = true
		}
	}
	// package loggers: stored only in init with non-nil values
	for _, g := range []string{"devNull", "stdout", "stderr"} {
		ok := true
		n := 0
		for _, fn := range c.p.Funcs {
			for _, b := range fn.Blocks {
				for _, in := range b.Instrs {
					st, isStore := in.(*ssa.Store)
					if !isStore {
						continue
					}
					gl, isG := st.Addr.(*ssa.Global)
					if !isG || gl.Name() != g {
						continue
					}
					n++
					fa := c.eng.analyze(fn, nil)
					if !strings.HasPrefix(fn.Name(), "init") || !fa.allHold(in, func(s *State) bool { v, k := fa.nonNil(s, st.Val); return k && v }) {
						ok = false
					}
				}
			}
		}
		if ok && n > 0 {
			c.eng.globalNonNil[g] = true
			c.rep.ok("R-INV", "init", "global "+g, "?", "assigned only in the package initialiser, with a non-nil value")
		} else {
			c.rep.bad("R-INV", "init", "global "+g, "?", "package logger may be nil or is reassigned outside init")
		}
	}
	// the engine memoises analyses: drop them so that the invariants are used
	c.eng.fa = map[string]*FnAnalysis{}
	c.eng.sums = map[*ssa.Function]*Summary{}
	c.nilA = nil
}

// isSpill: `t0 = local T (r); *t0 = r` style copy of a parameter/value.
func isSpill(a *ssa.Alloc) bool {
	for _, r := range *a.Referrers() {
		if st, ok := r.(*ssa.Store); ok && st.Addr == a {
			return true // whole-value store: a copy of an existing value
		}
	}
	return false
}
