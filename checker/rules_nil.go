package main

import (
	"fmt"
	"os"
	"time"
	"go/token"
	"go/types"
	"sort"
	"strings"

	"golang.org/x/tools/go/ssa"
)

// ---------------------------------------------------------------- R-NIL
//
// Census of every nil-panic-capable instruction of the package (and, with
// the same precondition machinery, of every panicking reflect.Value call).  Each is
// discharged by a NONNIL fact on every path reaching it, by provenance
// (fresh allocation, object invariant), or becomes a *precondition* of the
// enclosing unexported function when the value is parameter-rooted; the
// precondition is then an obligation at every call site.  Exported entry
// points may have no precondition (except A-RECV: the pointer receiver of a
// pointer-receiver method).

// censusAssumed: obligations judged safe by reading that the abstract
// domains cannot discharge.  One entry per obligation key, with the reason;
// any other site - new, moved to another function, or a second instance in the
// same function - is still reported.
var censusAssumed = map[string]string{
	"R-BND:(*stack).defrag:slice stackage.stack": "the truncation index comes from verifyImplode's pattern bookkeeping: at loop index i the map holds i-1 entries, so last <= 2(len-1)-1-len-1 = len-4 and last+1 < len(*r); the guard last >= 0 gives the lower bound. A map-length/loop-counter relation is outside the linear domain (this is the part of C19 that is not decided).",
}

type nilReq struct {
	fact   Fact
	pc     []Fact // path condition (facts over the parameters) under which the need arises; empty = always
	origin string // where the requirement comes from (function chain + position)
}

func (r nilReq) key() string {
	ks := []string{fmt.Sprintf("%s=%v", factKey(r.fact.Kind, r.fact.T), r.fact.Val)}
	var ps []string
	for _, f := range r.pc {
		ps = append(ps, fmt.Sprintf("%s=%v", factKey(f.Kind, f.T), f.Val))
	}
	sort.Strings(ps)
	return strings.Join(append(ks, ps...), " & ")
}

// pcOf: the parameter-rooted part of a state, usable as a path condition.
func pcOf(s *State) []Fact {
	var out []Fact
	for _, f := range s.factList() {
		if f.Kind == aDID {
			continue
		}
		if f.T.summaryRooted(true) && f.T.mentionsParam() && termDepth(f.T) <= 12 {
			out = append(out, f)
		}
	}
	sort.Slice(out, func(i, j int) bool { return factKey(out[i].Kind, out[i].T) < factKey(out[j].Kind, out[j].T) })
	return out
}

// nilSite is one panic-capable instruction.  `need` returns the facts that
// are required but not established in a given state (empty = discharged).
type nilSite struct {
	rule  string
	instr ssa.Instruction
	what  string
	need  func(fa *FnAnalysis, s *State) []Fact
	call  *ssa.CallCommon // call of an in-package function: callee preconditions
}

type nilAnalysis struct {
	abdCache map[string]*Fact
	overflow map[*ssa.Function]bool
	deadline time.Time
	timedOut bool
	c        *Ctx
	callee   map[*ssa.Function][]nilReq // preconditions used for callees (previous round)
	requires map[*ssa.Function][]nilReq
	sites    map[*ssa.Function][]nilSite
	failed   map[*ssa.Function][]nilFail
	nsites   int
}

type nilFail struct {
	site   nilSite
	detail string
}

func (c *Ctx) nilAnalysis() *nilAnalysis {
	if c.nilA != nil {
		return c.nilA
	}
	c.forallPredicates()
	na := &nilAnalysis{c: c, requires: map[*ssa.Function][]nilReq{}, sites: map[*ssa.Function][]nilSite{}, failed: map[*ssa.Function][]nilFail{}, overflow: map[*ssa.Function]bool{}}
	na.deadline = time.Now().Add(20 * time.Minute)
	c.nilA = na
	for _, fn := range c.p.Funcs {
		na.sites[fn] = append(na.collectSites(fn), na.collectReflSites(fn)...)
		if c.wantBnd {
			na.sites[fn] = append(na.sites[fn], na.collectBndSites(fn)...)
		}
		na.nsites += len(na.sites[fn])
	}
	// Round-based (Jacobi) fixpoint: in each round every function's
	// preconditions are recomputed from scratch against the callee
	// preconditions of the previous round, so that nothing derived from an
	// intermediate state survives (the result does not depend on visiting order).
	prev := map[*ssa.Function][]nilReq{}
	for round := 0; round < 16; round++ {
		next := map[*ssa.Function][]nilReq{}
		for _, fn := range c.p.Funcs {
			if time.Now().After(na.deadline) {
				na.timedOut = true
				break
			}
			next[fn] = na.localFix(fn, prev)
		}
		if na.timedOut {
			break
		}
		same := true
		for _, fn := range c.p.Funcs {
			if reqsKey(next[fn]) != reqsKey(prev[fn]) {
				same = false
				break
			}
		}
		if dbg := os.Getenv("STACKCHECK_REQDEBUG"); dbg != "" {
			if fn := c.p.ByName[dbg]; fn != nil {
				fmt.Fprintf(os.Stderr, "round %d: %s has %d reqs\n", round, dbg, len(next[fn]))
				for _, r := range next[fn] {
					fmt.Fprintf(os.Stderr, "     %s  [%d pc]  <- %s\n", describeFact(r.fact), len(r.pc), r.origin)
				}
			}
		}
		prev = next
		if same {
			break
		}
	}
	na.callee = prev
	na.requires = prev
	for _, fn := range c.p.Funcs {
		na.step(fn)
	}
	return na
}

func reqsKey(rs []nilReq) string {
	var ks []string
	for _, r := range rs {
		ks = append(ks, r.key())
	}
	sort.Strings(ks)
	return strings.Join(ks, "\n")
}

// localFix computes the preconditions of fn from scratch, given the callee
// preconditions of the previous round.
func (na *nilAnalysis) localFix(fn *ssa.Function, callee map[*ssa.Function][]nilReq) []nilReq {
	na.callee = callee
	na.requires = map[*ssa.Function][]nilReq{}
	for i := 0; i < 12; i++ {
		if !na.step(fn) {
			break
		}
	}
	return na.requires[fn]
}

func isPtr(t types.Type) bool {
	_, ok := t.Underlying().(*types.Pointer)
	return ok
}

func (na *nilAnalysis) nnSite(in ssa.Instruction, v ssa.Value, what string) nilSite {
	return nilSite{rule: "R-NIL", instr: in, what: what, need: func(fa *FnAnalysis, s *State) []Fact {
		if ok, known := fa.nonNil(s, v); known && ok {
			return nil
		}
		return []Fact{{aNN, fa.term(s, v), true}}
	}}
}

func (na *nilAnalysis) collectSites(fn *ssa.Function) []nilSite {
	c := na.c
	var out []nilSite
	for _, b := range fn.Blocks {
		for _, in := range b.Instrs {
			switch x := in.(type) {
			case *ssa.UnOp:
				if x.Op == token.MUL {
					if a, _ := allocCell(x.X); a != nil {
						continue
					}
					out = append(out, na.nnSite(in, x.X, "load through "+describePtr(x.X)))
				}
			case *ssa.Store:
				if a, _ := allocCell(x.Addr); a != nil {
					continue
				}
				switch x.Addr.(type) {
				case *ssa.FieldAddr, *ssa.IndexAddr, *ssa.Global:
					continue // the address computation itself carries the obligation
				}
				out = append(out, na.nnSite(in, x.Addr, "store through "+describePtr(x.Addr)))
			case *ssa.FieldAddr:
				if _, ok := x.X.(*ssa.Alloc); ok {
					continue
				}
				out = append(out, na.nnSite(in, x.X, "field "+fieldName(x)+" of "+describePtr(x.X)))
			case *ssa.IndexAddr:
				if isPtr(x.X.Type()) {
					if _, ok := x.X.(*ssa.Alloc); ok {
						continue
					}
					out = append(out, na.nnSite(in, x.X, "index through array pointer"))
				}
			case *ssa.Slice:
				if isPtr(x.X.Type()) {
					if _, ok := x.X.(*ssa.Alloc); ok {
						continue
					}
					out = append(out, na.nnSite(in, x.X, "slice of array pointer"))
				}
			case *ssa.MapUpdate:
				out = append(out, na.nnSite(in, x.Map, "write to map"))
			case *ssa.TypeAssert:
				if !x.CommaOk {
					xa := x
					out = append(out, nilSite{rule: "R-TA", instr: in, what: "unchecked assertion to " + typeStr(x.AssertedType), need: func(fa *FnAnalysis, s *State) []Fact {
						t := c.eng.tt.mk(Term{K: "TAOK", S: typeStr(xa.AssertedType), Typ: xa.AssertedType, A: fa.term(s, xa.X)})
						if v, ok := fa.knownTerm(s, aTR, t); ok && v {
							return nil
						}
						return []Fact{{aTR, t, true}}
					}})
				}
			case *ssa.BinOp:
				if x.Op == token.QUO || x.Op == token.REM {
					if b, ok := x.Y.Type().Underlying().(*types.Basic); ok && b.Info()&types.IsInteger != 0 {
						xb := x
						out = append(out, nilSite{rule: "R-DIV", instr: in, what: "integer division", need: func(fa *FnAnalysis, s *State) []Fact {
							if k, ok := constIntOf(xb.Y); ok && k != 0 {
								return nil
							}
							zero := c.eng.tt.mk(Term{K: "B", S: "==", A: c.intConst(0), B: fa.term(s, xb.Y)})
							if v, ok := fa.knownTerm(s, aTR, zero); ok && !v {
								return nil
							}
							return []Fact{{aTR, zero, false}}
						}})
					}
				}
			case *ssa.Call, *ssa.Defer, *ssa.Go:
				cc := callCommon(in)
				if cc.IsInvoke() {
					out = append(out, na.nnSite(in, cc.Value, "invoke "+cc.Method.Name()+" on interface "+typeStr(cc.Value.Type())))
					continue
				}
				if _, ok := cc.Value.(*ssa.Builtin); ok {
					continue
				}
				cal := c.p.callee(cc)
				if cal == nil {
					out = append(out, na.nnSite(in, cc.Value, "call of function value"))
					continue
				}
				if c.p.inPkg(cal) {
					out = append(out, nilSite{rule: "R-NIL", instr: in, call: cc, what: "preconditions of " + relName(cal)})
					continue
				}
				// external method with pointer receiver: the receiver must not be nil
				if recv := cal.Signature.Recv(); recv != nil && isPtr(recv.Type()) && len(cc.Args) > 0 {
					out = append(out, na.nnSite(in, cc.Args[0], "receiver of "+cal.String()))
				}
			}
		}
	}
	return out
}

// collectReflSites: calls of panicking reflect.Value methods (table in rules_refl.go).
func (na *nilAnalysis) collectReflSites(fn *ssa.Function) []nilSite {
	c := na.c
	var out []nilSite
	for _, b := range fn.Blocks {
		for _, in := range b.Instrs {
			call, ok := in.(*ssa.Call)
			if !ok {
				continue
			}
			cal := call.Call.StaticCallee()
			if cal == nil {
				continue
			}
			req, ok := reflTable[cal.String()]
			if !ok {
				continue
			}
			short := strings.TrimPrefix(cal.String(), "(reflect.Value).")
			recv := call.Call.Args[0]
			out = append(out, nilSite{rule: "R-REFL", instr: in, what: "Value." + short, need: func(fa *FnAnalysis, s *State) []Fact {
				var missing []Fact
				vt := fa.term(s, recv)
				if req.valid {
					if v, ok := fa.knownTerm(s, aVALID, vt); !ok || !v {
						missing = append(missing, Fact{aVALID, vt, true})
					}
				}
				if req.canif && !c.canifOK(fa, s, recv) {
					missing = append(missing, Fact{aCANIF, vt, true})
				}
				if len(req.kinds) > 0 {
					kk := kindInKind(req.kinds)
					if v, ok := fa.knownTerm(s, kk, vt); !ok || !v {
						missing = append(missing, Fact{kk, vt, true})
					}
				}
				return missing
			}})
		}
	}
	return out
}

func describePtr(v ssa.Value) string {
	switch x := v.(type) {
	case *ssa.Parameter:
		return "parameter " + x.Name()
	case *ssa.FieldAddr:
		return "&" + fieldName(x)
	case *ssa.Extract:
		if c, ok := x.Tuple.(*ssa.Call); ok {
			if cal := c.Call.StaticCallee(); cal != nil {
				return fmt.Sprintf("result %d of %s", x.Index, relName(cal))
			}
		}
	case *ssa.Call:
		if cal := x.Call.StaticCallee(); cal != nil {
			return "result of " + relName(cal)
		}
	case *ssa.UnOp:
		if x.Op == token.MUL {
			return "value loaded from " + describePtr(x.X)
		}
	}
	return typeStr(v.Type()) + " value"
}

func (na *nilAnalysis) assumptions(fn *ssa.Function) []Fact {
	var out []Fact
	for _, r := range na.requires[fn] {
		if len(r.pc) == 0 {
			out = append(out, r.fact)
		}
	}
	return out
}

func (na *nilAnalysis) addReq(fn *ssa.Function, r nilReq) bool {
	k := r.key()
	same := 0
	for _, x := range na.requires[fn] {
		if x.key() == k {
			return false
		}
		if x.fact.Kind == r.fact.Kind && x.fact.T == r.fact.T && x.fact.Val == r.fact.Val {
			if len(x.pc) == 0 {
				return false // already required unconditionally
			}
			same++
		}
	}
	if same >= 12 && len(r.pc) > 0 {
		// too many variants of the same need: require it unconditionally
		r.pc = nil
		var keep []nilReq
		for _, x := range na.requires[fn] {
			if !(x.fact.Kind == r.fact.Kind && x.fact.T == r.fact.T && x.fact.Val == r.fact.Val) {
				keep = append(keep, x)
			}
		}
		na.requires[fn] = keep
	}
	if len(na.requires[fn]) >= 96 {
		// budget: do not let preconditions multiply without bound; an unrecorded need
		// is reported at the site instead (never silently dropped)
		na.overflow[fn] = true
		return false
	}
	na.requires[fn] = append(na.requires[fn], r)
	sort.Slice(na.requires[fn], func(i, j int) bool { return na.requires[fn][i].key() < na.requires[fn][j].key() })
	return true
}

// covered: the needed fact is a (conditional) precondition whose path
// condition holds in s.
func (na *nilAnalysis) covered(fa *FnAnalysis, s *State, f Fact) bool {
	for _, r := range na.requires[fa.fn] {
		if r.fact.Kind != f.Kind || r.fact.T != f.T || r.fact.Val != f.Val {
			continue
		}
		ok := true
		for _, p := range r.pc {
			if v, known := fa.knownTerm(s, p.Kind, p.T); !known || v != p.Val {
				ok = false
				break
			}
		}
		if ok {
			return true
		}
	}
	return false
}

// missing returns the needs a site still has in some state under fa, each
// with the path condition of that state.
func (na *nilAnalysis) missing(fa *FnAnalysis, site nilSite) []nilReq {
	c := na.c
	var out []nilReq
	seen := map[string]bool{}
	add := func(r nilReq) {
		k := r.key()
		if !seen[k] {
			seen[k] = true
			out = append(out, r)
		}
	}
	states := fa.statesBefore(site.instr)
	if site.call == nil {
		for _, s := range states {
			for _, f := range site.need(fa, s) {
				if na.covered(fa, s, f) {
					continue
				}
				add(nilReq{f, pcOf(s), fmt.Sprintf("%s %s: %s", relName(fa.fn), c.p.instrPos(site.instr), site.what)})
			}
		}
		return out
	}
	cal := c.p.callee(site.call)
	for _, rq := range na.callee[cal] {
		for _, s := range states {
			c.eng.tt.locEpochFn = s.locEpoch
			args := fa.argTerms(s, site.call)
			origin := fmt.Sprintf("%s %s -> %s", relName(fa.fn), c.p.instrPos(site.instr), rq.origin)
			// assume the callee-side path condition in a scratch copy of the state
			tmp := s
			var carried []Fact
			if len(rq.pc) > 0 {
				tmp = s.clone()
				for _, p := range rq.pc {
					pt := c.eng.tt.substFull(p.T, args, nil, s.epoch)
					if pt == nil {
						continue // dropping a conjunct only strengthens the requirement
					}
					fa.addTermFact(tmp, p.Kind, pt, p.Val)
					if pt.summaryRooted(true) && pt.mentionsParam() && termDepth(pt) <= 12 {
						carried = append(carried, Fact{p.Kind, pt, p.Val})
					}
				}
				if tmp.dead {
					continue // this caller state never reaches the callee's need
				}
			}
			if len(rq.pc) > 0 && rq.fact.Kind == aTR && c.stateInfeasible(fa, tmp, c.stackValues(fa.fn)) {
				continue // the callee-side path condition cannot hold here
			}
			tt := c.eng.tt.substFull(rq.fact.T, args, nil, s.epoch)
			if tt == nil {
				add(nilReq{Fact{rq.fact.Kind, c.eng.tt.mk(Term{K: "V", V: site.instr.(ssa.Value)}), rq.fact.Val}, nil, origin})
				continue
			}
			if v, known := fa.knownTerm(tmp, rq.fact.Kind, tt); known && v == rq.fact.Val {
				continue
			}
			if rq.fact.Kind == aTR && tt.K == "B" && c.provesFact(fa, tmp, Fact{rq.fact.Kind, tt, rq.fact.Val}, c.stackValues(fa.fn)) {
				continue
			}
			// evaluate the pure calls the needed term is built from under the hypotheses
			// (virtual calls: the caller need not perform them itself)
			if subs := appSubterms(tt); len(subs) > 0 {
				if tmp == s {
					tmp = s.clone()
				}
				for _, p := range rq.pc {
					if pt := c.eng.tt.substFull(p.T, args, nil, s.epoch); pt != nil {
						for _, sub := range appSubterms(pt) {
							fa.refineApp(tmp, sub, 0)
						}
					}
				}
				for _, sub := range subs {
					fa.refineApp(tmp, sub, 0)
				}
				if tmp.dead {
					continue
				}
				if v, known := fa.knownTerm(tmp, rq.fact.Kind, tt); known && v == rq.fact.Val {
					continue
				}
			}
			if rq.fact.Kind == aNN && rq.fact.T.K == "P" && rq.fact.T.N < len(site.call.Args) {
				if v2, k2 := fa.nonNil(tmp, site.call.Args[rq.fact.T.N]); k2 && v2 == rq.fact.Val {
					continue
				}
			}
			need := Fact{rq.fact.Kind, tt, rq.fact.Val}
			if na.covered(fa, s, need) {
				continue
			}
			if os.Getenv("STACKCHECK_MISSDEBUG") == relName(fa.fn) {
				fmt.Fprintf(os.Stderr, "MISS at %s %s: need %s\n   callee req pc:\n", relName(fa.fn), c.p.instrPos(site.instr), describeFact(need))
				for _, p := range rq.pc {
					fmt.Fprintf(os.Stderr, "      %s=%v\n", factKey(p.Kind, p.T), p.Val)
				}
				fmt.Fprintf(os.Stderr, "   tmp state: %s\n", tmp.describe())
			}
			add(nilReq{need, append(pcOf(s), carried...), origin})
		}
	}
	c.eng.tt.locEpochFn = nil
	return out
}

// step re-analyses fn under its current preconditions; returns true when a
// new precondition was added.
func (na *nilAnalysis) step(fn *ssa.Function) bool {
	c := na.c
	fa := c.eng.analyze(fn, na.assumptions(fn))
	changed := false
	var fails []nilFail
	for _, site := range na.sites[fn] {
		checkBudget()
		if _, isDefer := site.instr.(*ssa.Defer); isDefer && site.call != nil {
			// deferred call: judged where it is registered
		}
		miss := na.missing(fa, site)
		if len(miss) == 0 {
			continue
		}
		if na.overflow[fn] {
			var ds []string
			for _, m := range miss {
				ds = append(ds, describeFact(m.fact))
			}
			fails = append(fails, nilFail{site: site, detail: site.what + ": precondition budget of the function exhausted; still needed: " + strings.Join(ds, ", ")})
			continue
		}
		// 1. strictly parameter-rooted needs become preconditions
		var rest []nilReq
		for _, m := range miss {
			if m.fact.T != nil && m.fact.T.paramRooted() && m.fact.T.mentionsParam() {
				// plain parameter needs stay unconditional when the parameter is a pointer the
				// function dereferences on its main path; otherwise keep the path condition
				if m.fact.Kind == aNN && na.unconditionalOK(fn, m) {
					m.pc = nil
				}
				if na.addReq(fn, m) {
					changed = true
				}
				continue
			}
			rest = append(rest, m)
		}
		if len(rest) == 0 {
			continue
		}
		// 2. a simple hypothesis on a parameter that discharges the site
		if cand := na.abduce(fn, site); cand != nil {
			if cand.Kind == "noop" {
				changed = true
				continue
			}
			if na.addReq(fn, nilReq{*cand, nil, fmt.Sprintf("%s %s: %s", relName(fn), c.p.instrPos(site.instr), site.what)}) {
				changed = true
			}
			continue
		}
		// 3. needs expressed through pure calls / entry-state loads of the parameters
		var local []string
		for _, m := range rest {
			if m.fact.T != nil && m.fact.T.summaryRooted(true) && m.fact.T.mentionsParam() && termDepth(m.fact.T) <= 12 {
				if na.addReq(fn, m) {
					changed = true
				}
				continue
			}
			local = append(local, describeFact(m.fact))
		}
		if len(local) == 0 {
			continue
		}
		detail := site.what + ": not established on every path: " + strings.Join(local, ", ")
		if site.call != nil {
			detail = fmt.Sprintf("%s: callee precondition not established: %s", site.what, strings.Join(local, ", "))
		}
		fails = append(fails, nilFail{site: site, detail: detail})
	}
	na.failed[fn] = fails
	return changed
}

// unconditionalOK: a non-nil need on a bare pointer parameter (receiver
// style) is recorded without its path condition; this keeps the common
// "worker assumes an initialised receiver" preconditions small.
func (na *nilAnalysis) unconditionalOK(fn *ssa.Function, m nilReq) bool {
	t := m.fact.T
	if t.K == "P" {
		return true
	}
	if t.K == "F" && t.A.K == "P" && t.N == 0 {
		return true
	}
	return false
}

func termDepth(t *Term) int {
	if t == nil {
		return 0
	}
	a, b := termDepth(t.A), termDepth(t.B)
	if b > a {
		a = b
	}
	return a + 1
}

func describeFact(f Fact) string {
	switch {
	case f.Kind == aNN:
		return "non-nil " + f.T.key
	case f.Kind == aVALID:
		return "valid reflect.Value " + f.T.key
	case f.Kind == aCANIF:
		return "CanInterface " + f.T.key
	case strings.HasPrefix(f.Kind, "kindin:"):
		return "Kind in {" + strings.TrimPrefix(f.Kind, "kindin:") + "} of " + f.T.key
	}
	return f.Kind + " " + f.T.key
}

// siteOK re-evaluates one site under the given analysis.
func (na *nilAnalysis) siteOK(fa *FnAnalysis, site nilSite) bool {
	return len(na.missing(fa, site)) == 0
}

// abduce looks for a single parameter-rooted non-nil hypothesis under which
// the failing site is discharged (e.g. "config() returns non-nil when the
// receiver is non-nil").  Candidates: every pointer/interface/map/func
// parameter, and the embedded pointer of every Stack/Condition parameter.
func (na *nilAnalysis) abduce(fn *ssa.Function, site nilSite) *Fact {
	// identical queries recur in every round of the fixpoint: memoise
	key := fmt.Sprintf("%s|%d|%s", relName(fn), na.c.eng.instrID[site.instr], assumeKey(na.assumptions(fn)))
	if site.call != nil {
		key += "|" + reqsKey(na.callee[na.c.p.callee(site.call)])
	}
	key += "|" + reqsKey(na.requires[fn])
	if na.abdCache == nil {
		na.abdCache = map[string]*Fact{}
	}
	if f, ok := na.abdCache[key]; ok {
		return f
	}
	f := na.abduceUncached(fn, site)
	na.abdCache[key] = f
	return f
}

func (na *nilAnalysis) abduceUncached(fn *ssa.Function, site nilSite) *Fact {
	c := na.c
	var cands []Fact
	for i, p := range fn.Params {
		pt := c.eng.tt.mk(Term{K: "P", N: i, S: p.Name()})
		if c.p.isNamed(p.Type(), "Stack") || c.p.isNamed(p.Type(), "Condition") {
			cands = append(cands, Fact{aNN, c.eng.tt.mk(Term{K: "F", A: pt, N: 0}), true})
			continue
		}
		switch p.Type().Underlying().(type) {
		case *types.Pointer, *types.Interface, *types.Map, *types.Signature:
			cands = append(cands, Fact{aNN, pt, true})
		}
		if typeStr(p.Type()) == "reflect.Value" {
			cands = append(cands, Fact{aVALID, pt, true})
		}
	}
	if site.rule == "R-BND" {
		if f := na.abduceLinear(fn, site); f != nil {
			return f
		}
	}
	base := na.assumptions(fn)
	if fa0 := c.eng.analyze(fn, base); na.siteOK(fa0, site) {
		// already discharged by a precondition added earlier in this round
		return &Fact{Kind: "noop"}
	}
	for _, cand := range cands {
		dup := false
		for _, b := range base {
			if b.Kind == cand.Kind && b.T == cand.T {
				dup = true
			}
		}
		if dup {
			continue
		}
		fa := c.eng.analyze(fn, append(append([]Fact{}, base...), cand))
		if na.siteOK(fa, site) {
			// necessity: if the site is also fine (or unreachable) when the hypothesis is
			// false, the hypothesis is not what the site needs - keep looking
			neg := cand
			neg.Val = !neg.Val
			if fneg := c.eng.analyze(fn, append(append([]Fact{}, base...), neg)); na.siteOK(fneg, site) {
				continue
			}
			cc := cand
			return &cc
		}
	}
	return nil
}

// abduceLinear: for an index/slice site, look for simple linear facts over
// the parameters (non-negative ints, non-empty slices, equal lengths, length
// equal to the receiver stack's length) that discharge the site; a smallest
// sufficient subset becomes the function's precondition (one fact per round).
func (na *nilAnalysis) abduceLinear(fn *ssa.Function, site nilSite) *Fact {
	c := na.c
	tt := c.eng.tt
	var cands []Fact
	var lens []*Term
	for i, p := range fn.Params {
		pt := tt.mk(Term{K: "P", N: i, S: p.Name()})
		switch u := p.Type().Underlying().(type) {
		case *types.Basic:
			if u.Info()&types.IsInteger != 0 {
				cands = append(cands, Fact{aTR, tt.mk(Term{K: "B", S: "<=", A: c.intConst(0), B: pt}), true})
			}
		case *types.Slice:
			lt := tt.mk(Term{K: "LEN", A: pt})
			if !c.p.isNamed(p.Type(), "stack") {
				cands = append(cands, Fact{aTR, tt.mk(Term{K: "B", S: "<=", A: c.intConst(1), B: lt}), true})
			}
			lens = append(lens, lt)
		case *types.Pointer:
			if c.p.isNamed(u.Elem(), "stack") {
				lens = append(lens, tt.mk(Term{K: "LEN", A: tt.mk(Term{K: "L", A: pt, N: 0, S: "HDR"})}))
			}
		}
	}
	for i, p := range fn.Params {
		if u, ok := p.Type().Underlying().(*types.Basic); ok && u.Info()&types.IsInteger != 0 {
			pt := tt.mk(Term{K: "P", N: i, S: p.Name()})
			for _, lt := range lens {
				cands = append(cands, Fact{aTR, tt.mk(Term{K: "B", S: "<=", A: pt, B: lt}), true})
			}
		}
	}
	for i := 0; i < len(lens); i++ {
		for j := i + 1; j < len(lens); j++ {
			cands = append(cands, Fact{aTR, tt.mk(Term{K: "B", S: "==", A: lens[i], B: lens[j]}), true})
		}
	}
	base := na.assumptions(fn)
	has := func(f Fact) bool {
		for _, b := range base {
			if b.Kind == f.Kind && b.T == f.T && b.Val == f.Val {
				return true
			}
		}
		return false
	}
	var fresh []Fact
	for _, f := range cands {
		if !has(f) {
			fresh = append(fresh, f)
		}
	}
	if len(fresh) == 0 {
		return nil
	}
	all := append(append([]Fact{}, base...), fresh...)
	if !na.siteOK(c.eng.analyze(fn, all), site) {
		return nil
	}
	// drop candidates that are not needed
	keep := append([]Fact{}, fresh...)
	for i := 0; i < len(keep); {
		trial := append([]Fact{}, base...)
		for j, f := range keep {
			if j != i {
				trial = append(trial, f)
			}
		}
		if na.siteOK(c.eng.analyze(fn, trial), site) {
			keep = append(keep[:i], keep[i+1:]...)
			continue
		}
		i++
	}
	if len(keep) == 0 {
		return &Fact{Kind: "noop"}
	}
	f := keep[0]
	return &f
}

func describeTermForUser(fn *ssa.Function, t *Term) string {
	if t == nil {
		return "?"
	}
	switch t.K {
	case "P":
		if t.N < len(fn.Params) {
			return fn.Params[t.N].Name()
		}
	case "F":
		base := describeTermForUser(fn, t.A)
		return base + fmt.Sprintf(".field%d", t.N)
	case "L":
		return "*" + describeTermForUser(fn, t.A)
	}
	return t.key
}

// ruleNil reports the census for the functions in scope (nil = whole
// package).  Preconditions of exported entry points are violations.
func (c *Ctx) ruleNil(rule string, scope []*ssa.Function) {
	c.ruleCensus(scope, map[string]bool{"R-NIL": true})
}

func (c *Ctx) ruleRefl(rule string, scope []*ssa.Function) {
	c.ruleCensus(scope, map[string]bool{"R-REFL": true})
	c.ruleCanif()
}

func (c *Ctx) ruleCensus(scope []*ssa.Function, rules map[string]bool) {
	if rules["R-BND"] && !c.wantBnd {
		c.wantBnd = true
		c.nilA = nil
	}
	na := c.nilAnalysis()
	rep := c.rep
	if scope == nil {
		scope = c.p.Funcs
	}
	exported := map[*ssa.Function]APIMethod{}
	for _, m := range c.api {
		exported[m.Fn] = m
	}
	if na.timedOut {
		rep.undecided("R-NIL", "package", "analysis budget", "?", "the precondition fixpoint did not finish within its time budget; nothing can be concluded")
	}
	counts := map[string]int{}
	for _, fn := range scope {
		fa := c.eng.analyze(fn, na.assumptions(fn))
		if fa.unstable {
			rep.undecided("R-NIL", relName(fn), "analysis", c.p.pos(fn.Pos()), "fact propagation did not stabilise")
		}
		ord := newOrdinal()
		failed := map[ssa.Instruction][]nilFail{}
		for _, f := range na.failed[fn] {
			failed[f.site.instr] = append(failed[f.site.instr], f)
		}
		for _, site := range na.sites[fn] {
			construct := ord.next(site.what)
			if !rules[site.rule] {
				continue
			}
			if c.censusOnly != nil {
				var ds []string
				for _, f := range failed[site.instr] {
					if f.site.what == site.what {
						ds = append(ds, f.detail)
					}
				}
				if !c.censusOnly(site.what, strings.Join(ds, "; ")) {
					continue
				}
			}
			counts[site.rule]++
			pos := c.p.instrPos(site.instr)
			if fs := failed[site.instr]; len(fs) > 0 {
				var ds []string
				for _, f := range fs {
					if f.site.what == site.what {
						ds = append(ds, f.detail)
					}
				}
				if len(ds) > 0 {
					key := site.rule + ":" + relName(fn) + ":" + construct
					if why, ok := censusAssumed[key]; ok {
						rep.add(Obligation{Rule: site.rule, Key: key, Fn: relName(fn), Pos: pos, Status: "discharged", By: "ASSUMED (judged safe by reading, beyond the abstract domain): " + why})
						rep.assume(key + ": " + why)
						continue
					}
					rep.bad(site.rule, relName(fn), construct, pos, strings.Join(ds, "; "))
					continue
				}
			}
			by := "non-nil on every path (guard fact, provenance, invariant or caller-established precondition)"
			if site.rule == "R-BND" {
				by = "0 <= index < len proved for every int value on every path (linear entailment from branch facts, overflow-aware; or caller-established precondition)"
			}
			if site.rule == "R-REFL" {
				by = "validity / kind / accessibility of the receiver established on every path (local guard, summary or caller-established precondition)"
			}
			rep.add(Obligation{Rule: site.rule, Key: site.rule + ":" + relName(fn) + ":" + construct, Fn: relName(fn), Pos: pos, Status: "discharged", By: by})
		}
		// exported entry points: no precondition allowed
		if m, ok := exported[fn]; ok {
			for _, rq := range na.requires[fn] {
				rule := "R-NIL"
				if rq.fact.Kind != aNN {
					rule = "R-REFL"
				}
				if rq.fact.Kind == aTR {
					rule = "R-BND"
					if rq.fact.T.K == "TAOK" {
						rule = "R-TA"
					}
				}
				if !rules[rule] {
					continue
				}
				if c.censusOnly != nil && !c.censusOnly("entry", rq.origin) {
					continue
				}
				if m.PtrRecv && rq.fact.Kind == aNN && rq.fact.T.K == "P" && rq.fact.T.N == 0 {
					rep.assume("A-RECV: the pointer receiver of " + m.String() + " is not nil")
					continue
				}
				rep.bad(rule, m.String(), "entry requires "+describeFactForUser(fn, rq.fact), c.p.pos(fn.Pos()),
					fmt.Sprintf("exported entry point needs %s with no guard on some path: %s", describeFactForUser(fn, rq.fact), rq.origin))
			}
		}
	}
	for r, n := range counts {
		rep.Extra[r+"_sites"] = n
	}
}

func describeFactForUser(fn *ssa.Function, f Fact) string {
	t := describeTermForUser(fn, f.T)
	switch {
	case f.Kind == aNN:
		return t + " non-nil"
	case f.Kind == aVALID:
		return t + " to be a valid reflect.Value"
	case f.Kind == aCANIF:
		return t + " to be readable (CanInterface)"
	case f.Kind == aTR:
		return "the bound " + f.T.key + fmt.Sprintf("=%v", f.Val)
	}
	return t + " " + f.Kind
}

// ---------------------------------------------------------------- R-INV

// ruleInv proves the object invariants used as provenance by R-NIL:
// a field that is (1) set to a non-nil value by every function that
// allocates the struct and (2) never stored with a possibly-nil value.
func (c *Ctx) ruleInv() {
	defer c.ruleIndexLemma()
	type inv struct{ strct, field string }
	invs := []inv{{"condition", "cfg"}, {"nodeConfig", "log"}}
	// start without the invariants, prove them, then enable
	for _, iv := range invs {
		name := iv.strct + "." + iv.field
		okAll := true
		nalloc := 0
		nstore := 0
		for _, fn := range c.p.Funcs {
			var fa *FnAnalysis
			for _, b := range fn.Blocks {
				for _, in := range b.Instrs {
					switch x := in.(type) {
					case *ssa.Alloc:
						pt := x.Type().Underlying().(*types.Pointer)
						if !c.p.isNamed(pt.Elem(), iv.strct) {
							continue
						}
						// a local copy of an existing value (value receiver spill) is not a construction site
						if isSpill(x) {
							continue
						}
						nalloc++
						// the allocating function must store a value into the field of this
						// very object (address resolved through store-to-load forwarding),
						// in a block that dominates every return
						found := false
						if fa == nil {
							fa = c.eng.analyze(fn, nil)
						}
						allocTerm := c.eng.tt.mk(Term{K: "V", V: x})
						for _, b2 := range fn.Blocks {
							for _, in2 := range b2.Instrs {
								st, ok := in2.(*ssa.Store)
								if !ok {
									continue
								}
								f, ok := st.Addr.(*ssa.FieldAddr)
								if !ok || fieldName(f) != name {
									continue
								}
								same := fa.reachable(in2) && fa.allHold(in2, func(s *State) bool { return fa.term(s, f.X) == allocTerm })
								if !same {
									continue
								}
								dom := true
								for _, b3 := range fn.Blocks {
									if _, isRet := b3.Instrs[len(b3.Instrs)-1].(*ssa.Return); isRet && !b2.Dominates(b3) {
										dom = false
									}
								}
								if dom {
									found = true
								}
							}
						}
						if !found {
							okAll = false
							c.rep.bad("R-INV", relName(fn), "alloc "+iv.strct, c.p.instrPos(in), "allocates "+iv.strct+" without initialising "+iv.field)
						} else {
							c.rep.ok("R-INV", relName(fn), "alloc "+iv.strct+" sets "+iv.field, c.p.instrPos(in), "constructor stores the field")
						}
					case *ssa.Store:
						f, ok := x.Addr.(*ssa.FieldAddr)
						if !ok || fieldName(f) != name {
							continue
						}
						nstore++
						if fa == nil {
							fa = c.eng.analyze(fn, nil)
						}
						good := fa.allHold(in, func(s *State) bool {
							v, known := fa.nonNil(s, x.Val)
							return known && v
						})
						if good {
							c.rep.ok("R-INV", relName(fn), "store "+name, c.p.instrPos(in), "stored value is non-nil on every path")
						} else {
							okAll = false
							c.rep.bad("R-INV", relName(fn), "store "+name, c.p.instrPos(in), "a possibly nil value is stored into "+name+", which other code dereferences without a check")
						}
					}
				}
			}
		}
		if nalloc == 0 || nstore == 0 {
			okAll = false
			c.rep.bad("R-INV", iv.strct, "anchor "+name, "?", "no allocation or store of "+name+" found: anchor no longer resolves")
		}
		if okAll {
			c.eng.fieldNonNil[name] = true
		}
	}
	// package loggers: stored only in init with non-nil values
	for _, g := range []string{"devNull", "stdout", "stderr"} {
		ok := true
		n := 0
		for _, fn := range c.p.Funcs {
			for _, b := range fn.Blocks {
				for _, in := range b.Instrs {
					st, isStore := in.(*ssa.Store)
					if !isStore {
						continue
					}
					gl, isG := st.Addr.(*ssa.Global)
					if !isG || gl.Name() != g {
						continue
					}
					n++
					fa := c.eng.analyze(fn, nil)
					if !strings.HasPrefix(fn.Name(), "init") || !fa.allHold(in, func(s *State) bool { v, k := fa.nonNil(s, st.Val); return k && v }) {
						ok = false
					}
				}
			}
		}
		if ok && n > 0 {
			c.eng.globalNonNil[g] = true
			c.rep.ok("R-INV", "init", "global "+g, "?", "assigned only in the package initialiser, with a non-nil value")
		} else {
			c.rep.bad("R-INV", "init", "global "+g, "?", "package logger may be nil or is reassigned outside init")
		}
	}
	// the engine memoises analyses: drop them so that the invariants are used
	c.eng.fa = map[string]*FnAnalysis{}
	c.eng.sums = map[*ssa.Function]*Summary{}
	c.nilA = nil
}

// isSpill: `t0 = local T (r); *t0 = r` style copy of a parameter/value.
func isSpill(a *ssa.Alloc) bool {
	for _, r := range *a.Referrers() {
		if st, ok := r.(*ssa.Store); ok && st.Addr == a {
			return true // whole-value store: a copy of an existing value
		}
	}
	return false
}
