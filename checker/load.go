package main

import (
	"fmt"
	"go/ast"
	"go/token"
	"go/types"
	"os"
	"sort"
	"strings"

	"golang.org/x/tools/go/packages"
	"golang.org/x/tools/go/ssa"
	"golang.org/x/tools/go/ssa/ssautil"
)

// Program is the shared, re-loaded-on-every-run model of /repo.
type Program struct {
	Repo   string
	Fset   *token.FileSet
	Pkg    *packages.Package
	SSA    *ssa.Package
	Prog   *ssa.Program
	Types  *types.Package
	Funcs  []*ssa.Function          // every source function/method/closure of the package, sorted
	ByName map[string]*ssa.Function // "Stack.Push", "(*stack).push", "newStack"
	Alias  map[*ssa.Global]*ssa.Function // package-level func vars with a single initialiser (typOf, uc, ...)
	AliasX map[*ssa.Global]string   // same, for external functions: "reflect.TypeOf"
	NInstr int
	Files  []string
}

func relName(fn *ssa.Function) string {
	if fn == nil {
		return "<nil>"
	}
	if fn.Parent() != nil {
		return relName(fn.Parent()) + "$" + fn.Name()
	}
	if recv := fn.Signature.Recv(); recv != nil {
		t := recv.Type()
		ptr := false
		if p, ok := t.(*types.Pointer); ok {
			t = p.Elem()
			ptr = true
		}
		n := "?"
		if nt, ok := t.(*types.Named); ok {
			n = nt.Obj().Name()
		}
		if ptr {
			return "(*" + n + ")." + fn.Name()
		}
		return n + "." + fn.Name()
	}
	return fn.Name()
}

// qualName gives pkg-qualified names for external functions ("reflect.TypeOf",
// "(reflect.Value).Elem", "(*sync.Mutex).Lock").
func qualName(fn *ssa.Function) string {
	if fn == nil {
		return "<nil>"
	}
	if fn.Pkg == nil {
		// synthetic wrapper or method of an instantiated type
		return fn.String()
	}
	return fn.String()
}

func loadProgram(repo string, goarch string) (*Program, error) {
	env := append(os.Environ(),
		"GOFLAGS=-mod=mod", "GOPROXY=off", "GOSUMDB=off", "GOTOOLCHAIN=local", "GOWORK=off")
	if goarch != "" {
		env = append(env, "GOARCH="+goarch)
	}
	cfg := &packages.Config{
		Mode:  packages.LoadAllSyntax,
		Dir:   repo,
		Tests: false,
		Env:   env,
	}
	pkgs, err := packages.Load(cfg, ".")
	if err != nil {
		return nil, fmt.Errorf("packages.Load: %w", err)
	}
	if len(pkgs) != 1 {
		return nil, fmt.Errorf("expected exactly 1 root package, got %d", len(pkgs))
	}
	var errs []string
	packages.Visit(pkgs, nil, func(p *packages.Package) {
		for _, e := range p.Errors {
			errs = append(errs, e.Error())
		}
	})
	if len(errs) > 0 {
		return nil, fmt.Errorf("type/load errors: %s", strings.Join(errs, "; "))
	}
	prog, spkgs := ssautil.AllPackages(pkgs, ssa.InstantiateGenerics)
	prog.Build()
	if len(spkgs) != 1 || spkgs[0] == nil {
		return nil, fmt.Errorf("no SSA package built")
	}
	p := &Program{
		Repo:   repo,
		Fset:   pkgs[0].Fset,
		Pkg:    pkgs[0],
		SSA:    spkgs[0],
		Prog:   prog,
		Types:  pkgs[0].Types,
		ByName: map[string]*ssa.Function{},
		Alias:  map[*ssa.Global]*ssa.Function{},
		AliasX: map[*ssa.Global]string{},
	}
	for _, f := range pkgs[0].CompiledGoFiles {
		p.Files = append(p.Files, f)
	}
	sort.Strings(p.Files)

	// Collect every function whose body comes from this package.
	seen := map[*ssa.Function]bool{}
	var add func(fn *ssa.Function)
	add = func(fn *ssa.Function) {
		if fn == nil || seen[fn] || fn.Blocks == nil {
			return
		}
		if fn.Pkg != p.SSA && (fn.Parent() == nil || fn.Parent().Pkg != p.SSA) {
			return
		}
		if fn.Synthetic != "" && fn.Name() != "init" {
			return
		}
		seen[fn] = true
		p.Funcs = append(p.Funcs, fn)
		for _, an := range fn.AnonFuncs {
			add(an)
		}
	}
	for _, m := range p.SSA.Members {
		switch m := m.(type) {
		case *ssa.Function:
			add(m)
		case *ssa.Type:
			for _, t := range []types.Type{m.Type(), types.NewPointer(m.Type())} {
				ms := prog.MethodSets.MethodSet(t)
				for i := 0; i < ms.Len(); i++ {
					fn := prog.MethodValue(ms.At(i))
					if fn != nil && fn.Synthetic == "" {
						add(fn)
					}
				}
			}
		}
	}
	sort.Slice(p.Funcs, func(i, j int) bool {
		pi, pj := p.Fset.Position(p.Funcs[i].Pos()), p.Fset.Position(p.Funcs[j].Pos())
		if pi.Filename != pj.Filename {
			return pi.Filename < pj.Filename
		}
		if pi.Line != pj.Line {
			return pi.Line < pj.Line
		}
		return relName(p.Funcs[i]) < relName(p.Funcs[j])
	})
	for _, fn := range p.Funcs {
		p.ByName[relName(fn)] = fn
		for _, b := range fn.Blocks {
			p.NInstr += len(b.Instrs)
		}
	}
	p.resolveAliases()
	return p, nil
}

// resolveAliases finds package-level variables of function type that are
// stored exactly once, in the package initialiser, with a function value.
func (p *Program) resolveAliases() {
	stores := map[*ssa.Global][]ssa.Value{}
	for _, fn := range p.Funcs {
		for _, b := range fn.Blocks {
			for _, in := range b.Instrs {
				if st, ok := in.(*ssa.Store); ok {
					if g, ok := st.Addr.(*ssa.Global); ok && g.Pkg == p.SSA {
						stores[g] = append(stores[g], st.Val)
					}
				}
			}
		}
	}
	for g, vals := range stores {
		if _, ok := g.Type().(*types.Pointer).Elem().Underlying().(*types.Signature); !ok {
			continue
		}
		if len(vals) != 1 {
			continue
		}
		if fn, ok := vals[0].(*ssa.Function); ok {
			if fn.Pkg == p.SSA {
				p.Alias[g] = fn
			} else {
				p.AliasX[g] = fn.String()
			}
			p.Alias[g] = fn
		}
	}
}

// callee resolves the static callee of a call: direct functions, bound method
// closures are not followed; loads of alias globals are resolved through
// their single initialiser.
func (p *Program) callee(c *ssa.CallCommon) *ssa.Function {
	if c.IsInvoke() {
		return nil
	}
	if fn := c.StaticCallee(); fn != nil {
		return fn
	}
	if u, ok := c.Value.(*ssa.UnOp); ok && u.Op == token.MUL {
		if g, ok := u.X.(*ssa.Global); ok {
			if fn, ok := p.Alias[g]; ok {
				return fn
			}
		}
	}
	return nil
}

func (p *Program) inPkg(fn *ssa.Function) bool {
	if fn == nil {
		return false
	}
	if fn.Pkg == p.SSA {
		return fn.Blocks != nil
	}
	if fn.Parent() != nil {
		return p.inPkg(fn.Parent())
	}
	return false
}

func (p *Program) pos(pos token.Pos) string {
	if !pos.IsValid() {
		return "?"
	}
	ps := p.Fset.Position(pos)
	f := ps.Filename
	if i := strings.LastIndex(f, "/"); i >= 0 {
		f = f[i+1:]
	}
	return fmt.Sprintf("%s:%d", f, ps.Line)
}

// instrPos returns the best source position for an instruction (falls back
// to the nearest positioned instruction in the block, then the function).
func (p *Program) instrPos(in ssa.Instruction) string {
	if in.Pos().IsValid() {
		return p.pos(in.Pos())
	}
	if v, ok := in.(ssa.Value); ok {
		_ = v
	}
	b := in.Block()
	if b != nil {
		idx := -1
		for i, x := range b.Instrs {
			if x == in {
				idx = i
			}
		}
		for d := 1; d < len(b.Instrs); d++ {
			for _, j := range []int{idx - d, idx + d} {
				if j >= 0 && j < len(b.Instrs) && b.Instrs[j].Pos().IsValid() {
					return p.pos(b.Instrs[j].Pos())
				}
			}
		}
		return p.pos(b.Parent().Pos())
	}
	return "?"
}

// API enumeration ---------------------------------------------------------

type APIMethod struct {
	Recv    string // "Stack", "Condition", "Auxiliary", ...; "" for package functions
	Name    string
	PtrRecv bool
	Fn      *ssa.Function
}

func (m APIMethod) String() string {
	if m.Recv == "" {
		return m.Name
	}
	if m.PtrRecv {
		return "(*" + m.Recv + ")." + m.Name
	}
	return m.Recv + "." + m.Name
}

// exportedAPI enumerates every exported method declared on a package type
// and every exported package-level function, from go/types (so that methods
// added later are included automatically).
func (p *Program) exportedAPI() []APIMethod {
	var out []APIMethod
	scope := p.Types.Scope()
	for _, name := range scope.Names() {
		obj := scope.Lookup(name)
		switch o := obj.(type) {
		case *types.Func:
			if o.Exported() {
				if fn := p.SSA.Func(o.Name()); fn != nil {
					out = append(out, APIMethod{Name: o.Name(), Fn: fn})
				}
			}
		case *types.TypeName:
			named, ok := o.Type().(*types.Named)
			if !ok {
				continue
			}
			if _, isIface := named.Underlying().(*types.Interface); isIface {
				continue
			}
			for i := 0; i < named.NumMethods(); i++ {
				m := named.Method(i)
				if !m.Exported() {
					continue
				}
				fn := p.Prog.FuncValue(m)
				if fn == nil || fn.Blocks == nil {
					continue
				}
				_, ptr := m.Type().(*types.Signature).Recv().Type().(*types.Pointer)
				out = append(out, APIMethod{Recv: o.Name(), Name: m.Name(), PtrRecv: ptr, Fn: fn})
			}
		}
	}
	sort.Slice(out, func(i, j int) bool { return out[i].String() < out[j].String() })
	return out
}

func (p *Program) namedType(name string) *types.Named {
	obj := p.Types.Scope().Lookup(name)
	if obj == nil {
		return nil
	}
	n, _ := obj.Type().(*types.Named)
	return n
}

// isNamed reports whether t (after stripping one pointer if deref) is the
// package's named type `name`.
func (p *Program) isNamed(t types.Type, name string) bool {
	n, ok := t.(*types.Named)
	if !ok {
		return false
	}
	return n.Obj().Pkg() == p.Types && n.Obj().Name() == name
}

func (p *Program) isPtrToNamed(t types.Type, name string) bool {
	pt, ok := t.(*types.Pointer)
	if !ok {
		return false
	}
	return p.isNamed(pt.Elem(), name)
}

func (p *Program) constVal(name string) (int64, bool) {
	obj := p.Types.Scope().Lookup(name)
	c, ok := obj.(*types.Const)
	if !ok {
		return 0, false
	}
	v, exact := constInt64(c.Val())
	return v, exact
}

// funcDecl returns the AST declaration of a function (for AST-level rules).
func (p *Program) funcDecl(fn *ssa.Function) *ast.FuncDecl {
	if fd, ok := fn.Syntax().(*ast.FuncDecl); ok {
		return fd
	}
	return nil
}
