package main

import (
	"fmt"
	"go/token"
	"go/types"
	"sort"
	"strings"

	"golang.org/x/tools/go/ssa"
)

// ---------------------------------------------------------------- R-REFL
//
// reflect.Value typestate: every call of a panicking reflect.Value method is
// dominated by the validity / kind / CanInterface test that makes it legal.

const (
	kInvalid = 0
	kArray   = 17
	kChan    = 18
	kFunc    = 19
	kIface   = 20
	kMap     = 21
	kPtr     = 22
	kSlice   = 23
	kString  = 24
	kStruct  = 25
	kUnsafe  = 26
)

type reflReq struct {
	valid bool
	canif bool
	kinds []int64
}

var reflTable = map[string]reflReq{
	"(reflect.Value).Type":         {valid: true},
	"(reflect.Value).Interface":    {valid: true, canif: true},
	"(reflect.Value).Convert":      {valid: true},
	"(reflect.Value).IsZero":       {valid: true},
	"(reflect.Value).CanInterface": {valid: true},
	"(reflect.Value).MethodByName": {valid: true},
	"(reflect.Value).Elem":         {kinds: []int64{kPtr, kIface}},
	"(reflect.Value).IsNil":        {kinds: []int64{kChan, kFunc, kIface, kMap, kPtr, kSlice, kUnsafe}},
	"(reflect.Value).Len":          {kinds: []int64{kArray, kChan, kMap, kSlice, kString}},
	"(reflect.Value).Cap":          {kinds: []int64{kArray, kChan, kSlice}},
	"(reflect.Value).Index":        {kinds: []int64{kArray, kSlice, kString}},
	"(reflect.Value).NumField":     {kinds: []int64{kStruct}},
	"(reflect.Value).Field":        {kinds: []int64{kStruct}},
	"(reflect.Value).MapKeys":      {kinds: []int64{kMap}},
	"(reflect.Value).MapIndex":     {kinds: []int64{kMap}},
	"(reflect.Value).Pointer":      {kinds: []int64{kChan, kFunc, kMap, kPtr, kSlice, kUnsafe}},
	"(reflect.Value).Call":         {kinds: []int64{kFunc}},
}

// reflAssumed: sites judged safe by reading that the local-guard rule cannot
// discharge.  One line of reason each; keyed by obligation key so that any
// other site (new or moved to another function) is still reported.
var reflAssumed = map[string]string{}

func kindInKind(kinds []int64) string {
	ks := append([]int64{}, kinds...)
	sort.Slice(ks, func(i, j int) bool { return ks[i] < ks[j] })
	var ss []string
	for _, k := range ks {
		ss = append(ss, fmt.Sprint(k))
	}
	return "kindin:" + strings.Join(ss, ",")
}

// canifOK: the receiver of Interface() is readable.  Values are readable
// unless they derive from Value.Field(); rule R-CANIF guarantees that no
// Field()-derived Value leaves its function (or reaches another use) without
// a CanInterface() test, so only the local derivation has to be examined.
func (c *Ctx) canifOK(fa *FnAnalysis, s *State, v ssa.Value) bool {
	seen := map[ssa.Value]bool{}
	var walk func(v ssa.Value) bool
	walk = func(v ssa.Value) bool {
		if v == nil || seen[v] {
			return true
		}
		seen[v] = true
		if ok, known := fa.knownTerm(s, aCANIF, fa.term(s, v)); known && ok {
			return true
		}
		switch x := v.(type) {
		case *ssa.Call:
			cal := x.Call.StaticCallee()
			if cal == nil {
				return true
			}
			switch cal.String() {
			case "(reflect.Value).Field", "(reflect.Value).FieldByName":
				return false
			case "(reflect.Value).Elem", "(reflect.Value).Index", "(reflect.Value).MapIndex", "(reflect.Value).Convert", "(reflect.Value).Slice":
				return walk(x.Call.Args[0])
			case "(reflect.Value).MethodByName":
				// an exported method of a readable value
				if k, ok := x.Call.Args[1].(*ssa.Const); ok && len(constString(k)) > 2 {
					name := strings.Trim(constString(k), "\"`")
					if name != "" && name[0] >= 'A' && name[0] <= 'Z' {
						return walk(x.Call.Args[0])
					}
				}
				return false
			}
			return true
		case *ssa.Phi:
			for _, e := range x.Edges {
				if !walk(e) {
					return false
				}
			}
			return true
		case *ssa.Extract:
			return true
		case *ssa.UnOp:
			return walk(x.X)
		}
		return true
	}
	return walk(v)
}

// ruleCanif (R-CANIF): a Value obtained from Field() is used for nothing but
// CanInterface()/IsValid()/Kind() until CanInterface() returned true.
func (c *Ctx) ruleCanif() {
	rep := c.rep
	n := 0
	for _, fn := range c.p.Funcs {
		var fa *FnAnalysis
		ord := newOrdinal()
		for _, b := range fn.Blocks {
			for _, in := range b.Instrs {
				call, ok := in.(*ssa.Call)
				if !ok {
					continue
				}
				cal := call.Call.StaticCallee()
				if cal == nil || (cal.String() != "(reflect.Value).Field" && cal.String() != "(reflect.Value).FieldByName") {
					continue
				}
				n++
				if fa == nil {
					fa = c.eng.analyze(fn, nil)
				}
				construct := ord.next("Value.Field result")
				bad := ""
				for _, u := range *call.Referrers() {
					ui, ok := u.(ssa.Instruction)
					if !ok {
						continue
					}
					if uc, ok := u.(*ssa.Call); ok {
						if cl := uc.Call.StaticCallee(); cl != nil {
							switch cl.String() {
							case "(reflect.Value).CanInterface", "(reflect.Value).IsValid", "(reflect.Value).Kind":
								continue
							}
						}
					}
					if _, isDbg := u.(*ssa.DebugRef); isDbg {
						continue
					}
					if !fa.allHold(ui, func(s *State) bool {
						v, k := fa.knownTerm(s, aCANIF, fa.term(s, call))
						return k && v
					}) {
						bad = c.p.instrPos(ui)
					}
				}
				if bad == "" {
					rep.ok("R-CANIF", relName(fn), construct, c.p.instrPos(in), "every use other than the accessibility test is dominated by CanInterface()==true")
				} else {
					rep.bad("R-CANIF", relName(fn), construct, c.p.instrPos(in), "a struct field Value is used at "+bad+" without a CanInterface() test: unexported fields make Interface() panic")
				}
			}
		}
	}
	rep.Extra["R-CANIF_sites"] = n
}

// forallPredicates: variadic helpers of the shape
//   for i := 0; i < len(v); i++ { if !P(v[i]) { return false } }; return true
// are universal predicates.  The shape is checked here; the engine then
// treats `helper(a, b) == true` as P(a) ∧ P(b).
func (c *Ctx) forallPredicates() {
	if c.eng.forall != nil {
		return
	}
	c.eng.forall = map[*ssa.Function]forallSpec{}
	for _, fn := range c.p.Funcs {
		if !fn.Signature.Variadic() || fn.Signature.Params().Len() != 1 || fn.Signature.Results().Len() != 1 {
			continue
		}
		spec, ok := c.forallShape(fn)
		if ok {
			c.eng.forall[fn] = spec
			c.rep.Notes = append(c.rep.Notes, fmt.Sprintf("universal predicate recognised: %s(v...) == true  =>  %s for every v", relName(fn), spec.desc))
		}
	}
}

func leadsToIncrement(b *ssa.BasicBlock, inc *ssa.BinOp) bool {
	for steps := 0; steps < 3; steps++ {
		for _, in := range b.Instrs {
			if in == ssa.Instruction(inc) {
				return true
			}
		}
		if len(b.Succs) != 1 {
			return false
		}
		b = b.Succs[0]
	}
	return false
}

// forallShape recognises the loop shape by facts: every `return true` state
// has left the loop through its length test, and inside the loop body the
// element test failing leads to `return false`.
func (c *Ctx) forallShape(fn *ssa.Function) (forallSpec, bool) {
	fa := c.eng.analyze(fn, nil)
	if len(fa.loopOf) != 1 {
		return forallSpec{}, false
	}
	var header *ssa.BasicBlock
	for h := range fa.loopOf {
		header = h
	}
	// induction: phi(0, i+1), test i < len(P0)
	iff, ok := header.Instrs[len(header.Instrs)-1].(*ssa.If)
	if !ok {
		return forallSpec{}, false
	}
	cmp, ok := iff.Cond.(*ssa.BinOp)
	if !ok || cmp.Op.String() != "<" {
		return forallSpec{}, false
	}
	phi, ok := cmp.X.(*ssa.Phi)
	if !ok || len(phi.Edges) != 2 || !isConstInt(phi.Edges[0], 0) {
		return forallSpec{}, false
	}
	inc, ok := phi.Edges[1].(*ssa.BinOp)
	if !ok || inc.Op.String() != "+" || inc.X != phi || !isConstInt(inc.Y, 1) {
		return forallSpec{}, false
	}
	ln, ok := cmp.Y.(*ssa.Call)
	if !ok || len(ln.Call.Args) != 1 || ln.Call.Args[0] != fn.Params[0] {
		return forallSpec{}, false
	}
	// the only returns: `false` inside the loop / before it, `true` only from the loop exit block
	exit := header.Succs[1]
	var spec forallSpec
	for _, b := range fn.Blocks {
		ret, ok := b.Instrs[len(b.Instrs)-1].(*ssa.Return)
		if !ok {
			continue
		}
		bv, isC := isBoolConst(ret.Results[0])
		if !isC {
			return forallSpec{}, false
		}
		if bv && b != exit {
			return forallSpec{}, false
		}
	}
	// the body: exactly one conditional on a property of v[i] whose failing edge returns false
	body := header.Succs[0]
	bif, ok := body.Instrs[len(body.Instrs)-1].(*ssa.If)
	if !ok {
		return forallSpec{}, false
	}
	// which property?  IsValid() of the element, or kind membership
	cond := bif.Cond
	neg := false
	if u, ok := cond.(*ssa.UnOp); ok && u.Op.String() == "!" {
		cond = u.X
		neg = true
	}
	elemOf := func(v ssa.Value) bool {
		ld, ok := v.(*ssa.UnOp)
		if !ok {
			return false
		}
		ia, ok := ld.X.(*ssa.IndexAddr)
		return ok && ia.X == fn.Params[0] && ia.Index == phi
	}
	// kind membership:  if k[i] != A && k[i] != B ... { return false }
	{
		var kinds []int64
		cur := body
		okShape := true
		for steps := 0; steps < 8; steps++ {
			i2, ok := cur.Instrs[len(cur.Instrs)-1].(*ssa.If)
			if !ok {
				okShape = false
				break
			}
			ne, ok := i2.Cond.(*ssa.BinOp)
			if !ok || ne.Op.String() != "!=" || !elemOf(ne.X) {
				okShape = false
				break
			}
			kv, ok := constIntOf(ne.Y)
			if !ok {
				okShape = false
				break
			}
			kinds = append(kinds, kv)
			// equal -> continue with the next element
			if !leadsToIncrement(cur.Succs[1], inc) {
				okShape = false
				break
			}
			nxt := cur.Succs[0]
			if r, ok := nxt.Instrs[len(nxt.Instrs)-1].(*ssa.Return); ok && len(nxt.Instrs) == 1 {
				if bv, isC := isBoolConst(r.Results[0]); isC && !bv {
					break
				}
				okShape = false
				break
			}
			cur = nxt
		}
		if okShape && len(kinds) > 0 {
			spec.kind = kindInKind(kinds)
			spec.desc = "kind in " + strings.TrimPrefix(spec.kind, "kindin:")
			return spec, true
		}
	}
	if call, ok := cond.(*ssa.Call); ok {
		if cal := call.Call.StaticCallee(); cal != nil && cal.String() == "(reflect.Value).IsValid" && elemOf(call.Call.Args[0]) {
			// if !IsValid { return false }
			failSucc := bif.Block().Succs[1]
			if neg {
				failSucc = bif.Block().Succs[0]
			}
			if r, ok := failSucc.Instrs[len(failSucc.Instrs)-1].(*ssa.Return); ok {
				if bv, isC := isBoolConst(r.Results[0]); isC && !bv {
					spec.kind = "valid"
					spec.desc = "v.IsValid()"
					return spec, true
				}
			}
		}
	}
	return forallSpec{}, false
}

// reflNoPanic: reflect.Value methods that accept every Value.
var reflNoPanic = map[string]bool{
	"(reflect.Value).Kind": true, "(reflect.Value).IsValid": true,
	"(reflect.Value).CanAddr": true, "(reflect.Value).CanSet": true, "(reflect.Value).String": true,
	"(reflect.Value).Comparable": true,
}

// ruleReflComplete: every reflect.Value method the package calls is either in
// the table of panicking methods (and then a census site) or known never to
// panic; a method the table does not know (Bytes, Int, Set..., Slice, ...) is
// reported, so that a new reflective call cannot go unexamined.
func (c *Ctx) ruleReflComplete(scope []*ssa.Function) {
	if scope == nil {
		scope = c.p.Funcs
	}
	n := 0
	for _, fn := range scope {
		ord := newOrdinal()
		for _, b := range fn.Blocks {
			for _, in := range b.Instrs {
				cc := callCommon(in)
				if cc == nil {
					continue
				}
				cal := cc.StaticCallee()
				if cal == nil || !strings.HasPrefix(cal.String(), "(reflect.Value).") {
					continue
				}
				n++
				name := cal.String()
				if _, ok := reflTable[name]; ok || reflNoPanic[name] {
					continue
				}
				if name == "(reflect.Value).Equal" {
					c.reflEqualSite(fn, in, cc, ord)
					continue
				}
				c.rep.bad("R-REFL", relName(fn), ord.next("unclassified "+strings.TrimPrefix(name, "(reflect.Value).")), c.p.instrPos(in),
					"reflect method "+name+" is not in the checker's table of panic conditions: it may panic for some kinds of value (e.g. Bytes on an unaddressable array, Int on a non-integer)")
			}
		}
	}
	c.rep.Extra["reflect_value_calls"] = n
}

// reflEqualSite: Value.Equal panics for non-comparable kinds; the package
// calls it only after isKnownPrimitive() accepted both operands' Interface()
// values (a type switch over the basic types).
func (c *Ctx) reflEqualSite(fn *ssa.Function, in ssa.Instruction, cc *ssa.CallCommon, ord *ordinal) {
	fa := c.eng.analyze(fn, nil)
	construct := ord.next("Value.Equal")
	okAll := fa.allHold(in, func(s *State) bool {
		for _, operand := range cc.Args[:2] {
			found := false
			for _, pc := range c.findCalls(fn, "isKnownPrimitive") {
				if _, did := s.cep[pc]; !did {
					continue
				}
				el := singleVariadicElem(pc.Call.Args[0])
				ic, ok := el.(*ssa.Call)
				if !ok {
					continue
				}
				if cal := ic.Call.StaticCallee(); cal == nil || cal.String() != "(reflect.Value).Interface" || ic.Call.Args[0] != operand {
					continue
				}
				if v, known := fa.knownTerm(s, aTR, fa.term(s, pc)); known && v {
					found = true
				}
			}
			if !found {
				return false
			}
		}
		return true
	})
	if okAll {
		c.rep.ok("R-REFL", relName(fn), construct, c.p.instrPos(in), "both operands were accepted by isKnownPrimitive (basic, comparable types) on every path")
	} else {
		c.rep.bad("R-REFL", relName(fn), construct, c.p.instrPos(in), "Value.Equal is reachable with an operand not known to be a basic (comparable) value: it panics for slices, maps and funcs")
	}
}

// ruleMethodValue: a method looked up by reflection (Value.MethodByName) and
// later called panics ("value method called using nil pointer") when the
// Value is a nil pointer whose method has a value receiver.  Every lookup must
// therefore be reached only where the Value has tested non-zero (IsZero()
// false) or non-nil (IsNil() false) on that path.
func (c *Ctx) ruleMethodValue() {
	rep := c.rep
	n := 0
	for _, fn := range c.p.Funcs {
		calls := c.findCalls(fn, "(reflect.Value).MethodByName", "(reflect.Value).Method")
		if len(calls) == 0 {
			continue
		}
		fa := c.eng.analyze(fn, nil)
		ord := newOrdinal()
		for _, mc := range calls {
			n++
			construct := ord.next("method lookup on a Value")
			pos := c.p.instrPos(mc)
			guards := c.findCalls(fn, "(reflect.Value).IsZero", "(reflect.Value).IsNil")
			good := fa.reachable(mc) && fa.allHold(mc, func(s *State) bool {
				rt := fa.term(s, mc.Call.Args[0])
				for _, g := range guards {
					if fa.term(s, g.Call.Args[0]) != rt {
						continue
					}
					if v, known := fa.knownTerm(s, aTR, fa.term(s, g)); known && !v {
						return true
					}
				}
				return false
			})
			if good {
				rep.ok("R-REFL", relName(fn), construct, pos, "reached only where IsZero()/IsNil() of the same Value returned false: no method of a nil pointer is ever bound")
			} else {
				rep.bad("R-REFL", relName(fn), construct, pos, "a method is looked up on a Value that may be a nil pointer (calling a value-receiver method through it panics)")
			}
		}
	}
	rep.Extra["reflective_method_lookups"] = n
	if n == 0 {
		rep.ok("R-REFL", "package", "method lookup on a Value", "?", "no reflective method lookup in the package")
	}
}

// ruleIfaceCompare: comparing two interface values with == or != panics at
// run time when both hold the same uncomparable dynamic type (a slice-, map-
// or func-based user type).  Every such comparison in the package must have a
// nil constant on one side, or operands whose static types rule that out.
// ifaceCmpConfirmed: comparisons of two interface values judged safe by
// reading; keyed by function and construct, one reason each.  Any other
// site (new, or moved to another function) is reported.
var ifaceCmpConfirmed = map[string]string{
	"channelsEqual:interface comparison#2": "both operands have just passed the Kind()==Chan test (the function returns before this line otherwise): channels are comparable",
	"uuptrsEqual:interface comparison":     "operands are Interface() of Values whose kind is Uintptr or UnsafePointer (the only kinds matchExtra hands to this function): comparable",
}

func (c *Ctx) ruleIfaceCompare() {
	rep := c.rep
	n := 0
	for _, fn := range c.p.Funcs {
		ord := newOrdinal()
		for _, b := range fn.Blocks {
			for _, in := range b.Instrs {
				bo, ok := in.(*ssa.BinOp)
				if !ok || (bo.Op != token.EQL && bo.Op != token.NEQ) {
					continue
				}
				_, xi := bo.X.Type().Underlying().(*types.Interface)
				_, yi := bo.Y.Type().Underlying().(*types.Interface)
				if !xi && !yi {
					continue
				}
				isNil := func(v ssa.Value) bool {
					k, ok := v.(*ssa.Const)
					return ok && k.IsNil()
				}
				if isNil(bo.X) || isNil(bo.Y) {
					continue
				}
				n++
				construct := ord.next("interface comparison")
				pos := c.p.instrPos(in)
				// a MakeInterface of a comparable static type on either side keeps the comparison safe
				safe := false
				for _, v := range []ssa.Value{bo.X, bo.Y} {
					if mi, ok := v.(*ssa.MakeInterface); ok && types.Comparable(mi.X.Type()) {
						if _, isIface := mi.X.Type().Underlying().(*types.Interface); !isIface {
							safe = true
						}
					}
				}
				why := ""
				for _, v := range []ssa.Value{bo.X, bo.Y} {
					if nt, ok := v.Type().(*types.Named); ok && nt.Obj().Pkg() != nil && nt.Obj().Pkg().Path() == "reflect" && nt.Obj().Name() == "Type" {
						why = "reflect.Type values are pointers to type descriptors: always comparable"
					}
					if ld, ok := v.(*ssa.UnOp); ok && ld.Op == token.MUL {
						if g, ok := ld.X.(*ssa.Global); ok && g.Pkg != fn.Pkg {
							why = "compared with the library sentinel " + g.Pkg.Pkg.Name() + "." + g.Name() + ", whose dynamic type is comparable"
						}
					}
				}
				if r, ok := ifaceCmpConfirmed[relName(fn)+":"+construct]; ok {
					why = r
				}
				if safe {
					rep.ok("R-IFACECMP", relName(fn), construct, pos, "one operand has a comparable concrete type: the comparison cannot panic")
				} else if why != "" {
					rep.ok("R-IFACECMP", relName(fn), construct, pos, why)
				} else {
					rep.bad("R-IFACECMP", relName(fn), construct, pos, "two interface values are compared with "+bo.Op.String()+": this panics when both hold the same uncomparable dynamic type (e.g. a slice-based user Operator or element)")
				}
			}
		}
	}
	rep.Extra["interface_comparisons"] = n
	if n == 0 {
		rep.ok("R-IFACECMP", "package", "interface comparison", "?", "no comparison of two non-nil interface values in the package")
	}
}
