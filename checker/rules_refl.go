package main

import (
	"fmt"
	"sort"
	"strings"

	"golang.org/x/tools/go/ssa"
)

// ---------------------------------------------------------------- R-REFL
//
// reflect.Value typestate: every call of a panicking reflect.Value method is
// dominated by the validity / kind / CanInterface test that makes it legal.

const (
	kInvalid = 0
	kArray   = 17
	kChan    = 18
	kFunc    = 19
	kIface   = 20
	kMap     = 21
	kPtr     = 22
	kSlice   = 23
	kString  = 24
	kStruct  = 25
	kUnsafe  = 26
)

type reflReq struct {
	valid bool
	canif bool
	kinds []int64
}

var reflTable = map[string]reflReq{
	"(reflect.Value).Type":         {valid: true},
	"(reflect.Value).Interface":    {valid: true, canif: true},
	"(reflect.Value).Convert":      {valid: true},
	"(reflect.Value).IsZero":       {valid: true},
	"(reflect.Value).MethodByName": {valid: true},
	"(reflect.Value).Elem":         {kinds: []int64{kPtr, kIface}},
	"(reflect.Value).IsNil":        {kinds: []int64{kChan, kFunc, kIface, kMap, kPtr, kSlice, kUnsafe}},
	"(reflect.Value).Len":          {kinds: []int64{kArray, kChan, kMap, kSlice, kString}},
	"(reflect.Value).Cap":          {kinds: []int64{kArray, kChan, kSlice}},
	"(reflect.Value).Index":        {kinds: []int64{kArray, kSlice, kString}},
	"(reflect.Value).NumField":     {kinds: []int64{kStruct}},
	"(reflect.Value).Field":        {kinds: []int64{kStruct}},
	"(reflect.Value).MapKeys":      {kinds: []int64{kMap}},
	"(reflect.Value).MapIndex":     {kinds: []int64{kMap}},
	"(reflect.Value).Pointer":      {kinds: []int64{kChan, kFunc, kMap, kPtr, kSlice, kUnsafe}},
	"(reflect.Value).Call":         {kinds: []int64{kFunc}},
}

// reflAssumed: sites judged safe by reading that the local-guard rule cannot
// discharge.  One line of reason each; keyed by obligation key so that any
// other site (new or moved to another function) is still reported.
var reflAssumed = map[string]string{}

func (c *Ctx) kindIn(fa *FnAnalysis, s *State, vt *Term, kinds []int64) bool {
	kt := c.eng.tt.mk(Term{K: "KIND", A: vt})
	for _, k := range kinds {
		if v, ok := fa.knownTerm(s, aTR, c.eng.tt.mk(Term{K: "B", S: "==", A: c.intConst(k), B: kt})); ok && v {
			return true
		}
	}
	return false
}

func (c *Ctx) ruleRefl(rule string, scope []*ssa.Function) {
	rep := c.rep
	if scope == nil {
		scope = c.p.Funcs
	}
	c.forallPredicates()
	total := 0
	for _, fn := range scope {
		var fa *FnAnalysis
		ord := newOrdinal()
		for _, b := range fn.Blocks {
			for _, in := range b.Instrs {
				call, ok := in.(*ssa.Call)
				if !ok {
					continue
				}
				cal := call.Call.StaticCallee()
				if cal == nil {
					continue
				}
				req, ok := reflTable[cal.String()]
				if !ok {
					if strings.HasPrefix(cal.String(), "(reflect.Value).") && !isPureExternal(cal.String()) && !aliasExternal[cal.String()] {
						rep.undecided(rule, relName(fn), ord.next("call "+cal.String()), c.p.instrPos(in), "reflect.Value method not in the typestate table of the checker")
					}
					continue
				}
				total++
				if fa == nil {
					fa = c.eng.analyze(fn, nil)
				}
				short := strings.TrimPrefix(cal.String(), "(reflect.Value).")
				construct := ord.next("Value." + short)
				pos := c.p.instrPos(in)
				key := rule + ":" + relName(fn) + ":" + construct
				recv := call.Call.Args[0]
				var missing []string
				for _, s := range fa.statesBefore(in) {
					vt := fa.term(s, recv)
					if req.valid {
						if v, ok := fa.knownTerm(s, aVALID, vt); !ok || !v {
							missing = append(missing, "validity (IsValid / a non-Invalid Kind) of the receiver")
						}
					}
					if req.canif {
						if v, ok := fa.knownTerm(s, aCANIF, vt); !ok || !v {
							missing = append(missing, "CanInterface() of the receiver")
						}
					}
					if len(req.kinds) > 0 && !c.kindIn(fa, s, vt, req.kinds) {
						missing = append(missing, "a Kind test allowing "+short)
					}
				}
				if len(missing) == 0 {
					rep.ok(rule, relName(fn), construct, pos, "the receiver's validity/kind/accessibility is established on every path")
					continue
				}
				sort.Strings(missing)
				missing = uniq(missing)
				if why, ok := reflAssumed[key]; ok {
					rep.ok(rule, relName(fn), construct, pos, "ASSUMED: "+why)
					rep.assume(key + ": " + why)
					continue
				}
				rep.bad(rule, relName(fn), construct, pos, fmt.Sprintf("%s may panic: not dominated by %s", cal.String(), strings.Join(missing, " and ")))
			}
		}
	}
	rep.Extra[rule+"_sites"] = total
}

// forallPredicates: variadic helpers of the shape
//   for i := 0; i < len(v); i++ { if !P(v[i]) { return false } }; return true
// are universal predicates.  The shape is checked here; the engine then
// treats `helper(a, b) == true` as P(a) ∧ P(b).
func (c *Ctx) forallPredicates() {
	if c.eng.forall != nil {
		return
	}
	c.eng.forall = map[*ssa.Function]forallSpec{}
	for _, fn := range c.p.Funcs {
		if !fn.Signature.Variadic() || fn.Signature.Params().Len() != 1 || fn.Signature.Results().Len() != 1 {
			continue
		}
		spec, ok := c.forallShape(fn)
		if ok {
			c.eng.forall[fn] = spec
			c.rep.Notes = append(c.rep.Notes, fmt.Sprintf("universal predicate recognised: %s(v...) == true  =>  %s for every v", relName(fn), spec.desc))
		}
	}
}

// forallShape recognises the loop shape by facts: every `return true` state
// has left the loop through its length test, and inside the loop body the
// element test failing leads to `return false`.
func (c *Ctx) forallShape(fn *ssa.Function) (forallSpec, bool) {
	fa := c.eng.analyze(fn, nil)
	if len(fa.loopOf) != 1 {
		return forallSpec{}, false
	}
	var header *ssa.BasicBlock
	for h := range fa.loopOf {
		header = h
	}
	// induction: phi(0, i+1), test i < len(P0)
	iff, ok := header.Instrs[len(header.Instrs)-1].(*ssa.If)
	if !ok {
		return forallSpec{}, false
	}
	cmp, ok := iff.Cond.(*ssa.BinOp)
	if !ok || cmp.Op.String() != "<" {
		return forallSpec{}, false
	}
	phi, ok := cmp.X.(*ssa.Phi)
	if !ok || len(phi.Edges) != 2 || !isConstInt(phi.Edges[0], 0) {
		return forallSpec{}, false
	}
	inc, ok := phi.Edges[1].(*ssa.BinOp)
	if !ok || inc.Op.String() != "+" || inc.X != phi || !isConstInt(inc.Y, 1) {
		return forallSpec{}, false
	}
	ln, ok := cmp.Y.(*ssa.Call)
	if !ok || len(ln.Call.Args) != 1 || ln.Call.Args[0] != fn.Params[0] {
		return forallSpec{}, false
	}
	// the only returns: `false` inside the loop / before it, `true` only from the loop exit block
	exit := header.Succs[1]
	var spec forallSpec
	for _, b := range fn.Blocks {
		ret, ok := b.Instrs[len(b.Instrs)-1].(*ssa.Return)
		if !ok {
			continue
		}
		bv, isC := isBoolConst(ret.Results[0])
		if !isC {
			return forallSpec{}, false
		}
		if bv && b != exit {
			return forallSpec{}, false
		}
	}
	// the body: exactly one conditional on a property of v[i] whose failing edge returns false
	body := header.Succs[0]
	bif, ok := body.Instrs[len(body.Instrs)-1].(*ssa.If)
	if !ok {
		return forallSpec{}, false
	}
	// which property?  IsValid() of the element, or kind membership
	cond := bif.Cond
	neg := false
	if u, ok := cond.(*ssa.UnOp); ok && u.Op.String() == "!" {
		cond = u.X
		neg = true
	}
	elemOf := func(v ssa.Value) bool {
		ld, ok := v.(*ssa.UnOp)
		if !ok {
			return false
		}
		ia, ok := ld.X.(*ssa.IndexAddr)
		return ok && ia.X == fn.Params[0] && ia.Index == phi
	}
	if call, ok := cond.(*ssa.Call); ok {
		if cal := call.Call.StaticCallee(); cal != nil && cal.String() == "(reflect.Value).IsValid" && elemOf(call.Call.Args[0]) {
			// if !IsValid { return false }
			failSucc := bif.Block().Succs[1]
			if neg {
				failSucc = bif.Block().Succs[0]
			}
			if r, ok := failSucc.Instrs[len(failSucc.Instrs)-1].(*ssa.Return); ok {
				if bv, isC := isBoolConst(r.Results[0]); isC && !bv {
					spec.kind = "valid"
					spec.desc = "v.IsValid()"
					return spec, true
				}
			}
		}
	}
	return forallSpec{}, false
}
