package main

import (
	"bufio"
	"crypto/sha1"
	"encoding/hex"
	"encoding/json"
	"fmt"
	"os"
	"path/filepath"
	"sort"
	"strings"
	"time"
)

// Obligation is one instance of a rule: a construct of /repo together with
// the verdict the rule reached for it.
type Obligation struct {
	Rule   string `json:"rule"`
	Key    string `json:"key"` // rule:function:construct  (no line numbers)
	Fn     string `json:"function"`
	Pos    string `json:"pos"`
	Status string `json:"status"` // discharged | violated | undecided
	By     string `json:"by,omitempty"`
	Detail string `json:"detail,omitempty"`
	Trivial bool  `json:"-"`
}

type RuleStat struct {
	Instances  int `json:"instances"`
	Floor      int `json:"floor"`
	Discharged int `json:"discharged"`
	Violated   int `json:"violated"`
	Undecided  int `json:"undecided"`
}

type Report struct {
	Prop        string
	Level       string
	Obls        []Obligation
	Floors      map[string]int
	Assumptions []string
	Notes       []string
	UserEdges   []string
	Explanation string
	NotDecided  string
	Trusted     []string
	Extra       map[string]any
}

func newReport(prop string) *Report {
	return &Report{Prop: prop, Level: "other", Floors: map[string]int{}, Extra: map[string]any{}}
}

func (r *Report) add(o Obligation) {
	if o.Key == "" {
		o.Key = o.Rule + ":" + o.Fn
	}
	r.Obls = append(r.Obls, o)
}

func (r *Report) ok(rule, fn, construct, pos, by string) {
	r.add(Obligation{Rule: rule, Key: rule + ":" + fn + ":" + construct, Fn: fn, Pos: pos, Status: "discharged", By: by})
}

func (r *Report) bad(rule, fn, construct, pos, detail string) {
	r.add(Obligation{Rule: rule, Key: rule + ":" + fn + ":" + construct, Fn: fn, Pos: pos, Status: "violated", Detail: detail})
}

func (r *Report) undecided(rule, fn, construct, pos, detail string) {
	r.add(Obligation{Rule: rule, Key: rule + ":" + fn + ":" + construct, Fn: fn, Pos: pos, Status: "undecided", Detail: detail})
}

func (r *Report) floor(rule string, n int) { r.Floors[rule] = n }

func (r *Report) assume(s string) {
	for _, a := range r.Assumptions {
		if a == s {
			return
		}
	}
	r.Assumptions = append(r.Assumptions, s)
}

type KnownFinding struct {
	Status   string `json:"status"` // known | fixed
	Property string `json:"property"`
	Key      string `json:"key"`
	What     string `json:"what"`
	Input    string `json:"input,omitempty"`
	Commit   string `json:"commit,omitempty"`
}

func loadKnownFindings(path string) ([]KnownFinding, error) {
	f, err := os.Open(path)
	if err != nil {
		if os.IsNotExist(err) {
			return nil, nil
		}
		return nil, err
	}
	defer f.Close()
	var out []KnownFinding
	sc := bufio.NewScanner(f)
	sc.Buffer(make([]byte, 1<<20), 1<<20)
	for sc.Scan() {
		line := strings.TrimSpace(sc.Text())
		if line == "" || strings.HasPrefix(line, "#") {
			continue
		}
		var kf KnownFinding
		if err := json.Unmarshal([]byte(line), &kf); err != nil {
			return nil, fmt.Errorf("known_findings: %v: %s", err, line)
		}
		out = append(out, kf)
	}
	return out, sc.Err()
}

func hashKey(s string) string {
	h := sha1.Sum([]byte(s))
	return hex.EncodeToString(h[:])[:12]
}

// finish dedupes, sorts, matches known findings, writes evidence + replay
// files, prints the interface lines and returns the exit code.
func (r *Report) finish(verifDir, tier string, seed int64, start time.Time, p *Program, evidencePath string, infraErr error) int {
	// dedupe by key keeping the worst status
	rank := map[string]int{"discharged": 0, "undecided": 1, "violated": 2}
	byKey := map[string]Obligation{}
	var order []string
	for _, o := range r.Obls {
		if old, ok := byKey[o.Key]; ok {
			if rank[o.Status] > rank[old.Status] {
				byKey[o.Key] = o
			}
			continue
		}
		byKey[o.Key] = o
		order = append(order, o.Key)
	}
	sort.Strings(order)
	var obls []Obligation
	for _, k := range order {
		obls = append(obls, byKey[k])
	}
	stats := map[string]*RuleStat{}
	for rule, fl := range r.Floors {
		stats[rule] = &RuleStat{Floor: fl}
	}
	for _, o := range obls {
		st := stats[o.Rule]
		if st == nil {
			st = &RuleStat{}
			stats[o.Rule] = st
		}
		st.Instances++
		switch o.Status {
		case "discharged":
			st.Discharged++
		case "violated":
			st.Violated++
		default:
			st.Undecided++
		}
	}
	// floors
	var failures []Obligation
	for rule, st := range stats {
		if st.Instances < st.Floor {
			failures = append(failures, Obligation{Rule: rule, Key: rule + ":<floor>", Status: "violated",
				Detail: fmt.Sprintf("rule matched %d instances, fewer than the %d confirmed by hand: an anchor no longer resolves or the rule is passing vacuously", st.Instances, st.Floor)})
		}
	}
	if infraErr != nil {
		failures = append(failures, Obligation{Rule: "INFRA", Key: "INFRA:load", Status: "violated", Detail: infraErr.Error()})
	}
	kfs, kerr := loadKnownFindings(filepath.Join(verifDir, "known_findings.jsonl"))
	if kerr != nil {
		failures = append(failures, Obligation{Rule: "INFRA", Key: "INFRA:known_findings", Status: "violated", Detail: kerr.Error()})
	}
	known := map[string]KnownFinding{}
	for _, kf := range kfs {
		if kf.Status == "known" && kf.Property == r.Prop {
			known[kf.Key] = kf
		}
	}
	var viols []Obligation
	var matched []string
	for _, o := range obls {
		if o.Status == "discharged" {
			continue
		}
		if kf, ok := known[o.Key]; ok {
			matched = append(matched, o.Key)
			fmt.Printf("KNOWN-FINDING: property=%s %s %s\n", r.Prop, o.Key, kf.What)
			continue
		}
		viols = append(viols, o)
	}
	viols = append(viols, failures...)
	sort.Slice(viols, func(i, j int) bool { return viols[i].Key < viols[j].Key })

	replayDir := filepath.Join(verifDir, "evidence", "replay")
	if evidencePath != "" {
		// replay files live next to the evidence file (a scratch run keeps clear of /verif/evidence)
		replayDir = filepath.Join(filepath.Dir(evidencePath), "replay")
	}
	os.MkdirAll(replayDir, 0o755)
	// remove stale replay files of this property
	if ents, err := os.ReadDir(replayDir); err == nil {
		for _, e := range ents {
			if strings.HasPrefix(e.Name(), r.Prop+"-") {
				os.Remove(filepath.Join(replayDir, e.Name()))
			}
		}
	}
	for _, v := range viols {
		path := filepath.Join(replayDir, fmt.Sprintf("%s-%s.json", r.Prop, hashKey(v.Key)))
		data, _ := json.MarshalIndent(map[string]any{
			"property": r.Prop, "rule": v.Rule, "key": v.Key, "function": v.Fn, "pos": v.Pos,
			"status": v.Status, "detail": v.Detail,
			"how_to_replay": "bin/stackcheck -repo /repo -prop " + r.Prop + " -only '" + v.Key + "'",
		}, "", " ")
		os.WriteFile(path, data, 0o644)
		fmt.Printf("%s %s [%s] %s: %s\n", v.Pos, v.Rule, v.Status, v.Key, v.Detail)
		fmt.Printf("VIOLATION property=%s replay=%s\n", r.Prop, path)
	}

	// evidence
	total := len(obls)
	disch := 0
	distinct := 0
	for _, o := range obls {
		if o.Status == "discharged" {
			disch++
		}
		if !o.Trivial {
			distinct++
		}
	}
	var samples []any
	step := 1
	if total > 12 {
		step = total / 12
	}
	for i := 0; i < total; i += step {
		samples = append(samples, obls[i])
	}
	for _, v := range viols {
		samples = append(samples, v)
	}
	if len(samples) == 0 {
		samples = append(samples, "no obligations generated")
	}
	files, nfuncs, ninstr := []string{}, 0, 0
	if p != nil {
		for _, f := range p.Files {
			files = append(files, filepath.Base(f))
		}
		nfuncs, ninstr = len(p.Funcs), p.NInstr
	}
	ruleStats := map[string]RuleStat{}
	for k, v := range stats {
		ruleStats[k] = *v
	}
	cov := map[string]any{
		"explanation":         r.Explanation,
		"not_decided":         r.NotDecided,
		"obligations":         total,
		"discharged":          disch + len(matched),
		"discharged_by_rule":  disch,
		"known_findings_matched": matched,
		"evaluations":         total,
		"distinct_nontrivial": distinct,
		"rule":                "one obligation per (rule, function, construct) instance found in the type-checked SSA of /repo; distinct by key; non-trivial = needed a guard fact, summary or table comparison (not a syntactic tautology)",
		"samples":             samples,
		"checker_cmd":         "bin/stackcheck -repo /repo -prop " + r.Prop + " -tier " + tier,
		"trusted_base":        append([]string{"go/types + go/ssa (x/tools v0.29.0) lowering of /repo", "the abstract domains and rule tables of /verif/checker", "sequential execution unless the rule says otherwise", "user closures, String() methods and Operator implementations are opaque (USER edges listed)"}, r.Trusted...),
		"exhaustive":          true,
		"rules":               ruleStats,
		"analysed": map[string]any{
			"files": files, "functions": nfuncs, "ssa_instructions": ninstr,
		},
		"user_edges_not_followed": r.UserEdges,
		"notes":                   r.Notes,
	}
	for k, v := range r.Extra {
		cov[k] = v
	}
	if tier == "quick" || total == 0 {
		// keep the evidence small in quick mode: obligations summarised by rule + samples
	}
	cov["all_obligations"] = obls
	ev := map[string]any{
		"property_id": r.Prop,
		"tier":        tier,
		"seed":        seed,
		"level":       r.Level,
		"coverage":    cov,
		"assumptions": append([]string{"sequential execution of each analysed call unless the rule states otherwise", "user-supplied closures, String() methods and Operator implementations are opaque and excluded"}, r.Assumptions...),
		"wall_s":      time.Since(start).Seconds(),
		"violations":  len(viols),
	}
	if evidencePath != "" {
		os.MkdirAll(filepath.Dir(evidencePath), 0o755)
		data, _ := json.MarshalIndent(ev, "", " ")
		if err := os.WriteFile(evidencePath, data, 0o644); err != nil {
			fmt.Fprintln(os.Stderr, "cannot write evidence:", err)
			return 2
		}
	}
	fmt.Printf("property=%s tier=%s obligations=%d discharged=%d known=%d violations=%d functions=%d instrs=%d wall=%.1fs\n",
		r.Prop, tier, total, disch, len(matched), len(viols), nfuncs, ninstr, time.Since(start).Seconds())
	if len(viols) > 0 {
		return 1
	}
	return 0
}
