package main

import (
	"os"
	"fmt"
	"go/token"
	"go/types"
	"sort"
	"strings"

	"golang.org/x/tools/go/ssa"
)

// ---------------------------------------------------------------- R-LOOPRET / R-COVER (C05)
//
// Necessary conditions for "IsEqual rejects any difference":
//
//  LATCH  in every comparison loop of IsEqual's scope the error variable is a
//         latch: a comparison whose verdict is stored into it is made only while
//         it is still nil (so a difference found is never overwritten by a later
//         nil), and the function returns that variable;
//  COVER  a counting loop starts at 0, advances by one, compares element i of
//         one side with element i of the other, and leaves only when i reached
//         the length or a difference was recorded;
//  NILRET a function of the scope returns nil only on paths on which every
//         comparison it made returned nil;
//  PARTS  condition.isEqual lets keyword, operator (text and context, or both
//         absent) and expression take part on every accepting path; stack.isEqual
//         lets length/capacity, kind and every element take part (or the two are
//         the same object).

func isErrorType(t types.Type) bool {
	n, ok := t.(*types.Named)
	return ok && n.Obj().Pkg() == nil && n.Obj().Name() == "error"
}

func (c *Ctx) ruleEqLoops(scope []*ssa.Function) {
	rep := c.rep
	nLoops := 0
	for _, fn := range scope {
		if len(fn.Blocks) == 0 {
			continue
		}
		fa := c.eng.analyze(fn, nil)
		if len(fa.loopOf) == 0 {
			continue
		}
		var hdrs []*ssa.BasicBlock
		for h := range fa.loopOf {
			hdrs = append(hdrs, h)
		}
		sort.Slice(hdrs, func(i, j int) bool { return hdrs[i].Index < hdrs[j].Index })
		ord := newOrdinal()
		for _, hdr := range hdrs {
			blocks := fa.loopOf[hdr]
			// the error latch: a header phi of type error
			var errPhi *ssa.Phi
			for _, in := range hdr.Instrs {
				phi, ok := in.(*ssa.Phi)
				if !ok {
					break
				}
				if isErrorType(phi.Type()) {
					errPhi = phi
				}
			}
			// does the loop compare anything (a call returning error inside it)?
			var cmpCalls []*ssa.Call
			for b := range blocks {
				for _, in := range b.Instrs {
					call, ok := in.(*ssa.Call)
					if !ok {
						continue
					}
					sig := call.Call.Signature()
					for i := 0; i < sig.Results().Len(); i++ {
						if isErrorType(sig.Results().At(i).Type()) {
							cmpCalls = append(cmpCalls, call)
							break
						}
					}
				}
			}
			if len(cmpCalls) == 0 {
				continue
			}
			sort.Slice(cmpCalls, func(i, j int) bool { return cmpCalls[i].Pos() < cmpCalls[j].Pos() })
			nLoops++
			construct := ord.next("comparison loop")
			pos := c.p.instrPos(hdr.Instrs[0])
			var problems []string
			if errPhi == nil {
				// no latch variable: every failing comparison must leave the function at once
				for _, call := range cmpCalls {
					if !c.errLeavesAtOnce(fa, fn, call, blocks) {
						problems = append(problems, c.p.instrPos(call)+": the verdict of a comparison is neither latched nor returned at once")
					}
				}
			} else {
				phiT := c.eng.tt.mk(Term{K: "V", V: errPhi})
				for _, call := range cmpCalls {
					for _, s := range fa.statesBefore(call) {
						t := fa.term(s, errPhi)
						v, known := false, false
						if t.K == "C" && t.Const == nil {
							v, known = false, true
						} else {
							v, known = s.get(aNN, t)
							if !known {
								v, known = s.get(aNN, phiT)
							}
						}
						if !known || v {
							problems = append(problems, c.p.instrPos(call)+": a comparison is made while an earlier difference may already be recorded (its verdict would overwrite the error)")
						}
					}
				}
				// the function returns the latch
				c.returnsLatch(fa, fn, errPhi, blocks, &problems)
			}
			// counting loops: 0, 1, 2, ... up to the length, same index on both sides
			c.eqCounting(fa, fn, hdr, blocks, errPhi, &problems)
			if len(problems) == 0 {
				rep.ok("R-LOOPRET", relName(fn), construct, pos, "comparisons are made only while no difference is recorded; the loop covers every index from 0 and is left only at the end or with the difference; the function returns the recorded verdict")
			} else {
				sort.Strings(problems)
				rep.bad("R-LOOPRET", relName(fn), construct, pos, strings.Join(uniq(problems), "; "))
			}
		}
	}
	rep.Extra["comparison_loops"] = nLoops
}

// errLeavesAtOnce: the error result of call is tested and, when non-nil, returned.
func (c *Ctx) errLeavesAtOnce(fa *FnAnalysis, fn *ssa.Function, call *ssa.Call, blocks map[*ssa.BasicBlock]bool) bool {
	// every back edge state must know the call's error result is nil
	okAll := true
	found := false
	for bi, succs := range fa.edgeOut {
		if !blocks[bi] {
			continue
		}
		for k, sb := range bi.Succs {
			if !blocks[sb] || !sb.Dominates(bi) || k >= len(succs) {
				continue
			}
			for _, s := range succs[k] {
				if _, did := s.cep[call]; !did {
					continue
				}
				found = true
				sig := call.Call.Signature()
				for i := 0; i < sig.Results().Len(); i++ {
					if !isErrorType(sig.Results().At(i).Type()) {
						continue
					}
					var rt *Term
					if sig.Results().Len() == 1 {
						rt = fa.term(s, call)
					} else {
						rt = fa.callResultTerm(s, call, i)
					}
					if v, known := s.get(aNN, rt); !known || v {
						okAll = false
					}
				}
			}
		}
	}
	return okAll && found
}

func (c *Ctx) returnsLatch(fa *FnAnalysis, fn *ssa.Function, errPhi *ssa.Phi, blocks map[*ssa.BasicBlock]bool, problems *[]string) {
	var hdr *ssa.BasicBlock
	for h, bl := range fa.loopOf {
		if bl[errPhi.Block()] && h == errPhi.Block() {
			hdr = h
		}
	}
	for _, ret := range c.returnsOf(fn) {
		if blocks[ret.Block()] || hdr == nil || !hdr.Dominates(ret.Block()) {
			continue
		}
		// a return after the loop: its error result is the latch
		var ev ssa.Value
		for _, rv := range ret.Results {
			if isErrorType(rv.Type()) {
				ev = rv
			}
		}
		if ev == nil {
			continue
		}
		for _, s := range fa.statesBefore(ret) {
			// only paths that went through the loop
			through := false
			for b := range blocks {
				for _, in := range b.Instrs {
					if call, ok := in.(*ssa.Call); ok {
						if _, did := s.cep[call]; did {
							through = true
						}
					}
				}
			}
			if !through {
				continue
			}
			t := fa.term(s, ev)
			if t.K == "C" && t.Const == nil {
				// nil returned: fine only if the latch is known nil here
				lt := fa.term(s, errPhi)
				if v, known := s.get(aNN, lt); !(lt.K == "C" && lt.Const == nil) && (!known || v) {
					*problems = append(*problems, c.p.instrPos(ret)+": nil is returned after the loop although a difference may have been recorded")
				}
			}
		}
		// structurally: the value returned derives from the latch phi (through merges / result cell)
		if !c.derivesFrom(ev, errPhi, map[ssa.Value]bool{}) && !c.derivesFromLoopCall(ev, hdr, map[ssa.Value]bool{}) {
			*problems = append(*problems, c.p.instrPos(ret)+": the value returned after the loop is not the recorded verdict")
		}
	}
}

// derivesFromLoopCall: v is (a merge of) results of calls made inside the loop
// (a verdict or a freshly made error returned straight out of the loop).
func (c *Ctx) derivesFromLoopCall(v ssa.Value, hdr *ssa.BasicBlock, seen map[ssa.Value]bool) bool {
	if seen[v] {
		return true
	}
	seen[v] = true
	switch x := v.(type) {
	case *ssa.Call:
		return hdr.Dominates(x.Block())
	case *ssa.Extract:
		return c.derivesFromLoopCall(x.Tuple, hdr, seen)
	case *ssa.Phi:
		for _, e := range x.Edges {
			if !c.derivesFromLoopCall(e, hdr, seen) {
				return false
			}
		}
		return true
	}
	return false
}

func (c *Ctx) derivesFrom(v ssa.Value, target *ssa.Phi, seen map[ssa.Value]bool) bool {
	if v == ssa.Value(target) {
		return true
	}
	if seen[v] {
		return false
	}
	seen[v] = true
	switch x := v.(type) {
	case *ssa.Phi:
		for _, e := range x.Edges {
			if c.derivesFrom(e, target, seen) {
				return true
			}
		}
	case *ssa.UnOp:
		if x.Op == token.MUL {
			if al, ok := x.X.(*ssa.Alloc); ok {
				for _, r := range *al.Referrers() {
					if st, ok := r.(*ssa.Store); ok && st.Addr == ssa.Value(al) && c.derivesFrom(st.Val, target, seen) {
						return true
					}
				}
			}
		}
	}
	return false
}

// eqCounting: if the loop has an int counter compared with a length in its header.
func (c *Ctx) eqCounting(fa *FnAnalysis, fn *ssa.Function, hdr *ssa.BasicBlock, blocks map[*ssa.BasicBlock]bool, errPhi *ssa.Phi, problems *[]string) {
	iff, ok := hdr.Instrs[len(hdr.Instrs)-1].(*ssa.If)
	if !ok {
		return
	}
	bo, ok := iff.Cond.(*ssa.BinOp)
	if !ok {
		return
	}
	counter, ok := bo.X.(*ssa.Phi)
	if !ok || counter.Block() != hdr {
		return // a range loop or a differently shaped loop: covered by construction or by LATCH only
	}
	if bo.Op != token.LSS {
		*problems = append(*problems, "the loop condition is not counter < length")
		return
	}
	init, step, okS := c.phiInitStep(counter, hdr)
	if k, isC := constIntOf(init); !okS || !isC || k != 0 || step != 1 {
		*problems = append(*problems, "the loop counter does not run 0, 1, 2, ... (an element may be skipped)")
	}
	// the bound is a length-like call: Len / NumField / ulen
	bound, isCall := bo.Y.(*ssa.Call)
	okBound := false
	if isCall {
		name := ""
		if bound.Call.IsInvoke() {
			name = "." + bound.Call.Method.Name()
		} else if cal := bound.Call.StaticCallee(); cal != nil {
			name = cal.String()
		}
		for _, suf := range []string{".Len", ".NumField", ".ulen"} {
			if strings.HasSuffix(name, suf) {
				okBound = true
			}
		}
	}
	if !okBound {
		*problems = append(*problems, "the loop bound is not the length of what is compared")
	}
	// element accessors inside the loop use the counter itself
	nAcc := 0
	for b := range blocks {
		for _, in := range b.Instrs {
			call, ok := in.(*ssa.Call)
			if !ok {
				continue
			}
			name := ""
			if call.Call.IsInvoke() {
				name = "invoke." + call.Call.Method.Name()
			} else if cal := call.Call.StaticCallee(); cal != nil {
				name = cal.String()
				if c.p.inPkg(cal) {
					name = relName(cal)
				}
			}
			switch {
			case name == "(reflect.Value).Index", name == "(reflect.Value).Field", name == "stack.index", name == "invoke.Field":
				nAcc++
				idx := call.Call.Args[len(call.Call.Args)-1]
				if idx != ssa.Value(counter) {
					*problems = append(*problems, c.p.instrPos(call)+": an element is fetched at a position other than the loop counter")
				}
			}
		}
	}
	if nAcc < 2 {
		*problems = append(*problems, "fewer than two element accesses by the loop counter (both sides must be read at the same position)")
	}
	// every exit: counter >= bound, or a difference recorded, or a return inside the loop
	for bi, succs := range fa.edgeOut {
		if !blocks[bi] {
			continue
		}
		for k, sb := range bi.Succs {
			if blocks[sb] || k >= len(succs) {
				continue
			}
			for _, s := range succs[k] {
				okExit := false
				if v, known := fa.knownTerm(s, aTR, fa.term(s, bo)); known && !v {
					okExit = true
				}
				if errPhi != nil {
					if v, known := s.get(aNN, fa.term(s, errPhi)); known && v {
						okExit = true
					}
					if v, known := s.get(aNN, c.eng.tt.mk(Term{K: "V", V: errPhi})); known && v {
						okExit = true
					}
				}
				// leaving (break) right after a comparison of this iteration reported a difference
				if !okExit {
					for b2 := range blocks {
						for _, in2 := range b2.Instrs {
							call, ok := in2.(*ssa.Call)
							if !ok {
								continue
							}
							if _, did := s.cep[call]; !did {
								continue
							}
							cs := call.Call.Signature()
							for i := 0; i < cs.Results().Len(); i++ {
								if !isErrorType(cs.Results().At(i).Type()) {
									continue
								}
								var rt *Term
								if cs.Results().Len() == 1 {
									rt = fa.term(s, call)
								} else {
									rt = fa.callResultTerm(s, call, i)
								}
								if v, known := s.get(aNN, rt); known && v {
									okExit = true
								}
							}
						}
					}
				}
				// leaving through a return of a non-nil error
				if !okExit {
					if ret, isRet := sb.Instrs[len(sb.Instrs)-1].(*ssa.Return); isRet {
						for _, rv := range ret.Results {
							if isErrorType(rv.Type()) {
								if v, known := fa.nonNil(s, rv); known && v {
									okExit = true
								}
							}
						}
					}
				}
				if !okExit {
					// leaving through a return of a freshly made error (errorf)
					if ret, isRet := sb.Instrs[len(sb.Instrs)-1].(*ssa.Return); isRet {
						for _, rv := range ret.Results {
							if isErrorType(rv.Type()) {
								t := fa.term(s, rv)
								if (t.K == "APP" && t.S == "errorf") || (t.K == "V" && isCallTo(c, t.V, "errorf")) {
									okExit = true
								}
							}
						}
					}
				}
				if !okExit {
					*problems = append(*problems, fmt.Sprintf("the loop can be left (block %d -> %d) before the last element although no difference was recorded", bi.Index, sb.Index))
				}
			}
		}
	}
}

// ruleEqNilRet: a function of the scope that returns a nil error does so only
// on paths on which every error-returning comparison it made returned nil.
func (c *Ctx) ruleEqNilRet(scope []*ssa.Function) {
	rep := c.rep
	n := 0
	for _, fn := range scope {
		if len(fn.Blocks) == 0 {
			continue
		}
		sig := fn.Signature
		ei := -1
		for i := 0; i < sig.Results().Len(); i++ {
			if isErrorType(sig.Results().At(i).Type()) {
				ei = i
			}
		}
		if ei < 0 {
			continue
		}
		name := relName(fn)
		if !(strings.HasSuffix(name, "Equal") || strings.HasSuffix(name, "isEqual") || name == "matchExtra") {
			continue
		}
		fa := c.eng.analyze(fn, nil)
		n++
		var problems []string
		for _, ret := range c.returnsOf(fn) {
			rv := ret.Results[ei]
			for _, s := range fa.statesBefore(ret) {
				t := fa.term(s, rv)
				isNil := t.K == "C" && t.Const == nil
				if !isNil {
					if v, known := fa.nonNil(s, rv); known && !v {
						isNil = true
					}
				}
				if !isNil {
					continue
				}
				// every comparison made on this path returned nil
				for _, b := range fn.Blocks {
					for _, in := range b.Instrs {
						call, ok := in.(*ssa.Call)
						if !ok {
							continue
						}
						if _, did := s.cep[call]; !did {
							continue
						}
						cs := call.Call.Signature()
						for i := 0; i < cs.Results().Len(); i++ {
							if !isErrorType(cs.Results().At(i).Type()) {
								continue
							}
							var rt *Term
							if cs.Results().Len() == 1 {
								rt = fa.term(s, call)
							} else {
								rt = fa.callResultTerm(s, call, i)
							}
							if rt.K == "C" && rt.Const == nil {
								continue
							}
							if v, known := s.get(aNN, rt); !known || v {
								// the verdict of a loop iteration other than the last is covered by LATCH
								if c.inLoop(fa, call) {
									continue
								}
								if cal := c.p.callee(&call.Call); cal != nil && (relName(cal) == "errorf" || relName(cal) == "(*stack).config") {
									continue
								}
								problems = append(problems, c.p.instrPos(ret)+": nil is returned although the verdict of the comparison at "+c.p.instrPos(call)+" is not known to be nil on this path")
							}
						}
					}
				}
			}
		}
		pos := c.p.pos(fn.Pos())
		if len(problems) == 0 {
			rep.ok("R-LOOPRET", name, "nil only after clean comparisons", pos, "every path returning nil has seen nil from each comparison it made")
		} else {
			sort.Strings(problems)
			rep.bad("R-LOOPRET", name, "nil only after clean comparisons", pos, strings.Join(uniq(problems), "; "))
		}
	}
	rep.Extra["equality_functions"] = n
}

func (c *Ctx) inLoop(fa *FnAnalysis, in ssa.Instruction) bool {
	for _, blocks := range fa.loopOf {
		if blocks[in.Block()] {
			return true
		}
	}
	return false
}

// ruleEqParts: the components that must take part.
func (c *Ctx) ruleEqParts() {
	rep := c.rep
	tt := c.eng.tt
	// ---- stackageStructsEqual: "tried, no difference" only after a native IsEqual said so
	if fn := c.anchor("R-COVER", "stackageStructsEqual"); fn != nil {
		fa := c.eng.analyze(fn, nil)
		var problems []string
		for _, ret := range c.returnsOf(fn) {
			for _, s := range fa.statesBefore(ret) {
				tried, tk := c.knownBool(fa, s, ret.Results[0])
				if tk && !tried {
					continue
				}
				et := fa.term(s, ret.Results[1])
				isNil := et.K == "C" && et.Const == nil
				if !isNil {
					if v, known := fa.nonNil(s, ret.Results[1]); known && !v {
						isNil = true
					}
				}
				var viaIsEqual bool
				for _, ic := range c.findCalls(fn, "Stack.IsEqual", "Condition.IsEqual") {
					if _, did := s.cep[ic]; did && fa.term(s, ic) == et {
						viaIsEqual = true
					}
				}
				if viaIsEqual {
					continue
				}
				if isNil || !(et.K == "APP" && et.S == "errorf" || et.K == "V" && isCallTo(c, et.V, "errorf")) {
					if v, known := fa.nonNil(s, ret.Results[1]); !known || !v {
						problems = append(problems, c.p.instrPos(ret)+": 'compared' is reported with a verdict that is neither an error nor the result of IsEqual on the two converted instances (e.g. a Condition facing a non-Condition accepted)")
					}
				}
			}
		}
		if len(problems) == 0 {
			rep.ok("R-COVER", relName(fn), "verdict", c.p.pos(fn.Pos()), "tried is reported only with an error or with the verdict of IsEqual on the two converted instances")
		} else {
			sort.Strings(problems)
			rep.bad("R-COVER", relName(fn), "verdict", c.p.pos(fn.Pos()), strings.Join(uniq(problems), "; "))
		}
	}
	// ---- condition.isEqual
	if fn := c.anchor("R-COVER", "(*condition).isEqual"); fn != nil {
		fa := c.eng.analyze(fn, nil)
		pos := c.p.pos(fn.Pos())
		var problems []string
		veCalls := c.findCalls(fn, "valuesEqual")
		nAccept := 0
		// field loads of both sides
		fieldOf := func(s *State, v ssa.Value) (int, string, bool) {
			// v is a load of &P(k).field
			ld, ok := v.(*ssa.UnOp)
			if !ok || ld.Op != token.MUL {
				return 0, "", false
			}
			f, ok := ld.X.(*ssa.FieldAddr)
			if !ok {
				return 0, "", false
			}
			p, ok := f.X.(*ssa.Parameter)
			if !ok {
				return 0, "", false
			}
			return c.eng.paramIndex(fn, p), fieldName(f), true
		}
		for _, ret := range c.returnsOf(fn) {
			for _, s := range fa.statesBefore(ret) {
				t := fa.term(s, ret.Results[0])
				// accepting paths: the result is the verdict on the expressions
				var ve *ssa.Call
				for _, call := range veCalls {
					if fa.term(s, call) == t {
						if _, did := s.cep[call]; did {
							ve = call
						}
					}
				}
				if ve == nil {
					if t.K == "C" && t.Const == nil {
						problems = append(problems, c.p.instrPos(ret)+": nil is returned without comparing the expressions")
					}
					continue // an error path
				}
				nAccept++
				// expression: both sides' ex
				okEx := 0
				for k, a := range ve.Call.Args {
					if pi, fname, ok := fieldOf(s, a); ok && pi == k && fname == "condition.ex" {
						okEx++
					}
				}
				if okEx != 2 {
					problems = append(problems, "the verdict returned is not that of valuesEqual(r.ex, o.ex)")
				}
				// keyword: a comparison r.kw == o.kw known equal
				okKw := false
				okOpNil, okStr, okCtx := false, false, false
				for _, b := range fn.Blocks {
					for _, in := range b.Instrs {
						bo, ok := in.(*ssa.BinOp)
						if !ok || (bo.Op != token.EQL && bo.Op != token.NEQ) {
							continue
						}
						v, known := fa.knownTerm(s, aTR, fa.term(s, bo))
						if !known {
							continue
						}
						equal := v == (bo.Op == token.EQL)
						px, fx, okx := fieldOf(s, bo.X)
						py, fy, oky := fieldOf(s, bo.Y)
						if okx && oky && px != py && fx == "condition.kw" && fy == "condition.kw" && equal {
							okKw = true
						}
						// operator text / context: results of invokes on the two operators
						ix, okix := bo.X.(*ssa.Call)
						iy, okiy := bo.Y.(*ssa.Call)
						if okix && okiy && ix.Call.IsInvoke() && iy.Call.IsInvoke() && ix.Call.Method.Name() == iy.Call.Method.Name() && equal {
							p1, f1, ok1 := fieldOf(s, ix.Call.Value)
							p2, f2, ok2 := fieldOf(s, iy.Call.Value)
							if ok1 && ok2 && p1 != p2 && f1 == "condition.op" && f2 == "condition.op" {
								switch ix.Call.Method.Name() {
								case "String":
									okStr = true
								case "Context":
									okCtx = true
								}
							}
						}
					}
				}
				// both operators absent
				infeasible := false
				nilCount := 0
				for k := 0; k < 2; k++ {
					for _, b := range fn.Blocks {
						for _, in := range b.Instrs {
							ld, ok := in.(*ssa.UnOp)
							if !ok {
								continue
							}
							if pi, fname, ok := fieldOf(s, ld); ok && pi == k && fname == "condition.op" {
								if v, known := fa.nonNil(s, ld); known && !v {
									nilCount |= 1 << k
								}
							}
						}
					}
				}
				// (r.op == nil) == (o.op == nil) known true: nil-ness of one side gives the other
				for _, b := range fn.Blocks {
					for _, in := range b.Instrs {
						bo, ok := in.(*ssa.BinOp)
						if !ok || (bo.Op != token.EQL && bo.Op != token.NEQ) {
							continue
						}
						bx, okx := bo.X.(*ssa.BinOp)
						by, oky := bo.Y.(*ssa.BinOp)
						if !okx || !oky || bx.Op != by.Op || (bx.Op != token.EQL && bx.Op != token.NEQ) {
							continue
						}
						v, known := fa.knownTerm(s, aTR, fa.term(s, bo))
						if !known || v != (bo.Op == token.EQL) {
							continue
						}
						px, fx, ok1 := fieldOf(s, bx.X)
						py, fy, ok2 := fieldOf(s, by.X)
						if ok1 && ok2 && isNilConst(bx.Y) && isNilConst(by.Y) && fx == "condition.op" && fy == "condition.op" && px != py {
							if nilCount == 1 || nilCount == 2 {
								// the other side: known non-nil would contradict
								other := bx.X
								if nilCount == 1<<uint(px) {
									other = by.X
								}
								if nv, nk := fa.nonNil(s, other); nk && nv {
									infeasible = true
								} else {
									nilCount = 3
								}
							}
						}
					}
				}
				if infeasible {
					nAccept--
					continue
				}
				if nilCount == 3 {
					okOpNil = true
				}
				if !okKw {
					problems = append(problems, "an accepting path does not establish that the keywords are equal")
				}
				if !(okOpNil || (okStr && okCtx)) {
					if os.Getenv("EQDEBUG") != "" {
						fmt.Printf("EQ op fail nil=%v str=%v ctx=%v {%s}\n", okOpNil, okStr, okCtx, s.describe())
					}
					problems = append(problems, "an accepting path establishes neither that both operators are absent nor that their text and context are equal")
				}
			}
		}
		if nAccept == 0 {
			problems = append(problems, "no accepting path found")
		}
		if len(problems) == 0 {
			rep.ok("R-COVER", relName(fn), "components", pos, fmt.Sprintf("on all %d accepting path states keyword, operator (text and context, or both absent) and expression took part", nAccept))
		} else {
			sort.Strings(problems)
			rep.bad("R-COVER", relName(fn), "components", pos, strings.Join(uniq(problems), "; "))
		}
	}
	// ---- stack.isEqual
	if fn := c.anchor("R-COVER", "(*stack).isEqual"); fn != nil {
		fa := c.eng.analyze(fn, nil)
		pos := c.p.pos(fn.Pos())
		var problems []string
		nAccept := 0
		p0 := tt.mk(Term{K: "P", N: 0, S: fn.Params[0].Name()})
		p1 := tt.mk(Term{K: "P", N: 1, S: fn.Params[1].Name()})
		for _, ret := range c.returnsOf(fn) {
			for _, s := range fa.statesBefore(ret) {
				t := fa.term(s, ret.Results[0])
				isNil := t.K == "C" && t.Const == nil
				if !isNil {
					if v, known := fa.nonNil(s, ret.Results[0]); known && !v {
						isNil = true
					}
				}
				if !isNil {
					continue
				}
				nAccept++
				// same object?
				a, b := p0, p1
				if a.key > b.key {
					a, b = b, a
				}
				if v, known := fa.knownTerm(s, aTR, tt.mk(Term{K: "B", S: "==", A: a, B: b})); known && v {
					continue
				}
				okLen, okKind := false, false
				for _, call := range c.findCalls(fn, "capLenEqual") {
					if v, known := fa.knownTerm(s, aTR, fa.term(s, call)); known && v {
						okLen = true
					}
				}
				for _, bl := range fn.Blocks {
					for _, in := range bl.Instrs {
						bo, ok := in.(*ssa.BinOp)
						if !ok || (bo.Op != token.EQL && bo.Op != token.NEQ) {
							continue
						}
						cx, okx := bo.X.(*ssa.Call)
						cy, oky := bo.Y.(*ssa.Call)
						if !okx || !oky {
							continue
						}
						nx, ny := "", ""
						if cal := c.p.callee(&cx.Call); cal != nil {
							nx = relName(cal)
						}
						if cal := c.p.callee(&cy.Call); cal != nil {
							ny = relName(cal)
						}
						if nx == "stack.kind" && ny == "stack.kind" {
							if v, known := fa.knownTerm(s, aTR, fa.term(s, bo)); known && v == (bo.Op == token.EQL) {
								okKind = true
							}
						}
					}
				}
				if !okLen {
					problems = append(problems, "an accepting path does not establish equal length/capacity")
				}
				if !okKind {
					problems = append(problems, "an accepting path does not establish equal kinds")
				}
			}
		}
		// the element loop compares r.index(i) with o.index(i) through valuesEqual
		okElems := false
		for _, call := range c.findCalls(fn, "valuesEqual") {
			if !c.inLoop(fa, call) {
				continue
			}
			// structurally: valuesEqual(r.index(i)#0, o.index(i)#0) with one and the same i
			side := func(v ssa.Value) (recv ssa.Value, idx ssa.Value, ok bool) {
				ex, isEx := v.(*ssa.Extract)
				if !isEx || ex.Index != 0 {
					return nil, nil, false
				}
				ic, isCall := ex.Tuple.(*ssa.Call)
				if !isCall {
					return nil, nil, false
				}
				if cal := c.p.callee(&ic.Call); cal == nil || relName(cal) != "stack.index" || len(ic.Call.Args) != 2 {
					return nil, nil, false
				}
				ld, isLd := ic.Call.Args[0].(*ssa.UnOp)
				if !isLd || ld.Op != token.MUL {
					return nil, nil, false
				}
				return ld.X, ic.Call.Args[1], true
			}
			r1, i1, ok1 := side(call.Call.Args[0])
			r2, i2, ok2 := side(call.Call.Args[1])
			if ok1 && ok2 && i1 == i2 && r1 == ssa.Value(fn.Params[0]) && r2 == ssa.Value(fn.Params[1]) {
				okElems = true
			} else {
				problems = append(problems, "the element loop does not compare r's and o's elements at the same position")
			}
		}
		if !okElems {
			problems = append(problems, "no element-wise comparison loop found")
		}
		if nAccept == 0 {
			problems = append(problems, "no accepting path found")
		}
		if len(problems) == 0 {
			rep.ok("R-COVER", relName(fn), "components", pos, "accepting paths: same object, or equal length/capacity, equal kind and an element-wise comparison at equal positions")
		} else {
			sort.Strings(problems)
			rep.bad("R-COVER", relName(fn), "components", pos, strings.Join(uniq(problems), "; "))
		}
	}
}

func isCallTo(c *Ctx, v ssa.Value, name string) bool {
	call, ok := v.(*ssa.Call)
	if !ok {
		return false
	}
	cal := c.p.callee(&call.Call)
	return cal != nil && relName(cal) == name
}

// ruleEqKindWord: the kind two stacks are compared by (stack.kind) is made of
// the kind itself and the fold option only - presentation settings such as
// the symbol or the delimiter do not flow into it (two stacks of different
// kinds carrying the same symbol are not equal).
func (c *Ctx) ruleEqKindWord() {
	rep := c.rep
	fn := c.anchor("R-COVER", "stack.kind")
	if fn == nil {
		return
	}
	ss := srcSet{}
	for _, b := range fn.Blocks {
		for _, in := range b.Instrs {
			if ret, ok := in.(*ssa.Return); ok && len(ret.Results) > 0 {
				c.sources(fn, ret.Results[0], 0, map[ssa.Value]bool{}, ss)
			}
		}
	}
	allowed := map[string]bool{"nodeConfig.typ": true, "nodeConfig.opt": true}
	var other []string
	for _, f := range ss.fields() {
		if strings.HasPrefix(f, "nodeConfig.") && !allowed[f] {
			other = append(other, f)
		}
	}
	sort.Strings(other)
	switch {
	case len(other) > 0:
		rep.bad("R-COVER", "stack.kind", "kind word only", c.p.pos(fn.Pos()), "the kind two stacks are compared by also depends on "+strings.Join(other, ", ")+": stacks of different kinds with the same presentation setting would compare equal")
	default:
		rep.ok("R-COVER", "stack.kind", "kind word only", c.p.pos(fn.Pos()), "no presentation setting (symbol, delimiter, ...) flows into the kind two stacks are compared by")
	}
}

// ruleDerefLoop: "a pointer to one at any depth": derefPtr follows pointers
// until none is left - its loop is left only where the current type is not a
// pointer, the value's kind is not Ptr, or the pointer is nil.  A hop limit
// would make leaves behind deeper chains incomparable.
func (c *Ctx) ruleDerefLoop() {
	rep := c.rep
	fn := c.anchor("R-COVER", "derefPtr")
	if fn == nil {
		return
	}
	pos := c.p.pos(fn.Pos())
	fa := c.eng.analyze(fn, nil)
	if len(fa.loopOf) != 1 {
		rep.bad("R-COVER", "derefPtr", "pointers followed to the end", pos, fmt.Sprintf("expected one loop following the pointer chain, found %d", len(fa.loopOf)))
		return
	}
	var problems []string
	nExit := 0
	for hdr, blocks := range fa.loopOf {
		_ = hdr
		for bi, succs := range fa.edgeOut {
			if !blocks[bi] {
				continue
			}
			for j, sb := range bi.Succs {
				if blocks[sb] || j >= len(succs) {
					continue
				}
				for _, s := range succs[j] {
					if s.dead {
						continue
					}
					nExit++
					end := false
					for _, f := range s.factList() {
						if f.Kind != aTR {
							continue
						}
						switch {
						case !f.Val && f.T.K == "APP" && f.T.S == "isPtr":
							end = true // the type is no pointer
						case f.Val && f.T.K == "ISNIL":
							end = true // a nil pointer is left as it is
						case !f.Val && f.T.K == "B" && f.T.S == "==" && ((f.T.A.K == "KIND" && f.T.B.K == "C") || (f.T.B.K == "KIND" && f.T.A.K == "C")):
							k := f.T.A
							if k.K != "C" {
								k = f.T.B
							}
							if v, ok := constInt64(k.Const); ok && v == kPtr {
								end = true // the value is no pointer
							}
						}
					}
					if !end {
						problems = append(problems, fmt.Sprintf("the loop can be left (block %d -> %d) while the value may still be a non-nil pointer: deeper pointer chains are not followed to their target", bi.Index, sb.Index))
					}
				}
			}
		}
	}
	if nExit == 0 {
		problems = append(problems, "no loop exit found")
	}
	// a pointer is followed only when it points somewhere: Elem() / Indirect on a nil pointer
	// yields the zero Value, and every later Convert/Interface on it panics
	for _, b := range fn.Blocks {
		for _, in := range b.Instrs {
			call, ok := in.(*ssa.Call)
			if !ok {
				continue
			}
			cal := c.p.callee(&call.Call)
			if cal == nil || (cal.String() != "(reflect.Value).Elem" && cal.String() != "reflect.Indirect") || len(call.Call.Args) == 0 {
				continue
			}
			if !fa.allHold(call, func(s *State) bool {
				v, known := fa.knownTerm(s, aTR, c.eng.tt.mk(Term{K: "ISNIL", A: fa.term(s, call.Call.Args[0])}))
				return known && !v
			}) {
				problems = append(problems, c.p.instrPos(call)+": a pointer Value is followed without having tested non-nil (a typed nil pointer to an alias would become the zero Value)")
			}
		}
	}
	// type and value advance together: each Type.Elem() is followed, with no branch in between,
	// by a Value.Elem() and the other way round - a nil pointer must not leave the pair out of
	// step (the pointee type with the pointer value makes every later Convert panic and a typed
	// nil pointer to a Stack look like a Stack)
	var tEl, vEl []*ssa.Call
	for _, b := range fn.Blocks {
		for _, in := range b.Instrs {
			call, ok := in.(*ssa.Call)
			if !ok {
				continue
			}
			if call.Call.IsInvoke() && call.Call.Method.Name() == "Elem" {
				tEl = append(tEl, call)
			} else if cal := c.p.callee(&call.Call); cal != nil && (cal.String() == "(reflect.Value).Elem" || cal.String() == "reflect.Indirect") {
				vEl = append(vEl, call)
			}
		}
	}
	straight := func(from *ssa.Call, to []*ssa.Call) bool {
		b := from.Block()
		for hops := 0; hops < 8; hops++ {
			for _, t := range to {
				if t.Block() == b {
					return true
				}
			}
			if len(b.Succs) != 1 || len(b.Succs[0].Preds) != 1 {
				return false
			}
			b = b.Succs[0]
		}
		return false
	}
	straightBack := func(from *ssa.Call, to []*ssa.Call) bool {
		b := from.Block()
		for hops := 0; hops < 8; hops++ {
			for _, t := range to {
				if t.Block() == b {
					return true
				}
			}
			if len(b.Preds) != 1 || len(b.Preds[0].Succs) != 1 {
				return false
			}
			b = b.Preds[0]
		}
		return false
	}
	for _, te := range tEl {
		if !straight(te, vEl) && !straightBack(te, vEl) {
			problems = append(problems, c.p.instrPos(te)+": the type is advanced without the value being advanced on the same straight-line path (type and value can get out of step on a nil pointer)")
		}
	}
	for _, ve := range vEl {
		if !straight(ve, tEl) && !straightBack(ve, tEl) {
			problems = append(problems, c.p.instrPos(ve)+": the value is advanced without the type being advanced on the same straight-line path")
		}
	}
	if len(tEl) == 0 || len(vEl) == 0 {
		problems = append(problems, "no Type.Elem / Value.Elem pair found")
	}
	if len(problems) == 0 {
		rep.ok("R-COVER", "derefPtr", "pointers followed to the end", pos, "the loop ends only on a non-pointer type, a non-pointer value or a nil pointer")
	} else {
		sort.Strings(problems)
		rep.bad("R-COVER", "derefPtr", "pointers followed to the end", pos, strings.Join(uniq(problems), "; "))
	}
}

// eqDeciders: functions from outside the package that the equality code may
// use to *decide* something (result used as, or compared into, a verdict).
// Confirmed by reading; one reason each.  Any other external function whose
// result is a bool or an int and that is called inside the equality scope is
// reported: a comparison helper with different semantics (case folding,
// DeepEqual's treatment of unexported fields, ...) changes what "equal" means.
var eqDeciders = map[string]string{
	"(reflect.Value).CanInterface": "readability test ahead of Interface() (unexported struct fields are skipped, R-CANIF)",
	"(reflect.Value).Cap":          "capacity of a slice leaf, compared with ==",
	"(reflect.Value).Len":          "length of a slice/array/map leaf, compared with ==",
	"(reflect.Value).Equal":        "exact equality of two primitive values (reached only with operands accepted by isKnownPrimitive, R-REFL)",
	"(reflect.Value).IsNil":        "nil test on a pointer while following a pointer chain",
	"(reflect.Value).IsValid":      "validity test on a reflect.Value",
	"(reflect.Value).IsZero":       "zero test ahead of a method lookup",
	"unicode.IsUpper":              "case detection in foldValue (rendering of operator words; no user value is compared with it)",
	"strings.Compare":              "exact three-way comparison of strings",
	"bytes.Equal":                  "exact comparison of byte slices",
	"bytes.Compare":                "exact three-way comparison of byte slices",
}

func (c *Ctx) ruleEqDeciders(scope []*ssa.Function) {
	rep := c.rep
	seen := map[string][]string{}
	for _, fn := range scope {
		for _, b := range fn.Blocks {
			for _, in := range b.Instrs {
				cc := callCommon(in)
				if cc == nil {
					continue
				}
				cal := c.p.callee(cc)
				if cal == nil || c.p.inPkg(cal) {
					continue
				}
				res := cal.Signature.Results()
				decides := false
				for i := 0; i < res.Len(); i++ {
					if bt, ok := res.At(i).Type().Underlying().(*types.Basic); ok && (bt.Kind() == types.Bool || bt.Kind() == types.Int) {
						decides = true
					}
				}
				if !decides {
					continue
				}
				seen[cal.String()] = append(seen[cal.String()], relName(fn))
			}
		}
	}
	var names []string
	for n := range seen {
		names = append(names, n)
	}
	sort.Strings(names)
	rep.Extra["equality_scope_external_deciders"] = names
	for _, n := range names {
		users := uniq(sortedCopy(seen[n]))
		if why, ok := eqDeciders[n]; ok {
			rep.ok("R-COVER", "equality scope", "external decider "+n, "?", why+" (used by "+strings.Join(users, ", ")+")")
		} else {
			rep.bad("R-COVER", "equality scope", "external decider "+n, "?", "an external function not in the confirmed table decides something inside the equality code (used by "+strings.Join(users, ", ")+"): its notion of equality has not been reviewed")
		}
	}
}

// ruleNumericPrimitives: "a leaf may be a primitive": the numeric test behind
// isKnownPrimitive recognises every numeric type of the language - the signed
// and unsigned integers of every width, both floats and both complex types.
// Dropping one makes equal leaves of that type incomparable ("Unsupported
// type") and lets them render as UNKNOWN.
func (c *Ctx) ruleNumericPrimitives() {
	rep := c.rep
	fn := c.anchor("R-COVER", "isNumberPrimitive")
	if fn == nil {
		return
	}
	have := map[types.BasicKind]bool{}
	for _, b := range fn.Blocks {
		for _, in := range b.Instrs {
			if ta, ok := in.(*ssa.TypeAssert); ok {
				if bt, ok := ta.AssertedType.(*types.Basic); ok {
					have[bt.Kind()] = true
				}
			}
		}
	}
	want := []types.BasicKind{types.Int, types.Int8, types.Int16, types.Int32, types.Int64,
		types.Uint, types.Uint8, types.Uint16, types.Uint32, types.Uint64,
		types.Float32, types.Float64, types.Complex64, types.Complex128}
	var missing []string
	for _, k := range want {
		if !have[k] {
			missing = append(missing, types.Typ[k].Name())
		}
	}
	if len(missing) == 0 {
		rep.ok("R-COVER", "isNumberPrimitive", "numeric types", c.p.pos(fn.Pos()), "all 14 numeric types of the language are recognised")
	} else {
		rep.bad("R-COVER", "isNumberPrimitive", "numeric types", c.p.pos(fn.Pos()), "numeric type(s) not recognised as primitive: "+strings.Join(missing, ", ")+" (equal leaves of that type would be reported as unsupported)")
	}
}
