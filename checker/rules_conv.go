package main

import (
	"os"
	"fmt"
	"go/token"
	"go/types"
	"sort"
	"strings"

	"golang.org/x/tools/go/ssa"
)

// ---------------------------------------------------------------- R-CONV (C12)
//
// An alias of Stack/Condition (or a pointer to one) reaches the same code as
// the native value - the necessary condition for "behaves as the native type".
//
//  ASSERT  nothing in the package recognises a Stack or Condition by a plain
//          type assertion / type switch (which an alias never satisfies),
//          except the converters themselves and isNesting's positive fast path;
//  FIRST   where a value is rendered by generic means (its own String method,
//          the primitive stringer), both converters were consulted on that
//          very value first and declined it, so an alias with its own String
//          method is still treated as the Stack/Condition it is;
//  USES    each consumer the property lists consults the converter(s);
//          stackageStructsEqual compares the two converted instances;
//          ConvertStack/ConvertCondition return the converter's results;
//  SELF    the converters' return paths: (zero,false) exactly for nil, a zero
//          native value, a type that (after following pointers) is not
//          convertible, or a conversion that yields a zero instance; the
//          convertibility test is made on the pointer-flattened type of the
//          argument itself and nothing else can decline a value.

var convAssertAllowed = map[string]string{
	"stackTypeAliasConverter":     "the converter itself (native fast path, and the assertion of the converted value)",
	"conditionTypeAliasConverter": "the converter itself (native fast path, and the assertion of the converted value)",
	"isStackKind":                 "the type-level test itself: positive fast path for the native type; every other value is judged by ConvertibleTo on its pointer-flattened type (R-TT isStackKind)",
}

func (c *Ctx) ruleConv() {
	c.ruleTypeIdentity()
	rep := c.rep
	tt := c.eng.tt
	// ---- ASSERT
	n := 0
	for _, fn := range c.p.Funcs {
		ord := newOrdinal()
		for _, b := range fn.Blocks {
			for _, in := range b.Instrs {
				ta, ok := in.(*ssa.TypeAssert)
				if !ok {
					continue
				}
				if !(c.p.isNamed(ta.AssertedType, "Stack") || c.p.isNamed(ta.AssertedType, "Condition") || c.p.isPtrToNamed(ta.AssertedType, "Stack") || c.p.isPtrToNamed(ta.AssertedType, "Condition")) {
					continue
				}
				n++
				construct := ord.next("assertion to " + typeStr(ta.AssertedType))
				if why, ok := convAssertAllowed[relName(fn)]; ok {
					rep.ok("R-CONV", relName(fn), construct, c.p.instrPos(in), why)
				} else {
					rep.bad("R-CONV", relName(fn), construct, c.p.instrPos(in), "a Stack/Condition is recognised by a plain type assertion: a user-defined alias (or a pointer to one) does not satisfy it and falls into the generic branch - use the alias converter")
				}
			}
		}
	}
	if n < 5 {
		rep.bad("R-CONV", "package", "assertion census", "?", fmt.Sprintf("only %d assertions to Stack/Condition found (the converters alone have 4)", n))
	}

	// ---- FIRST
	// the two renderers must contain such a call; the equality functions need not, but if one of
	// them ever judges a value by its own String method the same condition applies (an alias whose
	// String differs from the native rendering must still be compared as the Stack/Condition it is)
	firstOptional := map[string]bool{"valuesEqual": true, "slicesEqual": true, "mapsEqual": true, "structsEqual": true, "primitivesEqual": true,
		"stackageStructsEqual": true, "(*stack).isEqual": true, "(*condition).isEqual": true, "Stack.IsEqual": true, "Condition.IsEqual": true}
	firstNames := []string{"condition.string", "stack.defaultAssertionHandler"}
	for n := range firstOptional {
		firstNames = append(firstNames, n)
	}
	sort.Strings(firstNames)
	for _, name := range firstNames {
		var fn *ssa.Function
		if firstOptional[name] {
			fn = c.p.ByName[name]
		} else {
			fn = c.anchor("R-CONV", name)
		}
		if fn == nil {
			continue
		}
		gs := c.findCalls(fn, "getStringer", "primitiveStringer")
		if firstOptional[name] && len(gs) == 0 {
			continue
		}
		fa := c.eng.analyze(fn, nil)
		var problems []string
		if len(gs) == 0 {
			problems = append(problems, "no generic rendering found (anchor)")
		}
		for _, g := range gs {
			for _, s := range fa.statesBefore(g) {
				vt := fa.term(s, g.Call.Args[0])
				for _, conv := range []string{"stackTypeAliasConverter", "conditionTypeAliasConverter"} {
					declined := false
					for _, cc := range c.findCalls(fn, conv) {
						if _, did := s.cep[cc]; !did || fa.term(s, cc.Call.Args[0]) != vt {
							continue
						}
						if v, known := fa.knownTerm(s, aTR, fa.callResultTerm(s, cc, 1)); known && !v {
							declined = true
						}
						// or: the instance it returned is not initialised
						r0 := fa.callResultTerm(s, cc, 0)
						for _, ic := range c.findCalls(fn, "Stack.IsInit", "Condition.IsInit") {
							if fa.term(s, ic.Call.Args[0]) == r0 {
								if v, known := fa.knownTerm(s, aTR, fa.term(s, ic)); known && !v {
									declined = true
								}
							}
						}
					}
					if !declined {
						problems = append(problems, c.p.instrPos(g)+": a value is rendered by generic means ("+c.calleeName(&g.Call)+") on a path where "+conv+" has not declined that very value: an alias with its own String method would not be rendered as the Stack/Condition it is")
					}
				}
			}
		}
		if len(problems) == 0 {
			rep.ok("R-CONV", name, "converters before generic rendering", c.p.pos(fn.Pos()), "both converters declined the value on every path reaching getStringer/primitiveStringer")
		} else {
			sort.Strings(problems)
			rep.bad("R-CONV", name, "converters before generic rendering", c.p.pos(fn.Pos()), strings.Join(uniq(problems), "; "))
		}
	}

	// ---- USES
	uses := []struct {
		fn    string
		convs []string
	}{
		{"stack.defaultAssertionHandler", []string{"stackTypeAliasConverter", "conditionTypeAliasConverter"}},
		{"condition.string", []string{"stackTypeAliasConverter", "conditionTypeAliasConverter"}},
		{"stackageStructsEqual", []string{"stackTypeAliasConverter", "conditionTypeAliasConverter"}},
		{"stack.unmarshalDefault", []string{"stackTypeAliasConverter", "conditionTypeAliasConverter"}},
		{"condition.unmarshalDefault", []string{"stackTypeAliasConverter"}},
		{"stack.traverseStack", []string{"stackTypeAliasConverter"}},
		{"stack.traverseStackInCondition", []string{"conditionTypeAliasConverter"}},
		{"stack.isNesting", []string{"isStackKind"}},
		{"condition.isNesting", []string{"isStackKind"}},
		{"Condition.Len", []string{"stackTypeAliasConverter"}},
		{"(*stack).canPushNester", []string{"isStackKind"}},
		{"condition.defaultAssertionExpressionHandler", []string{"isStackKind"}},
		{"Stack.Defrag", []string{"stackTypeAliasConverter", "conditionTypeAliasConverter"}},
		{"Stack.Transfer", []string{"stackTypeAliasConverter"}},
		{"Stack.IsEqual", []string{"stackTypeAliasConverter"}},
		{"Condition.IsEqual", []string{"conditionTypeAliasConverter"}},
	}
	for _, u := range uses {
		fn := c.anchor("R-CONV", u.fn)
		if fn == nil {
			continue
		}
		var miss []string
		for _, cv := range u.convs {
			if len(c.findCalls(fn, cv)) == 0 {
				miss = append(miss, cv)
			}
		}
		if len(miss) == 0 {
			rep.ok("R-CONV", u.fn, "consults the converter", c.p.pos(fn.Pos()), strings.Join(u.convs, " and "))
		} else {
			rep.bad("R-CONV", u.fn, "consults the converter", c.p.pos(fn.Pos()), "no longer calls "+strings.Join(miss, ", ")+": aliases and pointers to aliases are not recognised here")
		}
	}
	// stackageStructsEqual compares the converted instances of both operands
	if fn := c.p.ByName["stackageStructsEqual"]; fn != nil {
		fa := c.eng.analyze(fn, nil)
		var problems []string
		nCalls := 0
		for _, pair := range [][2]string{{"Condition.IsEqual", "conditionTypeAliasConverter"}, {"Stack.IsEqual", "stackTypeAliasConverter"}} {
			for _, call := range c.findCalls(fn, pair[0]) {
				nCalls++
				for _, s := range fa.statesBefore(call) {
					okRecv, okArg := false, false
					for _, cc := range c.findCalls(fn, pair[1]) {
						if _, did := s.cep[cc]; !did {
							continue
						}
						at := fa.term(s, cc.Call.Args[0])
						r0 := fa.callResultTerm(s, cc, 0)
						okv, known := fa.knownTerm(s, aTR, fa.callResultTerm(s, cc, 1))
						if !known || !okv {
							continue
						}
						if at.K == "P" && at.N == 0 && fa.term(s, call.Call.Args[0]) == r0 {
							okRecv = true
						}
						if at.K == "P" && at.N == 1 && unMI(fa.term(s, call.Call.Args[1])) == r0 {
							okArg = true
						}
					}
					if !okRecv || !okArg {
						problems = append(problems, c.p.instrPos(call)+": "+pair[0]+" is not applied to the converted first operand with the converted second operand")
					}
				}
			}
		}
		if nCalls != 2 {
			problems = append(problems, fmt.Sprintf("%d IsEqual calls, expected 2", nCalls))
		}
		if len(problems) == 0 {
			rep.ok("R-CONV", "stackageStructsEqual", "compares converted instances", c.p.pos(fn.Pos()), "both operands go through the same converter and the native instances are compared")
		} else {
			sort.Strings(problems)
			rep.bad("R-CONV", "stackageStructsEqual", "compares converted instances", c.p.pos(fn.Pos()), strings.Join(uniq(problems), "; "))
		}
	}
	for _, pair := range [][2]string{{"ConvertStack", "stackTypeAliasConverter"}, {"ConvertCondition", "conditionTypeAliasConverter"}} {
		fn := c.anchor("R-CONV", pair[0])
		if fn == nil {
			continue
		}
		fa := c.eng.analyze(fn, nil)
		var problems []string
		calls := c.findCalls(fn, pair[1])
		if len(calls) != 1 {
			problems = append(problems, "expected one converter call")
		} else {
			for _, ret := range c.returnsOf(fn) {
				for _, s := range fa.statesBefore(ret) {
					if t := fa.term(s, calls[0].Call.Args[0]); !(t.K == "P" && t.N == 0) {
						problems = append(problems, "the converter is not applied to the argument")
					}
					for k := 0; k < 2; k++ {
						if fa.term(s, ret.Results[k]) != fa.callResultTerm(s, calls[0], k) {
							problems = append(problems, fmt.Sprintf("result %d is not the converter's", k))
						}
					}
				}
			}
		}
		if len(problems) == 0 {
			rep.ok("R-CONV", pair[0], "returns the converter's results", c.p.pos(fn.Pos()), "argument and both results are passed through unchanged")
		} else {
			sort.Strings(problems)
			rep.bad("R-CONV", pair[0], "returns the converter's results", c.p.pos(fn.Pos()), strings.Join(uniq(problems), "; "))
		}
	}

	// ---- SELF
	for _, pair := range [][2]string{{"stackTypeAliasConverter", "Stack"}, {"conditionTypeAliasConverter", "Condition"}} {
		fn := c.anchor("R-CONV", pair[0])
		if fn == nil {
			continue
		}
		fa := c.eng.analyze(fn, nil)
		var problems []string
		u := tt.mk(Term{K: "P", N: 0, S: fn.Params[0].Name()})
		// the convertibility test: <derefPtr(typOf(u), valOf(u))>#0 .ConvertibleTo(typOf(zero native))
		var ctCall *ssa.Call
		for _, b := range fn.Blocks {
			for _, in := range b.Instrs {
				if call, ok := in.(*ssa.Call); ok && call.Call.IsInvoke() && call.Call.Method.Name() == "ConvertibleTo" {
					ctCall = call
				}
			}
		}
		dps := c.findCalls(fn, "derefPtr")
		if ctCall == nil || len(dps) != 1 {
			problems = append(problems, "expected one derefPtr call and one ConvertibleTo test")
		} else {
			dp := dps[0]
			// derefPtr(typOf(u), valOf(u))
			okArgs := true
			for k, want := range []string{"reflect.TypeOf", "reflect.ValueOf"} {
				ac, ok := dp.Call.Args[k].(*ssa.Call)
				if !ok || c.calleeName(&ac.Call) != want || len(ac.Call.Args) != 1 || ac.Call.Args[0] != ssa.Value(fn.Params[0]) {
					okArgs = false
				}
			}
			if !okArgs {
				problems = append(problems, "derefPtr is not applied to (typOf(u), valOf(u)) of the argument itself")
			}
			if ex, ok := ctCall.Call.Value.(*ssa.Extract); !ok || ex.Tuple != ssa.Value(dp) || ex.Index != 0 {
				problems = append(problems, "the convertibility test is not made on the pointer-flattened type")
			}
			// return paths
			for _, ret := range c.returnsOf(fn) {
				for _, s := range fa.statesBefore(ret) {
					okv, known := c.knownBool(fa, s, ret.Results[1])
					if known && okv {
						// converted: the instance returned is the native value or the asserted conversion, and it is not zero
						continue
					}
					// declined: one of the legitimate reasons must hold
					reason := false
					// nil argument
					if v, k := fa.nonNil(s, fn.Params[0]); k && !v {
						reason = true
					}
					if t := tt.mk(Term{K: "N", A: tt.mk(Term{K: "B", S: "==", A: tt.mk(Term{K: "C", S: "nil"}), B: u})}); t != nil {
						if v, k := fa.knownTerm(s, aTR, t); k && !v {
							reason = true
						}
					}
					// zero native / zero converted instance
					for _, zc := range c.findCalls(fn, pair[1]+".IsZero") {
						if _, did := s.cep[zc]; did {
							if v, k := fa.knownTerm(s, aTR, fa.term(s, zc)); k && v {
								reason = true
							}
						}
					}
					// not convertible
					if v, k := fa.knownTerm(s, aTR, fa.term(s, ctCall)); k && !v {
						reason = true
					}
					// converted value does not assert (cannot happen for a convertible type; tolerated)
					for _, b := range fn.Blocks {
						for _, in := range b.Instrs {
							if ex, ok := in.(*ssa.Extract); ok && ex.Index == 1 {
								if ta, ok := ex.Tuple.(*ssa.TypeAssert); ok && c.p.isNamed(ta.AssertedType, pair[1]) {
									if _, isParam := ta.X.(*ssa.Parameter); isParam {
										continue
									}
									if v, k := fa.knownTerm(s, aTR, fa.term(s, ex)); k && !v {
										if cv, ck := fa.knownTerm(s, aTR, fa.term(s, ctCall)); ck && cv {
											reason = true
										}
									}
								}
							}
						}
					}
					if !reason {
						if os.Getenv("CONVDEBUG") != "" {
							fmt.Printf("CONV decline {%s}\n", s.describe())
						}
						problems = append(problems, c.p.instrPos(ret)+": a value can be declined for a reason other than nil / zero instance / not convertible after following pointers (some aliases or pointers to aliases would be rejected)")
					}
				}
			}
		}
		if len(problems) == 0 {
			rep.ok("R-CONV", pair[0], "declines only nil, zero and unrelated values", c.p.pos(fn.Pos()), "every (zero,false) path is justified by nil, a zero instance, or ConvertibleTo()==false on the pointer-flattened type of the argument")
		} else {
			sort.Strings(problems)
			rep.bad("R-CONV", pair[0], "declines only nil, zero and unrelated values", c.p.pos(fn.Pos()), strings.Join(uniq(problems), "; "))
		}
	}
}

// typeIDConfirmed: the functions in which the identity of two reflect.Types
// may decide something.  They are the leaf comparers valuesEqual dispatches
// to after both operands were offered to the Stack/Condition converters and
// declined; anywhere else a type-identity test would tell an alias (or a
// pointer to one) from the native type it must behave like.
var typeIDConfirmed = map[string]string{
	"channelsEqual":  "leaf comparer for channels, reached from valuesEqual after the converters declined",
	"functionsEqual": "leaf comparer for functions, reached from valuesEqual after the converters declined",
	"mapsEqual":      "leaf comparer for maps, reached from valuesEqual after the converters declined",
}

func (c *Ctx) ruleTypeIdentity() {
	rep := c.rep
	n := 0
	for _, fn := range c.p.Funcs {
		ord := newOrdinal()
		for _, b := range fn.Blocks {
			for _, in := range b.Instrs {
				bo, ok := in.(*ssa.BinOp)
				if !ok || (bo.Op != token.EQL && bo.Op != token.NEQ) {
					continue
				}
				isRT := func(v ssa.Value) bool {
					nt, ok := v.Type().(*types.Named)
					return ok && nt.Obj().Pkg() != nil && nt.Obj().Pkg().Path() == "reflect" && nt.Obj().Name() == "Type"
				}
				if !isRT(bo.X) || !isRT(bo.Y) {
					continue
				}
				if k, ok := bo.X.(*ssa.Const); ok && k.IsNil() {
					continue
				}
				if k, ok := bo.Y.(*ssa.Const); ok && k.IsNil() {
					continue
				}
				n++
				construct := ord.next("type identity test")
				if why, ok := typeIDConfirmed[relName(fn)]; ok {
					rep.ok("R-CONV", relName(fn), construct, c.p.instrPos(in), why)
				} else {
					rep.bad("R-CONV", relName(fn), construct, c.p.instrPos(in), "two reflect.Types are compared for identity outside the confirmed leaf comparers: an alias of Stack/Condition (or a pointer to one) has a different type than the native value it must behave like")
				}
			}
		}
	}
	rep.Extra["type_identity_tests"] = n
}
