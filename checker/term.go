package main

import (
	"fmt"
	"go/constant"
	"go/token"
	"go/types"
	"sort"
	"strings"

	"golang.org/x/tools/go/ssa"
)

// Term is a canonical, hash-consed description of an immutable SSA value.
// Facts of the guard engine are statements about Terms; because every Term
// denotes a value that cannot change once computed (heap loads carry the
// memory epoch they were made in), facts never need to be invalidated by
// stores - only by re-execution of the defining instruction in a loop.
type Term struct {
	K    string // P FV C G F FA L V X B N LEN MI CV IA I TA TAOK
	Const constant.Value // for C
	Typ  types.Type      // for MI (operand type), TA/TAOK (asserted type)
	A, B *Term
	N    int
	S    string
	V    ssa.Value
	key  string
	vals []ssa.Value // SSA values (instructions) the term mentions
	eps  []int       // memory epochs the term mentions (L terms)
}

func (t *Term) Key() string {
	if t == nil {
		return "<nil>"
	}
	return t.key
}

type termTable struct {
	m map[string]*Term
	locEpochFn func(loc string) int // per-location epoch mapping used by substFull for entry-state loads
}

func newTermTable() *termTable { return &termTable{m: map[string]*Term{}} }

func (tt *termTable) mk(t Term) *Term {
	if t.K == "B" && t.S == "==" && t.A.key > t.B.key {
		t.A, t.B = t.B, t.A
	}
	if s := tt.simplify(&t); s != nil {
		return s
	}
	var sb strings.Builder
	sb.WriteString(t.K)
	sb.WriteByte('(')
	switch t.K {
	case "P", "FV", "R":
		fmt.Fprintf(&sb, "%d", t.N)
	case "C", "G":
		sb.WriteString(t.S)
	case "V":
		sb.WriteString(valueID(t.V))
	case "F", "FA", "X":
		fmt.Fprintf(&sb, "%s,%d", t.A.key, t.N)
	case "L":
		fmt.Fprintf(&sb, "%s@%d", t.A.key, t.N)
		if t.S != "" {
			sb.WriteString("#" + t.S)
		}
	case "B":
		fmt.Fprintf(&sb, "%s,%s,%s", t.S, t.A.key, t.B.key)
	case "N", "LEN", "KIND", "ISNIL", "TYPEOF", "VALOF":
		sb.WriteString(t.A.key)
	case "MI", "TA", "TAOK":
		fmt.Fprintf(&sb, "%s,%s", t.S, t.A.key)
	case "CV":
		fmt.Fprintf(&sb, "%s,%s", t.S, t.A.key)
	case "IA", "I":
		fmt.Fprintf(&sb, "%s,%s", t.A.key, t.B.key)
	case "AL":
		sb.WriteString(t.A.key)
		if t.B != nil {
			sb.WriteByte(',')
			sb.WriteString(t.B.key)
		}
	case "APP":
		fmt.Fprintf(&sb, "%s@%d", t.S, t.N)
		if t.A != nil {
			sb.WriteByte(':')
			sb.WriteString(t.A.key)
		}
	default:
		panic("bad term kind " + t.K)
	}
	sb.WriteByte(')')
	k := sb.String()
	if x, ok := tt.m[k]; ok {
		return x
	}
	t.key = k
	seen := map[ssa.Value]bool{}
	add := func(vs []ssa.Value) {
		for _, v := range vs {
			if !seen[v] {
				seen[v] = true
				t.vals = append(t.vals, v)
			}
		}
	}
	if t.V != nil {
		add([]ssa.Value{t.V})
	}
	if t.A != nil {
		add(t.A.vals)
		t.eps = append(t.eps, t.A.eps...)
	}
	if t.B != nil {
		add(t.B.vals)
		t.eps = append(t.eps, t.B.eps...)
	}
	if t.K == "L" || t.K == "APP" {
		t.eps = append(t.eps, t.N)
	}
	nt := t
	tt.m[k] = &nt
	return &nt
}

func (tt *termTable) boolConst(b bool) *Term {
	return tt.mk(Term{K: "C", S: fmt.Sprint(b), Const: constant.MakeBool(b)})
}

// simplify folds constant structure: len of a constant string, type
// assertions on a freshly boxed value, comparisons of integer constants.
func (tt *termTable) simplify(t *Term) *Term {
	switch t.K {
	case "F":
		if t.A.K == "L" && t.A.S == "" {
			return tt.mk(Term{K: "L", A: tt.mk(Term{K: "FA", A: t.A.A, N: t.N}), N: t.A.N})
		}
	case "LEN":
		if t.A.K == "C" && t.A.Const != nil && t.A.Const.Kind() == constant.String {
			n := int64(len(constant.StringVal(t.A.Const)))
			return tt.mk(Term{K: "C", S: fmt.Sprint(n), Const: constant.MakeInt64(n)})
		}
	case "TA":
		if t.A.K == "MI" && t.Typ != nil && t.A.Typ != nil && types.Identical(t.Typ, t.A.Typ) {
			return t.A.A
		}
	case "TAOK":
		if t.A.K == "MI" && t.Typ != nil && t.A.Typ != nil {
			if types.Identical(t.Typ, t.A.Typ) {
				return tt.boolConst(true)
			}
			if _, isIface := t.Typ.Underlying().(*types.Interface); !isIface {
				return tt.boolConst(false)
			}
			if iface, ok := t.Typ.Underlying().(*types.Interface); ok {
				return tt.boolConst(types.Implements(t.A.Typ, iface))
			}
		}
		if t.A.K == "C" && t.A.S == "nil" {
			return tt.boolConst(false)
		}
	case "N":
		if t.A.K == "C" && t.A.Const != nil && t.A.Const.Kind() == constant.Bool {
			return tt.boolConst(!constant.BoolVal(t.A.Const))
		}
		if t.A.K == "N" {
			return t.A.A
		}
	case "B":
		if t.A.K == "C" && t.B.K == "C" && t.A.Const != nil && t.B.Const != nil {
			var op token.Token
			switch t.S {
			case "==":
				op = token.EQL
			case "<":
				op = token.LSS
			case "<=":
				op = token.LEQ
			default:
				return nil
			}
			ka, kb := t.A.Const.Kind(), t.B.Const.Kind()
			if ka == kb && (ka == constant.Int || ka == constant.String || (ka == constant.Bool && op == token.EQL)) {
				return tt.boolConst(constant.Compare(t.A.Const, op, t.B.Const))
			}
		}
	}
	return nil
}

func valueID(v ssa.Value) string {
	fn := "?"
	if in, ok := v.(ssa.Instruction); ok && in.Parent() != nil {
		fn = relName(in.Parent())
	} else if p, ok := v.(*ssa.Parameter); ok {
		fn = relName(p.Parent())
	}
	return fn + ":" + v.Name()
}

// paramRooted reports whether the term is built only from parameters,
// constants, globals and pure structure (no callee-local value identity),
// i.e. whether it is meaningful to a caller after substitution.
func (t *Term) paramRooted() bool {
	switch t.K {
	case "P", "C", "G":
		return true
	case "V", "FV", "L", "APP":
		return false
	}
	if t.A != nil && !t.A.paramRooted() {
		return false
	}
	if t.B != nil && !t.B.paramRooted() {
		return false
	}
	return true
}

// summaryRooted: like paramRooted but also admits loads made in the entry
// epoch (epoch 0) of a pure function and result symbols R(k).
func (t *Term) summaryRooted(allowLoads bool) bool {
	switch t.K {
	case "P", "C", "G", "R":
		return true
	case "V", "FV":
		return false
	case "L":
		return allowLoads && t.N == 0 && t.A.summaryRooted(allowLoads)
	case "APP":
		return allowLoads && t.N == 0 && (t.A == nil || t.A.summaryRooted(allowLoads))
	}
	if t.A != nil && !t.A.summaryRooted(allowLoads) {
		return false
	}
	if t.B != nil && !t.B.summaryRooted(allowLoads) {
		return false
	}
	return true
}

func (t *Term) mentionsResult() bool {
	if t.K == "R" {
		return true
	}
	if t.A != nil && t.A.mentionsResult() {
		return true
	}
	if t.B != nil && t.B.mentionsResult() {
		return true
	}
	return false
}

func (t *Term) mentionsParam() bool {
	if t.K == "P" {
		return true
	}
	if t.A != nil && t.A.mentionsParam() {
		return true
	}
	if t.B != nil && t.B.mentionsParam() {
		return true
	}
	return false
}

// subst replaces parameter terms by the given argument terms.
func (tt *termTable) subst(t *Term, args []*Term) *Term {
	return tt.substFull(t, args, nil, -1)
}

// abstractResults rewrites subterms equal to another result's term into the
// result symbol R(j); returns nil when nothing was rewritten.
func (tt *termTable) abstractResults(t *Term, others []*Term) *Term {
	for j, o := range others {
		if o != nil && o == t {
			return tt.mk(Term{K: "R", N: j})
		}
	}
	if t.A == nil && t.B == nil {
		return nil
	}
	var a, b *Term
	changed := false
	if t.A != nil {
		if a = tt.abstractResults(t.A, others); a != nil {
			changed = true
		} else {
			a = t.A
		}
	}
	if t.B != nil {
		if b = tt.abstractResults(t.B, others); b != nil {
			changed = true
		} else {
			b = t.B
		}
	}
	if !changed {
		return nil
	}
	nt := *t
	nt.A, nt.B = a, b
	nt.vals, nt.eps, nt.key = nil, nil, ""
	return tt.mk(nt)
}

// replaceTerm rewrites occurrences of `from` inside t by `to`; nil when t
// does not mention `from`.
func (tt *termTable) replaceTerm(t, from, to *Term) *Term {
	if t == from {
		return to
	}
	if t.A == nil && t.B == nil {
		return nil
	}
	var a, b *Term
	changed := false
	if t.A != nil {
		if a = tt.replaceTerm(t.A, from, to); a != nil {
			changed = true
		} else {
			a = t.A
		}
	}
	if t.B != nil {
		if b = tt.replaceTerm(t.B, from, to); b != nil {
			changed = true
		} else {
			b = t.B
		}
	}
	if !changed {
		return nil
	}
	nt := *t
	nt.A, nt.B = a, b
	nt.vals, nt.eps, nt.key = nil, nil, ""
	return tt.mk(nt)
}

// substFull also maps result symbols R(k) to the given terms and entry-epoch
// loads L(a,0) to loads in the caller's epoch `epoch` (-1: not allowed).
func (tt *termTable) substFull(t *Term, args, results []*Term, epoch int) *Term {
	switch t.K {
	case "P":
		if t.N < len(args) && args[t.N] != nil {
			return args[t.N]
		}
		return nil
	case "R":
		if t.N < len(results) && results[t.N] != nil {
			return results[t.N]
		}
		return nil
	case "C", "G":
		return t
	case "V", "FV":
		return nil
	case "L", "APP":
		if epoch == -1 || t.N != 0 {
			return nil
		}
	}
	var a, b *Term
	if t.A != nil {
		if a = tt.substFull(t.A, args, results, epoch); a == nil {
			return nil
		}
	}
	if t.B != nil {
		if b = tt.substFull(t.B, args, results, epoch); b == nil {
			return nil
		}
	}
	nt := *t
	if t.K == "L" || t.K == "APP" {
		nt.N = epoch
		if t.K == "L" && tt.locEpochFn != nil {
			nt.N = tt.locEpochFn(t.S)
		}
	}
	nt.A, nt.B = a, b
	nt.vals = nil
	nt.eps = nil
	nt.key = ""
	// simplification: field of a known composite is left as is
	return tt.mk(nt)
}

func constString(c *ssa.Const) string {
	if c.Value == nil {
		return "nil"
	}
	return c.Value.ExactString()
}

func constInt64(v constant.Value) (int64, bool) {
	if v == nil || v.Kind() != constant.Int {
		return 0, false
	}
	return constant.Int64Val(v)
}

// Atom kinds.
const (
	aNN    = "nn"    // pointer/interface/map/func value is non-nil (true) / nil (false)
	aTR    = "tr"    // boolean value is true/false
	aVALID = "valid" // reflect.Value is valid (non-zero Value)
	aCANIF = "canif" // reflect.Value may be passed to Interface()
	aDID   = "did"   // the call instruction was executed on this path
)

type Fact struct {
	Kind string
	T    *Term
	Val  bool
}

func factKey(kind string, t *Term) string { return kind + "|" + t.key }

// State is one conjunction of facts (one disjunct of the DNF).
type State struct {
	facts map[string]Fact
	bind  map[ssa.Value]ssa.Value // phi / local-cell load -> the value it currently equals
	terms map[ssa.Value]*Term     // per-path term overrides (heap loads with epoch, aliased phis)
	mem   map[*ssa.Alloc]ssa.Value // multi-store local cells: last stored value (nil = unknown)
	cep   map[ssa.Value]int       // memory epoch at the time of each (pure) call
	cepLoc map[ssa.Value]*locSnap // per-location epochs at the time of each call
	base  int                     // epoch of the last write that may have touched any location
	locEp map[string]int          // per abstract location: epoch of its last write (absent: base)
	heap  map[string]heapCell     // store-to-load forwarding for heap cells (address term key -> stored value)
	epoch int
	dead  bool
	sorted []Fact // cache of factList()
	frozen bool   // stored in an analysis (never mutated again)
}

// factList returns the facts in a deterministic (key) order; every loop
// whose outcome could depend on the order must use it instead of ranging
// over the map.
func (s *State) factList() []Fact {
	if s.sorted != nil && len(s.sorted) == len(s.facts) {
		return s.sorted
	}
	ks := make([]string, 0, len(s.facts))
	for k := range s.facts {
		ks = append(ks, k)
	}
	sort.Strings(ks)
	out := make([]Fact, 0, len(ks))
	for _, k := range ks {
		out = append(out, s.facts[k])
	}
	s.sorted = out
	return out
}

// locSnap is an immutable snapshot of the per-location epochs.
type locSnap struct {
	base int
	loc  map[string]int
	k    string
}

func (s *locSnap) of(loc string) int {
	if ep, ok := s.loc[loc]; ok {
		return ep
	}
	return s.base
}

func (s *locSnap) key() string {
	if s.k == "" {
		var ks []string
		for l, ep := range s.loc {
			ks = append(ks, fmt.Sprintf("%s=%d", l, ep))
		}
		sort.Strings(ks)
		s.k = fmt.Sprintf("%d|%s", s.base, strings.Join(ks, ","))
	}
	return s.k
}

func (s *State) locEpoch(loc string) int {
	if ep, ok := s.locEp[loc]; ok {
		return ep
	}
	return s.base
}

func (s *State) snap() *locSnap {
	m := make(map[string]int, len(s.locEp))
	for k, v := range s.locEp {
		m[k] = v
	}
	return &locSnap{base: s.base, loc: m}
}

type heapCell struct {
	addr *Term
	val  ssa.Value
	loc  string
	ep   int // memory epoch right after the store
}

func newState() *State {
	return &State{facts: map[string]Fact{}, bind: map[ssa.Value]ssa.Value{}, mem: map[*ssa.Alloc]ssa.Value{}, terms: map[ssa.Value]*Term{}, heap: map[string]heapCell{}, cep: map[ssa.Value]int{}, cepLoc: map[ssa.Value]*locSnap{}, locEp: map[string]int{}}
}

func (s *State) clone() *State {
	n := &State{facts: make(map[string]Fact, len(s.facts)+4), bind: make(map[ssa.Value]ssa.Value, len(s.bind)),
		mem: make(map[*ssa.Alloc]ssa.Value, len(s.mem)), terms: make(map[ssa.Value]*Term, len(s.terms)), epoch: s.epoch, dead: s.dead}
	for k, v := range s.terms {
		n.terms[k] = v
	}
	n.cep = make(map[ssa.Value]int, len(s.cep))
	for k, v := range s.cep {
		n.cep[k] = v
	}
	n.cepLoc = make(map[ssa.Value]*locSnap, len(s.cepLoc))
	for k, v := range s.cepLoc {
		n.cepLoc[k] = v
	}
	n.base = s.base
	n.locEp = make(map[string]int, len(s.locEp))
	for k, v := range s.locEp {
		n.locEp[k] = v
	}
	n.heap = make(map[string]heapCell, len(s.heap))
	for k, v := range s.heap {
		n.heap[k] = v
	}
	for k, v := range s.facts {
		n.facts[k] = v
	}
	for k, v := range s.bind {
		n.bind[k] = v
	}
	for k, v := range s.mem {
		n.mem[k] = v
	}
	return n
}

// add records a fact; a contradiction kills the state.
func (s *State) add(kind string, t *Term, val bool) {
	if t == nil || s.dead {
		return
	}
	k := factKey(kind, t)
	if f, ok := s.facts[k]; ok {
		if f.Val != val {
			s.dead = true
		}
		return
	}
	s.facts[k] = Fact{kind, t, val}
	s.sorted = nil
}

func (s *State) get(kind string, t *Term) (val, known bool) {
	if t == nil {
		return false, false
	}
	f, ok := s.facts[factKey(kind, t)]
	return f.Val, ok
}

func (s *State) key() string {
	if s.dead {
		return "DEAD"
	}
	ks := make([]string, 0, len(s.facts)+len(s.bind)+len(s.mem)+1)
	for k, f := range s.facts {
		if f.Val {
			ks = append(ks, "+"+k)
		} else {
			ks = append(ks, "-"+k)
		}
	}
	for v, w := range s.bind {
		ks = append(ks, "b:"+valueID(v)+"="+valueName(w))
	}
	for a, w := range s.mem {
		ks = append(ks, "m:"+valueID(a)+"="+valueName(w))
	}
	for v, t := range s.terms {
		ks = append(ks, "t:"+valueID(v)+"="+t.key)
	}
	for k, c := range s.heap {
		ks = append(ks, "h:"+k+"="+valueName(c.val))
	}
	for v, ep := range s.cep {
		ks = append(ks, fmt.Sprintf("c:%s=%d", valueID(v), ep))
	}
	for l, ep := range s.locEp {
		ks = append(ks, fmt.Sprintf("le:%s=%d", l, ep))
	}
	ks = append(ks, fmt.Sprintf("base:%d", s.base))
	ks = append(ks, fmt.Sprintf("e:%d", s.epoch))
	sort.Strings(ks)
	return strings.Join(ks, ";")
}

func valueName(v ssa.Value) string {
	if v == nil {
		return "?"
	}
	if c, ok := v.(*ssa.Const); ok {
		return "const:" + constString(c)
	}
	return valueID(v)
}

// dropMentioning removes every fact, binding and cell whose term mentions one
// of the given values (used when a value is re-defined by loop re-entry).
func (s *State) dropMentioning(vals map[ssa.Value]bool) {
	s.sorted = nil
	for k, f := range s.facts {
		for _, v := range f.T.vals {
			if vals[v] {
				delete(s.facts, k)
				break
			}
		}
	}
	for v, w := range s.bind {
		if vals[v] || (w != nil && vals[w]) {
			delete(s.bind, v)
		}
	}
	for a, w := range s.mem {
		if w != nil && vals[w] {
			s.mem[a] = nil
		}
	}
	for v := range s.cep {
		if vals[v] {
			delete(s.cep, v)
			delete(s.cepLoc, v)
		}
	}
	for k, c := range s.heap {
		drop := vals[c.val]
		for _, m := range c.addr.vals {
			if vals[m] {
				drop = true
			}
		}
		if drop {
			delete(s.heap, k)
		}
	}
	for v, t := range s.terms {
		if vals[v] {
			delete(s.terms, v)
			continue
		}
		for _, m := range t.vals {
			if vals[m] {
				delete(s.terms, v)
				break
			}
		}
	}
}

// dropEpochs removes facts and term overrides that mention a memory epoch
// selected by pred (epochs generated inside a loop that is being re-entered).
func (s *State) dropEpochs(pred func(int) bool) {
	s.sorted = nil
	has := func(t *Term) bool {
		for _, ep := range t.eps {
			if pred(ep) {
				return true
			}
		}
		return false
	}
	for k, f := range s.facts {
		if has(f.T) {
			delete(s.facts, k)
		}
	}
	for v, t := range s.terms {
		if has(t) {
			delete(s.terms, v)
		}
	}
	for k, c := range s.heap {
		if has(c.addr) {
			delete(s.heap, k)
		}
	}
}

// meet intersects two states (facts present in both with the same value).
func meetStates(a, b *State) *State {
	if a.dead {
		return b.clone()
	}
	if b.dead {
		return a.clone()
	}
	n := newState()
	for k, f := range a.facts {
		if g, ok := b.facts[k]; ok && g.Val == f.Val {
			n.facts[k] = f
		}
	}
	for v, w := range a.bind {
		if x, ok := b.bind[v]; ok && x == w {
			n.bind[v] = w
		}
	}
	for c, w := range a.mem {
		if x, ok := b.mem[c]; ok && x == w {
			n.mem[c] = w
		} else {
			n.mem[c] = nil
		}
	}
	for c := range b.mem {
		if _, ok := a.mem[c]; !ok {
			n.mem[c] = nil
		}
	}
	for v, t := range a.terms {
		if x, ok := b.terms[v]; ok && x == t {
			n.terms[v] = t
		}
	}
	for k, c := range a.heap {
		if x, ok := b.heap[k]; ok && x.val == c.val {
			n.heap[k] = c
		}
	}
	for v, ep := range a.cep {
		if x, ok := b.cep[v]; ok && x == ep {
			n.cep[v] = ep
			if sa, sb := a.cepLoc[v], b.cepLoc[v]; sa != nil && sb != nil && sa.key() == sb.key() {
				n.cepLoc[v] = sa
			}
		}
	}
	if a.base == b.base {
		n.base = a.base
		for l, ep := range a.locEp {
			if x, ok := b.locEp[l]; ok && x == ep {
				n.locEp[l] = ep
			} else {
				n.locEp[l] = -1
			}
		}
		for l := range b.locEp {
			if _, ok := a.locEp[l]; !ok {
				n.locEp[l] = -1
			}
		}
	} else {
		n.base = -1
	}
	if a.epoch == b.epoch {
		n.epoch = a.epoch
	} else {
		n.epoch = -1
	}
	return n
}

func isNilConst(v ssa.Value) bool {
	c, ok := v.(*ssa.Const)
	return ok && c.Value == nil && isNillable(c.Type())
}

func isNillable(t types.Type) bool {
	switch t.Underlying().(type) {
	case *types.Pointer, *types.Interface, *types.Map, *types.Slice, *types.Chan, *types.Signature:
		return true
	}
	if b, ok := t.Underlying().(*types.Basic); ok && b.Kind() == types.UntypedNil {
		return true
	}
	return false
}

func isBoolConst(v ssa.Value) (bool, bool) {
	c, ok := v.(*ssa.Const)
	if !ok || c.Value == nil || c.Value.Kind() != constant.Bool {
		return false, false
	}
	return constant.BoolVal(c.Value), true
}

func negOp(op token.Token) (token.Token, bool) {
	switch op {
	case token.EQL:
		return token.NEQ, true
	case token.NEQ:
		return token.EQL, true
	case token.LSS:
		return token.GEQ, true
	case token.GEQ:
		return token.LSS, true
	case token.GTR:
		return token.LEQ, true
	case token.LEQ:
		return token.GTR, true
	}
	return op, false
}
