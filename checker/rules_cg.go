package main

import (
	"fmt"
	"sort"

	"golang.org/x/tools/go/callgraph"
	"golang.org/x/tools/go/callgraph/cha"
	"golang.org/x/tools/go/callgraph/vta"
	"golang.org/x/tools/go/ssa"
	"golang.org/x/tools/go/ssa/ssautil"
)

// ruleCallGraphCross (thorough tier): the rules follow static call edges and
// treat every dynamic call (closure slots, function values, interface
// invokes) as opaque user code.  That is complete only if no dynamic call site
// of the package can reach an in-package function.  Cross-checked against a
// VTA call graph (refining CHA) built for the whole program.
func (c *Ctx) ruleCallGraphCross() {
	prog := c.p.Prog
	all := ssautil.AllFunctions(prog)
	cg := vta.CallGraph(all, cha.CallGraph(prog))
	type hit struct{ site, target string }
	var hits []hit
	nSites := 0
	nPure := 0
	for _, fn := range c.p.Funcs {
		node := cg.Nodes[fn]
		if node == nil {
			continue
		}
		for _, e := range node.Out {
			if e.Site == nil {
				continue
			}
			cc := e.Site.Common()
			if c.p.callee(cc) != nil {
				continue // static (or alias-resolved) edge: followed by the rules
			}
			if _, isB := cc.Value.(*ssa.Builtin); isB {
				continue
			}
			nSites++
			tgt := e.Callee.Func
			if tgt == nil || !c.p.inPkg(tgt) {
				continue
			}
			// a closure or bound-method wrapper created in the same function is followed by reach()
			if tgt.Parent() != nil || tgt.Synthetic != "" {
				continue
			}
			// a target that writes nothing (a getter reached through the package's own
			// interface) cannot invalidate any fact the rules rely on
			if c.eff.pure(tgt) {
				nPure++
				continue
			}
			hits = append(hits, hit{relName(fn) + " " + c.p.instrPos(e.Site), relName(tgt)})
		}
	}
	_ = callgraph.CalleesOf
	sort.Slice(hits, func(i, j int) bool { return hits[i].site+hits[i].target < hits[j].site+hits[j].target })
	if len(hits) == 0 {
		c.rep.ok("R-CG", "package", "dynamic calls stay outside the package", "?", fmt.Sprintf("VTA call graph: of the %d dynamic call edges of the package, %d reach in-package functions, all of them write-free getters; none reaches an in-package function that writes: following static edges is complete for every effect- and fact-based rule", nSites, nPure))
		return
	}
	seen := map[string]bool{}
	for _, h := range hits {
		k := h.site + " -> " + h.target
		if seen[k] {
			continue
		}
		seen[k] = true
		c.rep.bad("R-CG", "package", "dynamic edge "+h.target, "?", "a dynamic call at "+h.site+" can reach the in-package function "+h.target+", which the rules do not follow")
	}
}
