package main

import (
	"fmt"
	"go/token"
	"go/types"
	"sort"
	"strings"

	"golang.org/x/tools/go/ssa"
)

type Ctx struct {
	p    *Program
	eff  *Effects
	eng  *Engine
	rep  *Report
	tier string
	api  []APIMethod
	ronly int64
	nilA  *nilAnalysis
	typImm int
	wantBnd bool
	concurrent bool
	lockSetCache map[*ssa.Function][]*Term
	censusOnly func(what, detail string) bool
	proveCache map[*State]map[string]bool
	infeasCache map[*State]bool
	proverCache map[*State]*bndProver
	nilPtrPred map[*ssa.Function]bool
}

func newCtx(p *Program, prop, tier string) *Ctx {
	c := &Ctx{p: p, tier: tier, rep: newReport(prop)}
	c.eff = computeEffects(p)
	c.eng = newEngine(p, c.eff)
	c.api = p.exportedAPI()
	if v, ok := p.constVal("ronly"); ok {
		c.ronly = v
	}
	for _, u := range c.eff.users {
		c.rep.UserEdges = append(c.rep.UserEdges, fmt.Sprintf("%s %s: %s", relName(u.Fn), p.instrPos(u.Instr), u.What))
	}
	sort.Strings(c.rep.UserEdges)
	return c
}

// anchor resolves a function by name; a missing anchor is reported as a
// failed obligation of the given rule (never silently skipped).
func (c *Ctx) anchor(rule, name string) *ssa.Function {
	fn := c.p.ByName[name]
	if fn == nil {
		c.rep.bad(rule, name, "anchor", "?", "anchor function "+name+" no longer resolves; the rule cannot be evaluated")
	}
	return fn
}

func (c *Ctx) handleMethods() []APIMethod {
	var out []APIMethod
	for _, m := range c.api {
		if m.Recv == "Stack" || m.Recv == "Condition" {
			out = append(out, m)
		}
	}
	return out
}

// callCommon returns the CallCommon of a call-like instruction.
func callCommon(in ssa.Instruction) *ssa.CallCommon {
	switch x := in.(type) {
	case *ssa.Call:
		return &x.Call
	case *ssa.Defer:
		return &x.Call
	case *ssa.Go:
		return &x.Call
	}
	return nil
}

// reach returns every in-package function reachable from the roots over
// static call edges (including deferred calls and bound closures created in
// reachable code).  USER edges are not followed.
func (c *Ctx) reach(roots ...*ssa.Function) []*ssa.Function {
	seen := map[*ssa.Function]bool{}
	var order []*ssa.Function
	var visit func(fn *ssa.Function)
	visit = func(fn *ssa.Function) {
		if fn == nil || seen[fn] || !c.p.inPkg(fn) {
			return
		}
		seen[fn] = true
		order = append(order, fn)
		for _, b := range fn.Blocks {
			for _, in := range b.Instrs {
				if cc := callCommon(in); cc != nil {
					visit(c.p.callee(cc))
				}
				if mc, ok := in.(*ssa.MakeClosure); ok {
					if f, ok := mc.Fn.(*ssa.Function); ok {
						if f.Synthetic != "" {
							// bound method wrapper
							for _, bb := range f.Blocks {
								for _, i2 := range bb.Instrs {
									if c2 := callCommon(i2); c2 != nil {
										visit(c.p.callee(c2))
									}
								}
							}
						} else {
							visit(f)
						}
					}
				}
			}
		}
	}
	for _, r := range roots {
		visit(r)
	}
	sort.Slice(order, func(i, j int) bool { return relName(order[i]) < relName(order[j]) })
	return order
}

func isConstInt(v ssa.Value, n int64) bool {
	c, ok := v.(*ssa.Const)
	if !ok {
		return false
	}
	x, ok := constInt64(c.Value)
	return ok && x == n
}

func constIntOf(v ssa.Value) (int64, bool) {
	c, ok := v.(*ssa.Const)
	if !ok {
		return 0, false
	}
	return constInt64(c.Value)
}

// describeInstr gives a line-free description of an instruction.
func (c *Ctx) describeInstr(in ssa.Instruction) string {
	switch x := in.(type) {
	case *ssa.Store:
		return "store " + c.eff.classifyAddr(x.Addr)
	case *ssa.MapUpdate:
		return "mapupdate"
	case *ssa.Call:
		if cal := c.p.callee(&x.Call); cal != nil {
			return "call " + shortFn(cal)
		}
		if x.Call.IsInvoke() {
			return "invoke " + x.Call.Method.Name()
		}
		if b, ok := x.Call.Value.(*ssa.Builtin); ok {
			return "builtin " + b.Name()
		}
		return "dyncall " + x.Call.Value.Name()
	case *ssa.Defer:
		if cal := c.p.callee(&x.Call); cal != nil {
			return "defer " + shortFn(cal)
		}
		return "defer ?"
	}
	s := in.String()
	if len(s) > 40 {
		s = s[:40]
	}
	return s
}

func shortFn(fn *ssa.Function) string {
	if fn == nil {
		return "?"
	}
	if fn.Pkg != nil && fn.Pkg.Pkg.Path() == "github.com/JesseCoretta/go-stackage" || fn.Parent() != nil {
		return relName(fn)
	}
	return fn.String()
}

// ordinalKey disambiguates several identical constructs in one function by
// their order of appearance (stable under line shifts).
type ordinal struct{ m map[string]int }

func newOrdinal() *ordinal { return &ordinal{m: map[string]int{}} }
func (o *ordinal) next(s string) string {
	o.m[s]++
	if o.m[s] == 1 {
		return s
	}
	return fmt.Sprintf("%s#%d", s, o.m[s])
}

func hasPrefixAny(s string, ps ...string) bool {
	for _, p := range ps {
		if strings.HasPrefix(s, p) {
			return true
		}
	}
	return false
}

var _ = token.ADD
var _ = types.Typ

func stringType() types.Type { return types.Typ[types.String] }

func structFieldIndex(n *types.Named, field string) int {
	st, ok := n.Underlying().(*types.Struct)
	if !ok {
		return -1
	}
	for i := 0; i < st.NumFields(); i++ {
		if st.Field(i).Name() == field {
			return i
		}
	}
	return -1
}
