package main

import (
	"fmt"
	"go/constant"
	"go/token"
	"go/types"
	"os"
	"sort"
	"strings"

	"golang.org/x/tools/go/ssa"
)

// Rules added after the eleventh round of seeded changes.  Each decides a
// small clause that other rules took for granted (a helper everything else
// relies on, a getter returning its field, a loop covering its whole range).

func termHasKind(t *Term, k string) bool {
	if t == nil {
		return false
	}
	if t.K == k {
		return true
	}
	return termHasKind(t.A, k) || termHasKind(t.B, k)
}

// ttCfgValid: the configuration record is "valid" exactly when it exists and
// carries a kind word.  Every option test (positive, hence getState and every
// read-only guard) goes through this verdict, so it may depend on nothing
// else - not on a recorded error, an option or a setting.
func (c *Ctx) ttCfgValid() {
	typIdx := c.fieldIndex("nodeConfig", "typ")
	c.runTable(ttTable{
		rule: "R-TT", fn: "(*nodeConfig).valid",
		atoms: []ttAtom{
			c.atomCallBool("absent", []string{"(*nodeConfig).isZero", "nodeConfig.isZero"}, nil),
			{"kind!=0", func(fa *FnAnalysis, st *State) (bool, bool) {
				for _, b := range fa.fn.Blocks {
					for _, in := range b.Instrs {
						bo, ok := in.(*ssa.BinOp)
						if !ok || (bo.Op != token.EQL && bo.Op != token.NEQ) {
							continue
						}
						var other ssa.Value
						if isConstInt(bo.X, 0) {
							other = bo.Y
						} else if isConstInt(bo.Y, 0) {
							other = bo.X
						} else {
							continue
						}
						t := fa.term(st, other)
						if !(t.K == "L" && t.A != nil && t.A.K == "FA" && t.A.N == typIdx && t.A.A != nil && t.A.A.K == "P" && t.A.A.N == 0) {
							continue
						}
						if v, known := c.knownBool(fa, st, bo); known {
							if bo.Op == token.EQL {
								v = !v
							}
							return v, true
						}
					}
				}
				return false, false
			}},
		},
		expect:   func(v map[string]bool) string { return fmt.Sprint(!v["absent"] && v["kind!=0"]) },
		optional: func(v map[string]bool) bool { return v["absent"] },
		outcome:  c.boolOutcome(0),
	})
}

// ttStackValidWrapper: Stack.Valid reports an error exactly when the handle is
// empty or the worker (*stack).valid - which dispatches to the validity
// closure - says no.  Nothing else (a recorded error) turns an approved stack
// into an invalid one.
func (c *Ctx) ttStackValidWrapper() {
	c.runTable(ttTable{
		rule: "R-TT", fn: "Stack.Valid",
		atoms: []ttAtom{
			{"handle", func(fa *FnAnalysis, st *State) (bool, bool) {
				return fa.knownTerm(st, aNN, c.eng.tt.mk(Term{K: "F", N: 0, A: c.param(fa, 0)}))
			}},
			c.atomCallBool("valid", []string{"(*stack).valid", "stack.valid"}, nil),
		},
		feasible: func(v map[string]bool) bool { return !(v["valid"] && !v["handle"]) },
		expect: func(v map[string]bool) string {
			if v["handle"] && v["valid"] {
				return "nil"
			}
			return "error"
		},
		outcome: func(fa *FnAnalysis, st *State, ret *ssa.Return) string {
			if len(ret.Results) == 0 {
				return "?"
			}
			if v, known := fa.nonNil(st, ret.Results[0]); known {
				if v {
					return "error"
				}
				return "nil"
			}
			return "unknown (" + fa.term(st, ret.Results[0]).Key() + ")"
		},
	})
}

// ruleOpContext: the built-in operator type answers the same non-empty
// context for every value, so the acceptance test of setOperator (non-empty
// context) cannot reject a built-in operator by its number: an out-of-range
// one is stored and then reported by Valid.
func (c *Ctx) ruleOpContext() {
	fn := c.anchor("R-CONDSTORE", "ComparisonOperator.Context")
	if fn == nil {
		return
	}
	pos := c.p.pos(fn.Pos())
	var vals []string
	bad := ""
	for _, ret := range c.returnsOf(fn) {
		if len(ret.Results) != 1 {
			bad = "unexpected result arity"
			continue
		}
		k, ok := ret.Results[0].(*ssa.Const)
		if !ok || k.Value == nil || k.Value.Kind() != constant.String {
			bad = "the context is not a constant on every path (it depends on the operator's value)"
			continue
		}
		s := constant.StringVal(k.Value)
		if s == "" {
			bad = "a path answers the empty context"
		}
		vals = append(vals, s)
	}
	sort.Strings(vals)
	vals = uniq(vals)
	if bad == "" && len(vals) != 1 {
		bad = "different contexts for different values: " + strings.Join(vals, ",")
	}
	if bad == "" {
		c.rep.ok("R-CONDSTORE", "ComparisonOperator.Context", "constant context", pos, "every value of the built-in operator type answers the non-empty context "+fmt.Sprintf("%q", vals[0]))
	} else {
		c.rep.bad("R-CONDSTORE", "ComparisonOperator.Context", "constant context", pos, bad)
	}
}

// ruleStringerLookup: getStringer looks the String method up on the value as
// given - reflect.ValueOf of the argument itself - so pointer-receiver
// stringers and pointers to zero values are found; looking through the pointer
// first loses both.
func (c *Ctx) ruleStringerLookup() {
	fn := c.anchor("R-REFL", "getStringer")
	if fn == nil {
		return
	}
	pos := c.p.pos(fn.Pos())
	n := 0
	var problems []string
	for _, b := range fn.Blocks {
		for _, in := range b.Instrs {
			call, ok := in.(*ssa.Call)
			if !ok || c.calleeName(&call.Call) != "(reflect.Value).MethodByName" {
				continue
			}
			n++
			recv, ok := call.Call.Args[0].(*ssa.Call)
			if !ok || c.calleeName(&recv.Call) != "reflect.ValueOf" || recv.Call.Args[0] != ssa.Value(fn.Params[0]) {
				problems = append(problems, c.p.instrPos(call)+": the method is not looked up on reflect.ValueOf of the argument itself")
			}
		}
	}
	if n == 0 {
		problems = append(problems, "no MethodByName lookup found")
	}
	if len(problems) == 0 {
		c.rep.ok("R-REFL", "getStringer", "lookup on the value as given", pos, fmt.Sprintf("%d lookup(s) on reflect.ValueOf(x)", n))
	} else {
		c.rep.bad("R-REFL", "getStringer", "lookup on the value as given", pos, strings.Join(problems, "; "))
	}
}

// ruleFoldTable: foldValue hands the value back untouched only when folding is
// off or the value is empty; with folding on every non-empty value - of any
// length - comes back from a case conversion of that very value.
func (c *Ctx) ruleFoldTable() {
	fn := c.anchor("R-STR", "foldValue")
	if fn == nil {
		return
	}
	pos := c.p.pos(fn.Pos())
	tt := c.eng.tt
	var problems []string
	rows := 0
	for _, do := range []bool{true, false} {
		fa := c.eng.analyze(fn, []Fact{{aTR, tt.mk(Term{K: "P", N: 0, S: fn.Params[0].Name()}), do}})
		p1 := tt.mk(Term{K: "P", N: 1, S: fn.Params[1].Name()})
		empty := tt.mk(Term{K: "B", S: "==", A: c.intConst(0), B: tt.mk(Term{K: "LEN", A: p1})})
		for _, rs := range fa.rets {
			if rs.st.dead || len(rs.ret.Results) != 1 {
				continue
			}
			rows++
			rt := fa.term(rs.st, rs.ret.Results[0])
			if !do {
				if rt != p1 {
					problems = append(problems, "with folding off the value is not returned as given: "+rt.Key())
				}
				continue
			}
			if c.provesFact(fa, rs.st, Fact{aTR, empty, true}, nil) {
				continue
			}
			if rt == p1 {
				problems = append(problems, "with folding on a non-empty value can come back unfolded (a path returns the bare argument without the value being known empty)")
				continue
			}
			// the result is a case conversion of the argument itself
			okConv := false
			if call, isCall := c.resolveValue(fa, rs.st, rs.ret.Results[0]).(*ssa.Call); isCall {
				switch c.calleeName(&call.Call) {
				case "strings.ToUpper", "strings.ToLower":
					okConv = len(call.Call.Args) == 1 && fa.term(rs.st, call.Call.Args[0]) == p1
				}
			}
			if !okConv {
				problems = append(problems, "with folding on a result is not strings.ToUpper/ToLower of the argument: "+rt.Key())
			}
		}
	}
	if rows < 3 {
		problems = append(problems, fmt.Sprintf("only %d result rows could be enumerated", rows))
	}
	if len(problems) == 0 {
		c.rep.ok("R-STR", "foldValue", "FOLD: table", pos, "the bare value only with folding off or for the empty value; otherwise ToUpper/ToLower of the value itself")
	} else {
		sort.Strings(problems)
		c.rep.bad("R-STR", "foldValue", "FOLD: table", pos, strings.Join(uniq(problems), "; "))
	}
}

// resolveValue follows phis along the path described by st (through the
// engine's term for the phi) back to the defining instruction where possible.
func (c *Ctx) resolveValue(fa *FnAnalysis, st *State, v ssa.Value) ssa.Value {
	seen := map[ssa.Value]bool{}
	for {
		if seen[v] {
			return v
		}
		seen[v] = true
		phi, ok := v.(*ssa.Phi)
		if !ok {
			return v
		}
		want := fa.term(st, phi)
		var next ssa.Value
		for _, e := range phi.Edges {
			if fa.term(st, e) == want {
				if next != nil && next != e {
					return v
				}
				next = e
			}
		}
		if next == nil {
			return v
		}
		v = next
	}
}

// ruleSetErrVerbatim: the error handed to a setErr/SetErr is stored as given -
// the very value, not a copy - so Err() returns the policy's own error.
func (c *Ctx) ruleSetErrVerbatim() {
	names := []string{"(*nodeConfig).setErr", "(*stack).setErr", "(*condition).setErr", "Stack.SetErr", "Condition.SetErr"}
	errIdx := c.fieldIndex("nodeConfig", "err")
	for _, name := range names {
		fn := c.anchor("R-PAIR", name)
		if fn == nil {
			continue
		}
		pos := c.p.pos(fn.Pos())
		var errParam *ssa.Parameter
		for _, p := range fn.Params[1:] {
			if types.Identical(p.Type(), types.Universe.Lookup("error").Type()) {
				errParam = p
			}
		}
		if errParam == nil {
			c.rep.bad("R-PAIR", name, "error stored as given", pos, "no error parameter")
			continue
		}
		n := 0
		var problems []string
		for _, b := range fn.Blocks {
			for _, in := range b.Instrs {
				switch x := in.(type) {
				case *ssa.Store:
					if fa, ok := x.Addr.(*ssa.FieldAddr); ok && fa.Field == errIdx && c.isNamed(fa.X.Type(), "nodeConfig") {
						n++
						if x.Val != ssa.Value(errParam) {
							problems = append(problems, c.p.instrPos(x)+": the value stored is not the parameter itself")
						}
					}
				case *ssa.Call:
					cn := c.calleeName(&x.Call)
					if strings.HasSuffix(cn, ".setErr") || strings.HasSuffix(cn, ".SetErr") {
						n++
						found := false
						for _, a := range x.Call.Args[1:] {
							if types.Identical(a.Type(), errParam.Type()) {
								found = true
								if a != ssa.Value(errParam) {
									problems = append(problems, c.p.instrPos(x)+": the error forwarded is not the parameter itself")
								}
							}
						}
						if !found {
							problems = append(problems, c.p.instrPos(x)+": no error argument forwarded")
						}
					}
				}
			}
		}
		if n == 0 {
			problems = append(problems, "neither stores nodeConfig.err nor forwards to a setErr")
		}
		if len(problems) == 0 {
			c.rep.ok("R-PAIR", name, "error stored as given", pos, "the parameter itself is stored / forwarded")
		} else {
			c.rep.bad("R-PAIR", name, "error stored as given", pos, strings.Join(problems, "; "))
		}
	}
}

func (c *Ctx) isNamed(t types.Type, name string) bool {
	if p, ok := t.Underlying().(*types.Pointer); ok {
		t = p.Elem()
	}
	if n, ok := t.(*types.Named); ok {
		return n.Obj().Name() == name && n.Obj().Pkg() == c.p.Types
	}
	return false
}

// ruleCondGetters: Keyword, Operator and Expression return the stored
// component whenever the instance is initialised (whatever else is on record)
// and the zero answer otherwise.
func (c *Ctx) ruleCondGetters() {
	for _, g := range [][2]string{{"Condition.Keyword", "condition.kw"}, {"Condition.Operator", "condition.op"}, {"Condition.Expression", "condition.ex"}} {
		fn := c.anchor("R-PAIR", g[0])
		if fn == nil {
			continue
		}
		pos := c.p.pos(fn.Pos())
		fa := c.eng.analyze(fn, nil)
		init := c.initAtom()
		var problems []string
		nInit := 0
		for _, rs := range fa.rets {
			if rs.st.dead || len(rs.ret.Results) != 1 {
				continue
			}
			is, known := init.eval(fa, rs.st)
			if !known {
				problems = append(problems, "a return path does not depend on IsInit")
				continue
			}
			rt := unMI(fa.term(rs.st, rs.ret.Results[0]))
			if is {
				nInit++
				if !c.isFieldLoad(rt, g[1]) {
					problems = append(problems, "an initialised instance does not answer its stored "+g[1]+" on some path: "+rt.Key())
				}
			} else if c.isFieldLoad(rt, g[1]) {
				problems = append(problems, "an uninitialised instance is dereferenced")
			}
		}
		if nInit == 0 {
			problems = append(problems, "no path of an initialised instance found")
		}
		if len(problems) == 0 {
			c.rep.ok("R-PAIR", g[0], "getter answers the field", pos, "every path of an initialised instance returns "+g[1])
		} else {
			sort.Strings(problems)
			c.rep.bad("R-PAIR", g[0], "getter answers the field", pos, strings.Join(uniq(problems), "; "))
		}
	}
}

// ruleLogLevelsListing: logLevels.String tests every one of the 16 level
// bits.  The loop is over constants, so it is unrolled here: the induction
// value starts from a constant, is updated by a constant step and the exit
// test compares it with a constant; the set of arguments handed to positive()
// must contain every single bit of a 16-bit word.
func (c *Ctx) ruleLogLevelsListing() {
	fn := c.anchor("R-LOGLEVEL", "logLevels.String")
	if fn == nil {
		return
	}
	pos := c.p.pos(fn.Pos())
	var tests []*ssa.Call
	for _, call := range c.findCalls(fn, "logLevels.positive", "(*logLevels).positive") {
		tests = append(tests, call)
	}
	if len(tests) != 1 {
		c.rep.ok("R-LOGLEVEL", "logLevels.String", "every level is listed", pos, fmt.Sprintf("%d bit tests through positive(): not the single-loop form this rule evaluates; left undecided by it", len(tests)))
		return
	}
	test := tests[0]
	seen, why := c.unrollConstLoop(fn, test, test.Call.Args[len(test.Call.Args)-1])
	if why != "" {
		// another way of listing (a range over a table, ...): nothing this rule can evaluate, and
		// nothing it may object to
		c.rep.ok("R-LOGLEVEL", "logLevels.String", "every level is listed", pos, "not a loop over constants ("+why+"): left undecided by this rule")
		return
	}
	var missing []string
	for k := 0; k < 16; k++ {
		if !seen[uint64(1)<<uint(k)] {
			missing = append(missing, fmt.Sprint(1<<uint(k)))
		}
	}
	if len(missing) == 0 {
		c.rep.ok("R-LOGLEVEL", "logLevels.String", "every level is listed", pos, fmt.Sprintf("unrolled: the bit test is applied to %d values including all 16 single bits", len(seen)))
	} else {
		c.rep.bad("R-LOGLEVEL", "logLevels.String", "every level is listed", pos, "the listing loop never tests level(s) "+strings.Join(missing, ",")+": an active level is missing from LogLevels()")
	}
}

// unrollConstLoop interprets the innermost loop around `at` over integer
// constants and returns the set of values `arg` takes at `at`.
func (c *Ctx) unrollConstLoop(fn *ssa.Function, at ssa.Instruction, arg ssa.Value) (map[uint64]bool, string) {
	// loop header: a block with phis that dominates at's block and has a back edge from a block it dominates
	var header *ssa.BasicBlock
	for b := at.Block(); b != nil; b = b.Idom() {
		isHeader := false
		for _, p := range b.Preds {
			if b.Dominates(p) {
				isHeader = true
			}
		}
		if isHeader {
			header = b
			break
		}
	}
	if header == nil {
		return nil, "the bit test is not inside a loop"
	}
	env := map[ssa.Value]int64{}
	eval := func(v ssa.Value, depth int) (int64, bool) { return constEval(env, v, depth) }
	// initial values of the header phis: from the edge that is not a back edge
	var phis []*ssa.Phi
	for _, in := range header.Instrs {
		if p, ok := in.(*ssa.Phi); ok {
			phis = append(phis, p)
		}
	}
	entryIdx, backIdx := -1, -1
	for i, p := range header.Preds {
		if header.Dominates(p) {
			if backIdx >= 0 {
				return nil, "several back edges"
			}
			backIdx = i
		} else {
			if entryIdx >= 0 {
				return nil, "several entry edges"
			}
			entryIdx = i
		}
	}
	if entryIdx < 0 || backIdx < 0 {
		return nil, "loop shape not recognised"
	}
	tracked := map[*ssa.Phi]bool{}
	for _, p := range phis {
		if n, ok := eval(p.Edges[entryIdx], 0); ok {
			env[p] = n
			tracked[p] = true
		}
	}
	// the exit test: the header (or the block the test lives in) ends in an If on a value over tracked phis
	ifi, ok := header.Instrs[len(header.Instrs)-1].(*ssa.If)
	if !ok {
		return nil, "the loop header does not end in the loop test"
	}
	stayIdx := -1
	for i, s := range header.Succs {
		if s == at.Block() || s.Dominates(at.Block()) {
			stayIdx = i
		}
	}
	if stayIdx < 0 {
		return nil, "the bit test is not in the loop body proper"
	}
	seen := map[uint64]bool{}
	for iter := 0; iter < 70; iter++ {
		cond, ok := eval(ifi.Cond, 0)
		if !ok {
			return nil, "the loop test is not over constants"
		}
		stay := (cond != 0) == (stayIdx == 0)
		if !stay {
			return seen, ""
		}
		a, ok := eval(arg, 0)
		if !ok {
			return nil, "the tested level is not computed from the loop counter and constants"
		}
		seen[uint64(a)] = true
		next := map[*ssa.Phi]int64{}
		for p := range tracked {
			n, ok := eval(p.Edges[backIdx], 0)
			if !ok {
				return nil, "the loop step is not over constants"
			}
			next[p] = n
		}
		for p, n := range next {
			env[p] = n
		}
	}
	return nil, "the loop does not terminate within 70 iterations"
}

func truncTo(n int64, t types.Type) int64 {
	b, ok := t.Underlying().(*types.Basic)
	if !ok {
		return n
	}
	switch b.Kind() {
	case types.Uint8:
		return int64(uint8(n))
	case types.Uint16:
		return int64(uint16(n))
	case types.Uint32:
		return int64(uint32(n))
	case types.Int8:
		return int64(int8(n))
	case types.Int16:
		return int64(int16(n))
	case types.Int32:
		return int64(int32(n))
	}
	return n
}

func dbgState(st *State) string { if os.Getenv("TTDBG") != "" { return " {" + st.describe() + "}" }; return "" }

// ttStackageStructsTried: stackageStructsEqual reports "tried" exactly when
// the left operand is one of ours (a Condition or a Stack, aliases and
// pointers included), whatever the right one is: a Stack against a Condition
// must end in this function's error, not fall through to the generic struct
// comparison (which sees one unexported pointer field on each side).
func (c *Ctx) ttStackageStructsTried() {
	convAtom := func(name, conv string) ttAtom {
		return ttAtom{name, func(fa *FnAnalysis, st *State) (bool, bool) {
			for _, call := range c.findCalls(fa.fn, conv) {
				if t := fa.term(st, call.Call.Args[0]); !(t.K == "P" && t.N == 0) {
					continue
				}
				if _, did := st.cep[call]; !did {
					continue
				}
				if v, known := fa.knownTerm(st, aTR, fa.callResultTerm(st, call, 1)); known {
					return v, true
				}
			}
			return false, false
		}}
	}
	c.runTable(ttTable{
		rule: "R-TT", fn: "stackageStructsEqual",
		atoms:   []ttAtom{convAtom("x is Condition", "conditionTypeAliasConverter"), convAtom("x is Stack", "stackTypeAliasConverter")},
		expect:  func(v map[string]bool) string { return fmt.Sprint(v["x is Condition"] || v["x is Stack"]) },
		outcome: c.boolOutcome(0),
	})
}

// convDeclined: on state s the converter conv was applied to the value vt and
// declined it (ok == false, or the instance it returned is not initialised).
func (c *Ctx) convDeclined(fa *FnAnalysis, fn *ssa.Function, s *State, vt *Term, conv string) bool {
	for _, cc := range c.findCalls(fn, conv) {
		if _, did := s.cep[cc]; !did || fa.term(s, cc.Call.Args[0]) != vt {
			continue
		}
		if v, known := fa.knownTerm(s, aTR, fa.callResultTerm(s, cc, 1)); known && !v {
			return true
		}
		r0 := fa.callResultTerm(s, cc, 0)
		for _, ic := range c.findCalls(fn, "Stack.IsInit", "Condition.IsInit") {
			if fa.term(s, ic.Call.Args[0]) == r0 {
				if v, known := fa.knownTerm(s, aTR, fa.term(s, ic)); known && !v {
					return true
				}
			}
		}
	}
	return false
}

// ruleUnmarshalRaw: stack.unmarshalDefault hands an element back as it is only
// where both converters have declined that very element - no shortcut (by
// method set, kind, ...) may take a Stack/Condition alias for plain data.
func (c *Ctx) ruleUnmarshalRaw() {
	fn := c.anchor("R-CONV", "stack.unmarshalDefault")
	if fn == nil {
		return
	}
	fa := c.eng.analyze(fn, nil)
	pos := c.p.pos(fn.Pos())
	var problems []string
	n := 0
	for _, b := range fn.Blocks {
		for _, in := range b.Instrs {
			st, ok := in.(*ssa.Store)
			if !ok {
				continue
			}
			ex, ok := st.Val.(*ssa.Extract)
			if !ok || ex.Index != 0 {
				continue
			}
			call, ok := ex.Tuple.(*ssa.Call)
			if !ok || c.calleeName(&call.Call) != "stack.index" {
				continue
			}
			n++
			for _, s := range fa.statesBefore(st) {
				vt := fa.term(s, ex)
				for _, conv := range []string{"stackTypeAliasConverter", "conditionTypeAliasConverter"} {
					if !c.convDeclined(fa, fn, s, vt, conv) {
						problems = append(problems, c.p.instrPos(st)+": an element is handed back as it is on a path where "+conv+" has not declined it (an alias would come back raw instead of as its kind word and elements)")
					}
				}
			}
		}
	}
	if n == 0 {
		problems = append(problems, "no raw pass-through of an element found (anchor)")
	}
	if len(problems) == 0 {
		c.rep.ok("R-CONV", "stack.unmarshalDefault", "raw only after both converters declined", pos, fmt.Sprintf("%d raw pass-through store(s), each behind both converters' refusal", n))
	} else {
		sort.Strings(problems)
		c.rep.bad("R-CONV", "stack.unmarshalDefault", "raw only after both converters declined", pos, strings.Join(uniq(problems), "; "))
	}
}

// ruleWrapperRefusals: Insert and Replace refuse a value only because it is
// nil: a path that returns without having called the worker may depend on the
// receiver (initialised, read-only, ...) and on the nil-ness of the value, on
// nothing else about the value (its dynamic type, its length, its validity).
func (c *Ctx) ruleWrapperRefusals() {
	for _, w := range []struct{ fn, worker string }{{"Stack.Insert", "(*stack).insert"}, {"Stack.Replace", "(*stack).replace"}} {
		fn := c.anchor("R-SEQ", w.fn)
		if fn == nil {
			continue
		}
		fa := c.eng.analyze(fn, nil)
		pos := c.p.pos(fn.Pos())
		workers := c.findCalls(fn, w.worker)
		var problems []string
		if len(workers) == 0 {
			problems = append(problems, "the worker "+w.worker+" is not called")
		}
		nRefuse := 0
		for _, rs := range fa.rets {
			if rs.st.dead {
				continue
			}
			called := false
			for _, wk := range workers {
				if did, _ := rs.st.get(aDID, c.eng.tt.mk(Term{K: "V", V: wk})); did {
					called = true
				}
			}
			if called {
				continue
			}
			nRefuse++
			for _, f := range rs.st.factList() {
				if !termMentionsParam(f.T, 1) {
					continue
				}
				if f.Kind == aNN && f.T.K == "P" {
					continue
				}
				if f.T.K == "APP" && strings.HasPrefix(f.T.S, "isNilPtr") {
					continue
				}
				problems = append(problems, "a refusing path depends on the offered value beyond its nil-ness: "+f.Kind+"|"+f.T.Key()+"="+fmt.Sprint(f.Val))
			}
		}
		if len(problems) == 0 {
			c.rep.ok("R-SEQ", w.fn, "refuses a value only for being nil", pos, fmt.Sprintf("%d refusing path(s), none depends on the value's type or content", nRefuse))
		} else {
			sort.Strings(problems)
			if len(problems) > 3 {
				problems = problems[:3]
			}
			c.rep.bad("R-SEQ", w.fn, "refuses a value only for being nil", pos, strings.Join(uniq(problems), "; "))
		}
	}
}

// constEval evaluates v over integer/boolean constants and the values bound in env.
func constEval(env map[ssa.Value]int64, v ssa.Value, depth int) (int64, bool) {
	if depth > 20 {
		return 0, false
	}
	if x, ok := env[v]; ok {
		return x, true
	}
	switch x := v.(type) {
	case *ssa.Const:
		if x.Value == nil {
			return 0, false
		}
		if x.Value.Kind() == constant.Bool {
			if constant.BoolVal(x.Value) {
				return 1, true
			}
			return 0, true
		}
		if n, ok := constant.Int64Val(constant.ToInt(x.Value)); ok {
			return n, true
		}
		if u, ok := constant.Uint64Val(constant.ToInt(x.Value)); ok {
			return int64(u), true
		}
		return 0, false
	case *ssa.Convert:
		n, ok := constEval(env, x.X, depth+1)
		if !ok {
			return 0, false
		}
		return truncTo(n, x.Type()), true
	case *ssa.ChangeType:
		return constEval(env, x.X, depth+1)
	case *ssa.MakeInterface:
		return constEval(env, x.X, depth+1)
	case *ssa.BinOp:
		a, ok1 := constEval(env, x.X, depth+1)
		b, ok2 := constEval(env, x.Y, depth+1)
		if !ok1 || !ok2 {
			return 0, false
		}
		bl := func(t bool) int64 {
			if t {
				return 1
			}
			return 0
		}
		var r int64
		switch x.Op {
		case token.ADD:
			r = a + b
		case token.SUB:
			r = a - b
		case token.MUL:
			r = a * b
		case token.SHL:
			if b < 0 || b > 63 {
				r = 0
			} else {
				r = int64(uint64(a) << uint(b))
			}
		case token.SHR:
			if b < 0 || b > 63 {
				r = 0
			} else {
				r = int64(uint64(a) >> uint(b))
			}
		case token.AND:
			r = a & b
		case token.OR:
			r = a | b
		case token.LSS:
			return bl(a < b), true
		case token.LEQ:
			return bl(a <= b), true
		case token.GTR:
			return bl(a > b), true
		case token.GEQ:
			return bl(a >= b), true
		case token.EQL:
			return bl(a == b), true
		case token.NEQ:
			return bl(a != b), true
		default:
			return 0, false
		}
		return truncTo(r, x.Type()), true
	}
	return 0, false
}

// ruleKindLabels: (*nodeConfig).kind answers the type word's own label for every
// defined kind constant - the writer of the wire format labels each node with it
// and the reader recognises exactly those labels.  The gating test is evaluated
// over the constants: for each kind constant the paths through kind() are
// followed (the type word bound to the constant, the record taken to exist)
// and none may end in the "null" label.
func (c *Ctx) ruleKindLabels() {
	fn := c.anchor("R-TBL", "(*nodeConfig).kind")
	if fn == nil {
		return
	}
	pos := c.p.pos(fn.Pos())
	typIdx := c.fieldIndex("nodeConfig", "typ")
	// the kind constants: package-level constants of the type of nodeConfig.typ
	var typT types.Type
	if st, ok := c.p.namedType("nodeConfig").Underlying().(*types.Struct); ok && typIdx >= 0 {
		typT = st.Field(typIdx).Type()
	}
	type kc struct {
		name string
		val  int64
	}
	var consts []kc
	scope := c.p.Types.Scope()
	for _, n := range scope.Names() {
		if k, ok := scope.Lookup(n).(*types.Const); ok && typT != nil && types.Identical(k.Type(), typT) {
			if v, ok := constant.Int64Val(constant.ToInt(k.Val())); ok && v != 0 {
				consts = append(consts, kc{n, v})
			}
		}
	}
	if len(consts) < 6 {
		c.rep.bad("R-TBL", "(*nodeConfig).kind", "KINDS: every kind has its label", pos, fmt.Sprintf("only %d kind constants found", len(consts)))
		return
	}
	var problems []string
	for _, k := range consts {
		env := map[ssa.Value]int64{}
		for _, b := range fn.Blocks {
			for _, in := range b.Instrs {
				switch x := in.(type) {
				case *ssa.UnOp:
					if fa, ok := x.X.(*ssa.FieldAddr); ok && x.Op == token.MUL && fa.Field == typIdx && c.isNamed(fa.X.Type(), "nodeConfig") {
						env[x] = k.val
					}
				case *ssa.Call:
					if cn := c.calleeName(&x.Call); cn == "(*nodeConfig).isZero" || cn == "nodeConfig.isZero" {
						env[x] = 0
					}
				}
			}
		}
		// follow the paths
		type item struct {
			b, pred *ssa.BasicBlock
			label   map[*ssa.Phi]string
		}
		work := []item{{fn.Blocks[0], nil, map[*ssa.Phi]string{}}}
		steps := 0
		for len(work) > 0 && steps < 500 {
			steps++
			it := work[len(work)-1]
			work = work[:len(work)-1]
			lab := map[*ssa.Phi]string{}
			for p, v := range it.label {
				lab[p] = v
			}
			strOf := func(v ssa.Value) string {
				if kk, ok := v.(*ssa.Const); ok && kk.Value != nil && kk.Value.Kind() == constant.String {
					return "const:" + constant.StringVal(kk.Value)
				}
				if p, ok := v.(*ssa.Phi); ok {
					if s, ok := lab[p]; ok {
						return s
					}
				}
				return "dyn"
			}
			for _, in := range it.b.Instrs {
				if p, ok := in.(*ssa.Phi); ok && it.pred != nil {
					for i, pb := range it.b.Preds {
						if pb == it.pred {
							lab[p] = strOf(p.Edges[i])
						}
					}
				}
			}
			last := it.b.Instrs[len(it.b.Instrs)-1]
			switch x := last.(type) {
			case *ssa.Return:
				if len(x.Results) == 1 && strOf(x.Results[0]) == "const:null" {
					problems = append(problems, "kind "+k.name+" is labelled \"null\" ("+c.p.instrPos(x)+"): the reader does not recognise that word")
				}
			case *ssa.If:
				if v, ok := constEval(env, x.Cond, 0); ok {
					idx := 1
					if v != 0 {
						idx = 0
					}
					work = append(work, item{it.b.Succs[idx], it.b, lab})
				} else {
					work = append(work, item{it.b.Succs[0], it.b, lab}, item{it.b.Succs[1], it.b, lab})
				}
			default:
				for _, sc := range it.b.Succs {
					work = append(work, item{sc, it.b, lab})
				}
			}
		}
		if steps >= 500 {
			problems = append(problems, "path exploration did not terminate")
		}
	}
	if len(problems) == 0 {
		var ns []string
		for _, k := range consts {
			ns = append(ns, k.name)
		}
		c.rep.ok("R-TBL", "(*nodeConfig).kind", "KINDS: every kind has its label", pos, "no path answers \"null\" for "+strings.Join(ns, ","))
	} else {
		sort.Strings(problems)
		c.rep.bad("R-TBL", "(*nodeConfig).kind", "KINDS: every kind has its label", pos, strings.Join(uniq(problems), "; "))
	}
}

// ruleNumberStringers: the text of a number comes from strconv and from
// nowhere else - no hand-made digits, no fast path for "small" values.
func (c *Ctx) ruleNumberStringers() {
	for _, name := range []string{"intStringer", "uintStringer", "floatStringer", "complexStringer"} {
		fn := c.anchor("R-STR", name)
		if fn == nil {
			continue
		}
		ok := c.returnsOnlyFrom(fn, func(v ssa.Value) bool {
			call, isCall := v.(*ssa.Call)
			if !isCall {
				return false
			}
			cn := c.calleeName(&call.Call)
			return strings.HasPrefix(cn, "strconv.Format") || cn == "strconv.Itoa"
		})
		if ok {
			c.rep.ok("R-STR", name, "NUMBER: text from strconv only", c.p.pos(fn.Pos()), "every result is a strconv.Format* result (or the empty default)")
		} else {
			c.rep.bad("R-STR", name, "NUMBER: text from strconv only", c.p.pos(fn.Pos()), "a result is not produced by strconv.Format*: hand-made digits or a shortcut for some values")
		}
	}
	// the condenser returns what its rune loop built, on every path
	if fn := c.anchor("R-STR", "condenseWHSP"); fn != nil {
		ok := c.returnsOnlyFrom(fn, func(v ssa.Value) bool {
			call, isCall := v.(*ssa.Call)
			return isCall && c.calleeName(&call.Call) == "(*strings.Builder).String"
		})
		if ok {
			c.rep.ok("R-STR", "condenseWHSP", "NOBYPASS: result of the rune loop", c.p.pos(fn.Pos()), "every result is the builder's text (or empty)")
		} else {
			c.rep.bad("R-STR", "condenseWHSP", "NOBYPASS: result of the rune loop", c.p.pos(fn.Pos()), "a path returns text that did not pass the rune loop (tabs and blanks are not condensed there)")
		}
	}
}

// ttPrimitiveTests: isStringPrimitive / isBoolPrimitive answer the type test
// and nothing else (the empty string is a string).
func (c *Ctx) ttPrimitiveTests() {
	for _, pt := range []struct {
		fn  string
		typ types.Type
	}{{"isStringPrimitive", types.Typ[types.String]}, {"isBoolPrimitive", types.Typ[types.Bool]}} {
		pt := pt
		c.runTable(ttTable{
			rule: "R-TT", fn: pt.fn,
			atoms: []ttAtom{{"is " + pt.typ.String(), func(fa *FnAnalysis, st *State) (bool, bool) {
				tt := c.eng.tt
				return fa.knownTerm(st, aTR, tt.mk(Term{K: "TAOK", S: typeStr(pt.typ), Typ: pt.typ, A: c.param(fa, 0)}))
			}}},
			expect:  func(v map[string]bool) string { return fmt.Sprint(v["is "+pt.typ.String()]) },
			outcome: c.boolOutcome(0),
		})
	}
}

// ruleNilPtrExact: isNilPtr says yes only about pointers (a nil map, slice or
// func used as an Operator is a usable value whose methods can be called).
func (c *Ctx) ruleNilPtrExact() {
	fn := c.anchor("R-CONDSTORE", "isNilPtr")
	if fn == nil {
		return
	}
	fa := c.eng.analyze(fn, nil)
	tt := c.eng.tt
	vo := tt.mk(Term{K: "VALOF", A: c.param(fa, 0)})
	isnil := tt.mk(Term{K: "ISNIL", A: vo})
	kindPtr := tt.mk(Term{K: "B", S: "==", A: tt.mk(Term{K: "KIND", A: vo}), B: c.intConst(kPtr)})
	var problems []string
	for _, rs := range fa.rets {
		if rs.st.dead {
			continue
		}
		rt := fa.term(rs.st, rs.ret.Results[0])
		if v, known := fa.knownTerm(rs.st, aTR, rt); known && !v {
			continue
		}
		// may answer true: the value must be known to be of pointer kind
		if v, known := fa.knownTerm(rs.st, aTR, kindPtr); known && v {
			if rt == isnil {
				continue
			}
			if nv, nk := fa.knownTerm(rs.st, aTR, isnil); nk && nv {
				continue
			}
		}
		problems = append(problems, c.p.instrPos(rs.ret)+": may answer true for a value that is not known to be a nil pointer (other nil-able kinds are usable values)")
	}
	if len(problems) == 0 {
		c.rep.ok("R-CONDSTORE", "isNilPtr", "yes only for nil pointers", c.p.pos(fn.Pos()), "true only where Kind()==Ptr and IsNil()")
	} else {
		sort.Strings(problems)
		c.rep.bad("R-CONDSTORE", "isNilPtr", "yes only for nil pointers", c.p.pos(fn.Pos()), strings.Join(uniq(problems), "; "))
	}
}

// ruleFreshLogSystem: every Stack/Condition gets a log system of its own.
func (c *Ctx) ruleFreshLogSystem() {
	fn := c.anchor("R-PAIR", "newLogSystem")
	if fn == nil {
		return
	}
	ok := c.returnsOnlyFrom(fn, func(v ssa.Value) bool {
		a, isA := v.(*ssa.Alloc)
		return isA && a.Heap
	})
	if ok {
		c.rep.ok("R-PAIR", "newLogSystem", "fresh per instance", c.p.pos(fn.Pos()), "every result is allocated in the call: no two instances share their log levels")
	} else {
		c.rep.bad("R-PAIR", "newLogSystem", "fresh per instance", c.p.pos(fn.Pos()), "a result is not a fresh allocation (a shared log system makes SetLogLevel on one instance change LogLevels() of another)")
	}
}

// ruleConvPure: the converters and type tests keep no state - no memo or cache
// keyed by type that one value could poison for the next.
func (c *Ctx) ruleConvPure() {
	for _, name := range []string{"stackTypeAliasConverter", "conditionTypeAliasConverter", "derefPtr", "isStackKind", "isNilPtr", "getStringer"} {
		fn := c.anchor("R-CONV", name)
		if fn == nil {
			continue
		}
		var ws []string
		for _, g := range c.reach(fn) {
			if !c.p.inPkg(g) {
				continue
			}
			for _, w := range c.eff.writesOf(g) {
				if w.Root.Kind == 'g' {
					ws = append(ws, w.Loc+"@"+w.Root.String()+" in "+relName(g))
				}
			}
		}
		sort.Strings(ws)
		ws = uniq(ws)
		if len(ws) == 0 {
			c.rep.ok("R-CONV", name, "keeps no state", c.p.pos(fn.Pos()), "nothing reachable writes package-level state")
		} else {
			if len(ws) > 3 {
				ws = ws[:3]
			}
			c.rep.bad("R-CONV", name, "keeps no state", c.p.pos(fn.Pos()), "package-level state is written (a memo keyed by type can be poisoned by one value for the next): "+strings.Join(ws, "; "))
		}
	}
}

// ruleIDVerbatim: ID and category are stored as given.  The string that
// reaches (*nodeConfig).setID / setCat is, on every path, the caller's own
// parameter - or, for the two magic ID words, the generated value - and the
// record stores exactly what it is handed (no case folding, no trimming).
func (c *Ctx) ruleIDVerbatim() {
	generated := map[string]bool{"randomID": true, "ptrString": true, "Condition.Addr": true, "Stack.Addr": true}
	var asGiven func(fn *ssa.Function, v ssa.Value, seen map[ssa.Value]bool) bool
	asGiven = func(fn *ssa.Function, v ssa.Value, seen map[ssa.Value]bool) bool {
		if seen[v] {
			return true
		}
		seen[v] = true
		switch x := v.(type) {
		case *ssa.Parameter:
			return x.Parent() == fn
		case *ssa.Phi:
			for _, e := range x.Edges {
				if !asGiven(fn, e, seen) {
					return false
				}
			}
			return true
		case *ssa.Call:
			return generated[c.calleeName(&x.Call)]
		}
		return false
	}
	for _, field := range []string{"id", "cat"} {
		sink := "(*nodeConfig).setID"
		if field == "cat" {
			sink = "(*nodeConfig).setCat"
		}
		fn := c.anchor("R-PAIR", sink)
		if fn == nil {
			continue
		}
		idx := c.fieldIndex("nodeConfig", field)
		okStore, n := true, 0
		for _, b := range fn.Blocks {
			for _, in := range b.Instrs {
				if st, ok := in.(*ssa.Store); ok {
					if fa, ok := st.Addr.(*ssa.FieldAddr); ok && fa.Field == idx && c.isNamed(fa.X.Type(), "nodeConfig") {
						n++
						if p, isP := st.Val.(*ssa.Parameter); !isP || p.Parent() != fn {
							okStore = false
						}
					}
				}
			}
		}
		if okStore && n > 0 {
			c.rep.ok("R-PAIR", sink, "stored as given", c.p.pos(fn.Pos()), "the parameter itself is stored")
		} else {
			c.rep.bad("R-PAIR", sink, "stored as given", c.p.pos(fn.Pos()), "the value stored is not the parameter itself")
		}
		// every caller hands over its own parameter (or a generated ID)
		for _, g := range c.p.Funcs {
			for _, call := range c.findCalls(g, sink) {
				arg := call.Call.Args[len(call.Call.Args)-1]
				if asGiven(g, arg, map[ssa.Value]bool{}) {
					c.rep.ok("R-PAIR", relName(g), "forwards the "+field+" as given", c.p.instrPos(call), "the caller's own parameter (or a generated ID) reaches the record")
				} else {
					c.rep.bad("R-PAIR", relName(g), "forwards the "+field+" as given", c.p.instrPos(call), "the string handed to "+sink+" is computed from the argument (folded, trimmed, ...): the getter would not return what was set")
				}
			}
		}
	}
}

// ruleDefragKeys: verifyImplode counts positions through a map keyed by the
// decimal text of the position; the keys are distinct only if that text is
// produced by strconv itself (a hand-written formatter that keeps two digits
// makes positions collide from 100 on and moves the truncation point).
func (c *Ctx) ruleDefragKeys() {
	fn := c.anchor("R-DEFRAG", "stack.verifyImplode")
	if fn == nil {
		return
	}
	n := 0
	var problems []string
	for _, b := range fn.Blocks {
		for _, in := range b.Instrs {
			call, ok := in.(*ssa.Call)
			if !ok || len(call.Call.Args) != 1 {
				continue
			}
			at, ok1 := call.Call.Args[0].Type().Underlying().(*types.Basic)
			rt, ok2 := call.Type().Underlying().(*types.Basic)
			if !ok1 || !ok2 || at.Info()&types.IsInteger == 0 || rt.Kind() != types.String {
				continue
			}
			n++
			if cn := c.calleeName(&call.Call); cn != "strconv.Itoa" {
				problems = append(problems, c.p.instrPos(call)+": a position is turned into its key by "+cn+", not by strconv.Itoa (keys must be distinct for distinct positions)")
			}
		}
	}
	if n == 0 {
		problems = append(problems, "no position-to-text conversion found (anchor)")
	}
	if len(problems) == 0 {
		c.rep.ok("R-DEFRAG", "stack.verifyImplode", "position keys are decimal texts", c.p.pos(fn.Pos()), fmt.Sprintf("%d conversion(s), all strconv.Itoa", n))
	} else {
		c.rep.bad("R-DEFRAG", "stack.verifyImplode", "position keys are decimal texts", c.p.pos(fn.Pos()), strings.Join(problems, "; "))
	}
}

// ruleReaderStateless: the built-in reader/writer/comparer keep no
// package-level state (a depth counter, a memo: one call could spoil the
// next), and Marshal does not write into the input it is handed (the caller's
// slices must still equal what Unmarshal produced).
func (c *Ctx) ruleReaderStateless() {
	for _, name := range []string{"(*Stack).Marshal", "Stack.Unmarshal", "Condition.Unmarshal", "Stack.IsEqual", "Condition.IsEqual"} {
		fn := c.anchor("R-MARSHAL", name)
		if fn == nil {
			continue
		}
		var glob, input []string
		for _, w := range c.eff.writesOf(fn) {
			if w.Root.Kind == 'g' {
				glob = append(glob, w.String())
			}
			if name == "(*Stack).Marshal" && w.Root.Kind == 'p' && w.Root.Idx == 1 {
				input = append(input, w.String())
			}
		}
		sort.Strings(glob)
		sort.Strings(input)
		glob, input = uniq(glob), uniq(input)
		if len(glob) == 0 {
			c.rep.ok("R-MARSHAL", name, "keeps no package-level state", c.p.pos(fn.Pos()), "no write rooted at a package-level variable is reachable")
		} else {
			if len(glob) > 3 {
				glob = glob[:3]
			}
			c.rep.bad("R-MARSHAL", name, "keeps no package-level state", c.p.pos(fn.Pos()), "package-level state is written (one call can change the outcome of the next): "+strings.Join(glob, "; "))
		}
		if name == "(*Stack).Marshal" {
			if len(input) == 0 {
				c.rep.ok("R-MARSHAL", name, "input left as given", c.p.pos(fn.Pos()), "nothing reachable writes through the input argument")
			} else {
				if len(input) > 3 {
					input = input[:3]
				}
				c.rep.bad("R-MARSHAL", name, "input left as given", c.p.pos(fn.Pos()), "the reader writes into its own input (the caller's slices no longer equal what Unmarshal produced): "+strings.Join(input, "; "))
			}
		}
	}
}

// constPaths follows every path of fn with the values in env bound (integer
// constants), evaluating branch conditions where they are over constants, and
// returns the set of string results ("const:<text>" or "dyn").
func (c *Ctx) constPaths(fn *ssa.Function, env map[ssa.Value]int64) (map[string]bool, bool) {
	type item struct {
		b, pred *ssa.BasicBlock
		label   map[ssa.Value]string
	}
	out := map[string]bool{}
	work := []item{{fn.Blocks[0], nil, map[ssa.Value]string{}}}
	steps := 0
	for len(work) > 0 && steps < 2000 {
		steps++
		it := work[len(work)-1]
		work = work[:len(work)-1]
		lab := map[ssa.Value]string{}
		for p, v := range it.label {
			lab[p] = v
		}
		var strOf func(v ssa.Value) string
		strOf = func(v ssa.Value) string {
			switch x := v.(type) {
			case *ssa.Const:
				if x.Value != nil && x.Value.Kind() == constant.String {
					return "const:" + constant.StringVal(x.Value)
				}
			case *ssa.Phi:
				if s, ok := lab[x]; ok {
					return s
				}
			case *ssa.BinOp:
				if x.Op == token.ADD {
					a, b := strOf(x.X), strOf(x.Y)
					if strings.HasPrefix(a, "const:") && strings.HasPrefix(b, "const:") {
						return a + strings.TrimPrefix(b, "const:")
					}
				}
			}
			return "dyn"
		}
		for _, in := range it.b.Instrs {
			if p, ok := in.(*ssa.Phi); ok && it.pred != nil {
				for i, pb := range it.b.Preds {
					if pb == it.pred {
						lab[p] = strOf(p.Edges[i])
					}
				}
			}
		}
		switch x := it.b.Instrs[len(it.b.Instrs)-1].(type) {
		case *ssa.Return:
			if len(x.Results) == 1 {
				out[strOf(x.Results[0])] = true
			}
		case *ssa.If:
			if v, ok := constEval(env, x.Cond, 0); ok {
				idx := 1
				if v != 0 {
					idx = 0
				}
				work = append(work, item{it.b.Succs[idx], it.b, lab})
			} else {
				work = append(work, item{it.b.Succs[0], it.b, lab}, item{it.b.Succs[1], it.b, lab})
			}
		default:
			for _, sc := range it.b.Succs {
				work = append(work, item{sc, it.b, lab})
			}
		}
	}
	return out, steps < 2000
}

// ruleOperatorTexts: the six built-in operators have six different, non-empty
// texts - Condition equality compares operators by text (and context), so two
// operators sharing a text would compare equal.  String() is evaluated over the
// six constants.
func (c *Ctx) ruleOperatorTexts() {
	fn := c.anchor("R-COVER", "ComparisonOperator.String")
	if fn == nil {
		return
	}
	pos := c.p.pos(fn.Pos())
	var typT types.Type
	if o := c.p.Types.Scope().Lookup("ComparisonOperator"); o != nil {
		typT = o.Type()
	}
	texts := map[string][]string{}
	var problems []string
	n, notEval := 0, 0
	scope := c.p.Types.Scope()
	for _, name := range scope.Names() {
		k, ok := scope.Lookup(name).(*types.Const)
		if !ok || typT == nil || !types.Identical(k.Type(), typT) {
			continue
		}
		v, ok := constant.Int64Val(constant.ToInt(k.Val()))
		if !ok || v == 0 {
			continue
		}
		n++
		res, done := c.constPaths(fn, map[ssa.Value]int64{fn.Params[0]: v})
		if !done || len(res) != 1 || res["dyn"] {
			// a table lookup or another computed text: not something this rule can evaluate
			notEval++
			continue
		}
		for r := range res {
			if r == "const:" {
				problems = append(problems, "the text of "+name+" is empty")
				continue
			}
			texts[r] = append(texts[r], name)
		}
	}
	if n < 6 {
		problems = append(problems, fmt.Sprintf("only %d operator constants found", n))
	}
	for t, names := range texts {
		if len(names) > 1 {
			sort.Strings(names)
			problems = append(problems, strings.Join(names, " and ")+" share the text "+strings.TrimPrefix(t, "const:")+": Conditions differing only in these operators compare equal")
		}
	}
	if len(problems) == 0 {
		c.rep.ok("R-COVER", "ComparisonOperator.String", "six distinct operator texts", pos, fmt.Sprintf("evaluated over %d constants: pairwise different, non-empty (%d not evaluable as constants and left undecided by this rule)", n, notEval))
	} else {
		sort.Strings(problems)
		c.rep.bad("R-COVER", "ComparisonOperator.String", "six distinct operator texts", pos, strings.Join(uniq(problems), "; "))
	}
}

// ruleDefragWrites: Defrag changes content (slots, header), the error record
// and the lock bookkeeping - nothing else in a configuration record.  A flag of
// its own kept there (a "being defragmented" mark, a memo) could outlive the
// call and make a later Defrag skip the stack.
func (c *Ctx) ruleDefragWrites() {
	fn := c.anchor("R-DEFRAG", "Stack.Defrag")
	if fn == nil {
		return
	}
	allowed := map[string]bool{"HDR": true, "SLOT": true, "nodeConfig.err": true, "nodeConfig.ldr": true}
	var extra []string
	for _, w := range c.eff.writesOf(fn) {
		if allowed[w.Loc] || strings.HasPrefix(w.Loc, "APPEND") || strings.HasPrefix(w.Loc, "EXT:") || strings.HasPrefix(w.Loc, "ELEM:") || roBookkeeping[w.Loc] {
			continue
		}
		if w.Root.Kind == 'f' {
			continue
		}
		extra = append(extra, w.String())
	}
	sort.Strings(extra)
	extra = uniq(extra)
	if len(extra) == 0 {
		c.rep.ok("R-DEFRAG", "Stack.Defrag", "writes content, error and lock bookkeeping only", c.p.pos(fn.Pos()), "no other field of a configuration record is written")
	} else {
		if len(extra) > 4 {
			extra = extra[:4]
		}
		c.rep.bad("R-DEFRAG", "Stack.Defrag", "writes content, error and lock bookkeeping only", c.p.pos(fn.Pos()), "Defrag also writes "+strings.Join(extra, ", ")+": state kept in the configuration can outlive the call and change what a later Defrag does")
	}
}

// ruleSliceLenBeforeIndex: slicesEqual indexes both operands with one counter
// bounded by the first operand's length; every such Index is reached only
// where capLenEqual has said the two lengths agree (arrays included: an array
// type carries its length, but two arrays need not have the same type).
func (c *Ctx) ruleSliceLenBeforeIndex() {
	fn := c.anchor("R-REFL", "slicesEqual")
	if fn == nil {
		return
	}
	fa := c.eng.analyze(fn, nil)
	gates := c.findCalls(fn, "capLenEqual")
	isLen := func(v ssa.Value) bool {
		call, ok := v.(*ssa.Call)
		return ok && c.calleeName(&call.Call) == "(reflect.Value).Len"
	}
	var lenCmps []*ssa.BinOp
	for _, b := range fn.Blocks {
		for _, in := range b.Instrs {
			if bo, ok := in.(*ssa.BinOp); ok && (bo.Op == token.EQL || bo.Op == token.NEQ) && isLen(bo.X) && isLen(bo.Y) {
				lenCmps = append(lenCmps, bo)
			}
		}
	}
	n := 0
	var problems []string
	for _, b := range fn.Blocks {
		for _, in := range b.Instrs {
			call, ok := in.(*ssa.Call)
			if !ok || c.calleeName(&call.Call) != "(reflect.Value).Index" {
				continue
			}
			n++
			if !fa.allHold(call, func(s *State) bool {
				for _, g := range gates {
					if v, known := fa.knownTerm(s, aTR, fa.term(s, g)); known && v {
						return true
					}
				}
				// or the two Len() results were compared directly
				for _, cmp := range lenCmps {
					if v, known := c.knownBool(fa, s, cmp); known && v == (cmp.Op == token.EQL) {
						return true
					}
				}
				return false
			}) {
				problems = append(problems, c.p.instrPos(call)+": an element is indexed on a path where the two lengths have not been compared equal (the shorter operand panics: index out of range)")
			}
		}
	}
	if n == 0 {
		problems = append(problems, "no element access found (anchor)")
	}
	if len(problems) == 0 {
		c.rep.ok("R-REFL", "slicesEqual", "Value.Index after the length comparison", c.p.pos(fn.Pos()), fmt.Sprintf("%d Index call(s), each behind capLenEqual == true", n))
	} else {
		sort.Strings(problems)
		c.rep.bad("R-REFL", "slicesEqual", "Value.Index after the length comparison", c.p.pos(fn.Pos()), strings.Join(uniq(problems), "; "))
	}
}

// ruleSymbolPieces: SetSymbol accepts its symbol in pieces (strings and runes)
// and stores their concatenation.  Where the pieces are collected in a string
// accumulator, every update of it inside the loop is "accumulator + piece":
// no piece replaces what was collected so far.
func (c *Ctx) ruleSymbolPieces() {
	fn := c.anchor("R-KINDGUARD", "(*stack).setSymbol")
	if fn == nil {
		return
	}
	pos := c.p.pos(fn.Pos())
	var acc *ssa.Phi
	var hdr *ssa.BasicBlock
	for _, b := range fn.Blocks {
		isHeader := false
		for _, p := range b.Preds {
			if b.Dominates(p) {
				isHeader = true
			}
		}
		if !isHeader {
			continue
		}
		for _, in := range b.Instrs {
			if phi, ok := in.(*ssa.Phi); ok {
				if bt, ok := phi.Type().Underlying().(*types.Basic); ok && bt.Kind() == types.String {
					acc, hdr = phi, b
				}
			}
		}
	}
	if acc == nil {
		c.rep.ok("R-KINDGUARD", "(*stack).setSymbol", "pieces are concatenated", pos, "no string accumulator in a loop: not the form this rule evaluates; left undecided by it")
		return
	}
	var problems []string
	seen := map[ssa.Value]bool{}
	var leaf func(v ssa.Value)
	leaf = func(v ssa.Value) {
		if seen[v] {
			return
		}
		seen[v] = true
		if v == ssa.Value(acc) {
			return
		}
		switch x := v.(type) {
		case *ssa.Phi:
			if hdr.Dominates(x.Block()) {
				for _, e := range x.Edges {
					leaf(e)
				}
				return
			}
		case *ssa.BinOp:
			if x.Op == token.ADD {
				// accumulator (possibly already extended in this iteration) + piece
				leaf(x.X)
				return
			}
		}
		where := pos
		if in := firstInstrOf(v); in != nil {
			where = c.p.instrPos(in)
		}
		problems = append(problems, "inside the loop the collected symbol can be replaced by a value that does not extend it ("+v.Name()+" at "+where+")")
	}
	for i, p := range hdr.Preds {
		if hdr.Dominates(p) {
			leaf(acc.Edges[i])
		}
	}
	if len(problems) == 0 {
		c.rep.ok("R-KINDGUARD", "(*stack).setSymbol", "pieces are concatenated", pos, "every update of the accumulator inside the loop is accumulator + piece")
	} else {
		sort.Strings(problems)
		c.rep.bad("R-KINDGUARD", "(*stack).setSymbol", "pieces are concatenated", pos, strings.Join(uniq(problems), "; "))
	}
}

func firstInstrOf(v ssa.Value) ssa.Instruction {
	if in, ok := v.(ssa.Instruction); ok {
		return in
	}
	return nil
}
