package main

import (
	"go/token"
	"go/types"
	"fmt"
	"sort"
	"strings"

	"golang.org/x/tools/go/ssa"
)

// ttCondExprHandler: the Condition-side no-nesting filter.
func (c *Ctx) ttCondExprHandler() {
	c.runTable(ttTable{
		rule: "R-TT", fn: "condition.defaultAssertionExpressionHandler",
		atoms: []ttAtom{c.stackKindAtom(1), c.flagAtom("nnest", "nnest")},
		expect: func(v map[string]bool) string {
			if v["isStackKind(x)"] && v["nnest"] {
				return "nil"
			}
			return "x"
		},
		outcome: func(fa *FnAnalysis, st *State, ret *ssa.Return) string {
			rv := ret.Results[0]
			if isNilConst(rv) {
				return "nil"
			}
			t := fa.term(st, rv)
			if t.K == "P" && t.N == 1 {
				return "x"
			}
			if t.K == "C" && t.S == "nil" {
				return "nil"
			}
			return "other(" + t.key + ")"
		},
	})
	// acceptance: ok == (value survived the filter) && no pending error
	c.runTable(ttTable{
		rule: "R-TT", fn: "(*condition).assertConditionExpressionValue",
		atoms: []ttAtom{
			c.atomTerm("isString", aTR, func(fa *FnAnalysis, st *State) *Term {
				return c.eng.tt.mk(Term{K: "TAOK", S: "string", Typ: stringType(), A: c.param(fa, 1)})
			}, false),
			c.atomTerm("len>0", aTR, func(fa *FnAnalysis, st *State) *Term {
				ta := c.eng.tt.mk(Term{K: "TA", S: "string", Typ: stringType(), A: c.param(fa, 1)})
				return c.eng.tt.mk(Term{K: "B", S: "<", A: c.intConst(0), B: c.eng.tt.mk(Term{K: "LEN", A: ta})})
			}, false),
			{"filtered!=nil", func(fa *FnAnalysis, st *State) (bool, bool) {
				for _, call := range c.findCalls(fa.fn, "condition.defaultAssertionExpressionHandler") {
					if v, ok := fa.nonNil(st, call); ok {
						return v, true
					}
				}
				return false, false
			}},
			c.atomCallBool("isError", []string{"nodeConfig.isError"}, nil),
		},
		feasible: func(v map[string]bool) bool {
			if v["len>0"] && !v["isString"] {
				return false
			}
			if v["isString"] && v["filtered!=nil"] {
				return false // the filter is not consulted for strings; keep one representative
			}
			return true
		},
		expect: func(v map[string]bool) string {
			ok := false
			if v["isString"] {
				ok = v["len>0"]
			} else {
				ok = v["filtered!=nil"]
			}
			return fmt.Sprint(ok && !v["isError"])
		},
		outcome: c.boolOutcome(1),
	})
}

// nativeStackAtom: the value in parameter k has the native type Stack
// (initialised or not; a zero Stack{} is still a Stack).
func (c *Ctx) nativeStackAtom(k int) ttAtom {
	return ttAtom{"native(x)", func(fa *FnAnalysis, st *State) (bool, bool) {
		var typ types.Type
		if obj := c.p.Types.Scope().Lookup("Stack"); obj != nil {
			typ = obj.Type()
		}
		if typ == nil {
			return false, false
		}
		t := c.eng.tt.mk(Term{K: "TAOK", S: typeStr(typ), Typ: typ, A: c.param(fa, k)})
		return fa.knownTerm(st, aTR, t)
	}}
}

// rulePushLoops: in the two append workers every header store (the append)
// is reached only after, in the same iteration and with no write in
// between, the fullness test said "not full" and - per worker - the
// nesting filter accepted this very value / the push policy returned nil
// for this very value.
func (c *Ctx) rulePushLoops() {
	rep := c.rep
	// the worker appends nothing itself: every value goes through one of the two per-value loops
	// (a bulk append of a slice of the batch would bypass the no-nesting test and the policy)
	if fn := c.p.ByName["(*stack).push"]; fn != nil {
		if n := c.hdrStoresIn(fn); n == 0 {
			rep.ok("R-APPEND", "(*stack).push", "appends only through the loops", c.p.pos(fn.Pos()), "push stores no header itself")
		} else {
			rep.bad("R-APPEND", "(*stack).push", "appends only through the loops", c.p.pos(fn.Pos()), fmt.Sprintf("push stores the header %d time(s) itself: values appended there bypass the per-value tests (no-nesting, capacity, policy)", n))
		}
	}
	type spec struct {
		fn      string
		gate    string // callee whose verdict gates the append ("" = dynamic policy call)
		gateVal bool
	}
	for _, sp := range []spec{{"(*stack).genericAppend", "(*stack).canPushNester", true}, {"(*stack).methodAppend", "", false}} {
		fn := c.anchor("R-APPEND", sp.fn)
		if fn == nil {
			continue
		}
		fa := c.eng.analyze(fn, nil)
		n := 0
		ord := newOrdinal()
		// nothing the loop calls appends on its own: only the offered values, one per iteration,
		// can enter the stack (a refused value's members, a default, a copy ... cannot)
		if fe := c.eff.fns[fn]; fe != nil {
			var extra []string
			for _, site := range fe.sites {
				if site.Direct || site.Callee == nil || !c.p.inPkg(site.Callee) {
					continue
				}
				for _, w := range site.Writes {
					if (w.Loc == "HDR" || strings.HasPrefix(w.Loc, "APPEND")) && w.Root.Kind == 'p' && w.Root.Idx == 0 && !w.Root.Elem {
						extra = append(extra, c.p.instrPos(site.Instr)+": "+relName(site.Callee)+" ("+w.Loc+")")
					}
				}
			}
			sort.Strings(extra)
			extra = uniq(extra)
			if len(extra) == 0 {
				rep.ok("R-APPEND", sp.fn, "callees append nothing", c.p.pos(fn.Pos()), "no callee of the per-value loop writes the receiver's header")
			} else {
				rep.bad("R-APPEND", sp.fn, "callees append nothing", c.p.pos(fn.Pos()), "a callee of the per-value loop appends to the receiver on its own (values other than the offered ones can enter the stack): "+strings.Join(extra, "; "))
			}
		}
		for _, b := range fn.Blocks {
			for _, in := range b.Instrs {
				st, ok := in.(*ssa.Store)
				if !ok || c.eff.classifyAddr(st.Addr) != "HDR" {
					continue
				}
				n++
				construct := ord.next("append to *r")
				pos := c.p.instrPos(in)
				// the appended element
				app, ok := st.Val.(*ssa.Call)
				var elem ssa.Value
				if ok {
					if bi, isB := app.Call.Value.(*ssa.Builtin); isB && bi.Name() == "append" && len(app.Call.Args) == 2 {
						elem = singleVariadicElem(app.Call.Args[1])
					}
				}
				if elem == nil {
					rep.bad("R-APPEND", sp.fn, construct, pos, "the stack header is stored with something other than append(*r, one value)")
					continue
				}
				var problems []string
				// judge at the append itself (the builtin is the first half of the write)
				for _, s := range fa.statesBefore(app) {
					et := fa.term(s, elem)
					// fullness
					fullOK := false
					for _, call := range c.findCalls(fn, "stack.isFull") {
						if v, known := fa.knownTerm(s, aTR, fa.term(s, call)); known && !v {
							if ep, ok := s.cep[call]; ok && ep == s.epoch {
								fullOK = true
							}
						}
					}
					if !fullOK {
						problems = append(problems, "no isFull()==false established since the last write")
					}
					// gate
					gateOK := false
					if sp.gate != "" {
						for _, call := range c.findCalls(fn, sp.gate) {
							if v, known := fa.knownTerm(s, aTR, fa.term(s, call)); known && v == sp.gateVal {
								if len(call.Call.Args) == 2 && fa.term(s, call.Call.Args[1]) == et {
									gateOK = true
								}
							}
						}
						if !gateOK {
							problems = append(problems, "the value appended is not the value "+sp.gate+" accepted")
						}
					} else {
						// dynamic policy call: result must be nil for this very value
						for _, bb := range fn.Blocks {
							for _, i2 := range bb.Instrs {
								call, ok := i2.(*ssa.Call)
								if !ok || call.Call.IsInvoke() || c.p.callee(&call.Call) != nil {
									continue
								}
								if _, isB := call.Call.Value.(*ssa.Builtin); isB {
									continue
								}
								if call.Call.Value != fn.Params[1] {
									continue
								}
								if v, known := fa.nonNil(s, call); known && !v {
									if len(call.Call.Args) == 1 {
										if pe := singleVariadicElem(call.Call.Args[0]); pe != nil && fa.term(s, pe) == et {
											gateOK = true
										}
									}
								}
							}
						}
						if !gateOK {
							problems = append(problems, "the value appended was not approved (nil error) by the push policy")
						}
					}
				}
				if len(problems) == 0 && fa.reachable(in) {
					rep.ok("R-APPEND", sp.fn, construct, pos, "append gated by isFull()==false in the same epoch and by the per-value verdict on the same value")
				} else {
					sort.Strings(problems)
					rep.bad("R-APPEND", sp.fn, construct, pos, strings.Join(uniq(problems), "; "))
				}
			}
		}
		if n == 0 {
			rep.bad("R-APPEND", sp.fn, "anchor", c.p.pos(fn.Pos()), "no header store found")
		}
		c.rulePushLoopCoverage(fn, fa, sp.gate == "")
		if sp.gate == "" {
			c.rulePolicyCall(fn, fa)
		}
	}
}

// rulePolicyCall: in methodAppend the policy is consulted only while room
// remains, exactly once per loop iteration, its rejection is recorded through
// setErr with the policy's own error, and the batch stops there.
func (c *Ctx) rulePolicyCall(fn *ssa.Function, fa *FnAnalysis) {
	rep := c.rep
	name := relName(fn)
	var pcalls []*ssa.Call
	for _, b := range fn.Blocks {
		for _, in := range b.Instrs {
			call, ok := in.(*ssa.Call)
			if !ok || call.Call.IsInvoke() || c.p.callee(&call.Call) != nil {
				continue
			}
			if _, isB := call.Call.Value.(*ssa.Builtin); isB {
				continue
			}
			if call.Call.Value == fn.Params[1] {
				pcalls = append(pcalls, call)
			}
		}
	}
	pos := c.p.pos(fn.Pos())
	if len(pcalls) != 1 {
		rep.bad("R-POLICY", name, "policy call", pos, fmt.Sprintf("expected exactly one call of the push policy per iteration, found %d call sites", len(pcalls)))
		return
	}
	pc := pcalls[0]
	ppos := c.p.instrPos(pc)
	// (1) room remains
	room := fa.reachable(pc) && fa.allHold(pc, func(s *State) bool {
		for _, call := range c.findCalls(fn, "stack.isFull") {
			if v, known := fa.knownTerm(s, aTR, fa.term(s, call)); known && !v {
				if ep, ok := s.cep[call]; ok && ep == s.epoch {
					return true
				}
			}
		}
		return false
	})
	if room {
		rep.ok("R-POLICY", name, "consulted while room remains", ppos, "the policy call is dominated by isFull()==false with no write in between")
	} else {
		rep.bad("R-POLICY", name, "consulted while room remains", ppos, "the push policy is consulted although the stack may already be full")
	}
	// (2) the call sits in the argument loop, on the loop's induction element
	inLoop := false
	for h, blocks := range fa.loopOf {
		_ = h
		if blocks[pc.Block()] {
			inLoop = true
		}
	}
	if !inLoop {
		rep.bad("R-POLICY", name, "once per value", ppos, "the policy call is not inside the per-value loop")
	} else {
		rep.ok("R-POLICY", name, "once per value", ppos, "single call site inside the per-value loop")
	}
	// (3) rejection: setErr(policy error) and leave the loop without appending
	okRej := false
	var why string
	for _, call := range c.findCalls(fn, "(*stack).setErr") {
		if !fa.reachable(call) {
			continue
		}
		good := fa.allHold(call, func(s *State) bool {
			v, known := fa.nonNil(s, pc)
			return known && v && fa.term(s, call.Call.Args[1]) == fa.term(s, pc)
		})
		if !good {
			why = "setErr is not called with the policy's own non-nil error"
			continue
		}
		// from this block every path leaves the loop without reaching an append
		leaves := true
		seen := map[*ssa.BasicBlock]bool{}
		var walk func(b *ssa.BasicBlock)
		walk = func(b *ssa.BasicBlock) {
			if seen[b] {
				return
			}
			seen[b] = true
			for _, in := range b.Instrs {
				if st, ok := in.(*ssa.Store); ok && c.eff.classifyAddr(st.Addr) == "HDR" {
					leaves = false
				}
				if c2, ok := in.(*ssa.Call); ok && c2 == pc && b != call.Block() {
					leaves = false
				}
			}
			for _, s := range b.Succs {
				walk(s)
			}
		}
		for _, s := range call.Block().Succs {
			walk(s)
		}
		if leaves {
			okRej = true
		} else {
			why = "after a rejection the loop continues (a later value may still be offered or appended)"
		}
	}
	// (1b) every offered value is put to the policy while room remains: within an iteration the
	// policy call can be bypassed only by the loop test or by the fullness test - no other
	// condition (a no-nesting filter, a type test) may drop a value without the policy having seen it
	{
		S := pc.Block()
		reaches := func(from *ssa.BasicBlock) bool {
			seen := map[*ssa.BasicBlock]bool{}
			var walk func(b *ssa.BasicBlock) bool
			walk = func(b *ssa.BasicBlock) bool {
				if b == S {
					return true
				}
				if seen[b] {
					return false
				}
				seen[b] = true
				if _, isHdr := fa.loopOf[b]; isHdr {
					return false
				}
				for _, sc := range b.Succs {
					if walk(sc) {
						return true
					}
				}
				return false
			}
			return walk(from)
		}
		skipMsg := ""
		for d := S.Idom(); d != nil; d = d.Idom() {
			iff, ok := d.Instrs[len(d.Instrs)-1].(*ssa.If)
			if !ok {
				continue
			}
			bypass := false
			for _, sc := range d.Succs {
				if !reaches(sc) {
					bypass = true
				}
			}
			if !bypass {
				continue
			}
			if _, isHdr := fa.loopOf[d]; isHdr {
				continue
			}
			cond := iff.Cond
			if no, ok := cond.(*ssa.UnOp); ok && no.Op == token.NOT {
				cond = no.X
			}
			if call, ok := cond.(*ssa.Call); ok && c.calleeName(&call.Call) == "stack.isFull" {
				continue
			}
			inLoop := false
			for _, blocks := range fa.loopOf {
				if blocks[d] {
					inLoop = true
				}
			}
			if !inLoop {
				continue
			}
			skipMsg = "the test at " + c.p.instrPos(iff) + " can keep a value from the policy although room remains"
		}
		if skipMsg == "" {
			rep.ok("R-POLICY", name, "every value is put to the policy", ppos, "inside an iteration only the fullness test can bypass the policy call")
		} else {
			rep.bad("R-POLICY", name, "every value is put to the policy", ppos, skipMsg)
		}
	}
	// (4) no rejection goes unreported: wherever the function returns with the policy's
	// verdict on the last value consulted being an error, setErr has recorded that error
	{
		nRej := 0
		silent := false
		for _, rs := range fa.rets {
			if rs.st.dead {
				continue
			}
			v, known := fa.nonNil(rs.st, pc)
			if !known || !v {
				continue
			}
			nRej++
			recorded := false
			for _, call := range c.findCalls(fn, "(*stack).setErr") {
				if d, _ := rs.st.get(aDID, c.eng.tt.mk(Term{K: "V", V: call})); d && len(call.Call.Args) == 2 && call.Call.Args[1] == ssa.Value(pc) {
					recorded = true
				}
			}
			if !recorded {
				silent = true
			}
		}
		switch {
		case nRej == 0:
			rep.bad("R-POLICY", name, "rejection is reported", pos, "no return path on which the policy rejected a value could be identified")
		case silent:
			rep.bad("R-POLICY", name, "rejection is reported", pos, "the function can return after the policy rejected a value without setErr having recorded that error (Err() would not report it)")
		default:
			rep.ok("R-POLICY", name, "rejection is reported", pos, fmt.Sprintf("on each of the %d return paths that follow a rejection setErr(policy error) was executed", nRej))
		}
	}
	if okRej {
		rep.ok("R-POLICY", name, "rejection stops the batch", pos, "the rejecting branch records the policy's error with setErr and cannot reach another policy call or append")
	} else {
		if why == "" {
			why = "no setErr call on the rejecting branch"
		}
		rep.bad("R-POLICY", name, "rejection stops the batch", pos, why)
	}
}

// singleVariadicElem: v is the slice `[x]` built for a variadic call; returns x.
func singleVariadicElem(v ssa.Value) ssa.Value {
	sl, ok := v.(*ssa.Slice)
	if !ok {
		return nil
	}
	al, ok := sl.X.(*ssa.Alloc)
	if !ok {
		return nil
	}
	var elem ssa.Value
	n := 0
	for _, r := range *al.Referrers() {
		if ia, ok := r.(*ssa.IndexAddr); ok {
			for _, u := range *ia.Referrers() {
				if st, ok := u.(*ssa.Store); ok && st.Addr == ia {
					elem = st.Val
					n++
				}
			}
		}
	}
	if n != 1 {
		return nil
	}
	if mi, ok := elem.(*ssa.MakeInterface); ok {
		return mi.X
	}
	return elem
}

// ruleOptionWritesOnlyOpt: switching an option touches nothing but the
// option word (and the lock bookkeeping).
func (c *Ctx) ruleOptionWritesOnlyOpt() {
	allowed := map[string]bool{"nodeConfig.opt": true, "nodeConfig.ldr": true, "EXT:Mutex.Lock": true, "EXT:Mutex.Unlock": true}
	for _, m := range c.handleMethods() {
		if _, ok := switchTable[m.Name]; !ok {
			continue
		}
		var extra []string
		for _, w := range c.eff.writesOf(m.Fn) {
			if !allowed[w.Loc] {
				extra = append(extra, w.String())
			}
		}
		if len(extra) == 0 {
			c.rep.ok("R-OPTW", m.String(), "write set", c.p.pos(m.Fn.Pos()), "writes only the option word and lock bookkeeping: content and other settings untouched")
		} else {
			c.rep.bad("R-OPTW", m.String(), "write set", c.p.pos(m.Fn.Pos()), "an option switch also writes "+strings.Join(extra, ", "))
		}
	}
}

// ---------------------------------------------------------------- R-SCAN
//
// IsNesting is true exactly when at least one slot is a Stack or alias: the
// scan visits slots 1..len-1 in order; the verdict on slot i is "native Stack
// or the converter's ok"; the loop continues only while the flag is false (so
// a later non-stack can never overwrite an earlier true) and the flag at the
// moment the loop is left is what the function returns.
func (c *Ctx) ruleScanNesting() {
	rep := c.rep
	fn := c.anchor("R-SCAN", "stack.isNesting")
	if fn == nil {
		return
	}
	fa := c.eng.analyze(fn, nil)
	pos := c.p.pos(fn.Pos())
	var problems []string
	if len(fa.loopOf) != 1 {
		rep.bad("R-SCAN", relName(fn), "scan", pos, "expected exactly one loop")
		return
	}
	var hdr *ssa.BasicBlock
	for h := range fa.loopOf {
		hdr = h
	}
	blocks := fa.loopOf[hdr]
	var flag, counter *ssa.Phi
	for _, in := range hdr.Instrs {
		phi, ok := in.(*ssa.Phi)
		if !ok {
			break
		}
		if b, ok := phi.Type().Underlying().(*types.Basic); ok {
			switch b.Kind() {
			case types.Bool:
				flag = phi
			case types.Int:
				counter = phi
			}
		}
	}
	if flag == nil || counter == nil {
		rep.bad("R-SCAN", relName(fn), "scan", pos, "flag or counter not found in the loop header")
		return
	}
	init, step, okS := c.phiInitStep(counter, hdr)
	if k, isC := constIntOf(init); !okS || !isC || k != 1 || step != 1 {
		problems = append(problems, "the scan does not visit slots 1, 2, 3, ...")
	}
	// bound: counter < len(r)
	if iff, ok := hdr.Instrs[len(hdr.Instrs)-1].(*ssa.If); ok {
		okB := false
		if bo, ok := iff.Cond.(*ssa.BinOp); ok && bo.Op == token.LSS && bo.X == ssa.Value(counter) {
			for _, s := range fa.statesBefore(iff) {
				t := fa.term(s, bo.Y)
				okB = t.K == "LEN" && t.A != nil && t.A.K == "P" && t.A.N == 0
				if !okB {
					break
				}
			}
		}
		if !okB {
			problems = append(problems, "the scan is not bounded by the header's length")
		}
	}
	// every back edge: the flag is known false (the loop goes on only while nothing was found)
	for bi, succs := range fa.edgeOut {
		if !blocks[bi] {
			continue
		}
		for k, sb := range bi.Succs {
			if sb != hdr || k >= len(succs) {
				continue
			}
			pi := -1
			for i, p := range hdr.Preds {
				if p == bi {
					pi = i
				}
			}
			for _, s := range succs[k] {
				if v, known := c.knownBool(fa, s, flag.Edges[pi]); !known || v {
					problems = append(problems, "the scan can continue after a Stack was found: a later element would overwrite the verdict")
				}
			}
		}
	}
	// the per-slot verdict: native Stack, or the converter's ok on that very slot
	nVerdict := 0
	for b := range blocks {
		for _, in := range b.Instrs {
			call, ok := in.(*ssa.Call)
			if !ok || (c.calleeName(&call.Call) != "stackTypeAliasConverter" && c.calleeName(&call.Call) != "isStackKind") {
				continue
			}
			nVerdict++
			for _, s := range fa.statesBefore(call) {
				at := fa.term(s, call.Call.Args[0])
				okSlot := at.K == "L" && at.A != nil && at.A.K == "IA" && at.A.A != nil && at.A.A.K == "P" && at.A.A.N == 0 && at.A.B == fa.term(s, counter)
				if !okSlot {
					problems = append(problems, "the converter is not applied to the slot at the loop counter")
				}
			}
		}
	}
	if nVerdict != 1 {
		problems = append(problems, fmt.Sprintf("%d converter calls in the scan, expected one", nVerdict))
	}
	// returns: true only with a found verdict, false only after the whole scan
	for _, ret := range c.returnsOf(fn) {
		for _, s := range fa.statesBefore(ret) {
			v, known := c.knownBool(fa, s, ret.Results[0])
			if !known {
				// the converter's own verdict on the last slot examined, returned as is
				t := fa.term(s, ret.Results[0])
				if !(t.K == "X" && t.N == 1 && t.A != nil && t.A.K == "APP" && t.A.S == "stackTypeAliasConverter") && !(t.K == "APP" && t.S == "isStackKind") {
					problems = append(problems, "the value returned is neither a constant nor the converter's verdict: "+t.key)
				}
				continue
			}
			if !v {
				// must have left through the exhausted bound
				if iff, ok := hdr.Instrs[len(hdr.Instrs)-1].(*ssa.If); ok {
					if bv, bk := fa.knownTerm(s, aTR, fa.term(s, iff.Cond)); !bk || bv {
						problems = append(problems, "false is returned although the scan may not have reached the end")
					}
				}
			}
		}
	}
	if len(problems) == 0 {
		rep.ok("R-SCAN", relName(fn), "scan", pos, "slots 1..len-1 in order; verdict per slot = the Stack test on that slot; the loop goes on only while nothing was found; false only after the last slot")
	} else {
		sort.Strings(problems)
		rep.bad("R-SCAN", relName(fn), "scan", pos, strings.Join(uniq(problems), "; "))
	}
}

// rulePushLoopCoverage: every offered value gets its turn.  The per-value loop
// is left only when the counter has run past the last value, when the stack is
// full (nothing further could be stored) or - with a push policy - when the
// policy has just rejected a value (which ends the batch by definition).  A
// value refused by the no-nesting test must not end the batch.
func (c *Ctx) rulePushLoopCoverage(fn *ssa.Function, fa *FnAnalysis, policy bool) {
	rep := c.rep
	pos := c.p.pos(fn.Pos())
	if len(fa.loopOf) != 1 {
		rep.bad("R-APPEND", relName(fn), "every value gets its turn", pos, fmt.Sprintf("expected one loop over the offered values, found %d", len(fa.loopOf)))
		return
	}
	var hdr *ssa.BasicBlock
	for h := range fa.loopOf {
		hdr = h
	}
	blocks := fa.loopOf[hdr]
	var problems []string
	iff, _ := hdr.Instrs[len(hdr.Instrs)-1].(*ssa.If)
	nExit := 0
	for bi, succs := range fa.edgeOut {
		if !blocks[bi] {
			continue
		}
		for k, sb := range bi.Succs {
			if blocks[sb] || k >= len(succs) {
				continue
			}
			for _, s := range succs[k] {
				if s.dead {
					continue
				}
				nExit++
				okExit := false
				if iff != nil && bi == hdr {
					if v, known := fa.knownTerm(s, aTR, fa.term(s, iff.Cond)); known && !v {
						okExit = true
					}
				}
				for _, call := range c.findCalls(fn, "stack.isFull") {
					if v, known := fa.knownTerm(s, aTR, fa.term(s, call)); known && v {
						if ep, ok := s.cep[call]; ok && ep == s.epoch {
							okExit = true
						}
					}
				}
				if policy && !okExit {
					for _, bb := range fn.Blocks {
						for _, i2 := range bb.Instrs {
							call, ok := i2.(*ssa.Call)
							if !ok || call.Call.IsInvoke() || call.Call.Value != ssa.Value(fn.Params[1]) {
								continue
							}
							if v, known := fa.nonNil(s, call); known && v {
								okExit = true
							}
						}
					}
				}
				if !okExit {
					problems = append(problems, fmt.Sprintf("the loop over the offered values can be left early (block %d -> %d) although values remain, the stack is not known to be full and nothing was rejected by a policy", bi.Index, sb.Index))
				}
			}
		}
	}
	// the counter visits every index: starts at 0 (or -1 for range loops), steps by one
	{
		xs := ssa.Value(fn.Params[len(fn.Params)-1])
		nIdx := 0
		for b := range blocks {
			for _, in := range b.Instrs {
				ia, ok := in.(*ssa.IndexAddr)
				if !ok || ia.X != xs {
					continue
				}
				nIdx++
				first, step, ok := c.loopIndex(ia.Index, hdr)
				isLen := func(v ssa.Value) bool {
					call, ok := v.(*ssa.Call)
					if !ok {
						return false
					}
					bi, ok := call.Call.Value.(*ssa.Builtin)
					return ok && bi.Name() == "len" && call.Call.Args[0] == xs
				}
				if !ok || first != 0 || step != 1 || !c.loopBoundIs(hdr, ia.Index, isLen) {
					problems = append(problems, "the offered values are not visited by an index running 0,1,2,... up to len(x)")
				}
			}
		}
		if nIdx == 0 {
			problems = append(problems, "the loop does not index the offered values")
		}
	}
	if nExit == 0 {
		problems = append(problems, "no loop exit found")
	}
	if len(problems) == 0 {
		rep.ok("R-APPEND", relName(fn), "every value gets its turn", pos, "the loop ends only past the last value, on a full stack or on a policy rejection")
	} else {
		sort.Strings(problems)
		rep.bad("R-APPEND", relName(fn), "every value gets its turn", pos, strings.Join(uniq(problems), "; "))
	}
}
