package main

import (
	"go/token"
	"fmt"
	"sort"
	"strings"

	"golang.org/x/tools/go/ssa"
)

// ---------------------------------------------------------------- R-LOCK (C10)
//
// The lock discipline atomicity needs (necessary conditions):
//
//  L1  every store of a header or an element slot reachable from the eight
//      content mutators happens while the stack's lock is held: inside the held
//      region of lock(receiver) in its own function, or in a function all of
//      whose call sites are in such regions (transitively);
//  L2  validation happens inside the critical section: (a) a function that
//      locks its receiver does not touch it before the lock; (b) the capacity,
//      configuration-slot and list-operation obligations (R-CAP, R-SLOT0, R-SEQ)
//      are re-proved in concurrent mode, where acquiring the lock invalidates
//      everything known about shared memory;
//  L3  the lock bookkeeping is written inside the mutex window (after
//      Mutex.Lock, before Mutex.Unlock);
//  L4  no lock is taken again while held (self-deadlock), and every lock is
//      released on every path (deferred at once, or unlocked before each return);
//  L5  (reported, known findings) the exported wrappers and lock() itself read
//      the configuration slot before any lock is held - the mutex lives inside
//      the data it protects, so these reads race with a concurrent mutator.

var lockMutators = []string{"Stack.Push", "Stack.Pop", "Stack.Insert", "Stack.Remove", "Stack.Replace", "Stack.Swap", "Stack.Reverse", "Stack.Reset"}

// heldRegion: instructions of f CFG-reachable from lk without passing a (non-deferred) unlock of the same stack.
func (c *Ctx) heldRegion(fa *FnAnalysis, f *ssa.Function, lk *ssa.Call) (map[ssa.Instruction]bool, *Term) {
	sts := fa.statesBefore(lk)
	if len(sts) == 0 {
		return nil, nil
	}
	held := fa.term(sts[0], lk.Call.Args[0])
	unlocks := c.findCalls(f, "(*stack).unlock")
	isRelease := func(in ssa.Instruction) bool {
		for _, ul := range unlocks {
			if ssa.Instruction(ul) != in {
				continue
			}
			us := fa.statesBefore(ul)
			if len(us) > 0 && fa.term(us[0], ul.Call.Args[0]) == held {
				return true
			}
		}
		return false
	}
	region := map[ssa.Instruction]bool{}
	seenB := map[*ssa.BasicBlock]bool{}
	var walk func(b *ssa.BasicBlock, from int)
	walk = func(b *ssa.BasicBlock, from int) {
		for k := from; k < len(b.Instrs); k++ {
			if isRelease(b.Instrs[k]) {
				return
			}
			region[b.Instrs[k]] = true
		}
		for _, sb := range b.Succs {
			if !seenB[sb] {
				seenB[sb] = true
				walk(sb, 0)
			}
		}
	}
	walk(lk.Block(), instrIndex(lk)+1)
	return region, held
}

// lockedContexts: functions all of whose in-package call sites lie in a held
// region of the lock of the stack they receive as first argument.
func (c *Ctx) lockedContexts() map[*ssa.Function]bool {
	exported := map[*ssa.Function]bool{}
	for _, m := range c.api {
		exported[m.Fn] = true
	}
	type site struct {
		caller *ssa.Function
		call   ssa.Instruction
		cc     *ssa.CallCommon
	}
	callers := map[*ssa.Function][]site{}
	for _, f := range c.p.Funcs {
		for _, b := range f.Blocks {
			for _, in := range b.Instrs {
				if cc := callCommon(in); cc != nil {
					if cal := c.p.callee(cc); cal != nil && c.p.inPkg(cal) {
						callers[cal] = append(callers[cal], site{f, in, cc})
					}
				}
			}
		}
	}
	locked := map[*ssa.Function]bool{}
	for round := 0; round < 8; round++ {
		changed := false
		for _, f := range c.p.Funcs {
			if locked[f] || exported[f] || len(callers[f]) == 0 || len(f.Params) == 0 {
				continue
			}
			all := true
			for _, s := range callers[f] {
				if len(s.cc.Args) == 0 {
					all = false
					break
				}
				cfa := c.eng.analyze(s.caller, nil)
				ss := cfa.statesBefore(s.call)
				if len(ss) == 0 {
					continue // unreachable call
				}
				argT := cfa.term(ss[0], s.cc.Args[0])
				// the argument may be the loaded header of the locked pointer (value receivers)
				if argT.K == "L" && argT.S == "HDR" {
					argT = argT.A
				}
				ok := false
				for _, lk := range c.findCalls(s.caller, "(*stack).lock") {
					region, held := c.heldRegion(cfa, s.caller, lk)
					if region != nil && region[s.call] && held == argT && dominatesInstr(lk, s.call) {
						ok = true
					}
				}
				if !ok && locked[s.caller] && len(s.caller.Params) > 0 {
					if p0 := cfa.term(ss[0], s.caller.Params[0]); p0 == argT {
						ok = true
					}
				}
				if !ok {
					all = false
					break
				}
			}
			if all {
				locked[f] = true
				changed = true
			}
		}
		if !changed {
			break
		}
	}
	return locked
}

func (c *Ctx) ruleLocks() {
	rep := c.rep
	var roots []*ssa.Function
	for _, n := range lockMutators {
		if f := c.anchor("R-LOCK", n); f != nil {
			roots = append(roots, f)
		}
	}
	scope := c.reach(roots...)
	locked := c.lockedContexts()

	// ---- L1
	nW := 0
	for _, f := range scope {
		if relName(f) == "newStack" || len(f.Blocks) == 0 {
			continue
		}
		fa := c.eng.analyze(f, nil)
		ord := newOrdinal()
		for _, b := range f.Blocks {
			for _, in := range b.Instrs {
				st, ok := in.(*ssa.Store)
				if !ok || isVarargsFill(st) {
					continue
				}
				loc := c.eff.classifyAddr(st.Addr)
				if loc != "HDR" && loc != "SLOT" {
					continue
				}
				// the object written: root pointer of the address
				var root ssa.Value
				switch a := st.Addr.(type) {
				case *ssa.IndexAddr:
					if ld, ok := a.X.(*ssa.UnOp); ok {
						root = ld.X
					}
				default:
					root = st.Addr
				}
				if root == nil {
					continue // element store into a local slice under construction
				}
				if al, _ := allocCell(root); al != nil {
					continue // local copy
				}
				nW++
				construct := ord.next("L1 store " + loc)
				pos := c.p.instrPos(in)
				ss := fa.statesBefore(in)
				if len(ss) == 0 {
					rep.ok("R-LOCK", relName(f), construct, pos, "unreachable")
					continue
				}
				rootT := fa.term(ss[0], root)
				okHeld := false
				for _, lk := range c.findCalls(f, "(*stack).lock") {
					region, held := c.heldRegion(fa, f, lk)
					if region != nil && region[in] && held == rootT && dominatesInstr(lk, in) {
						okHeld = true
					}
				}
				if okHeld {
					rep.ok("R-LOCK", relName(f), construct, pos, "inside the held region of lock() on the written stack")
				} else if locked[f] && len(f.Params) > 0 && rootT == fa.term(ss[0], f.Params[0]) {
					rep.ok("R-LOCK", relName(f), construct, pos, "every call site of this function holds the lock of the written stack")
				} else {
					rep.bad("R-LOCK", relName(f), construct, pos, "shared content is written while the stack's lock is not known to be held (no enclosing lock() on this stack, and not every caller holds it)")
				}
			}
		}
	}
	if nW < 10 {
		rep.bad("R-LOCK", "package", "L1 stores", "?", fmt.Sprintf("only %d content stores found in the mutators' scope", nW))
	}

	// ---- L2a: nothing touches the receiver before its lock is taken
	for _, f := range scope {
		if len(f.Blocks) == 0 {
			continue
		}
		lks := c.findCalls(f, "(*stack).lock")
		if len(lks) == 0 {
			continue
		}
		fa := c.eng.analyze(f, nil)
		for _, lk := range lks {
			recv := lk.Call.Args[0]
			var problems []string
			// every other use of the locked pointer value must be dominated by the lock
			if refs := recv.Referrers(); refs != nil {
				for _, r := range *refs {
					if r == ssa.Instruction(lk) {
						continue
					}
					if _, isDbg := r.(*ssa.DebugRef); isDbg {
						continue
					}
					if d, isDefer := r.(*ssa.Defer); isDefer {
						if cal := c.p.callee(&d.Call); cal != nil && relName(cal) == "(*stack).unlock" {
							continue
						}
					}
					if !dominatesInstr(lk, r) {
						problems = append(problems, c.p.instrPos(r)+": the stack is used before its lock is taken (a validation made here can be stale by the time the lock is held)")
					}
				}
			}
			_ = fa
			construct := "L2 nothing before lock()"
			if len(problems) == 0 {
				rep.ok("R-LOCK", relName(f), construct, c.p.instrPos(lk), "every use of the locked stack in this function follows the lock acquisition")
			} else {
				sort.Strings(problems)
				rep.bad("R-LOCK", relName(f), construct, c.p.instrPos(lk), strings.Join(uniq(problems), "; "))
			}
		}
	}

	// ---- L3: bookkeeping inside the mutex window
	for _, name := range []string{"(*stack).lock", "(*stack).unlock"} {
		f := c.anchor("R-LOCK", name)
		if f == nil {
			continue
		}
		var mcall ssa.Instruction
		var ldr []*ssa.Store
		for _, b := range f.Blocks {
			for _, in := range b.Instrs {
				if cc := callCommon(in); cc != nil {
					if cal := cc.StaticCallee(); cal != nil && (cal.String() == "(*sync.Mutex).Lock" || cal.String() == "(*sync.Mutex).Unlock") {
						mcall = in
					}
				}
				if st, ok := in.(*ssa.Store); ok {
					if fa, ok := st.Addr.(*ssa.FieldAddr); ok && fieldName(fa) == "nodeConfig.ldr" {
						ldr = append(ldr, st)
					}
				}
			}
		}
		var problems []string
		if mcall == nil {
			problems = append(problems, "no sync.Mutex call found")
		}
		if len(ldr) == 0 {
			problems = append(problems, "no bookkeeping store found")
		}
		for _, st := range ldr {
			if mcall == nil {
				break
			}
			if name == "(*stack).lock" && !dominatesInstr(mcall, st) {
				problems = append(problems, "the lock time is written before Mutex.Lock() returned")
			}
			if name == "(*stack).unlock" && !dominatesInstr(st, mcall) {
				problems = append(problems, "the lock time is cleared after Mutex.Unlock()")
			}
		}
		if len(problems) == 0 {
			rep.ok("R-LOCK", name, "L3 bookkeeping inside the mutex window", c.p.pos(f.Pos()), "nodeConfig.ldr is written only between Mutex.Lock and Mutex.Unlock")
		} else {
			sort.Strings(problems)
			rep.bad("R-LOCK", name, "L3 bookkeeping inside the mutex window", c.p.pos(f.Pos()), strings.Join(uniq(problems), "; "))
		}
	}

	c.ruleMutexOnce()

	// ---- L4: re-entrancy and pairing
	c.ruleLockReentry("R-LOCK", c.p.Funcs)
	c.ruleLockPairing("R-LOCK", c.p.Funcs)

	// ---- L5: unlocked reads (design level; reported one per construct, expected to be known findings)
	for _, n := range lockMutators {
		f := c.p.ByName[n]
		if f == nil {
			continue
		}
		var reads []string
		for _, b := range f.Blocks {
			for _, in := range b.Instrs {
				if call, ok := in.(*ssa.Call); ok {
					switch c.calleeName(&call.Call) {
					case "Stack.IsInit", "Stack.getState", "Stack.IsEmpty":
						reads = append(reads, c.calleeName(&call.Call))
					}
				}
			}
		}
		if len(reads) > 0 {
			rep.bad("R-LOCK", n, "L5 unlocked pre-check", c.p.pos(f.Pos()), "the exported method reads the configuration slot ("+strings.Join(uniq(reads), ", ")+") before the worker takes the lock: with the mutex enabled this read races with a concurrent mutator that rewrites the header or the lock bookkeeping (the mutex lives inside slot 0 of the data it protects)")
		} else {
			rep.ok("R-LOCK", n, "L5 unlocked pre-check", c.p.pos(f.Pos()), "no unlocked read")
		}
	}
	if f := c.p.ByName["(*stack).lock"]; f != nil {
		rep.bad("R-LOCK", "(*stack).lock", "L5 mutex found through the data it protects", c.p.pos(f.Pos()), "lock() reads slot 0 of the shared slice (canMutex, mutex) to find the mutex before holding it: this read races with a mutator that stores a new header under the lock")
	}
}


// ruleLockPairing: every lock() is followed at once by a deferred unlock() of the same
// stack, or by an unlock() on every path to a return.
func (c *Ctx) ruleLockPairing(rule string, scope []*ssa.Function) {
	rep := c.rep
	for _, f := range scope {
		if len(f.Blocks) == 0 {
			continue
		}
		lks := c.findCalls(f, "(*stack).lock")
		if len(lks) == 0 {
			continue
		}
		fa := c.eng.analyze(f, nil)
		ord := newOrdinal()
		for _, lk := range lks {
			construct := ord.next("L4 lock released on every path")
			sts := fa.statesBefore(lk)
			if len(sts) == 0 {
				continue
			}
			held := fa.term(sts[0], lk.Call.Args[0])
			// deferred unlock registered right after the lock (same block, nothing but the defer in between that could leave)
			deferred := false
			for k := instrIndex(lk) + 1; k < len(lk.Block().Instrs); k++ {
				in := lk.Block().Instrs[k]
				if d, ok := in.(*ssa.Defer); ok {
					if cal := c.p.callee(&d.Call); cal != nil && relName(cal) == "(*stack).unlock" && fa.term(sts[0], d.Call.Args[0]) == held {
						deferred = true
					}
					break
				}
				if _, isRet := in.(*ssa.Return); isRet {
					break
				}
				if _, isIf := in.(*ssa.If); isIf {
					break
				}
			}
			if deferred {
				// ... and then nothing unlocks the same stack explicitly: the deferred call would
				// unlock an unlocked mutex (a fatal runtime error) on that path
				twice := ""
				for _, u := range c.findCalls(f, "(*stack).unlock") {
					if u.Block() == lk.Block() && instrIndex(u) < instrIndex(lk) {
						continue
					}
					if c.blockReaches(lk.Block(), u.Block()) {
						for _, s := range fa.statesBefore(u) {
							if fa.term(s, u.Call.Args[0]) == held {
								twice = c.p.instrPos(u)
							}
						}
					}
				}
				if twice != "" {
					rep.bad(rule, relName(f), construct, c.p.instrPos(lk), "unlock() is deferred and also called explicitly at "+twice+": the mutex is unlocked twice on that path (fatal: unlock of unlocked mutex)")
					continue
				}
				rep.ok(rule, relName(f), construct, c.p.instrPos(lk), "unlock() is deferred immediately after the acquisition")
				continue
			}
			// otherwise: no return is reachable inside the held region
			region, _ := c.heldRegion(fa, f, lk)
			leak := ""
			for in := range region {
				if _, isRet := in.(*ssa.Return); isRet {
					// a deferred unlock registered on the way?
					okD := false
					for in2 := range region {
						if d, ok := in2.(*ssa.Defer); ok && dominatesInstr(d, in) {
							if cal := c.p.callee(&d.Call); cal != nil && relName(cal) == "(*stack).unlock" {
								okD = true
							}
						}
					}
					if !okD {
						leak = c.p.instrPos(in)
					}
				}
			}
			if leak == "" {
				rep.ok(rule, relName(f), construct, c.p.instrPos(lk), "every path from the acquisition to a return passes unlock()")
			} else {
				rep.bad(rule, relName(f), construct, c.p.instrPos(lk), "a return at "+leak+" is reachable with the lock still held and no deferred unlock: the next caller blocks forever")
			}
		}
	}

}

// withConcurrent runs fn with an engine in which acquiring a lock invalidates
// every fact about shared memory.
func (c *Ctx) withConcurrent(fn func()) {
	saved := c.eng
	savedProve, savedInf, savedProver := c.proveCache, c.infeasCache, c.proverCache
	ce := newEngine(c.p, c.eff)
	ce.lockHavoc = true
	ce.indexLemma, ce.indexLemmaTried = saved.indexLemma, saved.indexLemmaTried
	c.eng = ce
	c.proveCache, c.infeasCache, c.proverCache = nil, nil, nil
	c.concurrent = true
	fn()
	c.concurrent = false
	c.eng = saved
	c.proveCache, c.infeasCache, c.proverCache = savedProve, savedInf, savedProver
}

// ruleMutexFresh (L7): every stack has a mutex of its own.  The value stored
// into nodeConfig.mtx is a mutex allocated on the spot (or nil), never one
// read from another configuration: two stacks sharing one non-reentrant mutex
// deadlock as soon as one operation locks both (Reveal and Defrag lock a parent
// and then its members; Transfer a source and a destination).
func (c *Ctx) ruleMutexFresh() {
	rep := c.rep
	n := 0
	for _, fn := range c.p.Funcs {
		ord := newOrdinal()
		for _, b := range fn.Blocks {
			for _, in := range b.Instrs {
				st, ok := in.(*ssa.Store)
				if !ok {
					continue
				}
				f, ok := st.Addr.(*ssa.FieldAddr)
				if !ok || fieldName(f) != "nodeConfig.mtx" {
					continue
				}
				n++
				construct := ord.next("L7 store nodeConfig.mtx")
				pos := c.p.instrPos(in)
				fresh := false
				switch v := st.Val.(type) {
				case *ssa.Alloc:
					fresh = true
				case *ssa.Const:
					fresh = v.IsNil()
				}
				if fresh {
					rep.ok("R-LOCK", relName(fn), construct, pos, "the mutex installed is allocated on the spot: no other stack can hold the same one")
				} else {
					rep.bad("R-LOCK", relName(fn), construct, pos, "the mutex installed is not a fresh allocation: two stacks sharing one mutex deadlock when one operation locks both (parent and member in Reveal/Defrag)")
				}
			}
		}
	}
	if n == 0 {
		rep.bad("R-LOCK", "package", "L7 store nodeConfig.mtx", "?", "no installation of a mutex found")
	}
}

// ruleLockSymmetry (L8): lock() and unlock() decide alike.  The conditions
// under which (*stack).lock reaches Mutex.Lock are the conditions under which
// (*stack).unlock reaches Mutex.Unlock - the mutex is enabled and found,
// nothing else (an option such as read-only tested on one side only makes the
// other side unlock a mutex that was never locked, or leave one locked).
func (c *Ctx) ruleLockSymmetry() {
	rep := c.rep
	conds := func(name, mcall string) (map[string]bool, *ssa.Function) {
		fn := c.anchor("R-LOCK", name)
		if fn == nil {
			return nil, nil
		}
		out := map[string]bool{}
		var site *ssa.BasicBlock
		for _, b := range fn.Blocks {
			for _, in := range b.Instrs {
				if cc := callCommon(in); cc != nil {
					if cal := cc.StaticCallee(); cal != nil && cal.String() == mcall {
						site = b
					}
				}
			}
		}
		if site == nil {
			return nil, fn
		}
		for d := site.Idom(); d != nil; d = d.Idom() {
			iff, ok := d.Instrs[len(d.Instrs)-1].(*ssa.If)
			if !ok {
				continue
			}
			// only tests that can bypass the mutex call
			bypass := false
			for _, sc := range d.Succs {
				if !c.blockReaches(sc, site) {
					bypass = true
				}
			}
			if !bypass {
				continue
			}
			v := iff.Cond
			neg := ""
			if no, ok := v.(*ssa.UnOp); ok && no.Op == token.NOT {
				v = no.X
				neg = "!"
			}
			_ = neg
			switch x := v.(type) {
			case *ssa.Call:
				out[c.calleeName(&x.Call)] = true
			case *ssa.Extract:
				if call, ok := x.Tuple.(*ssa.Call); ok {
					out[fmt.Sprintf("%s#%d", c.calleeName(&call.Call), x.Index)] = true
				} else {
					out["other"] = true
				}
			case *ssa.BinOp:
				// a test combining calls: name its call operands
				named := false
				for _, o := range []ssa.Value{x.X, x.Y} {
					if call, ok := o.(*ssa.Call); ok {
						out[c.calleeName(&call.Call)] = true
						named = true
					}
				}
				if !named {
					out["other:"+x.Op.String()] = true
				}
			case *ssa.Phi:
				// short-circuit && / ||: the calls feeding the phi
				for _, e := range x.Edges {
					if call, ok := e.(*ssa.Call); ok {
						out[c.calleeName(&call.Call)] = true
					}
					if no, ok := e.(*ssa.UnOp); ok {
						if call, ok := no.X.(*ssa.Call); ok {
							out[c.calleeName(&call.Call)] = true
						}
					}
				}
			default:
				out["other"] = true
			}
		}
		return out, fn
	}
	lc, lf := conds("(*stack).lock", "(*sync.Mutex).Lock")
	uc, _ := conds("(*stack).unlock", "(*sync.Mutex).Unlock")
	if lf == nil {
		return
	}
	keys := func(m map[string]bool) []string {
		var ks []string
		for k := range m {
			ks = append(ks, k)
		}
		sort.Strings(ks)
		return ks
	}
	if lc == nil || uc == nil {
		rep.bad("R-LOCK", "(*stack).lock", "L8 lock and unlock decide alike", c.p.pos(lf.Pos()), "the Mutex.Lock / Mutex.Unlock call was not found")
		return
	}
	if strings.Join(keys(lc), ",") == strings.Join(keys(uc), ",") {
		rep.ok("R-LOCK", "(*stack).lock", "L8 lock and unlock decide alike", c.p.pos(lf.Pos()), "both reach the mutex under the same tests: "+strings.Join(keys(lc), ", "))
	} else {
		rep.bad("R-LOCK", "(*stack).lock", "L8 lock and unlock decide alike", c.p.pos(lf.Pos()), "lock() reaches Mutex.Lock under {"+strings.Join(keys(lc), ", ")+"} but unlock() reaches Mutex.Unlock under {"+strings.Join(keys(uc), ", ")+"}: one of them would act on a mutex the other left alone")
	}
}

// ruleMutexOnce (L6): the mutex is installed once - a second SetMutex must not
// replace a mutex somebody may hold.
func (c *Ctx) ruleMutexOnce() {
	rep := c.rep
	// ---- L6: the mutex is installed once (a second SetMutex must not replace a mutex somebody holds)
	for _, f := range c.p.Funcs {
		ord := newOrdinal()
		var fa *FnAnalysis
		for _, b := range f.Blocks {
			for _, in := range b.Instrs {
				st, ok := in.(*ssa.Store)
				if !ok {
					continue
				}
				fad, ok := st.Addr.(*ssa.FieldAddr)
				if !ok || fieldName(fad) != "nodeConfig.mtx" {
					continue
				}
				if fa == nil {
					fa = c.eng.analyze(f, nil)
				}
				construct := ord.next("L6 mutex installed once")
				okAll := fa.allHold(in, func(s *State) bool {
					// the slot is known to be nil here (fresh configuration, or tested)
					if _, isAlloc := fad.X.(*ssa.Alloc); isAlloc {
						return true
					}
					at := fa.term(s, fad)
					for _, f2 := range s.factList() {
						if f2.Kind == aNN && !f2.Val && f2.T.K == "L" && f2.T.A == at {
							return true
						}
					}
					return false
				})
				if okAll {
					rep.ok("R-LOCK", relName(f), construct, c.p.instrPos(in), "the mutex slot is written only when it is nil")
				} else {
					rep.bad("R-LOCK", relName(f), construct, c.p.instrPos(in), "the mutex can be replaced while it exists: a goroutine holding the old one and one locking the new one are both inside the critical section, and the old holder unlocks a mutex it never locked")
				}
			}
		}
	}

}
