package main

import (
	"go/constant"
	"math/big"
	"sort"
)

// A small decision procedure for conjunctions of linear integer constraints
// (Fourier-Motzkin elimination over the rationals with integer tightening of
// strict inequalities).  Used by the bounds rules: constraints come from the
// branch facts of one path state; atoms are opaque terms.

type linExpr struct {
	coef map[*Term]*big.Rat
	k    *big.Rat
}

func newLin() *linExpr { return &linExpr{coef: map[*Term]*big.Rat{}, k: new(big.Rat)} }

func (l *linExpr) clone() *linExpr {
	n := newLin()
	for t, c := range l.coef {
		n.coef[t] = new(big.Rat).Set(c)
	}
	n.k.Set(l.k)
	return n
}

func (l *linExpr) addScaled(o *linExpr, s *big.Rat) {
	for t, c := range o.coef {
		x := new(big.Rat).Mul(c, s)
		if cur, ok := l.coef[t]; ok {
			cur.Add(cur, x)
			if cur.Sign() == 0 {
				delete(l.coef, t)
			}
		} else if x.Sign() != 0 {
			l.coef[t] = x
		}
	}
	l.k.Add(l.k, new(big.Rat).Mul(o.k, s))
}

func linConst(n int64) *linExpr {
	l := newLin()
	l.k.SetInt64(n)
	return l
}

func linAtom(t *Term) *linExpr {
	l := newLin()
	l.coef[t] = big.NewRat(1, 1)
	return l
}

// constraint:  expr <= 0
type linCons struct{ e *linExpr }

type linSys struct {
	cons []linCons
}

// addLE adds a <= b.
func (s *linSys) addLE(a, b *linExpr) {
	e := a.clone()
	e.addScaled(b, big.NewRat(-1, 1))
	s.cons = append(s.cons, linCons{e})
}

// addLT adds a < b (integers: a <= b - 1).
func (s *linSys) addLT(a, b *linExpr) {
	e := a.clone()
	e.addScaled(b, big.NewRat(-1, 1))
	e.k.Add(e.k, big.NewRat(1, 1))
	s.cons = append(s.cons, linCons{e})
}

func (s *linSys) addEQ(a, b *linExpr) {
	s.addLE(a, b)
	s.addLE(b, a)
}

func (s *linSys) clone() *linSys {
	n := &linSys{}
	for _, c := range s.cons {
		n.cons = append(n.cons, linCons{c.e.clone()})
	}
	return n
}

// infeasible reports whether the system has no rational solution (hence no
// integer solution).  Variables are eliminated in a deterministic order.
func (s *linSys) infeasible() bool {
	cons := make([]*linExpr, 0, len(s.cons))
	for _, c := range s.cons {
		cons = append(cons, c.e.clone())
	}
	for iter := 0; iter < 40; iter++ {
		// constant constraints
		var rest []*linExpr
		for _, c := range cons {
			if len(c.coef) == 0 {
				if c.k.Sign() > 0 {
					return true
				}
				continue
			}
			rest = append(rest, c)
		}
		cons = rest
		if len(cons) == 0 {
			return false
		}
		// pick the variable with the fewest pos*neg products
		vars := map[*Term]bool{}
		for _, c := range cons {
			for t := range c.coef {
				vars[t] = true
			}
		}
		var vs []*Term
		for t := range vars {
			vs = append(vs, t)
		}
		sort.Slice(vs, func(i, j int) bool { return vs[i].key < vs[j].key })
		var best *Term
		bestCost := -1
		for _, v := range vs {
			p, n := 0, 0
			for _, c := range cons {
				if co, ok := c.coef[v]; ok {
					if co.Sign() > 0 {
						p++
					} else {
						n++
					}
				}
			}
			cost := p * n
			if bestCost == -1 || cost < bestCost {
				best, bestCost = v, cost
			}
		}
		var pos, neg, other []*linExpr
		for _, c := range cons {
			co, ok := c.coef[best]
			switch {
			case !ok:
				other = append(other, c)
			case co.Sign() > 0:
				pos = append(pos, c)
			default:
				neg = append(neg, c)
			}
		}
		if len(pos)*len(neg) > 2500 {
			return false // give up (sound: "not proven")
		}
		for _, p := range pos {
			for _, n := range neg {
				// p: a*x + P <= 0 (a>0);  n: -b*x + N <= 0 (b>0)  =>  b*P + a*N <= 0
				a := p.coef[best]
				b := new(big.Rat).Neg(n.coef[best])
				e := newLin()
				e.addScaled(p, b)
				e.addScaled(n, a)
				delete(e.coef, best)
				other = append(other, e)
			}
		}
		cons = other
	}
	return false
}

// entails reports whether the system implies a <= b.
func (s *linSys) entailsLE(a, b *linExpr) bool {
	t := s.clone()
	t.addLT(b, a) // negation: a > b
	return t.infeasible()
}

func (s *linSys) entailsLT(a, b *linExpr) bool {
	t := s.clone()
	t.addLE(b, a) // negation: a >= b
	return t.infeasible()
}

func constRat(c constant.Value) (*big.Rat, bool) {
	if c == nil || c.Kind() != constant.Int {
		return nil, false
	}
	if v, ok := constant.Int64Val(c); ok {
		return big.NewRat(v, 1), true
	}
	return nil, false
}
