package main

import (
	"fmt"
	"go/constant"
	"os"
	"go/token"
	"go/types"
	"sort"
	"strings"

	"golang.org/x/tools/go/ssa"
)

const dnfCap = 192

// ResDesc describes one result of a function on one return case.
type ResDesc struct {
	Kind  byte // 'c' bool const, 'n' nil, 'N' non-nil, 'k' int const, '?' unknown
	B     bool
	T     *Term // param-rooted term equal to the result, if any
	Valid byte  // reflect.Value results: 't' valid, 'f' invalid, 0 unknown
	Canif byte  // reflect.Value results: 't' readable
}

type RetCase struct {
	Facts []Fact
	Res   []ResDesc
	key   string
}

type Summary struct {
	Cases []RetCase
	Top   bool // nothing known (recursion / too complex)
}

type allocInfo struct {
	single ssa.Value // the only value ever stored (whole-cell), else nil
	multi  bool      // several whole-cell stores, no partial stores, no escape
	opaque bool
}

type FnAnalysis struct {
	fn      *ssa.Function
	e       *Engine
	assume  []Fact
	allocs  map[*ssa.Alloc]*allocInfo
	in      map[*ssa.BasicBlock][]*State
	edgeOut map[*ssa.BasicBlock][][]*State // per successor index
	before  map[ssa.Instruction][]*State
	loopOf  map[*ssa.BasicBlock]map[*ssa.BasicBlock]bool // header -> blocks of its natural loop
	rets    []retState
	unstable bool
	collapsed map[*ssa.BasicBlock]bool
	refineDepth int
	realias     int
}

type retState struct {
	ret *ssa.Return
	st  *State
}

type Engine struct {
	indexLemma      bool // stack.index: found => 1 <= position < len (proved by ruleIndexLemma)
	indexLemmaTried bool
	lockHavoc bool // concurrent mode: acquiring a lock invalidates everything known about shared memory
	p   *Program
	eff *Effects
	tt  *termTable
	fa  map[string]*FnAnalysis
	sums map[*ssa.Function]*Summary
	busy map[*ssa.Function]bool
	instrID map[ssa.Instruction]int
	epochBlock map[int]*ssa.BasicBlock
	// object invariants proved by separate rules (R-INV, R-SLOT0)
	fieldNonNil  map[string]bool // "condition.cfg", "nodeConfig.log"
	globalNonNil map[string]bool
	slot0Axiom   bool
	forall       map[*ssa.Function]forallSpec // variadic universal predicates (shape-checked by R-REFL)
	det          map[*ssa.Function]bool
}

type forallSpec struct {
	kind string // "valid"
	desc string
}

func newEngine(p *Program, eff *Effects) *Engine {
	e := &Engine{p: p, eff: eff, tt: newTermTable(), fa: map[string]*FnAnalysis{}, sums: map[*ssa.Function]*Summary{},
		busy: map[*ssa.Function]bool{}, instrID: map[ssa.Instruction]int{}, epochBlock: map[int]*ssa.BasicBlock{},
		fieldNonNil: map[string]bool{}, globalNonNil: map[string]bool{}, slot0Axiom: true, det: map[*ssa.Function]bool{}}
	id := 1
	for _, fn := range p.Funcs {
		for _, b := range fn.Blocks {
			for _, in := range b.Instrs {
				e.instrID[in] = id
				e.epochBlock[id] = b
				id++
			}
		}
	}
	return e
}

// deterministic: a pure in-package function whose results depend only on
// its arguments and the heap (no random source, no clock, no map iteration
// order, no user code).
func (e *Engine) deterministic(fn *ssa.Function) bool {
	if v, ok := e.det[fn]; ok {
		return v
	}
	e.det[fn] = false // recursion: pessimistic
	ok := e.eff.pure(fn)
	if ok {
		for _, b := range fn.Blocks {
			for _, in := range b.Instrs {
				switch x := in.(type) {
				case *ssa.Call:
					if x.Call.IsInvoke() {
						n := x.Call.Method.FullName()
						if !strings.HasPrefix(n, "(reflect.Type).") {
							ok = false
						}
						continue
					}
					if _, isB := x.Call.Value.(*ssa.Builtin); isB {
						continue
					}
					cal := e.p.callee(&x.Call)
					if cal == nil {
						ok = false
						continue
					}
					if e.p.inPkg(cal) {
						if cal != fn && !e.deterministic(cal) {
							ok = false
						}
						continue
					}
					n := cal.String()
					if strings.HasPrefix(n, "math/rand.") || n == "time.Now" || !(isPureExternal(n) || aliasExternal[n]) {
						ok = false
					}
				case *ssa.Range:
					if _, isMap := x.X.Type().Underlying().(*types.Map); isMap {
						ok = false
					}
				case *ssa.Go, *ssa.Defer:
					ok = false
				}
			}
		}
	}
	e.det[fn] = ok
	return ok
}

// ---------------------------------------------------------------- terms

func (e *Engine) paramIndex(fn *ssa.Function, v *ssa.Parameter) int {
	for i, q := range fn.Params {
		if q == v {
			return i
		}
	}
	return -1
}

// allocCell resolves an address to (local alloc, field path) if it is a
// FieldAddr chain on a local alloc.
func allocCell(addr ssa.Value) (*ssa.Alloc, []int) {
	var path []int
	for {
		switch a := addr.(type) {
		case *ssa.Alloc:
			// reverse path
			for i, j := 0, len(path)-1; i < j; i, j = i+1, j-1 {
				path[i], path[j] = path[j], path[i]
			}
			return a, path
		case *ssa.FieldAddr:
			path = append(path, a.Field)
			addr = a.X
		default:
			return nil, nil
		}
	}
}

func (fa *FnAnalysis) classifyAllocs() {
	fa.allocs = map[*ssa.Alloc]*allocInfo{}
	for _, b := range fa.fn.Blocks {
		for _, in := range b.Instrs {
			a, ok := in.(*ssa.Alloc)
			if !ok {
				continue
			}
			info := &allocInfo{}
			var whole []ssa.Value
			var visit func(v ssa.Value, top bool)
			visit = func(v ssa.Value, top bool) {
				refs := v.Referrers()
				if refs == nil {
					info.opaque = true
					return
				}
				for _, r := range *refs {
					switch x := r.(type) {
					case *ssa.Store:
						if x.Addr == v {
							if top {
								whole = append(whole, x.Val)
							} else {
								info.opaque = true // partial store
							}
						} else {
							info.opaque = true // address stored somewhere: escapes
						}
					case *ssa.UnOp:
						if x.Op != token.MUL {
							info.opaque = true
						}
					case *ssa.FieldAddr:
						if x.X == v {
							visit(x, false)
						} else {
							info.opaque = true
						}
					case *ssa.DebugRef:
					default:
						info.opaque = true
					}
				}
			}
			visit(a, true)
			if !info.opaque {
				if len(whole) == 1 && storeDominatesLoads(a) {
					info.single = whole[0]
				} else if len(whole) >= 1 {
					info.multi = true
				} else {
					info.opaque = true
				}
			}
			fa.allocs[a] = info
		}
	}
}

// storeDominatesLoads: the only whole-value store into the cell dominates every
// load of it (directly or through field addresses); otherwise a load may see
// the zero value (named results assigned on some paths only).
func storeDominatesLoads(a *ssa.Alloc) bool {
	var st *ssa.Store
	for _, r := range *a.Referrers() {
		if x, ok := r.(*ssa.Store); ok && x.Addr == ssa.Value(a) {
			st = x
		}
	}
	if st == nil {
		return false
	}
	idx := func(in ssa.Instruction) int {
		for i, x := range in.Block().Instrs {
			if x == in {
				return i
			}
		}
		return -1
	}
	dom := func(u ssa.Instruction) bool {
		if u.Block() == st.Block() {
			return idx(st) < idx(u)
		}
		return st.Block().Dominates(u.Block())
	}
	var visit func(v ssa.Value) bool
	visit = func(v ssa.Value) bool {
		refs := v.Referrers()
		if refs == nil {
			return false
		}
		for _, r := range *refs {
			switch x := r.(type) {
			case *ssa.UnOp:
				if !dom(x) {
					return false
				}
			case *ssa.FieldAddr:
				if !visit(x) {
					return false
				}
			}
		}
		return true
	}
	return visit(a)
}

func typeStr(t types.Type) string {
	return types.TypeString(t, func(p *types.Package) string { return p.Name() })
}

// term computes the canonical term of v in state st.
func (fa *FnAnalysis) term(st *State, v ssa.Value) *Term {
	e := fa.e
	if st != nil {
		if t, ok := st.terms[v]; ok && t != nil {
			return t
		}
	}
	switch x := v.(type) {
	case *ssa.Parameter:
		return e.tt.mk(Term{K: "P", N: e.paramIndex(fa.fn, x), S: x.Name()})
	case *ssa.FreeVar:
		for i, fv := range fa.fn.FreeVars {
			if fv == x {
				return e.tt.mk(Term{K: "FV", N: i})
			}
		}
	case *ssa.Const:
		return e.tt.mk(Term{K: "C", S: constString(x), Const: x.Value})
	case *ssa.Global:
		return e.tt.mk(Term{K: "G", S: x.Name()})
	case *ssa.Function:
		return e.tt.mk(Term{K: "C", S: "func:" + x.String()})
	case *ssa.FieldAddr:
		return e.tt.mk(Term{K: "FA", A: fa.term(st, x.X), N: x.Field})
	case *ssa.Field:
		t := e.tt.mk(Term{K: "F", A: fa.term(st, x.X), N: x.Field})
		if t.K == "L" && st != nil {
			// field of a struct loaded as a whole: forward from a store to that field
			// made in the same memory epoch as the load
			if cell, ok := st.heap[t.A.key]; ok && cell.ep == t.N {
				return fa.term(st, cell.val)
			}
		}
		return t
	case *ssa.UnOp:
		switch x.Op {
		case token.NOT:
			return e.tt.mk(Term{K: "N", A: fa.term(st, x.X)})
		case token.SUB:
			return e.tt.mk(Term{K: "B", S: "-", A: e.tt.mk(Term{K: "C", S: "0", Const: constant.MakeInt64(0)}), B: fa.term(st, x.X)})
		case token.MUL:
			if a, path := allocCell(x.X); a != nil {
				if info := fa.allocs[a]; info != nil && info.single != nil {
					t := fa.term(st, info.single)
					for _, f := range path {
						t = e.tt.mk(Term{K: "F", A: t, N: f})
					}
					return t
				}
			}
		}
	case *ssa.BinOp:
		a, b := fa.term(st, x.X), fa.term(st, x.Y)
		switch x.Op {
		case token.NEQ:
			return e.tt.mk(Term{K: "N", A: e.tt.mk(Term{K: "B", S: "==", A: a, B: b})})
		case token.GTR:
			return e.tt.mk(Term{K: "B", S: "<", A: b, B: a})
		case token.GEQ:
			return e.tt.mk(Term{K: "B", S: "<=", A: b, B: a})
		case token.EQL:
			// order operands canonically
			if a.key > b.key {
				a, b = b, a
			}
			return e.tt.mk(Term{K: "B", S: "==", A: a, B: b})
		}
		return e.tt.mk(Term{K: "B", S: x.Op.String(), A: a, B: b})
	case *ssa.Call:
		if b, ok := x.Call.Value.(*ssa.Builtin); ok && b.Name() == "len" && len(x.Call.Args) == 1 {
			return e.tt.mk(Term{K: "LEN", A: fa.term(st, x.Call.Args[0])})
		}
		if st != nil {
			if ep, ok := st.cep[x]; ok {
				if cal := e.p.callee(&x.Call); cal != nil && e.p.inPkg(cal) && e.deterministic(cal) {
					var list *Term
					for i := len(x.Call.Args) - 1; i >= 0; i-- {
						list = e.tt.mk(Term{K: "AL", A: fa.term(st, x.Call.Args[i]), B: list})
					}
					return e.tt.mk(Term{K: "APP", S: relName(cal), A: list, N: ep})
				}
			}
		}
		if cal := e.p.callee(&x.Call); cal != nil && !e.p.inPkg(cal) && len(x.Call.Args) == 1 {
			switch cal.String() {
			case "reflect.TypeOf":
				return e.tt.mk(Term{K: "TYPEOF", A: fa.term(st, x.Call.Args[0])})
			case "reflect.ValueOf":
				return e.tt.mk(Term{K: "VALOF", A: fa.term(st, x.Call.Args[0])})
			}
		}
		if cal := x.Call.StaticCallee(); cal != nil && len(x.Call.Args) == 1 {
			switch cal.String() {
			case "(reflect.Value).Kind":
				return e.tt.mk(Term{K: "KIND", A: fa.term(st, x.Call.Args[0])})
			case "(reflect.Value).IsNil":
				return e.tt.mk(Term{K: "ISNIL", A: fa.term(st, x.Call.Args[0])})
			}
		}
	case *ssa.Extract:
		if ta, ok := x.Tuple.(*ssa.TypeAssert); ok && ta.CommaOk {
			if x.Index == 0 {
				return e.tt.mk(Term{K: "TA", S: typeStr(ta.AssertedType), Typ: ta.AssertedType, A: fa.term(st, ta.X)})
			}
			return e.tt.mk(Term{K: "TAOK", S: typeStr(ta.AssertedType), Typ: ta.AssertedType, A: fa.term(st, ta.X)})
		}
		return e.tt.mk(Term{K: "X", A: fa.term(st, x.Tuple), N: x.Index})
	case *ssa.TypeAssert:
		if !x.CommaOk {
			return e.tt.mk(Term{K: "TA", S: typeStr(x.AssertedType), Typ: x.AssertedType, A: fa.term(st, x.X)})
		}
	case *ssa.MakeInterface:
		return e.tt.mk(Term{K: "MI", S: typeStr(x.X.Type()), Typ: x.X.Type(), A: fa.term(st, x.X)})
	case *ssa.ChangeType:
		return fa.term(st, x.X)
	case *ssa.ChangeInterface:
		return fa.term(st, x.X)
	case *ssa.Convert:
		return e.tt.mk(Term{K: "CV", S: typeStr(x.Type()), A: fa.term(st, x.X)})
	case *ssa.IndexAddr:
		return e.tt.mk(Term{K: "IA", A: fa.term(st, x.X), B: fa.term(st, x.Index)})
	}
	return e.tt.mk(Term{K: "V", V: v})
}

// ---------------------------------------------------------------- non-nil

var nonNilExternal = map[string]bool{
	"log.New": true, "errors.New": true, "(*log.Logger).Writer": false,
}

// nonNil reports whether v is known non-nil (true,true), known nil
// (false,true) or unknown (_,false) in state st.
func (fa *FnAnalysis) nonNil(st *State, v ssa.Value) (bool, bool) {
	if isNilConst(v) {
		return false, true
	}
	switch x := v.(type) {
	case *ssa.Alloc, *ssa.MakeInterface, *ssa.MakeMap, *ssa.MakeSlice, *ssa.MakeChan, *ssa.MakeClosure,
		*ssa.Function, *ssa.Global, *ssa.FieldAddr, *ssa.IndexAddr, *ssa.Builtin:
		return true, true
	case *ssa.Const:
		return true, true // non-nil constant
	case *ssa.ChangeType:
		return fa.nonNil(st, x.X)
	case *ssa.ChangeInterface:
		return fa.nonNil(st, x.X)
	case *ssa.Slice:
		if _, ok := x.X.Type().Underlying().(*types.Pointer); ok {
			return true, true
		}
	case *ssa.Call:
		if cal := fa.e.p.callee(&x.Call); cal != nil && !fa.e.p.inPkg(cal) {
			if nonNilExternal[cal.String()] {
				return true, true
			}
		}
	case *ssa.UnOp:
		if x.Op == token.MUL {
			if g, ok := x.X.(*ssa.Global); ok && fa.e.globalNonNil[g.Name()] {
				return true, true
			}
			if f, ok := x.X.(*ssa.FieldAddr); ok {
				if fa.e.fieldNonNil[fieldName(f)] {
					return true, true
				}
			}
		}
	}
	t := fa.term(st, v)
	if t.K == "MI" || t.K == "FA" || t.K == "G" || t.K == "IA" {
		return true, true
	}
	if t.K == "C" {
		return t.S != "nil", true
	}
	return fa.knownTerm(st, aNN, t)
}

func fieldName(f *ssa.FieldAddr) string {
	pt := f.X.Type().Underlying().(*types.Pointer)
	st := pt.Elem().Underlying().(*types.Struct)
	name := "struct"
	if n, ok := pt.Elem().(*types.Named); ok {
		name = n.Obj().Name()
	}
	return name + "." + st.Field(f.Field).Name()
}

// ---------------------------------------------------------------- analysis

func assumeKey(fs []Fact) string {
	var ks []string
	for _, f := range fs {
		ks = append(ks, fmt.Sprintf("%s|%s=%v", f.Kind, f.T.key, f.Val))
	}
	sort.Strings(ks)
	return strings.Join(ks, ";")
}

func (e *Engine) analyze(fn *ssa.Function, assume []Fact) *FnAnalysis {
	k := relName(fn) + "#" + assumeKey(assume)
	if fa, ok := e.fa[k]; ok {
		return fa
	}
	fa := &FnAnalysis{fn: fn, e: e, assume: assume, in: map[*ssa.BasicBlock][]*State{},
		edgeOut: map[*ssa.BasicBlock][][]*State{}, before: map[ssa.Instruction][]*State{},
		loopOf: map[*ssa.BasicBlock]map[*ssa.BasicBlock]bool{}, collapsed: map[*ssa.BasicBlock]bool{}}
	e.fa[k] = fa
	fa.classifyAllocs()
	fa.findLoops()
	fa.run()
	return fa
}

func (fa *FnAnalysis) findLoops() {
	for _, b := range fa.fn.Blocks {
		for _, s := range b.Succs {
			if s.Dominates(b) {
				// back edge b -> s
				loop := fa.loopOf[s]
				if loop == nil {
					loop = map[*ssa.BasicBlock]bool{s: true}
					fa.loopOf[s] = loop
				}
				var stack []*ssa.BasicBlock
				if !loop[b] {
					loop[b] = true
					stack = append(stack, b)
				}
				for len(stack) > 0 {
					x := stack[len(stack)-1]
					stack = stack[:len(stack)-1]
					for _, p := range x.Preds {
						if !loop[p] {
							loop[p] = true
							stack = append(stack, p)
						}
					}
				}
			}
		}
	}
}

func (fa *FnAnalysis) loopValues(h *ssa.BasicBlock) (map[ssa.Value]bool, map[*ssa.BasicBlock]bool) {
	vals := map[ssa.Value]bool{}
	for b := range fa.loopOf[h] {
		for _, in := range b.Instrs {
			if v, ok := in.(ssa.Value); ok {
				vals[v] = true
			}
		}
	}
	return vals, fa.loopOf[h]
}

func dedupe(states []*State) []*State {
	seen := map[string]bool{}
	var out []*State
	for _, s := range states {
		if s == nil || s.dead {
			continue
		}
		k := s.key()
		if !seen[k] {
			seen[k] = true
			out = append(out, s)
		}
	}
	sort.Slice(out, func(i, j int) bool { return out[i].key() < out[j].key() })
	return out
}

func statesKey(states []*State) string {
	var ks []string
	for _, s := range states {
		ks = append(ks, s.key())
	}
	return strings.Join(ks, "\n")
}

func (fa *FnAnalysis) run() {
	fn := fa.fn
	if len(fn.Blocks) == 0 {
		return
	}
	entry := newState()
	for _, f := range fa.assume {
		entry.add(f.Kind, f.T, f.Val)
	}
	fa.in[fn.Blocks[0]] = []*State{entry}
	// reverse postorder
	var order []*ssa.BasicBlock
	seen := map[*ssa.BasicBlock]bool{}
	var dfs func(b *ssa.BasicBlock)
	dfs = func(b *ssa.BasicBlock) {
		seen[b] = true
		for _, s := range b.Succs {
			if !seen[s] {
				dfs(s)
			}
		}
		order = append(order, b)
	}
	dfs(fn.Blocks[0])
	for i, j := 0, len(order)-1; i < j; i, j = i+1, j-1 {
		order[i], order[j] = order[j], order[i]
	}
	inKey := map[*ssa.BasicBlock]string{}
	for pass := 0; pass < 40; pass++ {
		changed := false
		for _, b := range order {
			// compute in-state
			var ins []*State
			if b == fn.Blocks[0] {
				ins = []*State{entry}
			} else {
				for pi, p := range b.Preds {
					outs := fa.edgeOut[p]
					if outs == nil {
						continue
					}
					for si, s := range p.Succs {
						if s != b {
							continue
						}
						// a block may appear twice as successor (if both branches go to b)
						for _, st := range outs[si] {
							ns := fa.edgeTransfer(st, p, b, pi)
							if ns != nil && !ns.dead {
								ins = append(ins, ns)
							}
						}
					}
				}
				ins = dedupe(ins)
				if len(ins) > dnfCap || (fa.collapsed[b] && len(ins) > 1) {
					m := ins[0]
					for _, s := range ins[1:] {
						m = meetStates(m, s)
					}
					if m.epoch == -1 {
						m.epoch = -(b.Index + 2)
					}
					ins = []*State{m}
					fa.collapsed[b] = true
				}
			}
			k := statesKey(ins)
			if old, ok := inKey[b]; ok && old == k {
				continue
			}
			inKey[b] = k
			changed = true
			fa.in[b] = ins
			fa.flowBlock(b, ins, false)
		}
		if !changed {
			break
		}
		if pass == 39 {
			fa.unstable = true
		}
		if pass >= 37 && os.Getenv("STACKCHECK_DEBUG") != "" {
			for _, b := range order {
				fmt.Fprintf(os.Stderr, "pass %d %s block %d: %s\n", pass, relName(fn), b.Index, inKey[b])
			}
		}
	}
	// final replay recording per-instruction states and returns
	fa.rets = nil
	for _, b := range order {
		fa.flowBlock(b, fa.in[b], true)
	}
}

// edgeTransfer applies phi bindings and loop havoc for the edge p -> b.
func (fa *FnAnalysis) edgeTransfer(st *State, p, b *ssa.BasicBlock, predIdx int) *State {
	ns := st.clone()
	back := b.Dominates(p)
	_, isHeader := fa.loopOf[b]
	// collect incoming info before any havoc
	type inc struct {
		phi  *ssa.Phi
		val  ssa.Value
		term *Term
		facts []Fact
	}
	var incs []inc
	for _, in := range b.Instrs {
		phi, ok := in.(*ssa.Phi)
		if !ok {
			break
		}
		// find the edge index for predecessor p (use predIdx)
		ev := phi.Edges[predIdx]
		t := fa.term(ns, ev)
		ic := inc{phi: phi, val: ev, term: t}
		for _, kind := range []string{aNN, aTR, aVALID, aCANIF} {
			if kind == aNN {
				if v, ok := fa.nonNil(ns, ev); ok {
					ic.facts = append(ic.facts, Fact{kind, nil, v})
				}
				continue
			}
			if kind == aTR {
				if bv, ok := isBoolConst(ev); ok {
					ic.facts = append(ic.facts, Fact{kind, nil, bv})
					continue
				}
			}
			if v, ok := ns.get(kind, t); ok {
				ic.facts = append(ic.facts, Fact{kind, nil, v})
			}
		}
		incs = append(incs, ic)
	}
	// loop-carried knowledge for header phis on a back edge: (a) comparisons known about the
	// incoming value hold for the phi in the next iteration (phi_next == incoming);
	// (b) an induction variable starting at a constant and stepping by a positive
	// (negative) constant never drops below (rises above) its start.
	type carried struct {
		phi  *ssa.Phi
		fact Fact
	}
	var carry []carried
	if back {
		loopVals, loopBlocks := fa.loopValues(b)
		for _, ic := range incs {
			vt := fa.e.tt.mk(Term{K: "V", V: ic.phi})
			for _, f := range ns.factList() {
				if f.Kind != aTR || f.T.K != "B" || (f.T.S != "<" && f.T.S != "<=") {
					continue
				}
				if f.T.A != ic.term && f.T.B != ic.term {
					continue
				}
				nt := fa.e.tt.replaceTerm(f.T, ic.term, vt)
				if nt == nil {
					continue
				}
				ok := true
				for _, mv := range nt.vals {
					if mv != ssa.Value(ic.phi) && loopVals[mv] {
						ok = false
					}
				}
				if len(nt.eps) > 0 {
					ok = false
				}
				if ok {
					carry = append(carry, carried{ic.phi, Fact{aTR, nt, f.Val}})
				}
			}
			// induction variable
			{
				// induction: one entry edge; every back-edge value is the phi itself, the phi plus a
				// constant, or a constant.  Then the phi never drops below min(start, constants) when
				// all steps are >= 0, and never rises above max(start, constants) when all are <= 0.
				var init ssa.Value
				nEntry := 0
				up, down := true, true
				var consts []int64
				for i, p2 := range b.Preds {
					ev := ic.phi.Edges[i]
					if !b.Dominates(p2) {
						init = ev
						nEntry++
						continue
					}
					if ev == ssa.Value(ic.phi) {
						continue
					}
					if k, ok := constIntOf(ev); ok {
						consts = append(consts, k)
						continue
					}
					if bo, ok := ev.(*ssa.BinOp); ok && bo.X == ssa.Value(ic.phi) {
						if k, ok := constIntOf(bo.Y); ok {
							step := k
							if bo.Op == token.SUB {
								step = -k
							} else if bo.Op != token.ADD {
								up, down = false, false
							}
							if step < 0 {
								up = false
							}
							if step > 0 {
								down = false
							}
							continue
						}
					}
					up, down = false, false
				}
				// a stepped value keeps any loop-invariant upper (lower) bound of this iteration, shifted by the step
				if nEntry == 1 {
					if bo, ok := ic.val.(*ssa.BinOp); ok && bo.X == ssa.Value(ic.phi) && (bo.Op == token.ADD || bo.Op == token.SUB) {
						if k, ok := constIntOf(bo.Y); ok {
							step := k
							if bo.Op == token.SUB {
								step = -k
							}
							pr := newProverE(fa.e, fa, ns)
							pt := fa.term(ns, ic.phi)
							seenU := map[*Term]bool{}
							for _, f := range ns.factList() {
								if f.Kind != aTR || f.T.K != "B" || (f.T.S != "<" && f.T.S != "<=") {
									continue
								}
								for _, U := range []*Term{f.T.A, f.T.B} {
									if seenU[U] || U == pt || U.K == "C" {
										continue
									}
									if U.K == "B" && U.S == "+" && U.B != nil && U.B.K == "C" {
										continue // already a shifted bound: do not build towers
									}
									seenU[U] = true
									inv := true
									for _, ep := range U.eps {
										if fa.epochInLoop(ep, loopBlocks) {
											inv = false
										}
									}
									for _, mv := range U.vals {
										if loopVals[mv] {
											inv = false
										}
									}
									if !inv {
										continue
									}
									kc := fa.e.tt.mk(Term{K: "C", S: fmt.Sprint(step), Const: constant.MakeInt64(step)})
									shifted := fa.e.tt.mk(Term{K: "B", S: "+", A: U, B: kc})
									if step > 0 && pr.lt(pt, U) {
										carry = append(carry, carried{ic.phi, Fact{aTR, fa.e.tt.mk(Term{K: "B", S: "<", A: vt, B: shifted}), true}})
									}
									if step < 0 && pr.lt(U, pt) {
										carry = append(carry, carried{ic.phi, Fact{aTR, fa.e.tt.mk(Term{K: "B", S: "<", A: shifted, B: vt}), true}})
									}
								}
							}
						}
					}
				}
				if nEntry == 1 && init != nil && (up || down) {
					var it *Term
					initConst, isConst := constIntOf(init)
					if isConst {
						it = fa.term(ns, init)
					} else if ii, isInstr := init.(ssa.Instruction); isInstr {
						if !fa.loopOf[b][ii.Block()] && len(consts) == 0 {
							it = fa.term(ns, init)
						}
					} else if len(consts) == 0 {
						it = fa.term(ns, init) // parameter
					}
					if it != nil && len(it.eps) > 0 {
						for _, ep := range it.eps {
							if eb := fa.e.epochBlock[ep]; eb != nil && fa.loopOf[b][eb] {
								it = nil
								break
							}
						}
					}
					if it != nil {
						bound := it
						if isConst && len(consts) > 0 {
							m := initConst
							for _, k := range consts {
								if (up && k < m) || (down && !up && k > m) {
									m = k
								}
							}
							bound = fa.e.tt.mk(Term{K: "C", S: fmt.Sprint(m), Const: constant.MakeInt64(m)})
						}
						if up {
							carry = append(carry, carried{ic.phi, Fact{aTR, fa.e.tt.mk(Term{K: "B", S: "<=", A: bound, B: vt}), true}})
						} else if down {
							carry = append(carry, carried{ic.phi, Fact{aTR, fa.e.tt.mk(Term{K: "B", S: "<=", A: vt, B: bound}), true}})
						}
					}
				}
			}
		}
	}
	// (d) conserved sum: two counters moving in opposite directions by the same constant keep
	// their (exact, unwrapped) sum:  i (+) j == i0 (+) j0.  Requires that every back edge steps
	// both by opposite constants and that the steps taken on this edge do not wrap.
	if back {
		var pr *bndProver
		intPhi := func(ph *ssa.Phi) bool {
			bt, ok := ph.Type().Underlying().(*types.Basic)
			return ok && bt.Kind() == types.Int
		}
		stepsOf := func(ph *ssa.Phi) (ssa.Value, int64, bool) {
			var init ssa.Value
			var step int64
			have := false
			for i, p2 := range b.Preds {
				ev := ph.Edges[i]
				if !b.Dominates(p2) {
					if init != nil {
						return nil, 0, false
					}
					init = ev
					continue
				}
				bo, ok := ev.(*ssa.BinOp)
				if !ok || bo.X != ssa.Value(ph) || (bo.Op != token.ADD && bo.Op != token.SUB) {
					return nil, 0, false
				}
				k, ok := constIntOf(bo.Y)
				if !ok {
					return nil, 0, false
				}
				if bo.Op == token.SUB {
					k = -k
				}
				if have && k != step {
					return nil, 0, false
				}
				step, have = k, true
			}
			return init, step, init != nil && have
		}
		for x := 0; x < len(incs); x++ {
			for y := x + 1; y < len(incs); y++ {
				pi, pj := incs[x].phi, incs[y].phi
				if !intPhi(pi) || !intPhi(pj) {
					continue
				}
				i0, si, ok1 := stepsOf(pi)
				j0, sj, ok2 := stepsOf(pj)
				if !ok1 || !ok2 || si == 0 || si+sj != 0 {
					continue
				}
				if pr == nil {
					pr = newProverE(fa.e, fa, ns)
				}
				// the steps taken on this edge are exact
				big1 := int64(1) << 62
				lim := fa.e.tt.mk(Term{K: "C", S: fmt.Sprint(big1), Const: constant.MakeInt64(big1)})
				nlim := fa.e.tt.mk(Term{K: "C", S: fmt.Sprint(-big1), Const: constant.MakeInt64(-big1)})
				ti, tj := fa.term(ns, pi), fa.term(ns, pj)
				if !(pr.lt(ti, lim) && pr.lt(nlim, ti) && pr.lt(tj, lim) && pr.lt(nlim, tj)) {
					continue
				}
				t0i, t0j := fa.term(ns, i0), fa.term(ns, j0)
				inv := true
				for _, t := range []*Term{t0i, t0j} {
					for _, ep := range t.eps {
						if fa.epochInLoop(ep, fa.loopOf[b]) {
							inv = false
						}
					}
					lv, _ := fa.loopValues(b)
					for _, mv := range t.vals {
						if lv[mv] {
							inv = false
						}
					}
				}
				if !inv {
					continue
				}
				vi := fa.e.tt.mk(Term{K: "V", V: pi})
				vj := fa.e.tt.mk(Term{K: "V", V: pj})
				lhs := fa.e.tt.mk(Term{K: "B", S: "(+)", A: vi, B: vj})
				rhs := fa.e.tt.mk(Term{K: "B", S: "(+)", A: t0i, B: t0j})
				carry = append(carry, carried{pi, Fact{aTR, fa.e.tt.mk(Term{K: "B", S: "==", A: lhs, B: rhs}), true}})
			}
		}
	}
	// (c) counting: a slice phi that starts empty and grows by at most one element per iteration
	// never holds more elements than the iterations made: len(s) <= i - i0 for a counter phi i
	// starting at the constant i0.  Checked inductively at every back edge with the linear prover
	// (in the peeled first iteration both phis are aliased to their entry values).
	if back {
		var pr *bndProver
		for _, sp := range incs {
			if _, isSl := sp.phi.Type().Underlying().(*types.Slice); !isSl {
				continue
			}
			var sInit ssa.Value
			nE := 0
			for i, p2 := range b.Preds {
				if !b.Dominates(p2) {
					sInit = sp.phi.Edges[i]
					nE++
				}
			}
			if nE != 1 || !emptySliceValue(sInit) {
				continue
			}
			for _, ip := range incs {
				bt, isB := ip.phi.Type().Underlying().(*types.Basic)
				if !isB || bt.Kind() != types.Int {
					continue
				}
				var iInit ssa.Value
				nI := 0
				for i, p2 := range b.Preds {
					if !b.Dominates(p2) {
						iInit = ip.phi.Edges[i]
						nI++
					}
				}
				i0, isC := constIntOf(iInit)
				if nI != 1 || !isC {
					continue
				}
				if pr == nil {
					pr = newProverE(fa.e, fa, ns)
				}
				kc := fa.e.tt.mk(Term{K: "C", S: fmt.Sprint(-i0), Const: constant.MakeInt64(-i0)})
				lhs := fa.e.tt.mk(Term{K: "LEN", A: sp.term})
				rhs := fa.e.tt.mk(Term{K: "B", S: "+", A: ip.term, B: kc})
				if pr.le(lhs, rhs) {
					svt := fa.e.tt.mk(Term{K: "V", V: sp.phi})
					ivt := fa.e.tt.mk(Term{K: "V", V: ip.phi})
					f := fa.e.tt.mk(Term{K: "B", S: "<=", A: fa.e.tt.mk(Term{K: "LEN", A: svt}), B: fa.e.tt.mk(Term{K: "B", S: "+", A: ivt, B: kc})})
					carry = append(carry, carried{sp.phi, Fact{aTR, f, true}})
				}
			}
		}
	}
	if back {
		vals, blocks := fa.loopValues(b)
		ns.dropMentioning(vals)
		ns.dropEpochs(func(ep int) bool {
			var eb *ssa.BasicBlock
			if ep > 0 {
				eb = fa.e.epochBlock[ep]
			} else if ep < -1 {
				idx := -ep - 2
				if idx < len(fa.fn.Blocks) {
					eb = fa.fn.Blocks[idx]
				}
			}
			return eb != nil && blocks[eb]
		})
	}
	phiVals := map[ssa.Value]bool{}
	for _, ic := range incs {
		phiVals[ic.phi] = true
	}
	if len(phiVals) > 0 && !back {
		// first entry: no stale facts expected, but be safe
		ns.dropMentioning(phiVals)
	}
	for _, ic := range incs {
		loopDefined := false
		if isHeader {
			if inst, ok := ic.val.(ssa.Instruction); ok && fa.loopOf[b][inst.Block()] {
				loopDefined = true
			}
		}
		vt := fa.e.tt.mk(Term{K: "V", V: ic.phi})
		if isHeader && back {
			delete(ns.terms, ic.phi)
			if loopDefined {
				delete(ns.bind, ic.phi)
			} else {
				ns.bind[ic.phi] = ic.val
			}
			for _, f := range ic.facts {
				ns.add(f.Kind, vt, f.Val)
			}
		} else {
			// alias the phi to the incoming term on this path
			mentionsPhi := false
			for _, mv := range ic.term.vals {
				if phiVals[mv] {
					mentionsPhi = true
				}
			}
			if mentionsPhi {
				delete(ns.terms, ic.phi)
				for _, f := range ic.facts {
					ns.add(f.Kind, vt, f.Val)
				}
			} else {
				ns.terms[ic.phi] = ic.term
			}
			ns.bind[ic.phi] = ic.val
		}
	}
	for _, cf := range carry {
		ns.add(cf.fact.Kind, cf.fact.T, cf.fact.Val)
	}
	return ns
}

// epochInLoop: the memory epoch ep was started by an instruction of one of the blocks.
func (fa *FnAnalysis) epochInLoop(ep int, blocks map[*ssa.BasicBlock]bool) bool {
	var eb *ssa.BasicBlock
	if ep > 0 {
		eb = fa.e.epochBlock[ep]
	} else if ep < -1 {
		idx := -ep - 2
		if idx < len(fa.fn.Blocks) {
			eb = fa.fn.Blocks[idx]
		}
	}
	return eb != nil && blocks[eb]
}

var zeroConsts = map[string]*ssa.Const{}

// zeroConstOf: the zero value of a scalar / nillable type as an SSA constant (nil for aggregates).
func zeroConstOf(t types.Type) *ssa.Const {
	key := t.String()
	if c, ok := zeroConsts[key]; ok {
		return c
	}
	var c *ssa.Const
	switch u := t.Underlying().(type) {
	case *types.Basic:
		switch {
		case u.Info()&types.IsBoolean != 0:
			c = ssa.NewConst(constant.MakeBool(false), t)
		case u.Info()&types.IsInteger != 0:
			c = ssa.NewConst(constant.MakeInt64(0), t)
		case u.Info()&types.IsString != 0:
			c = ssa.NewConst(constant.MakeString(""), t)
		}
	case *types.Pointer, *types.Slice, *types.Map, *types.Interface, *types.Signature, *types.Chan:
		c = ssa.NewConst(nil, t)
	}
	zeroConsts[key] = c
	return c
}

// emptySliceValue: a nil slice constant, make(T, 0) or arr[:0].
func emptySliceValue(v ssa.Value) bool {
	if v == nil {
		return false
	}
	if isNilConst(v) {
		return true
	}
	if m, ok := v.(*ssa.MakeSlice); ok {
		if k, ok := constIntOf(m.Len); ok && k == 0 {
			return true
		}
	}
	if sl, ok := v.(*ssa.Slice); ok && sl.High != nil {
		if k, ok := constIntOf(sl.High); ok && k == 0 {
			return true
		}
	}
	return false
}

// bump starts a new memory epoch for the given abstract locations ("*" or
// none: every location).
func (fa *FnAnalysis) bump(st *State, in ssa.Instruction, locs ...string) {
	id := fa.e.instrID[in]
	st.epoch = id
	all := len(locs) == 0
	for _, l := range locs {
		if l == "*" || strings.HasPrefix(l, "DEREF:") || strings.HasPrefix(l, "EXT?") || l == "HANDLE" {
			all = true
		}
	}
	if all {
		st.base = id
		st.locEp = map[string]int{}
		return
	}
	for _, l := range locs {
		st.locEp[l] = id
	}
}

// flowBlock pushes the in-states through the block and stores the states on
// each outgoing edge.  When record is set, per-instruction states and return
// states are kept.
func (fa *FnAnalysis) flowBlock(b *ssa.BasicBlock, ins []*State, record bool) {
	checkBudget()
	cur := make([]*State, 0, len(ins))
	for _, s := range ins {
		cur = append(cur, s.clone())
	}
	outs := make([][]*State, len(b.Succs))
	for _, in := range b.Instrs {
		if record {
			snap := make([]*State, 0, len(cur))
			for _, s := range cur {
				if !s.dead {
					snap = append(snap, s.clone())
				}
			}
			for _, s := range snap {
				s.frozen = true
			}
			fa.before[in] = snap
		}
		switch x := in.(type) {
		case *ssa.If:
			for _, s := range cur {
				if s.dead {
					continue
				}
				t := s.clone()
				fa.assumeVal(t, x.Cond, true)
				if !t.dead {
					outs[0] = append(outs[0], t)
				}
				f := s.clone()
				fa.assumeVal(f, x.Cond, false)
				if !f.dead {
					outs[1] = append(outs[1], f)
				}
			}
		case *ssa.Jump:
			for _, s := range cur {
				if !s.dead {
					outs[0] = append(outs[0], s)
				}
			}
		case *ssa.Return:
			if record {
				for _, s := range cur {
					if !s.dead {
						fa.rets = append(fa.rets, retState{x, s.clone()})
					}
				}
			}
		case *ssa.Panic:
		default:
			var forks []*State
			for _, s := range cur {
				if !s.dead {
					fa.transfer(s, in)
					if call, ok := in.(*ssa.Call); ok && !s.dead {
						forks = append(forks, fa.splitIntCases(s, call)...)
					}
				}
			}
			if len(forks) > 0 {
				cur = append(cur, forks...)
				if len(cur) > 2*dnfCap {
					cur = dedupe(cur)
				}
			}
		}
	}
	for i := range outs {
		outs[i] = dedupe(outs[i])
	}
	fa.edgeOut[b] = outs
}

func (fa *FnAnalysis) transfer(st *State, in ssa.Instruction) {
	e := fa.e
	switch x := in.(type) {
	case *ssa.Store:
		if a, path := allocCell(x.Addr); a != nil {
			info := fa.allocs[a]
			if info != nil && info.multi && len(path) == 0 {
				st.mem[a] = x.Val
				return
			}
			if info != nil && !info.opaque {
				return
			}
		}
		if isVarargsFill(x) {
			// filling a fresh argument array that is only ever sliced: no tracked cell can alias it
			return
		}
		loc := e.eff.classifyAddr(x.Addr)
		fa.bump(st, in, loc)
		fa.killHeap(st, []string{loc})
		at := fa.term(st, x.Addr)
		st.heap[at.key] = heapCell{addr: at, val: x.Val, loc: loc, ep: st.epoch}
	case *ssa.MapUpdate:
		fa.bump(st, in)
	case *ssa.Send:
		fa.bump(st, in)
	case *ssa.RunDefers:
		if !fa.defersOnlyUnlock() {
			fa.bump(st, in)
			st.heap = map[string]heapCell{}
		}
	case *ssa.UnOp:
		if x.Op == token.MUL {
			if a, path := allocCell(x.X); a != nil {
				info := fa.allocs[a]
				if info != nil && info.single != nil {
					return // resolved structurally in term()
				}
				if info != nil && info.multi && len(path) == 0 {
					if v := st.mem[a]; v != nil {
						st.terms[x] = fa.term(st, v)
						st.bind[x] = v
					} else if _, has := st.mem[a]; !has && zeroConstOf(derefType(a.Type())) != nil {
						// never stored on this path since the function was entered: the zero value
						// (an absent key means "no store"; a merged or havoced cell is present with a nil value)
						z := zeroConstOf(derefType(a.Type()))
						st.terms[x] = fa.term(st, z)
						st.bind[x] = z
					} else {
						delete(st.terms, x)
						delete(st.bind, x)
					}
					return
				}
				if info != nil && info.multi && len(path) > 0 {
					delete(st.bind, x)
					if v := st.mem[a]; v != nil {
						t := fa.term(st, v)
						for _, f := range path {
							t = e.tt.mk(Term{K: "F", A: t, N: f})
						}
						st.terms[x] = t
					} else {
						delete(st.terms, x)
					}
					return
				}
				// opaque local object: treat like a heap cell
			}
			// heap load: forwarded from the last store to the same cell, else
			// CSE within the same memory epoch
			at := fa.term(st, x.X)
			if cell, ok := st.heap[at.key]; ok {
				st.terms[x] = fa.term(st, cell.val)
				st.bind[x] = cell.val
				return
			}
			delete(st.bind, x)
			if f, ok := x.X.(*ssa.FieldAddr); ok && fieldName(f) == "nodeConfig.ldr" {
				delete(st.terms, x)
				return
			}
			// the slice header of a stack (*p, p *stack) has its own epoch: it changes only when
			// the header itself is stored, not on element, field or lock-bookkeeping writes
			if loc := e.eff.classifyAddr(x.X); loc == "HDR" {
				st.terms[x] = e.tt.mk(Term{K: "L", A: at, N: st.locEpoch("HDR"), S: "HDR"})
			} else {
				st.terms[x] = e.tt.mk(Term{K: "L", A: at, N: st.epoch})
			}
		}
	case *ssa.Call:
		fa.transferCall(st, in, &x.Call, x)
	case *ssa.Defer:
		// the deferred call runs at RunDefers; evaluate nothing now
	case *ssa.Go:
		fa.bump(st, in)
	}
}

func (fa *FnAnalysis) transferCall(st *State, in ssa.Instruction, c *ssa.CallCommon, v *ssa.Call) {
	e := fa.e
	if b, ok := c.Value.(*ssa.Builtin); ok {
		switch b.Name() {
		case "len", "cap", "min", "max", "real", "imag", "complex":
		default:
			fa.bump(st, in, "SLOT", "APPEND", "APPEND:stack", "COPY", "ELEM:*")
			for l := range st.locEp {
				if strings.HasPrefix(l, "ELEM:") || strings.HasPrefix(l, "MAP:") {
					st.locEp[l] = st.epoch
				}
			}
			// element cells of any slice may have been written: treat unknown ELEM locations via base? keep header epochs
			fa.killHeap(st, []string{"SLOT", "HDR"})
			for k, c := range st.heap {
				if strings.HasPrefix(c.loc, "ELEM:") || strings.HasPrefix(c.loc, "MAP:") {
					delete(st.heap, k)
				}
			}
		}
		return
	}
	if c.IsInvoke() {
		// user-supplied interface implementations (Operator, Stringer, ...) and the
		// standard reflect.Type are assumed not to mutate the structures they are
		// called from (stated assumption: user code is opaque and excluded)
		name := c.Method.FullName()
		fa.externalPost(st, v, name)
		return
	}
	callee := e.p.callee(c)
	if callee == nil {
		// dynamic call of a user closure: same assumption
		if v != nil {
			st.add(aDID, e.tt.mk(Term{K: "V", V: v}), true)
		}
		return
	}
	if e.p.inPkg(callee) {
		if v != nil {
			st.cep[v] = st.epoch
			st.cepLoc[v] = st.snap()
			st.add(aDID, e.tt.mk(Term{K: "V", V: v}), true)
		}
		if !e.eff.pure(callee) {
			var locs []string
			onlyLock := true
			for _, w := range e.eff.writesOf(callee) {
				locs = append(locs, w.Loc)
				if w.Loc != "nodeConfig.ldr" && w.Loc != "EXT:Mutex.Lock" && w.Loc != "EXT:Mutex.Unlock" {
					onlyLock = false
				}
			}
			// lock()/unlock() write only the lock bookkeeping (nodeConfig.ldr and the mutex),
			// which no fact is ever about: they do not start a new memory epoch
			if !onlyLock {
				fa.bump(st, in, locs...)
				fa.killHeap(st, locs)
			} else if e.lockHavoc && relName(callee) == "(*stack).lock" {
				// concurrent mode: while this goroutine waited for the lock any other one may have
				// changed the shared structure; nothing read before the acquisition is still known
				fa.bump(st, in)
				st.heap = map[string]heapCell{}
				st.dropEpochs(func(ep int) bool { return true })
				for l := range st.locEp {
					st.locEp[l] = st.epoch
				}
				st.locEp["HDR"] = st.epoch
			}
		}
		fa.refineCall(st, v)
		return
	}
	name := callee.String()
	if !(isPureExternal(name) || aliasExternal[name]) {
		fa.bump(st, in)
		st.heap = map[string]heapCell{}
	}
	fa.externalPost(st, v, name)
}

// isVarargsFill: a store into an element of a freshly allocated array whose
// element addresses are only stored to and which is otherwise only sliced
// (the `[]any{...}` / variadic argument pattern).
func isVarargsFill(st *ssa.Store) bool {
	ia, ok := st.Addr.(*ssa.IndexAddr)
	if !ok {
		return false
	}
	al, ok := ia.X.(*ssa.Alloc)
	if !ok {
		return false
	}
	for _, r := range *al.Referrers() {
		switch x := r.(type) {
		case *ssa.IndexAddr:
			for _, u := range *x.Referrers() {
				if s2, ok := u.(*ssa.Store); !ok || s2.Addr != x {
					return false
				}
			}
		case *ssa.Slice:
		case *ssa.DebugRef:
		default:
			return false
		}
	}
	return true
}

// variadicElems returns the values stored into the argument array of a
// variadic call (`[a, b]`), in index order.
func variadicElems(v ssa.Value) []ssa.Value {
	sl, ok := v.(*ssa.Slice)
	if !ok {
		return nil
	}
	al, ok := sl.X.(*ssa.Alloc)
	if !ok {
		return nil
	}
	var out []ssa.Value
	for _, r := range *al.Referrers() {
		if ia, ok := r.(*ssa.IndexAddr); ok {
			for _, u := range *ia.Referrers() {
				if st, ok := u.(*ssa.Store); ok && st.Addr == ia {
					out = append(out, st.Val)
				}
			}
		}
	}
	return out
}

// defersOnlyUnlock: every deferred call of the function writes nothing but the lock bookkeeping.
func (fa *FnAnalysis) defersOnlyUnlock() bool {
	for _, b := range fa.fn.Blocks {
		for _, in := range b.Instrs {
			d, ok := in.(*ssa.Defer)
			if !ok {
				continue
			}
			cal := fa.e.p.callee(&d.Call)
			if cal == nil || !fa.e.p.inPkg(cal) {
				return false
			}
			for _, w := range fa.e.eff.writesOf(cal) {
				if w.Loc != "nodeConfig.ldr" && w.Loc != "EXT:Mutex.Lock" && w.Loc != "EXT:Mutex.Unlock" {
					return false
				}
			}
		}
	}
	return true
}

// killHeap drops forwarded cells that a write to one of the given abstract
// locations may alias.
func (fa *FnAnalysis) killHeap(st *State, locs []string) {
	if len(st.heap) == 0 {
		return
	}
	all := false
	set := map[string]bool{}
	for _, l := range locs {
		if strings.HasPrefix(l, "DEREF:") || strings.HasPrefix(l, "EXT") || l == "HANDLE" {
			all = true
		}
		set[l] = true
	}
	for k, c := range st.heap {
		if all || set[c.loc] || strings.HasPrefix(c.loc, "DEREF:") {
			delete(st.heap, k)
		}
	}
}

// callResultTerm is the term of result k of a call.
func (fa *FnAnalysis) callResultTerm(st *State, c *ssa.Call, k int) *Term {
	base := fa.term(st, c)
	if c.Call.Signature().Results().Len() == 1 {
		return base
	}
	if st != nil {
		if refs := c.Referrers(); refs != nil {
			for _, r := range *refs {
				if ex, ok := r.(*ssa.Extract); ok && ex.Index == k {
					if t, ok := st.terms[ex]; ok && t != nil {
						return t
					}
				}
			}
		}
	}
	return fa.e.tt.mk(Term{K: "X", A: base, N: k})
}

func (fa *FnAnalysis) argTerms(st *State, c *ssa.CallCommon) []*Term {
	var out []*Term
	for _, a := range c.Args {
		out = append(out, fa.term(st, a))
	}
	return out
}

// constKind: the constant reflect.Kind of a Value term, when the state
// determines it: an invalid Value has kind 0; a stored Kind()==k test; or
// equality of its kind with the kind of a value whose kind is determined.
func (fa *FnAnalysis) constKind(st *State, vt *Term, depth int) (int64, bool) {
	if v, ok := st.get(aVALID, vt); ok && !v {
		return 0, true
	}
	if vt.K == "VALOF" {
		if vt.A.K == "C" && vt.A.S == "nil" {
			return 0, true
		}
		if v, ok := st.get(aNN, vt.A); ok && !v {
			return 0, true
		}
	}
	kt := fa.e.tt.mk(Term{K: "KIND", A: vt})
	for _, f := range st.factList() {
		if f.Kind != aTR || !f.Val || f.T.K != "B" || f.T.S != "==" {
			continue
		}
		var o *Term
		if f.T.A == kt {
			o = f.T.B
		} else if f.T.B == kt {
			o = f.T.A
		}
		if o == nil {
			continue
		}
		if o.K == "C" && o.Const != nil {
			if n, ok := constInt64(o.Const); ok {
				return n, true
			}
		}
		if o.K == "KIND" && depth < 2 {
			if n, ok := fa.constKind(st, o.A, depth+1); ok {
				return n, true
			}
		}
	}
	return 0, false
}

// holdsFact evaluates a fact in st including intrinsic knowledge.
func (fa *FnAnalysis) knownTerm(st *State, kind string, t *Term) (bool, bool) {
	if kind == aNN {
		switch t.K {
		case "MI", "FA", "G", "IA":
			return true, true
		case "C":
			return t.S != "nil", true
		case "V":
			switch t.V.(type) {
			case *ssa.Alloc, *ssa.MakeInterface, *ssa.MakeMap, *ssa.MakeSlice, *ssa.MakeChan, *ssa.MakeClosure, *ssa.FieldAddr, *ssa.IndexAddr:
				return true, true
			}
		}
	}
	if kind == aNN && t.K == "TYPEOF" {
		if v, ok := fa.knownTerm(st, aNN, t.A); ok {
			return v, true
		}
		// the type of x is non-nil exactly when ValueOf(x) is valid (kind-based knowledge included)
		vo := fa.e.tt.mk(Term{K: "VALOF", A: t.A})
		if v, ok := st.get(aVALID, vo); ok {
			return v, true
		}
		if k, ok := fa.constKind(st, vo, 0); ok {
			return k != 0, true
		}
	}
	if kind == aVALID && t.K == "VALOF" {
		if v, ok := fa.knownTerm(st, aNN, t.A); ok {
			return v, true
		}
		if v, ok := st.get(aNN, fa.e.tt.mk(Term{K: "TYPEOF", A: t.A})); ok {
			return v, true
		}
	}
	if kind == aNN && t.K != "TYPEOF" {
		// x itself is non-nil when ValueOf(x) is known valid by its kind
		vo := fa.e.tt.mk(Term{K: "VALOF", A: t})
		if _, exists := fa.e.tt.m[vo.key]; exists {
			if k, ok := fa.constKind(st, vo, 0); ok && k != 0 {
				return true, true
			}
		}
	}
	if kind == aCANIF && t.K == "VALOF" {
		return true, true
	}
	if strings.HasPrefix(kind, "kindin:") {
		want := map[string]bool{}
		for _, k := range strings.Split(strings.TrimPrefix(kind, "kindin:"), ",") {
			want[k] = true
		}
		var check func(t *Term, depth int) bool
		check = func(t *Term, depth int) bool {
			kt := fa.e.tt.mk(Term{K: "KIND", A: t})
			for _, f := range st.factList() {
				if f.Kind == aTR && f.Val && f.T.K == "B" && f.T.S == "==" {
					var o *Term
					if f.T.A == kt {
						o = f.T.B
					} else if f.T.B == kt {
						o = f.T.A
					}
					if o == nil {
						continue
					}
					if o.K == "C" && want[o.S] {
						return true
					}
					if o.K == "KIND" && depth < 2 && check(o.A, depth+1) {
						return true
					}
				}
				if f.T == t && f.Val && strings.HasPrefix(f.Kind, "kindin:") {
					sub := true
					for _, k := range strings.Split(strings.TrimPrefix(f.Kind, "kindin:"), ",") {
						if !want[k] {
							sub = false
						}
					}
					if sub {
						return true
					}
				}
			}
			return false
		}
		if check(t, 0) {
			return true, true
		}
		return false, false
	}
	if kind == aVALID {
		if v, ok := st.get(aVALID, t); ok {
			return v, true
		}
		// a kind membership that excludes Invalid implies validity
		for _, f := range st.factList() {
			if f.T == t && f.Val && strings.HasPrefix(f.Kind, "kindin:") && !strings.Contains(","+strings.TrimPrefix(f.Kind, "kindin:")+",", ",0,") {
				return true, true
			}
		}
		kt := fa.e.tt.mk(Term{K: "KIND", A: t})
		for _, f := range st.factList() {
			if f.Kind == aTR && f.Val && f.T.K == "B" && f.T.S == "==" {
				var c *Term
				if f.T.A == kt {
					c = f.T.B
				} else if f.T.B == kt {
					c = f.T.A
				}
				if c != nil && c.K == "C" && c.Const != nil {
					if n, ok := constInt64(c.Const); ok {
						return n != 0, true
					}
				}
			}
			if f.Kind == aTR && !f.Val && f.T.K == "B" && f.T.S == "==" {
				// Kind() != Invalid
				var c *Term
				if f.T.A == kt {
					c = f.T.B
				} else if f.T.B == kt {
					c = f.T.A
				}
				if c != nil && c.K == "C" && c.S == "0" {
					return true, true
				}
			}
		}
		// the kind equals the kind of another value that is known valid by its kind
		all := "kindin:1,2,3,4,5,6,7,8,9,10,11,12,13,14,15,16,17,18,19,20,21,22,23,24,25,26"
		if v, ok := fa.knownTerm(st, all, t); ok && v {
			return true, true
		}
		return false, false
	}
	if kind == aTR && t.K == "C" {
		if t.S == "true" {
			return true, true
		}
		if t.S == "false" {
			return false, true
		}
	}
	if kind == aTR && t.K == "N" {
		v, ok := fa.knownTerm(st, aTR, t.A)
		return !v, ok
	}
	if kind == aTR && t.K == "B" && t.S == "==" {
		// comparisons of kinds: decided by the constant kind of each side when known
		for _, pr := range [][2]*Term{{t.A, t.B}, {t.B, t.A}} {
			if pr[0].K == "C" && pr[0].Const != nil && pr[1].K == "KIND" {
				if n, ok := constInt64(pr[0].Const); ok {
					if k, known := fa.constKind(st, pr[1].A, 0); known {
						return k == n, true
					}
					if n == 0 {
						if v, known := fa.knownTerm(st, aVALID, pr[1].A); known && v {
							return false, true
						}
					}
				}
			}
		}
		if t.A.K == "KIND" && t.B.K == "KIND" {
			ka, oka := fa.constKind(st, t.A.A, 0)
			kb, okb := fa.constKind(st, t.B.A, 0)
			if oka && okb {
				return ka == kb, true
			}
		}
		// x == nil
		if t.A.K == "C" && t.A.S == "nil" {
			v, ok := fa.knownTerm(st, aNN, t.B)
			return !v, ok
		}
		if t.B.K == "C" && t.B.S == "nil" {
			v, ok := fa.knownTerm(st, aNN, t.A)
			return !v, ok
		}
		if t.A.K == "C" && t.B.K == "C" {
			return t.A.S == t.B.S, true
		}
	}
	return st.get(kind, t)
}

// addTermFact adds a fact, decomposing negation and nil comparisons.
func (fa *FnAnalysis) addTermFact(st *State, kind string, t *Term, val bool) {
	if t == nil {
		return
	}
	if kind == aTR {
		if t.K == "N" {
			fa.addTermFact(st, aTR, t.A, !val)
			return
		}
		if t.K == "B" && t.S == "==" {
			if t.A.K == "C" && t.A.S == "nil" {
				fa.addTermFact(st, aNN, t.B, !val)
				return
			}
			if t.B.K == "C" && t.B.S == "nil" {
				fa.addTermFact(st, aNN, t.A, !val)
				return
			}
		}
	}
	if kind == aTR && t.K == "B" && t.S == "==" {
		// s == "" is len(s) == 0: record the length form as well, so that both spellings of the test agree
		for _, pr := range [][2]*Term{{t.A, t.B}, {t.B, t.A}} {
			if pr[0].K == "C" && pr[0].Const != nil && pr[0].Const.Kind() == constant.String && constant.StringVal(pr[0].Const) == "" && pr[1].K != "C" {
				lz := fa.e.tt.mk(Term{K: "B", S: "==", A: fa.e.tt.mk(Term{K: "C", S: "0", Const: constant.MakeInt64(0)}), B: fa.e.tt.mk(Term{K: "LEN", A: pr[1]})})
				if lz.K == "B" {
					if v, ok := fa.knownTerm(st, aTR, lz); ok {
						if v != val {
							st.dead = true
							return
						}
					} else {
						st.add(aTR, lz, val)
					}
				}
			}
		}
	}
	if v, ok := fa.knownTerm(st, kind, t); ok {
		if v != val {
			st.dead = true
		}
		return
	}
	if (kind == aNN && t.K == "TYPEOF") || (kind == aVALID && t.K == "VALOF") {
		fa.addTermFact(st, aNN, t.A, val)
		return
	}
	if kind == aTR && val && t.K == "B" && t.S == "==" {
		// two different constants cannot both equal the same term
		for _, pr := range [][2]*Term{{t.A, t.B}, {t.B, t.A}} {
			if pr[0].K == "C" && pr[0].Const != nil {
				for _, f := range st.factList() {
					if f.Kind == aTR && f.Val && f.T.K == "B" && f.T.S == "==" {
						var oc *Term
						if f.T.A == pr[1] {
							oc = f.T.B
						} else if f.T.B == pr[1] {
							oc = f.T.A
						}
						if oc != nil && oc.K == "C" && oc.Const != nil && oc.S != pr[0].S {
							st.dead = true
							return
						}
					}
				}
			}
		}
	}
	st.add(kind, t, val)
}

func (e *Engine) summary(fn *ssa.Function) *Summary {
	if s, ok := e.sums[fn]; ok {
		return s
	}
	if e.busy[fn] {
		return &Summary{Top: true}
	}
	e.busy[fn] = true
	defer delete(e.busy, fn)
	fa := e.analyze(fn, nil)
	s := fa.buildSummary()
	e.sums[fn] = s
	return s
}

func (fa *FnAnalysis) buildSummary() *Summary {
	if fa.unstable {
		return &Summary{Top: true}
	}
	sum := &Summary{}
	seen := map[string]bool{}
	nres := fa.fn.Signature.Results().Len()
	for _, rs := range fa.rets {
		states := []*State{rs.st}
		// split on boolean results
		for k := 0; k < nres && k < len(rs.ret.Results); k++ {
			rv := rs.ret.Results[k]
			if b, ok := rv.Type().Underlying().(*types.Basic); ok && b.Kind() == types.Bool {
				if _, isConst := isBoolConst(rv); isConst {
					continue
				}
				var next []*State
				for _, s := range states {
					if v, ok := fa.knownTerm(s, aTR, fa.term(s, rv)); ok {
						_ = v
						next = append(next, s)
						continue
					}
					t := s.clone()
					fa.assumeVal(t, rv, true)
					if !t.dead {
						next = append(next, t)
					}
					f := s.clone()
					fa.assumeVal(f, rv, false)
					if !f.dead {
						next = append(next, f)
					}
				}
				states = next
			}
		}
		for _, s := range states {
			rc := RetCase{}
			pure := fa.e.eff.pure(fa.fn)
			for _, f := range s.factList() {
				if f.T.summaryRooted(pure) && f.T.mentionsParam() {
					rc.Facts = append(rc.Facts, f)
				}
			}
			// the length of a freshly made slice result, when it is a term over the parameters
			for k := 0; k < nres && k < len(rs.ret.Results); k++ {
				rv := rs.ret.Results[k]
				w := rv
				for i := 0; i < 4; i++ {
					if nx, ok := s.bind[w]; ok && nx != nil {
						w = nx
					} else {
						break
					}
				}
				if ms, ok := w.(*ssa.MakeSlice); ok {
					lt := fa.term(s, ms.Len)
					if lt.summaryRooted(pure) {
						rt := fa.e.tt.mk(Term{K: "LEN", A: fa.e.tt.mk(Term{K: "R", N: k})})
						rc.Facts = append(rc.Facts, Fact{aTR, fa.e.tt.mk(Term{K: "B", S: "==", A: rt, B: lt}), true})
					}
				}
			}
			// facts about the embedded pointer of Stack/Condition results
			for k := 0; k < nres && k < len(rs.ret.Results); k++ {
				rv := rs.ret.Results[k]
				if fa.e.p.isNamed(rv.Type(), "Stack") || fa.e.p.isNamed(rv.Type(), "Condition") {
					ft := fa.e.tt.mk(Term{K: "F", A: fa.term(s, rv), N: 0})
					if v, ok := fa.knownTerm(s, aNN, ft); ok {
						rt := fa.e.tt.mk(Term{K: "F", A: fa.e.tt.mk(Term{K: "R", N: k}), N: 0})
						rc.Facts = append(rc.Facts, Fact{aNN, rt, v})
					}
				}
			}
			sort.Slice(rc.Facts, func(i, j int) bool {
				return factKey(rc.Facts[i].Kind, rc.Facts[i].T) < factKey(rc.Facts[j].Kind, rc.Facts[j].T)
			})
			for k := 0; k < nres && k < len(rs.ret.Results); k++ {
				rv := rs.ret.Results[k]
				d := ResDesc{Kind: '?'}
				t := fa.term(s, rv)
				if t.summaryRooted(fa.e.eff.pure(fa.fn)) {
					d.T = t
				} else {
					// a loop-header phi still bound to its entry value
					w := rv
					for i := 0; i < 4; i++ {
						if nx, ok := s.bind[w]; ok && nx != nil {
							w = nx
						} else {
							break
						}
					}
					if w != rv {
						if wt := fa.term(s, w); wt.paramRooted() {
							d.T = wt
						}
					}
				}
				if d.T == nil || (d.T.K != "P" && d.T.K != "C") {
					// expressed through another result, e.g. the third result of derefPtr is Kind() of the second
					// (preferred over a parameter form so that all return cases agree syntactically)
					var others []*Term
					for j := 0; j < nres && j < len(rs.ret.Results); j++ {
						if j == k {
							others = append(others, nil)
						} else {
							others = append(others, fa.term(s, rs.ret.Results[j]))
						}
					}
					if at := fa.e.tt.abstractResults(t, others); at != nil && at.mentionsResult() && at.summaryRooted(fa.e.eff.pure(fa.fn)) {
						d.T = at
					}
				}
				if d.T != nil && d.T.K == "C" && d.T.Const != nil && d.T.Const.Kind() == constant.Int {
					d.Kind = 'k'
				}
				if b, ok := rv.Type().Underlying().(*types.Basic); ok && b.Kind() == types.Bool {
					if v, ok := fa.knownTerm(s, aTR, t); ok {
						d.Kind, d.B = 'c', v
					}
				} else if isNillable(rv.Type()) {
					if v, ok := fa.nonNil(s, rv); ok {
						if v {
							d.Kind = 'N'
						} else {
							d.Kind = 'n'
						}
					}
				}
				if typeStr(rv.Type()) == "reflect.Value" {
					if v, ok := fa.knownTerm(s, aVALID, t); ok {
						if v {
							d.Valid = 't'
						} else {
							d.Valid = 'f'
						}
					}
					if v, ok := fa.knownTerm(s, aCANIF, t); ok && v {
						d.Canif = 't'
					}
				}
				rc.Res = append(rc.Res, d)
			}
			var kb strings.Builder
			for _, f := range rc.Facts {
				fmt.Fprintf(&kb, "%s=%v;", factKey(f.Kind, f.T), f.Val)
			}
			for _, d := range rc.Res {
				fmt.Fprintf(&kb, "r:%c%v%c%c", d.Kind, d.B, d.Valid+'0', d.Canif+'0')
				if d.T != nil {
					kb.WriteString(d.T.key)
				}
				kb.WriteByte(';')
			}
			rc.key = kb.String()
			if !seen[rc.key] {
				seen[rc.key] = true
				sum.Cases = append(sum.Cases, rc)
			}
		}
	}
	sort.Slice(sum.Cases, func(i, j int) bool { return sum.Cases[i].key < sum.Cases[j].key })
	if len(sum.Cases) > 64 {
		return &Summary{Top: true}
	}
	return sum
}

// refineCall intersects the feasible return cases of an in-package call and
// adds what they agree on to the state.
func (fa *FnAnalysis) refineCall(st *State, c *ssa.Call) {
	e := fa.e
	callee := e.p.callee(&c.Call)
	if callee == nil || !e.p.inPkg(callee) {
		return
	}
	sum := e.summary(callee)
	if sum == nil || sum.Top || len(sum.Cases) == 0 {
		return
	}
	args := fa.argTerms(st, &c.Call)
	nres := c.Call.Signature().Results().Len()
	var results []*Term
	for k := 0; k < nres; k++ {
		results = append(results, fa.callResultTerm(st, c, k))
	}
	epoch := -1
	if e.eff.pure(callee) {
		if ep, ok := st.cep[c]; ok {
			epoch = ep
		}
	}
	if snap := st.cepLoc[c]; snap != nil {
		e.tt.locEpochFn = snap.of
		defer func() { e.tt.locEpochFn = nil }()
	}
	type inst struct {
		facts []Fact
		res   []ResDesc
	}
	var feas []inst
	for _, rc := range sum.Cases {
		ok := true
		var fs []Fact
		for _, f := range rc.Facts {
			t := e.tt.substFull(f.T, args, results, epoch)
			if t == nil {
				continue
			}
			if v, known := fa.knownTerm(st, f.Kind, t); known && v != f.Val {
				ok = false
				break
			}
			fs = append(fs, Fact{f.Kind, t, f.Val})
		}
		if !ok {
			continue
		}
		var res []ResDesc
		for k := 0; k < nres && k < len(rc.Res); k++ {
			d := rc.Res[k]
			rt := fa.callResultTerm(st, c, k)
			if d.T != nil {
				d.T = e.tt.substFull(d.T, args, results, epoch)
			}
			switch d.Kind {
			case 'c':
				if v, known := fa.knownTerm(st, aTR, rt); known && v != d.B {
					ok = false
				}
			case 'n':
				if v, known := fa.knownTerm(st, aNN, rt); known && v {
					ok = false
				}
			case 'N':
				if v, known := fa.knownTerm(st, aNN, rt); known && !v {
					ok = false
				}
			case 'k':
				// an integer constant result: every stored comparison on the result must agree
				for _, f := range st.factList() {
					if f.Kind != aTR || f.T.K != "B" {
						continue
					}
					if f.T.A != rt && f.T.B != rt {
						continue
					}
					a, b := f.T.A, f.T.B
					if a == rt {
						a = d.T
					}
					if b == rt {
						b = d.T
					}
					r := e.tt.mk(Term{K: "B", S: f.T.S, A: a, B: b})
					if r.K == "C" && r.Const != nil && r.Const.Kind() == constant.Bool && constant.BoolVal(r.Const) != f.Val {
						ok = false
					}
				}
			}
			if d.Valid != 0 {
				if v, known := fa.knownTerm(st, aVALID, rt); known && v != (d.Valid == 't') {
					ok = false
				}
			}
			switch d.Kind {
			case '?':
				// a result equal to a param-rooted term inherits its nil-ness
				if d.T != nil {
					if v, known := fa.knownTerm(st, aNN, d.T); known {
						if w, k2 := fa.knownTerm(st, aNN, rt); k2 && w != v {
							ok = false
						}
					}
				}
			}
			res = append(res, d)
		}
		if !ok {
			continue
		}
		feas = append(feas, inst{fs, res})
	}
	if len(feas) == 0 {
		st.dead = true
		return
	}
	// intersection of facts
	count := map[string]int{}
	byKey := map[string]Fact{}
	for _, in := range feas {
		seen := map[string]bool{}
		for _, f := range in.facts {
			k := fmt.Sprintf("%s=%v", factKey(f.Kind, f.T), f.Val)
			if !seen[k] {
				seen[k] = true
				count[k]++
				byKey[k] = f
			}
		}
	}
	var keys []string
	for k, n := range count {
		if n == len(feas) {
			keys = append(keys, k)
		}
	}
	sort.Strings(keys)
	for _, k := range keys {
		f := byKey[k]
		fa.addTermFact(st, f.Kind, f.T, f.Val)
	}
	{
		var cf [][]Fact
		var cr [][]ResDesc
		for _, in := range feas {
			cf = append(cf, in.facts)
			cr = append(cr, in.res)
		}
		rts := make([]*Term, nres)
		for k := 0; k < nres; k++ {
			rts[k] = fa.callResultTerm(st, c, k)
		}
		fa.perCaseResults(st, c, c.Call.Signature().Results(), rts, cf, cr)
		if st.dead {
			return
		}
	}
	newAlias := false
	defer func() {
		// results expressed through other results (KIND(R(1))) must see the aliases just made
		if newAlias && !st.dead && fa.realias < 2 {
			fa.realias++
			fa.refineCall(st, c)
			fa.realias--
		}
	}()
	for k := 0; k < nres; k++ {
		rt := fa.callResultTerm(st, c, k)
		agreeKind := byte(0)
		agreeB := false
		agree := true
		for i, in := range feas {
			if k >= len(in.res) {
				agree = false
				break
			}
			d := in.res[k]
			kind := d.Kind
			if kind == '?' && d.T != nil {
				if v, known := fa.knownTerm(st, aNN, d.T); known && isNillable(c.Call.Signature().Results().At(k).Type()) {
					if v {
						kind = 'N'
					} else {
						kind = 'n'
					}
				}
			}
			if i == 0 {
				agreeKind, agreeB = kind, d.B
			} else if kind != agreeKind || d.B != agreeB {
				agree = false
			}
		}
		// all feasible cases return the very same (caller-side) term: alias it
		if len(feas) > 0 && k < len(feas[0].res) && feas[0].res[k].T != nil {
			same := true
			for _, in := range feas[1:] {
				if k >= len(in.res) || in.res[k].T != feas[0].res[k].T {
					same = false
				}
			}
			if same && nres > 1 {
				if refs := c.Referrers(); refs != nil {
					for _, r := range *refs {
						if ex, ok := r.(*ssa.Extract); ok && ex.Index == k {
							if old, has := st.terms[ex]; !has || (fa.realias > 0 && old != feas[0].res[k].T) {
								newAlias = !has
								al := feas[0].res[k].T
								for _, kind := range []string{aNN, aTR, aVALID, aCANIF} {
									if v, ok := fa.knownTerm(st, kind, rt); ok {
										fa.addTermFact(st, kind, al, v)
									}
								}
								st.terms[ex] = al
							}
						}
					}
				}
			}
			if same && nres == 1 {
				if _, has := st.terms[c]; !has {
					// move existing facts about the opaque result onto the alias
					al := feas[0].res[k].T
					for _, kind := range []string{aNN, aTR, aVALID, aCANIF} {
						if v, ok := fa.knownTerm(st, kind, rt); ok {
							fa.addTermFact(st, kind, al, v)
						}
					}
					st.terms[c] = al
				}
			}
		}
		if agree {
			switch agreeKind {
			case 'c':
				st.add(aTR, rt, agreeB)
			case 'n':
				st.add(aNN, rt, false)
			case 'N':
				st.add(aNN, rt, true)
			}
		}
	}
}

// splitIntCases: a call of a pure in-package function with one integer
// result whose return cases each give the result as a constant or a term over
// the parameters (ulen, cap, factorNegIndex, ...) is "inlined": the state is
// split into one state per feasible case, each with that case's facts and the
// result aliased to its term.  The receiver state keeps the first case; the
// others are returned.
func (fa *FnAnalysis) splitIntCases(st *State, c *ssa.Call) []*State {
	e := fa.e
	callee := e.p.callee(&c.Call)
	if callee == nil || !e.p.inPkg(callee) || !e.eff.pure(callee) {
		return nil
	}
	sig := callee.Signature.Results()
	if sig.Len() != 1 {
		return nil
	}
	if b, ok := sig.At(0).Type().Underlying().(*types.Basic); !ok || b.Info()&types.IsInteger == 0 {
		return nil
	}
	if _, aliased := st.terms[c]; aliased {
		return nil
	}
	sum := e.summary(callee)
	if sum == nil || sum.Top || len(sum.Cases) < 2 || len(sum.Cases) > 6 {
		return nil
	}
	args := fa.argTerms(st, &c.Call)
	epoch := -1
	if ep, ok := st.cep[c]; ok {
		epoch = ep
	}
	if snap := st.cepLoc[c]; snap != nil {
		e.tt.locEpochFn = snap.of
		defer func() { e.tt.locEpochFn = nil }()
	}
	rt := fa.callResultTerm(st, c, 0)
	type cs struct {
		facts []Fact
		T     *Term
	}
	var feas []cs
	for _, rc := range sum.Cases {
		if len(rc.Res) != 1 || rc.Res[0].T == nil {
			return nil
		}
		T := e.tt.substFull(rc.Res[0].T, args, []*Term{rt}, epoch)
		if T == nil {
			return nil
		}
		ok := true
		var fs []Fact
		for _, f := range rc.Facts {
			t := e.tt.substFull(f.T, args, []*Term{rt}, epoch)
			if t == nil {
				continue
			}
			if v, known := fa.knownTerm(st, f.Kind, t); known && v != f.Val {
				ok = false
				break
			}
			fs = append(fs, Fact{f.Kind, t, f.Val})
		}
		if ok {
			feas = append(feas, cs{fs, T})
		}
	}
	if len(feas) < 2 {
		if len(feas) == 1 {
			st.terms[c] = feas[0].T
			for _, f := range feas[0].facts {
				fa.addTermFact(st, f.Kind, f.T, f.Val)
			}
		}
		return nil
	}
	var out []*State
	for i := len(feas) - 1; i >= 0; i-- {
		target := st
		if i > 0 {
			target = st.clone()
		}
		for _, f := range feas[i].facts {
			fa.addTermFact(target, f.Kind, f.T, f.Val)
		}
		target.terms[c] = feas[i].T
		if i > 0 && !target.dead {
			out = append(out, target)
		}
	}
	return out
}

// appSubterms lists the APP subterms of t, innermost first.
func appSubterms(t *Term) []*Term {
	var out []*Term
	seen := map[*Term]bool{}
	var walk func(t *Term)
	walk = func(t *Term) {
		if t == nil || seen[t] {
			return
		}
		seen[t] = true
		walk(t.A)
		walk(t.B)
		if t.K == "APP" {
			out = append(out, t)
		}
	}
	walk(t)
	return out
}

// refineApp evaluates a *virtual* call: the APP term of a pure in-package
// function applied to argument terms, whether or not this function performs
// such a call.  The callee's return cases are filtered by what the state
// knows about the arguments and what all feasible cases agree on is recorded
// for the result terms X(app,k).
func (fa *FnAnalysis) refineApp(st *State, app *Term, depth int) {
	e := fa.e
	if depth > 3 || st.dead || app.K != "APP" {
		return
	}
	callee := e.p.ByName[app.S]
	if callee == nil || !e.p.inPkg(callee) {
		return
	}
	sum := e.summary(callee)
	if sum == nil || sum.Top || len(sum.Cases) == 0 {
		return
	}
	var args []*Term
	for l := app.A; l != nil; l = l.B {
		args = append(args, l.A)
	}
	sig := callee.Signature.Results()
	nres := sig.Len()
	rts := make([]*Term, nres)
	for k := 0; k < nres; k++ {
		if nres == 1 {
			rts[k] = app
		} else {
			rts[k] = e.tt.mk(Term{K: "X", A: app, N: k})
		}
	}
	epoch := app.N
	var cf [][]Fact
	var cr [][]ResDesc
	for _, rc := range sum.Cases {
		ok := true
		var fs []Fact
		for _, f := range rc.Facts {
			t := e.tt.substFull(f.T, args, rts, epoch)
			if t == nil {
				continue
			}
			if v, known := fa.knownTerm(st, f.Kind, t); known && v != f.Val {
				ok = false
				break
			}
			fs = append(fs, Fact{f.Kind, t, f.Val})
		}
		if !ok {
			continue
		}
		var res []ResDesc
		for k := 0; k < nres && k < len(rc.Res); k++ {
			d := rc.Res[k]
			if d.T != nil {
				d.T = e.tt.substFull(d.T, args, rts, epoch)
			}
			switch d.Kind {
			case 'c':
				if v, known := fa.knownTerm(st, aTR, rts[k]); known && v != d.B {
					ok = false
				}
			case 'n':
				if v, known := fa.knownTerm(st, aNN, rts[k]); known && v {
					ok = false
				}
			case 'N':
				if v, known := fa.knownTerm(st, aNN, rts[k]); known && !v {
					ok = false
				}
			}
			if d.Valid != 0 {
				if v, known := fa.knownTerm(st, aVALID, rts[k]); known && v != (d.Valid == 't') {
					ok = false
				}
			}
			res = append(res, d)
		}
		if !ok {
			continue
		}
		cf = append(cf, fs)
		cr = append(cr, res)
	}
	if len(cf) == 0 {
		st.dead = true
		return
	}
	fa.refineDepth++
	fa.perCaseResults(st, nil, sig, rts, cf, cr)
	fa.refineDepth--
}

// callsInTerm returns the in-package calls of this function (other than
// `except`) whose result term occurs inside t.
func (fa *FnAnalysis) callsInTerm(st *State, t *Term, except *ssa.Call) []*ssa.Call {
	var out []*ssa.Call
	for _, b := range fa.fn.Blocks {
		for _, in := range b.Instrs {
			c2, ok := in.(*ssa.Call)
			if !ok || c2 == except {
				continue
			}
			if _, has := st.cep[c2]; !has {
				continue
			}
			ct := fa.term(st, c2)
			if ct.K == "APP" && termContains(t, ct) {
				out = append(out, c2)
			}
		}
	}
	return out
}

func termContains(t, sub *Term) bool {
	if t == nil {
		return false
	}
	if t == sub {
		return true
	}
	return termContains(t.A, sub) || termContains(t.B, sub)
}

// perCaseResults evaluates, for every feasible return case, the properties of
// each result under that case's own facts and equalities (result k == T_k),
// and records what all cases agree on.
func (fa *FnAnalysis) perCaseResults(st *State, c *ssa.Call, sig *types.Tuple, rts []*Term, caseFacts [][]Fact, caseRes [][]ResDesc) {
	e := fa.e
	nres := len(rts)
	var tmps []*State
	for i := range caseFacts {
		tmp := st.clone()
		for _, f := range caseFacts[i] {
			fa.addTermFact(tmp, f.Kind, f.T, f.Val)
		}
		// equalities: facts known about the opaque result hold for the term it equals in this case
		for k := 0; k < nres && k < len(caseRes[i]); k++ {
			T := caseRes[i][k].T
			if T == nil || T == rts[k] {
				continue
			}
			for _, f := range st.factList() {
				if nt := e.tt.replaceTerm(f.T, rts[k], T); nt != nil {
					fa.addTermFact(tmp, f.Kind, nt, f.Val)
				}
			}
		}
		// let the calls this case's result terms are built from see the new facts
		if fa.refineDepth < 2 {
			fa.refineDepth++
			for k := 0; k < nres && k < len(caseRes[i]); k++ {
				if T := caseRes[i][k].T; T != nil {
					if c != nil {
						for _, c2 := range fa.callsInTerm(tmp, T, c) {
							fa.refineCall(tmp, c2)
						}
					}
					for _, sub := range appSubterms(T) {
						fa.refineApp(tmp, sub, fa.refineDepth)
					}
				}
			}
			fa.refineDepth--
		}
		tmps = append(tmps, tmp)
	}
	live := 0
	for _, t := range tmps {
		if !t.dead {
			live++
		}
	}
	if live == 0 && len(tmps) > 0 {
		st.dead = true
		return
	}
	for k := 0; k < nres; k++ {
		typ := sig.At(k).Type()
		var props []string
		if isNillable(typ) {
			props = append(props, aNN)
		}
		if typeStr(typ) == "reflect.Value" {
			props = append(props, aVALID, aCANIF)
		}
		for _, prop := range props {
			if _, known := fa.knownTerm(st, prop, rts[k]); known {
				continue
			}
			agree, first, val := true, true, false
			for i := range caseFacts {
				if tmps[i].dead {
					continue
				}
				if k >= len(caseRes[i]) {
					agree = false
					break
				}
				d := caseRes[i][k]
				v, known := false, false
				if d.T != nil {
					v, known = fa.knownTerm(tmps[i], prop, d.T)
				}
				if !known {
					switch prop {
					case aNN:
						if d.Kind == 'N' {
							v, known = true, true
						} else if d.Kind == 'n' {
							v, known = false, true
						}
					case aVALID:
						if d.Valid == 't' {
							v, known = true, true
						} else if d.Valid == 'f' {
							v, known = false, true
						}
					case aCANIF:
						if d.Canif == 't' {
							v, known = true, true
						}
					}
				}
				if !known {
					agree = false
					break
				}
				if first {
					val, first = v, false
				} else if v != val {
					agree = false
					break
				}
			}
			if agree && !first {
				st.add(prop, rts[k], val)
			}
		}
	}
}

// externalPost adds facts about results of known external functions.
func (fa *FnAnalysis) externalPost(st *State, c *ssa.Call, name string) {
	e := fa.e
	rt := e.tt.mk(Term{K: "V", V: c})
	switch name {
	case "reflect.TypeOf":
		// nil iff the argument interface is nil
		if len(c.Call.Args) == 1 {
			if v, ok := fa.nonNil(st, c.Call.Args[0]); ok {
				st.add(aNN, rt, v)
			}
		}
	case "reflect.ValueOf":
		if len(c.Call.Args) == 1 {
			if v, ok := fa.nonNil(st, c.Call.Args[0]); ok {
				st.add(aVALID, rt, v)
			}
		}
	case "errors.New", "log.New", "(reflect.Type).Elem", "(reflect.Value).Type", "(reflect.Type).Key":
		st.add(aNN, rt, true)
	case "(reflect.Value).Elem":
		// valid exactly when the pointer/interface is not nil
		if len(c.Call.Args) == 1 {
			at := fa.term(st, c.Call.Args[0])
			if v, ok := fa.knownTerm(st, aTR, e.tt.mk(Term{K: "ISNIL", A: at})); ok {
				st.add(aVALID, rt, !v)
			}
			if v, ok := fa.knownTerm(st, aCANIF, at); ok && v {
				st.add(aCANIF, rt, true)
			}
		}
	case "(reflect.Value).Index", "(reflect.Value).Convert":
		st.add(aVALID, rt, true)
		if len(c.Call.Args) >= 1 {
			if v, ok := fa.knownTerm(st, aCANIF, fa.term(st, c.Call.Args[0])); ok && v {
				st.add(aCANIF, rt, true)
			}
		}
	case "(reflect.Value).Field":
		st.add(aVALID, rt, true)
	case "(reflect.Value).MapIndex":
		if len(c.Call.Args) >= 1 {
			if v, ok := fa.knownTerm(st, aCANIF, fa.term(st, c.Call.Args[0])); ok && v {
				st.add(aCANIF, rt, true)
			}
		}
	}
	if name == "reflect.ValueOf" {
		st.add(aCANIF, rt, true)
	}
}

// assumeVal refines st with "v evaluates to pol".
func (fa *FnAnalysis) assumeVal(st *State, v ssa.Value, pol bool) {
	if st.dead {
		return
	}
	e := fa.e
	if bv, ok := isBoolConst(v); ok {
		if bv != pol {
			st.dead = true
		}
		return
	}
	// chase bindings (phi / cell loads)
	for i := 0; i < 8; i++ {
		if w, ok := st.bind[v]; ok && w != nil {
			// record on the alias too so that later tests of v agree
			fa.addTermFact(st, aTR, fa.term(st, v), pol)
			v = w
			if bv, ok := isBoolConst(v); ok {
				if bv != pol {
					st.dead = true
				}
				return
			}
			continue
		}
		break
	}
	if st.dead {
		return
	}
	switch x := v.(type) {
	case *ssa.UnOp:
		if x.Op == token.NOT {
			fa.assumeVal(st, x.X, !pol)
			return
		}
	case *ssa.BinOp:
		switch x.Op {
		case token.EQL, token.NEQ:
			eq := (x.Op == token.EQL) == pol
			if isNilConst(x.Y) {
				fa.assumeNil(st, x.X, eq)
				return
			}
			if isNilConst(x.X) {
				fa.assumeNil(st, x.Y, eq)
				return
			}
			// bool == const
			if bv, ok := isBoolConst(x.Y); ok {
				fa.assumeVal(st, x.X, bv == eq)
				return
			}
		}
		fa.addTermFact(st, aTR, fa.term(st, v), pol)
		for _, op := range []ssa.Value{x.X, x.Y} {
			switch cv := op.(type) {
			case *ssa.Call:
				fa.refineCall(st, cv)
			case *ssa.Extract:
				if c2, ok := cv.Tuple.(*ssa.Call); ok {
					fa.refineCall(st, c2)
				}
			}
		}
		return
	case *ssa.Call:
		fa.addTermFact(st, aTR, fa.term(st, v), pol)
		if cal := e.p.callee(&x.Call); cal != nil {
			if e.p.inPkg(cal) {
				fa.refineCall(st, x)
				if spec, ok := e.forall[cal]; ok && pol && len(x.Call.Args) == 1 {
					for _, el := range variadicElems(x.Call.Args[0]) {
						if spec.kind == "valid" {
							fa.addTermFact(st, aVALID, fa.term(st, el), true)
						}
						if strings.HasPrefix(spec.kind, "kindin:") {
							// the element is a Kind value: record the membership on the Value it is the kind of
							if kt := fa.term(st, el); kt.K == "KIND" {
								st.add(spec.kind, kt.A, true)
							}
						}
					}
				}
			} else {
				fa.externalAssume(st, x, cal.String(), pol)
			}
		}
		return
	case *ssa.Extract:
		fa.addTermFact(st, aTR, fa.term(st, v), pol)
		switch tup := x.Tuple.(type) {
		case *ssa.Call:
			fa.refineCall(st, tup)
		case *ssa.TypeAssert:
			if x.Index == 1 {
				fa.assumeTypeAssertOK(st, tup, pol)
			}
		}
		return
	}
	fa.addTermFact(st, aTR, fa.term(st, v), pol)
}

func (fa *FnAnalysis) assumeNil(st *State, v ssa.Value, isNil bool) {
	if known, ok := fa.nonNil(st, v); ok {
		if known == isNil {
			st.dead = true
		}
		// still record on the term so that aliases agree
	}
	t := fa.term(st, v)
	if t.K != "C" {
		fa.addTermFact(st, aNN, t, !isNil)
	}
	// facts about call results let us refine the call
	switch x := v.(type) {
	case *ssa.Call:
		fa.refineCall(st, x)
	case *ssa.Extract:
		if c, ok := x.Tuple.(*ssa.Call); ok {
			fa.refineCall(st, c)
		}
	}
	if w, ok := st.bind[v]; ok && w != nil {
		fa.assumeNil(st, w, isNil)
	}
}

// isSlot0Load matches  (*p)[0]  /  r[0]  on a `stack`-typed value.
func (fa *FnAnalysis) isSlot0Load(v ssa.Value) bool {
	u, ok := v.(*ssa.UnOp)
	if !ok || u.Op != token.MUL {
		if ix, ok := v.(*ssa.Index); ok {
			_ = ix
		}
		return false
	}
	ia, ok := u.X.(*ssa.IndexAddr)
	if !ok {
		return false
	}
	c, ok := ia.Index.(*ssa.Const)
	if !ok {
		return false
	}
	if n, ok := constInt64(c.Value); !ok || n != 0 {
		return false
	}
	return fa.e.p.isNamed(ia.X.Type(), "stack")
}

func (fa *FnAnalysis) assumeTypeAssertOK(st *State, ta *ssa.TypeAssert, ok bool) {
	e := fa.e
	vt := e.tt.mk(Term{K: "TA", S: typeStr(ta.AssertedType), Typ: ta.AssertedType, A: fa.term(st, ta.X)})
	if e.slot0Axiom && fa.isSlot0Load(ta.X) && e.p.isPtrToNamed(ta.AssertedType, "nodeConfig") {
		// INV-SLOT0 (proved by rule R-SLOT0): slot 0 of every stack holds a non-nil *nodeConfig
		if !ok {
			st.dead = true
			return
		}
		st.add(aNN, vt, true)
		return
	}
	if ok {
		// a successful assertion implies a non-nil interface operand
		fa.addTermFact(st, aNN, fa.term(st, ta.X), true)
		if _, isIface := ta.AssertedType.Underlying().(*types.Interface); isIface {
			st.add(aNN, vt, true)
		}
	} else {
		if isNillable(ta.AssertedType) {
			st.add(aNN, vt, false)
		}
	}
}

func (fa *FnAnalysis) externalAssume(st *State, c *ssa.Call, name string, pol bool) {
	e := fa.e
	switch name {
	case "(reflect.Value).IsValid":
		if len(c.Call.Args) == 1 {
			fa.addTermFact(st, aVALID, fa.term(st, c.Call.Args[0]), pol)
		}
	case "(reflect.Value).CanInterface":
		if len(c.Call.Args) == 1 && pol {
			fa.addTermFact(st, aCANIF, fa.term(st, c.Call.Args[0]), true)
			fa.addTermFact(st, aVALID, fa.term(st, c.Call.Args[0]), true)
		}
	}
	_ = e
}

// ---------------------------------------------------------------- queries

// statesBefore returns the DNF describing every way control can reach in.
func (fa *FnAnalysis) statesBefore(in ssa.Instruction) []*State {
	return fa.before[in]
}

// allHold reports whether pred is true in every state reaching in; an
// unreachable instruction vacuously satisfies it.
func (fa *FnAnalysis) allHold(in ssa.Instruction, pred func(*State) bool) bool {
	for _, s := range fa.before[in] {
		if !pred(s) {
			return false
		}
	}
	return true
}

func (fa *FnAnalysis) reachable(in ssa.Instruction) bool { return len(fa.before[in]) > 0 }

func (st *State) describe() string {
	var ks []string
	for k, f := range st.facts {
		ks = append(ks, fmt.Sprintf("%s=%v", k, f.Val))
	}
	sort.Strings(ks)
	return strings.Join(ks, " ∧ ")
}
