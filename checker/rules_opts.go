package main

import (
	"fmt"
	"go/constant"
	"go/token"
	"go/types"
	"sort"
	"strings"

	"golang.org/x/tools/go/ssa"
)

// ---------------------------------------------------------------- R-FLAGS(b,c): public switches

// switchTable: the option each public switch drives, from the property's
// wording (method name -> flag constant).  Deprecated aliases forward.
var switchTable = map[string]string{
	"SetParen": "parens", "Paren": "parens",
	"SetFold": "cfold", "Fold": "cfold",
	"SetNoPadding": "nspad", "NoPadding": "nspad",
	"SetLeadOnce": "lonce", "LeadOnce": "lonce",
	"SetNegativeIndices": "negidx", "NegativeIndices": "negidx",
	"SetForwardIndices": "fwdidx", "ForwardIndices": "fwdidx",
	"SetNoNesting": "nnest", "NoNesting": "nnest",
	"SetReadOnly": "ronly", "ReadOnly": "ronly",
}

func (c *Ctx) flagName(v int64) string {
	scope := c.p.Types.Scope()
	for _, name := range scope.Names() {
		if k, ok := scope.Lookup(name).(*types.Const); ok && c.p.isNamed(k.Type(), "cfgFlag") {
			if x, ok := constInt64(k.Val()); ok && x == v {
				return name
			}
		}
	}
	return fmt.Sprintf("cfgFlag(%d)", v)
}

// switchFlag resolves which flag a method passes to setState, following a
// forwarding alias (return r.SetX(state...)).
func (c *Ctx) switchFlag(fn *ssa.Function, depth int) (flag string, found bool, problem string) {
	var flags []string
	for _, b := range fn.Blocks {
		for _, in := range b.Instrs {
			call, ok := in.(*ssa.Call)
			if !ok {
				continue
			}
			cal := c.p.callee(&call.Call)
			if cal == nil {
				continue
			}
			rn := relName(cal)
			if rn == "Stack.setState" || rn == "Condition.setState" {
				if len(call.Call.Args) < 3 {
					return "", true, "setState call with unexpected arity"
				}
				v, ok := constIntOf(call.Call.Args[1])
				if !ok {
					return "", true, "setState is called with a non-constant flag"
				}
				// the variadic state must be forwarded unchanged
				if p, ok := call.Call.Args[2].(*ssa.Parameter); !ok || p != fn.Params[len(fn.Params)-1] {
					return "", true, "the state argument is not forwarded unchanged to setState"
				}
				// the switch is driven on every path: no exit can bypass the call
				if !c.switchOnEveryPath(fn, call) {
					return "", true, "a return path bypasses setState: the switch can be silently ignored"
				}
				flags = append(flags, c.flagName(v))
			} else if depth < 2 && c.p.inPkg(cal) && cal.Signature.Recv() != nil && len(call.Call.Args) == len(fn.Params) && len(fn.Params) == 2 {
				// forwarding alias: same receiver, same variadic parameter
				if f, ok, prob := c.switchFlag(cal, depth+1); ok {
					if prob != "" {
						return "", true, prob
					}
					if p, isP := call.Call.Args[1].(*ssa.Parameter); !isP || p != fn.Params[1] {
						return "", true, "alias does not forward its state argument unchanged"
					}
					if !c.switchOnEveryPath(fn, call) {
						return "", true, "a return path bypasses the switch this alias forwards to"
					}
					flags = append(flags, f)
				}
			}
		}
	}
	if len(flags) == 0 {
		return "", false, ""
	}
	if len(flags) > 1 {
		return "", true, "drives several flags: " + strings.Join(flags, ",")
	}
	return flags[0], true, ""
}

// switchOnEveryPath: every return path of fn has executed call, except paths on
// which the receiver is known to be uninitialised (setState ignores those anyway).
func (c *Ctx) switchOnEveryPath(fn *ssa.Function, call *ssa.Call) bool {
	fa := c.eng.analyze(fn, nil)
	callT := c.eng.tt.mk(Term{K: "V", V: call})
	init := c.initAtom()
	for _, rs := range fa.rets {
		if rs.st.dead {
			continue
		}
		if did, _ := rs.st.get(aDID, callT); did {
			continue
		}
		if is, known := init.eval(fa, rs.st); known && !is {
			continue
		}
		return false
	}
	return true
}

func (c *Ctx) ruleSwitchTable() {
	rep := c.rep
	byName := map[string]map[string]string{} // method -> type -> flag
	for _, m := range c.handleMethods() {
		flag, found, prob := c.switchFlag(m.Fn, 0)
		want, listed := switchTable[m.Name]
		pos := c.p.pos(m.Fn.Pos())
		if !found {
			if listed {
				rep.bad("R-SWITCH", m.String(), "flag", pos, "listed as an option switch but does not reach setState")
			}
			continue
		}
		if prob != "" {
			rep.bad("R-SWITCH", m.String(), "flag", pos, prob)
			continue
		}
		if !listed {
			rep.undecided("R-SWITCH", m.String(), "flag", pos, "exported method drives option "+flag+" but is not in the switch table of the checker; add it with the option the documentation names")
			continue
		}
		if flag != want {
			rep.bad("R-SWITCH", m.String(), "flag", pos, fmt.Sprintf("drives option %s, the property says %s", flag, want))
		} else {
			rep.ok("R-SWITCH", m.String(), "flag", pos, "drives option "+flag+" with the state argument forwarded unchanged")
		}
		if byName[m.Name] == nil {
			byName[m.Name] = map[string]string{}
		}
		byName[m.Name][m.Recv] = flag
	}
	// sibling agreement
	var names []string
	for n := range byName {
		names = append(names, n)
	}
	sort.Strings(names)
	for _, n := range names {
		if len(byName[n]) == 2 {
			if byName[n]["Stack"] == byName[n]["Condition"] {
				rep.ok("R-SWITCH", n, "Stack/Condition agree", "?", "both types drive "+byName[n]["Stack"])
			} else {
				rep.bad("R-SWITCH", n, "Stack/Condition agree", "?", fmt.Sprintf("Stack drives %s, Condition drives %s", byName[n]["Stack"], byName[n]["Condition"]))
			}
		}
	}
}

// ---------------------------------------------------------------- R-LATCH

// ruleLatch: every store to nodeConfig.ord outside the constructor happens
// only when the same field was just read as false (FIFO cannot be undone).
func (c *Ctx) ruleLatch() {
	rep := c.rep
	n := 0
	for _, fn := range c.p.Funcs {
		var fa *FnAnalysis
		ord := newOrdinal()
		for _, b := range fn.Blocks {
			for _, in := range b.Instrs {
				st, ok := in.(*ssa.Store)
				if !ok {
					continue
				}
				f, ok := st.Addr.(*ssa.FieldAddr)
				if !ok || fieldName(f) != "nodeConfig.ord" {
					continue
				}
				n++
				construct := ord.next("store nodeConfig.ord")
				pos := c.p.instrPos(in)
				if fa == nil {
					fa = c.eng.analyze(fn, nil)
				}
				// constructor: the object is fresh
				if _, isAlloc := f.X.(*ssa.Alloc); isAlloc {
					rep.ok("R-LATCH", relName(fn), construct, pos, "initialisation of a freshly allocated configuration")
					continue
				}
				ok2 := fa.reachable(in) && fa.allHold(in, func(s *State) bool {
					addr := fa.term(s, st.Addr)
					lt := c.eng.tt.mk(Term{K: "L", A: addr, N: s.epoch})
					v, known := fa.knownTerm(s, aTR, lt)
					return known && !v
				})
				if ok2 {
					rep.ok("R-LATCH", relName(fn), construct, pos, "the store is reached only when the same field was read as false with no write in between")
				} else {
					rep.bad("R-LATCH", relName(fn), construct, pos, "FIFO mode can be overwritten without first observing that it is off: the one-way latch is broken")
				}
			}
		}
	}
	if n == 0 {
		rep.bad("R-LATCH", "package", "anchor", "?", "no store to nodeConfig.ord found")
	}
	// every caller of setFIFO besides SetFIFO?
}

// ---------------------------------------------------------------- value-flow sources

type srcSet map[string]bool

// sources follows a value backwards through pure data operations and
// in-package call results; it returns the set of origins: "param:k",
// "field:T.f" (a load of that field), "const", "ext:<fn>", "elem", "alloc".
func (c *Ctx) sources(fn *ssa.Function, v ssa.Value, depth int, seen map[ssa.Value]bool, out srcSet) {
	if v == nil || seen[v] {
		return
	}
	seen[v] = true
	switch x := v.(type) {
	case *ssa.Parameter:
		for i, p := range fn.Params {
			if p == x {
				out[fmt.Sprintf("param:%d", i)] = true
			}
		}
	case *ssa.Const:
		out["const"] = true
	case *ssa.Global:
		out["global:"+x.Name()] = true
	case *ssa.Alloc:
		out["alloc"] = true
		// stores into the alloc
		if refs := x.Referrers(); refs != nil {
			for _, r := range *refs {
				if st, ok := r.(*ssa.Store); ok && st.Addr == x {
					c.sources(fn, st.Val, depth, seen, out)
				}
			}
		}
	case *ssa.UnOp:
		if x.Op == token.MUL {
			if f, ok := x.X.(*ssa.FieldAddr); ok {
				out["field:"+fieldName(f)] = true
				if _, isAlloc := f.X.(*ssa.Alloc); !isAlloc {
					return
				}
			}
			if _, ok := x.X.(*ssa.IndexAddr); ok {
				out["elem"] = true
			}
			c.sources(fn, x.X, depth, seen, out)
			return
		}
		c.sources(fn, x.X, depth, seen, out)
	case *ssa.FieldAddr:
		c.sources(fn, x.X, depth, seen, out)
	case *ssa.Field:
		if n, ok := x.X.Type().(*types.Named); ok {
			if st, ok := n.Underlying().(*types.Struct); ok {
				out["field:"+n.Obj().Name()+"."+st.Field(x.Field).Name()] = true
			}
		}
		c.sources(fn, x.X, depth, seen, out)
	case *ssa.IndexAddr:
		c.sources(fn, x.X, depth, seen, out)
	case *ssa.Index:
		out["elem"] = true
		c.sources(fn, x.X, depth, seen, out)
	case *ssa.BinOp:
		c.sources(fn, x.X, depth, seen, out)
		c.sources(fn, x.Y, depth, seen, out)
	case *ssa.Phi:
		for _, e := range x.Edges {
			c.sources(fn, e, depth, seen, out)
		}
	case *ssa.Extract:
		if call, ok := x.Tuple.(*ssa.Call); ok {
			c.callSources(fn, call, x.Index, depth, seen, out)
			return
		}
		c.sources(fn, x.Tuple, depth, seen, out)
	case *ssa.Call:
		c.callSources(fn, x, 0, depth, seen, out)
	case *ssa.ChangeType:
		c.sources(fn, x.X, depth, seen, out)
	case *ssa.Convert:
		c.sources(fn, x.X, depth, seen, out)
	case *ssa.ChangeInterface:
		c.sources(fn, x.X, depth, seen, out)
	case *ssa.MakeInterface:
		c.sources(fn, x.X, depth, seen, out)
	case *ssa.TypeAssert:
		c.sources(fn, x.X, depth, seen, out)
	case *ssa.Slice:
		c.sources(fn, x.X, depth, seen, out)
	case *ssa.Lookup:
		out["elem"] = true
		c.sources(fn, x.X, depth, seen, out)
	case *ssa.MakeMap, *ssa.MakeSlice, *ssa.MakeClosure:
		out["alloc"] = true
	case *ssa.Function:
		out["const"] = true
	default:
		out["other"] = true
	}
}

func (c *Ctx) callSources(fn *ssa.Function, call *ssa.Call, idx int, depth int, seen map[ssa.Value]bool, out srcSet) {
	if b, ok := call.Call.Value.(*ssa.Builtin); ok {
		out["builtin:"+b.Name()] = true
		for _, a := range call.Call.Args {
			c.sources(fn, a, depth, seen, out)
		}
		return
	}
	cal := c.p.callee(&call.Call)
	if cal == nil {
		out["user"] = true
		return
	}
	if !c.p.inPkg(cal) {
		out["ext:"+cal.String()] = true
		for _, a := range call.Call.Args {
			c.sources(fn, a, depth, seen, out)
		}
		return
	}
	if depth >= 4 {
		out["deep"] = true
		return
	}
	// sources of the callee's result, with its params mapped to our args
	inner := srcSet{}
	for _, b := range cal.Blocks {
		for _, in := range b.Instrs {
			if ret, ok := in.(*ssa.Return); ok && idx < len(ret.Results) {
				c.sources(cal, ret.Results[idx], depth+1, map[ssa.Value]bool{}, inner)
			}
		}
	}
	for s := range inner {
		if strings.HasPrefix(s, "param:") {
			var k int
			fmt.Sscanf(s, "param:%d", &k)
			if k < len(call.Call.Args) {
				c.sources(fn, call.Call.Args[k], depth, seen, out)
			}
			continue
		}
		out[s] = true
	}
}

func (s srcSet) fields() []string {
	var out []string
	for k := range s {
		if strings.HasPrefix(k, "field:") {
			out = append(out, strings.TrimPrefix(k, "field:"))
		}
	}
	sort.Strings(out)
	return out
}

// ---------------------------------------------------------------- R-PAIR

type pairSpec struct {
	recv, setter, getter, field string
	setterParam                  int // parameter whose value must reach the field
}

func (c *Ctx) rulePair() {
	rep := c.rep
	pairs := []pairSpec{
		{"Stack", "SetID", "ID", "nodeConfig.id", 1},
		{"Stack", "SetCategory", "Category", "nodeConfig.cat", 1},
		{"Stack", "SetDelimiter", "Delimiter", "nodeConfig.ljc", 1},
		{"Stack", "SetAuxiliary", "Auxiliary", "nodeConfig.aux", 1},
		{"Stack", "SetErr", "Err", "nodeConfig.err", 1},
		{"Condition", "SetID", "ID", "nodeConfig.id", 1},
		{"Condition", "SetCategory", "Category", "nodeConfig.cat", 1},
		{"Condition", "SetAuxiliary", "Auxiliary", "nodeConfig.aux", 1},
		{"Condition", "SetErr", "Err", "nodeConfig.err", 1},
		{"Condition", "SetKeyword", "Keyword", "condition.kw", 1},
		{"Condition", "SetOperator", "Operator", "condition.op", 1},
		{"Condition", "SetExpression", "Expression", "condition.ex", 1},
	}
	for _, ps := range pairs {
		set := c.p.ByName[ps.recv+"."+ps.setter]
		get := c.p.ByName[ps.recv+"."+ps.getter]
		key := ps.recv + "." + ps.setter + "/" + ps.getter
		if set == nil || get == nil {
			rep.bad("R-PAIR", key, "anchor", "?", "setter or getter no longer exists")
			continue
		}
		pos := c.p.pos(set.Pos())
		// getter: result derived from exactly this field
		gs := srcSet{}
		for _, b := range get.Blocks {
			for _, in := range b.Instrs {
				if ret, ok := in.(*ssa.Return); ok && len(ret.Results) > 0 {
					c.sources(get, ret.Results[0], 0, map[ssa.Value]bool{}, gs)
				}
			}
		}
		gf := gs.fields()
		hasField := false
		var other []string
		for _, f := range gf {
			if f == ps.field {
				hasField = true
			} else if f != "Stack.stack" && f != "Condition.condition" && f != "condition.cfg" {
				other = append(other, f)
			}
		}
		if !hasField || len(other) > 0 {
			rep.bad("R-PAIR", key, "getter field", c.p.pos(get.Pos()), fmt.Sprintf("getter returns data from %v, the setter's field is %s", gf, ps.field))
		} else {
			rep.ok("R-PAIR", key, "getter field", c.p.pos(get.Pos()), "the result is a load of "+ps.field)
		}
		// setter: some store to the field rooted at the receiver whose value derives from the parameter
		found := false
		derived := false
		for _, fn := range c.reach(set) {
			for _, b := range fn.Blocks {
				for _, in := range b.Instrs {
					st, ok := in.(*ssa.Store)
					if !ok {
						continue
					}
					f, ok := st.Addr.(*ssa.FieldAddr)
					if !ok || fieldName(f) != ps.field {
						continue
					}
					found = true
					ss := srcSet{}
					c.sources(fn, st.Val, 0, map[ssa.Value]bool{}, ss)
					for s := range ss {
						if strings.HasPrefix(s, "param:") && s != "param:0" {
							derived = true
						}
					}
				}
			}
		}
		if ps.field == "nodeConfig.aux" && found && derived {
			if msg := c.auxKeptAsGiven(set); msg != "" {
				rep.bad("R-PAIR", key, "setter field", pos, msg)
				continue
			}
		}
		switch {
		case !found:
			rep.bad("R-PAIR", key, "setter field", pos, "no store to "+ps.field+" is reachable from the setter")
		case !derived:
			rep.bad("R-PAIR", key, "setter field", pos, "the value stored into "+ps.field+" does not derive from the setter's argument")
		default:
			rep.ok("R-PAIR", key, "setter field", pos, "stores a value derived from its argument into "+ps.field)
		}
	}
}

// ---------------------------------------------------------------- R-STOREGUARD (settings)

// typGuard: state says cfg.typ (==|!=) list for the nodeConfig pointer term cfgT.
func (c *Ctx) typIsList(fa *FnAnalysis, s *State, cfgT *Term) (bool, bool) {
	listV, _ := c.p.constVal("list")
	// field index of typ
	nc := c.p.namedType("nodeConfig").Underlying().(*types.Struct)
	idx := -1
	for i := 0; i < nc.NumFields(); i++ {
		if nc.Field(i).Name() == "typ" {
			idx = i
		}
	}
	for _, f := range s.factList() {
		if f.Kind != aTR || f.T.K != "B" || f.T.S != "==" {
			continue
		}
		a, b := f.T.A, f.T.B
		if b.K == "C" {
			a, b = b, a
		}
		if a.K != "C" || a.Const == nil {
			continue
		}
		if v, ok := constInt64(a.Const); !ok || v != listV {
			continue
		}
		if b.K == "L" && b.A.K == "FA" && b.A.N == idx && b.A.A == cfgT && (b.N == s.epoch || c.typImmutable()) {
			return f.Val, true
		}
	}
	return false, false
}

// typImmutable: nodeConfig.typ is stored only into freshly allocated
// configurations (constructors), so a test of it never goes stale.
func (c *Ctx) typImmutable() bool {
	if c.typImm != 0 {
		return c.typImm == 1
	}
	c.typImm = 1
	n := 0
	for _, fn := range c.p.Funcs {
		var fa *FnAnalysis
		for _, b := range fn.Blocks {
			for _, in := range b.Instrs {
				st, ok := in.(*ssa.Store)
				if !ok {
					continue
				}
				f, ok := st.Addr.(*ssa.FieldAddr)
				if !ok || fieldName(f) != "nodeConfig.typ" {
					continue
				}
				n++
				if fa == nil {
					fa = c.eng.analyze(fn, nil)
				}
				fresh := fa.allHold(in, func(s *State) bool {
					t := fa.term(s, f.X)
					if t.K != "V" {
						return false
					}
					_, isAlloc := t.V.(*ssa.Alloc)
					return isAlloc
				})
				if !fresh {
					c.typImm = 2
					c.rep.bad("R-KINDGUARD", relName(fn), "store nodeConfig.typ", c.p.instrPos(in), "the stack kind is overwritten on an existing configuration; kind tests can go stale")
				}
			}
		}
	}
	if n == 0 {
		c.typImm = 2
	}
	return c.typImm == 1
}

func (c *Ctx) ruleSettingsGuards() {
	rep := c.rep
	// ljc: stored only when typ == list
	check := func(field string, wantList bool) {
		n := 0
		for _, fn := range c.p.Funcs {
			var fa *FnAnalysis
			for _, b := range fn.Blocks {
				for _, in := range b.Instrs {
					st, ok := in.(*ssa.Store)
					if !ok {
						continue
					}
					f, ok := st.Addr.(*ssa.FieldAddr)
					if !ok || fieldName(f) != field {
						continue
					}
					n++
					if fa == nil {
						fa = c.eng.analyze(fn, nil)
					}
					pos := c.p.instrPos(in)
					local := fa.reachable(in) && fa.allHold(in, func(s *State) bool {
						v, known := c.typIsList(fa, s, fa.term(s, f.X))
						return known && v == wantList
					})
					if local {
						rep.ok("R-KINDGUARD", relName(fn), "store "+field, pos, fmt.Sprintf("dominated by typ==list being %v on the same configuration", wantList))
						continue
					}
					// the guard may sit in the callers: every in-package call site must establish it
					callers := c.callSitesOf(fn)
					if len(callers) == 0 {
						rep.bad("R-KINDGUARD", relName(fn), "store "+field, pos, "the field is written without testing the stack kind")
						continue
					}
					allOK := true
					var why []string
					for _, cs := range callers {
						cfa := c.eng.analyze(cs.Parent(), nil)
						cc := callCommon(cs)
						if !(cfa.reachable(cs) && cfa.allHold(cs, func(s *State) bool {
							v, known := c.typIsList(cfa, s, cfa.term(s, cc.Args[0]))
							return known && v == wantList
						})) {
							allOK = false
							why = append(why, relName(cs.Parent())+" "+c.p.instrPos(cs))
						}
					}
					if allOK {
						rep.ok("R-KINDGUARD", relName(fn), "store "+field, pos, fmt.Sprintf("every call site establishes typ==list is %v before calling", wantList))
					} else {
						rep.bad("R-KINDGUARD", relName(fn), "store "+field, pos, "reached without the stack-kind test from "+strings.Join(why, ", "))
					}
				}
			}
		}
		if n == 0 {
			rep.bad("R-KINDGUARD", "package", "anchor "+field, "?", "no store to "+field+" found")
		}
	}
	check("nodeConfig.ljc", true)
	check("nodeConfig.sym", false)
	// completeness for the symbol: (*stack).setSymbol reaches the store on every path of a non-LIST
	// stack - also for an empty string, which is how a symbol is removed
	if fn := c.p.ByName["(*stack).setSymbol"]; fn != nil {
		fa := c.eng.analyze(fn, nil)
		listK, _ := c.p.constVal("list")
		stores := c.findCalls(fn, "(*nodeConfig).setSymbol")
		var problems []string
		if len(stores) == 0 {
			problems = append(problems, "the configuration's setSymbol is not called")
		}
		for _, rs := range fa.rets {
			if rs.st.dead {
				continue
			}
			did := false
			for _, sc := range stores {
				if _, d := rs.st.cep[sc]; d {
					did = true
				}
			}
			if did {
				continue
			}
			isList := false
			for _, b := range fn.Blocks {
				for _, in := range b.Instrs {
					bo, ok := in.(*ssa.BinOp)
					if !ok || (bo.Op != token.EQL && bo.Op != token.NEQ) {
						continue
					}
					k, okc := constIntOf(bo.Y)
					if !okc || k != listK {
						continue
					}
					ss := srcSet{}
					c.sources(fn, bo.X, 0, map[ssa.Value]bool{}, ss)
					if !ss["field:nodeConfig.typ"] {
						continue
					}
					if v, known := fa.knownTerm(rs.st, aTR, fa.term(rs.st, bo)); known && v == (bo.Op == token.EQL) {
						isList = true
					}
				}
			}
			if !isList {
				problems = append(problems, "a path leaves the symbol as it was although the stack is not known to be a LIST (an explicit empty string must clear the symbol)")
			}
		}
		if len(problems) == 0 {
			rep.ok("R-KINDGUARD", "(*stack).setSymbol", "stores whenever not LIST", c.p.pos(fn.Pos()), "only a LIST stack keeps its symbol slot untouched")
		} else {
			sort.Strings(problems)
			rep.bad("R-KINDGUARD", "(*stack).setSymbol", "stores whenever not LIST", c.p.pos(fn.Pos()), strings.Join(uniq(problems), "; "))
		}
	}
	// enc: appended only when no duplicate was found
	n := 0
	for _, fn := range c.p.Funcs {
		var fa *FnAnalysis
		ord := newOrdinal()
		for _, b := range fn.Blocks {
			for _, in := range b.Instrs {
				st, ok := in.(*ssa.Store)
				if !ok {
					continue
				}
				f, ok := st.Addr.(*ssa.FieldAddr)
				if !ok || fieldName(f) != "nodeConfig.enc" {
					continue
				}
				// resetting to an empty list is always allowed
				ss := srcSet{}
				c.sources(fn, st.Val, 0, map[ssa.Value]bool{}, ss)
				if !ss["builtin:append"] {
					continue
				}
				n++
				if fa == nil {
					fa = c.eng.analyze(fn, nil)
				}
				construct := ord.next("append nodeConfig.enc")
				pos := c.p.instrPos(in)
				encIdx := c.fieldIndex("nodeConfig", "enc")
				good := fa.reachable(in) && fa.allHold(in, func(s *State) bool {
					for _, fct := range s.factList() {
						// no existing pair at all: the scan loop was not entered (0 < len(r.enc) is false)
						if fct.Kind == aTR && !fct.Val && fct.T.K == "B" && fct.T.S == "<" && fct.T.A.K == "C" && fct.T.A.S == "0" && fct.T.B.K == "LEN" {
							if l := fct.T.B.A; l.K == "L" && l.A.K == "FA" && l.A.N == encIdx {
								return true
							}
						}
						if fct.Kind == aTR && !fct.Val {
							for _, mv := range fct.T.vals {
								// the tested value is the result of strInSlice applied to the existing pairs
								for _, call := range callsBehind(c, mv, "strInSlice") {
									for _, a := range call.Call.Args {
										vs := srcSet{}
										c.sources(fn, a, 0, map[ssa.Value]bool{}, vs)
										if vs["field:nodeConfig.enc"] {
											return true
										}
									}
								}
							}
						}
					}
					return false
				})
				if !good && fa.reachable(in) {
					// the other idiom: leave the function as soon as a duplicate is found - the append is
					// then simply not reachable from the "found" outcome of any duplicate test
					tests := 0
					earlyOK := true
					for _, b2 := range fn.Blocks {
						iff, ok := b2.Instrs[len(b2.Instrs)-1].(*ssa.If)
						if !ok {
							continue
						}
						cond := iff.Cond
						trueSucc := 0
						if no, ok := cond.(*ssa.UnOp); ok && no.Op == token.NOT {
							cond = no.X
							trueSucc = 1
						}
						call, ok := cond.(*ssa.Call)
						if !ok || c.p.callee(&call.Call) == nil || relName(c.p.callee(&call.Call)) != "strInSlice" {
							continue
						}
						tests++
						if c.blockReaches(b2.Succs[trueSucc], in.Block()) {
							earlyOK = false
						}
					}
					// every duplicate test of the function must be such a branch
					if tests > 0 && tests == len(c.findCalls(fn, "strInSlice")) && earlyOK {
						good = true
					}
				}
				if good {
					if msg := c.encScanCoverage(fn, fa, st); msg != "" {
						rep.bad("R-ENCDUP", relName(fn), construct, pos, msg)
						continue
					}
					rep.ok("R-ENCDUP", relName(fn), construct, pos, "the append happens only when the duplicate scan found nothing, and the scan compares every character of the new entry with every existing pair")
				} else {
					rep.bad("R-ENCDUP", relName(fn), construct, pos, "an encapsulation pair can be appended without the duplicate-character test having failed")
				}
			}
		}
	}
	if n == 0 {
		rep.bad("R-ENCDUP", "package", "anchor", "?", "no append to nodeConfig.enc found")
	}
}

// callsBehind: the calls to name whose result reaches v through phis.
func callsBehind(c *Ctx, v ssa.Value, name string) []*ssa.Call {
	var out []*ssa.Call
	seen := map[ssa.Value]bool{}
	var walk func(v ssa.Value)
	walk = func(v ssa.Value) {
		if v == nil || seen[v] {
			return
		}
		seen[v] = true
		switch x := v.(type) {
		case *ssa.Call:
			if cal := c.p.callee(&x.Call); cal != nil && relName(cal) == name {
				out = append(out, x)
			}
		case *ssa.Phi:
			for _, e := range x.Edges {
				walk(e)
			}
		case *ssa.UnOp:
			walk(x.X)
		}
	}
	walk(v)
	return out
}

// hasCallTo: v is (transitively, through phis) the result of a call to name.
func hasCallTo(c *Ctx, fn *ssa.Function, v ssa.Value, name string) bool {
	seen := map[ssa.Value]bool{}
	var walk func(v ssa.Value) bool
	walk = func(v ssa.Value) bool {
		if v == nil || seen[v] {
			return false
		}
		seen[v] = true
		switch x := v.(type) {
		case *ssa.Call:
			if cal := c.p.callee(&x.Call); cal != nil && relName(cal) == name {
				return true
			}
		case *ssa.Phi:
			for _, e := range x.Edges {
				if walk(e) {
					return true
				}
			}
		case *ssa.UnOp:
			return walk(x.X)
		}
		return false
	}
	return walk(v)
}

// callSitesOf returns the in-package static call sites of fn.
func (c *Ctx) callSitesOf(fn *ssa.Function) []ssa.Instruction {
	var out []ssa.Instruction
	for _, g := range c.p.Funcs {
		for _, b := range g.Blocks {
			for _, in := range b.Instrs {
				if cc := callCommon(in); cc != nil && c.p.callee(cc) == fn {
					out = append(out, in)
				}
			}
		}
	}
	return out
}

// ---------------------------------------------------------------- R-LOGLEVEL

func (c *Ctx) ruleLogLevels() {
	rep := c.rep
	// shortcuts: constant stored -> resolved level that must have been tested for
	checkStores := func(name string, op token.Token, shortcuts map[uint64]int64) {
		fn := c.anchor("R-LOGLEVEL", name)
		if fn == nil {
			return
		}
		ord := newOrdinal()
		n := 0
		seenShortcut := map[uint64]bool{}
		defer func() {
			var ks []uint64
			for k := range shortcuts {
				ks = append(ks, k)
			}
			sort.Slice(ks, func(i, j int) bool { return ks[i] < ks[j] })
			for _, k := range ks {
				if !seenShortcut[k] {
					rep.bad("R-LOGLEVEL", name, fmt.Sprintf("shortcut %d", k), c.p.pos(fn.Pos()), fmt.Sprintf("no path sets the level set to %d when the resolved level is %d (the documented none/all shortcut is missing)", k, shortcuts[k]))
				} else {
					rep.ok("R-LOGLEVEL", name, fmt.Sprintf("shortcut %d", k), c.p.pos(fn.Pos()), fmt.Sprintf("the level set becomes %d when the resolved level is %d", k, shortcuts[k]))
				}
			}
		}()
		for _, b := range fn.Blocks {
			for _, in := range b.Instrs {
				st, ok := in.(*ssa.Store)
				if !ok || st.Addr != fn.Params[0] {
					continue
				}
				n++
				construct := ord.next("store *r")
				pos := c.p.instrPos(in)
				if k, isC := st.Val.(*ssa.Const); isC {
					v, _ := constant.Uint64Val(k.Value)
					seenShortcut[v] = true
					if want, isShortcut := shortcuts[v]; isShortcut {
						// the shortcut must be guarded by the matching comparison of the resolved level
						fa := c.eng.analyze(fn, nil)
						// find the dominating `x == want` test whose true edge leads here
						good := false
						for d := b; d != nil; d = d.Idom() {
							idom := d.Idom()
							if idom == nil {
								break
							}
							iff, ok := idom.Instrs[len(idom.Instrs)-1].(*ssa.If)
							if !ok || !idom.Succs[0].Dominates(b) {
								continue
							}
							bo, ok := iff.Cond.(*ssa.BinOp)
							if !ok || bo.Op != token.EQL {
								continue
							}
							kx, okx := constIntOf(bo.X)
							ky, oky := constIntOf(bo.Y)
							if (okx && uint16(kx) == uint16(want)) || (oky && uint16(ky) == uint16(want)) {
								good = fa.allHold(in, func(s *State) bool {
									v, known := fa.knownTerm(s, aTR, fa.term(s, iff.Cond))
									return known && v
								})
								break
							}
						}
						// an argument that names no level at all leaves the resolved level at its zero value:
						// the test "level == 0" alone cannot tell it from NoLogLevels, so the resolution flag
						// must be known true as well
						if good && want == 0 {
							var okPhi *ssa.Phi
							for _, b3 := range fn.Blocks {
								for _, i3 := range b3.Instrs {
									ph, isPhi := i3.(*ssa.Phi)
									if !isPhi {
										continue
									}
									if bt, isB := ph.Type().Underlying().(*types.Basic); !isB || bt.Kind() != types.Bool {
										continue
									}
									for _, e := range ph.Edges {
										if ex, isX := e.(*ssa.Extract); isX {
											if lk, isL := ex.Tuple.(*ssa.Lookup); isL && lk.CommaOk {
												okPhi = ph
											}
										}
									}
								}
							}
							if okPhi == nil {
								good = false
							} else {
								good = fa.allHold(in, func(s *State) bool {
									v, known := c.knownBool(fa, s, okPhi)
									return known && v
								})
							}
							if !good {
								rep.bad("R-LOGLEVEL", name, construct, pos, "the level set is wiped on a path where the argument may not have resolved to any level (an unknown name or unsupported value reads as level 0)")
								continue
							}
						}
						if good {
							rep.ok("R-LOGLEVEL", name, construct, pos, fmt.Sprintf("shortcut store of %d guarded by the resolved level being exactly %d", v, want))
						} else {
							rep.bad("R-LOGLEVEL", name, construct, pos, fmt.Sprintf("the level set is overwritten with %d without the resolved level being exactly %d", v, want))
						}
						continue
					}
					rep.bad("R-LOGLEVEL", name, construct, pos, "the level set is overwritten with a constant")
					continue
				}
				bo, ok := st.Val.(*ssa.BinOp)
				if !ok || bo.Op != op {
					rep.bad("R-LOGLEVEL", name, construct, pos, "the stored value is not *r "+op.String()+" level")
					continue
				}
				ld, ok := bo.X.(*ssa.UnOp)
				if !ok || ld.Op != token.MUL || ld.X != fn.Params[0] {
					rep.bad("R-LOGLEVEL", name, construct, pos, "left operand is not the current level set *r")
					continue
				}
				// right operand: a conversion of the resolved level, dominated by ok==true
				var inner ssa.Value
				switch cv := bo.Y.(type) {
				case *ssa.Convert:
					inner = cv.X
				case *ssa.ChangeType:
					inner = cv.X
				}
				if inner == nil || !c.p.isNamed(inner.Type(), "LogLevel") {
					rep.bad("R-LOGLEVEL", name, construct, pos, "right operand is not the resolved LogLevel")
					continue
				}
				if msg := c.mergeNotSkippable(fn, st); msg != "" {
					rep.bad("R-LOGLEVEL", name, construct, pos, msg)
					continue
				}
				rep.ok("R-LOGLEVEL", name, construct, pos, "merges exactly *r "+op.String()+" logLevels(level); only the loop test, the shortcuts and the resolution flag can bypass it")
			}
		}
		if n == 0 {
			rep.bad("R-LOGLEVEL", name, "anchor", c.p.pos(fn.Pos()), "no store to the level set found")
		}
		// a raw integer becomes a level only when it fits: LogLevel(int) truncates silently
		// (65536 would read as 0 = "none", -1 as 65535 = "all")
		fa := c.eng.analyze(fn, nil)
		tt := c.eng.tt
		ord2 := newOrdinal()
		for _, b := range fn.Blocks {
			for _, in := range b.Instrs {
				cv, ok := in.(*ssa.Convert)
				if !ok || !c.p.isNamed(cv.Type(), "LogLevel") {
					continue
				}
				bt, ok := cv.X.Type().Underlying().(*types.Basic)
				if !ok || bt.Kind() != types.Int {
					continue
				}
				construct := ord2.next("int to LogLevel")
				pos := c.p.instrPos(in)
				good := fa.reachable(in) && fa.allHold(in, func(s *State) bool {
					xt := fa.term(s, cv.X)
					return c.provesFact(fa, s, Fact{aTR, tt.mk(Term{K: "B", S: "<=", A: c.intConst(0), B: xt}), true}, nil) &&
						c.provesFact(fa, s, Fact{aTR, tt.mk(Term{K: "B", S: "<=", A: xt, B: c.intConst(65535)}), true}, nil)
				})
				// ... and every integer in that range is accepted: where the conversion is bypassed
				// although the argument was an int, the int is known to lie outside 0..65535
				if good {
					if ex, ok := cv.X.(*ssa.Extract); ok {
						defB := ex.Block()
						S := cv.Block()
						for d := S.Idom(); d != nil && d != defB.Idom(); d = d.Idom() {
							iff, ok := d.Instrs[len(d.Instrs)-1].(*ssa.If)
							if !ok || !defB.Dominates(d) {
								continue
							}
							// only tests that involve the integer itself
							bo, ok := iff.Cond.(*ssa.BinOp)
							if !ok || (bo.X != cv.X && bo.Y != cv.X) {
								continue
							}
							for j, sc := range d.Succs {
								if c.blockReaches(sc, S) && sc != S && sc.Dominates(S) {
									continue
								}
								if sc == S || sc.Dominates(S) {
									continue
								}
								if j >= len(fa.edgeOut[d]) {
									continue
								}
								for _, s := range fa.edgeOut[d][j] {
									if s.dead {
										continue
									}
									xt := fa.term(s, cv.X)
									out := c.provesFact(fa, s, Fact{aTR, tt.mk(Term{K: "B", S: "<", A: xt, B: c.intConst(0)}), true}, nil) ||
										c.provesFact(fa, s, Fact{aTR, tt.mk(Term{K: "B", S: "<", A: c.intConst(65535), B: xt}), true}, nil)
									if !out {
										good = false
									}
								}
							}
						}
					}
					if !good {
						rep.bad("R-LOGLEVEL", name, construct, pos, "an integer inside 0..65535 can be refused (the range test excludes values that name a level set)")
						continue
					}
				}
				if good {
					rep.ok("R-LOGLEVEL", name, construct, pos, "the integer is converted exactly when it lies in 0..65535")
				} else {
					rep.bad("R-LOGLEVEL", name, construct, pos, "an integer outside 0..65535 is truncated into a level (65536 reads as none, -1 as all)")
				}
			}
		}
	}
	checkStores("(*logLevels).shift", token.OR, map[uint64]int64{0: 0, 65535: 65535})
	checkStores("(*logLevels).unshift", token.AND_NOT, map[uint64]int64{0: 65535})
	// positive: (r & level) != 0
	if fn := c.anchor("R-LOGLEVEL", "logLevels.positive"); fn != nil {
		ok := false
		for _, b := range fn.Blocks {
			for _, in := range b.Instrs {
				if bo, isB := in.(*ssa.BinOp); isB && bo.Op == token.AND {
					if bo.X == fn.Params[0] {
						ok = true
					}
				}
			}
		}
		if ok {
			rep.ok("R-LOGLEVEL", "logLevels.positive", "mask test", c.p.pos(fn.Pos()), "tests r & level")
		} else {
			rep.bad("R-LOGLEVEL", "logLevels.positive", "mask test", c.p.pos(fn.Pos()), "does not test r & level")
		}
	}
	// names <-> constants maps are mutually inverse
	names := c.mapLiteral("logLevelNames")
	byName := c.mapLiteral("logLevelMap")
	if len(names) == 0 || len(byName) == 0 {
		rep.bad("R-LOGLEVEL", "init", "maps", "?", "logLevelNames/logLevelMap initialisers not found")
		return
	}
	bad := 0
	for k, v := range names {
		if byName[v] != k {
			rep.bad("R-LOGLEVEL", "init", "logLevelNames["+k+"]", "?", fmt.Sprintf("logLevelNames[%s]=%s but logLevelMap[%s]=%s", k, v, v, byName[v]))
			bad++
		}
	}
	for k, v := range byName {
		if names[v] != k {
			rep.bad("R-LOGLEVEL", "init", "logLevelMap["+k+"]", "?", fmt.Sprintf("logLevelMap[%s]=%s but logLevelNames[%s]=%s", k, v, v, names[v]))
			bad++
		}
	}
	if bad == 0 {
		rep.ok("R-LOGLEVEL", "init", "maps inverse", "?", fmt.Sprintf("%d names and %d levels are mutually inverse", len(byName), len(names)))
	}
}

// mapLiteral reads the key->value pairs stored into a package-level map by
// the initialiser (constant keys and values only), as strings.
func (c *Ctx) mapLiteral(global string) map[string]string {
	out := map[string]string{}
	for _, fn := range c.p.Funcs {
		if !strings.HasPrefix(fn.Name(), "init") {
			continue
		}
		// find the MakeMap stored into the global
		var mm ssa.Value
		for _, b := range fn.Blocks {
			for _, in := range b.Instrs {
				if st, ok := in.(*ssa.Store); ok {
					if g, ok := st.Addr.(*ssa.Global); ok && g.Name() == global {
						mm = st.Val
					}
				}
			}
		}
		if mm == nil {
			continue
		}
		for _, b := range fn.Blocks {
			for _, in := range b.Instrs {
				if mu, ok := in.(*ssa.MapUpdate); ok && mu.Map == mm {
					k, ok1 := mu.Key.(*ssa.Const)
					v, ok2 := mu.Value.(*ssa.Const)
					if ok1 && ok2 {
						out[constString(k)] = constString(v)
					}
				}
			}
		}
	}
	return out
}

// encScanCoverage: the duplicate scan that guards an append to nodeConfig.enc
// compares every character of the new entry (indices 0..k-1, k being the entry
// length established at the call sites) with every existing pair (indices
// 0..len(enc)-1), and its loops are left only past their bound or once a
// duplicate has been found.  Returns a complaint or "".
func (c *Ctx) encScanCoverage(fn *ssa.Function, fa *FnAnalysis, app *ssa.Store) string {
	tt := c.eng.tt
	// the entry appended: a parameter
	var entry *ssa.Parameter
	if call, ok := app.Val.(*ssa.Call); ok && len(call.Call.Args) == 2 {
		if e := singleVariadicElem(call.Call.Args[1]); e != nil {
			entry, _ = e.(*ssa.Parameter)
		}
	}
	if entry == nil {
		return "the appended entry is not the function's own argument"
	}
	pidx := c.eng.paramIndex(fn, entry)
	// its length, from the call sites
	k := int64(-1)
	sites := c.callSitesOf(fn)
	if len(sites) == 0 {
		return "no call site establishes the length of the new entry"
	}
	for _, site := range sites {
		cc := callCommon(site)
		cfa := c.eng.analyze(site.Parent(), nil)
		args := c.eff.callArgs(cc)
		if pidx >= len(args) {
			return "call site does not pass the entry"
		}
		found := int64(-1)
		for cand := int64(0); cand <= 4; cand++ {
			all := cfa.reachable(site) && cfa.allHold(site, func(s *State) bool {
				at := cfa.term(s, args[pidx])
				return c.provesFact(cfa, s, Fact{aTR, tt.mk(Term{K: "B", S: "==", A: c.intConst(cand), B: tt.mk(Term{K: "LEN", A: at})}), true}, nil)
			})
			if all {
				found = cand
				break
			}
		}
		if found < 0 || (k >= 0 && found != k) {
			return "the length of the new entry is not a fixed number at the call sites of " + relName(fn)
		}
		k = found
	}
	covered := map[int64]bool{}
	isLenEnc := func(v ssa.Value) bool {
		call, ok := v.(*ssa.Call)
		if !ok {
			return false
		}
		bi, ok := call.Call.Value.(*ssa.Builtin)
		if !ok || bi.Name() != "len" {
			return false
		}
		ss := srcSet{}
		c.sources(fn, call.Call.Args[0], 0, map[ssa.Value]bool{}, ss)
		return ss["field:nodeConfig.enc"]
	}
	hdrOf := func(b *ssa.BasicBlock) []*ssa.BasicBlock {
		var hs []*ssa.BasicBlock
		for h, blocks := range fa.loopOf {
			if blocks[b] {
				hs = append(hs, h)
			}
		}
		return hs
	}
	nScan := 0
	for _, call := range c.findCalls(fn, "strInSlice") {
		if len(call.Call.Args) != 2 {
			continue
		}
		// needle: x[idx]
		nl, ok := call.Call.Args[0].(*ssa.UnOp)
		if !ok {
			continue
		}
		nia, ok := nl.X.(*ssa.IndexAddr)
		if !ok || nia.X != ssa.Value(entry) {
			continue
		}
		// haystack: r.enc[u], u running over 0..len(r.enc)-1
		hl, ok := call.Call.Args[1].(*ssa.UnOp)
		if !ok {
			continue
		}
		hia, ok := hl.X.(*ssa.IndexAddr)
		if !ok {
			continue
		}
		hs := srcSet{}
		c.sources(fn, hia.X, 0, map[ssa.Value]bool{}, hs)
		if !hs["field:nodeConfig.enc"] {
			continue
		}
		fullHay := false
		for _, h := range hdrOf(call.Block()) {
			if first, step, ok := c.loopIndex(hia.Index, h); ok && first == 0 && step == 1 && c.loopBoundIs(h, hia.Index, isLenEnc) {
				fullHay = true
			}
		}
		if !fullHay {
			return "a duplicate test does not run over every existing pair (index 0,1,... up to len(enc))"
		}
		nScan++
		if cv, ok := constIntOf(nia.Index); ok {
			covered[cv] = true
			continue
		}
		for _, h := range hdrOf(call.Block()) {
			first, step, ok := c.loopIndex(nia.Index, h)
			if !ok || first != 0 || step != 1 {
				continue
			}
			var bound int64 = -1
			c.loopBoundIs(h, nia.Index, func(v ssa.Value) bool {
				if b, ok := constIntOf(v); ok {
					bound = b
					return true
				}
				if call, ok := v.(*ssa.Call); ok {
					if bi, ok := call.Call.Value.(*ssa.Builtin); ok && bi.Name() == "len" && call.Call.Args[0] == ssa.Value(entry) {
						bound = k
						return true
					}
				}
				return false
			})
			for i := int64(0); i < bound; i++ {
				covered[i] = true
			}
		}
	}
	if nScan == 0 {
		return "no duplicate test of a character of the new entry against the existing pairs"
	}
	for i := int64(0); i < k; i++ {
		if !covered[i] {
			return fmt.Sprintf("character %d of the new entry (of %d) is never compared with the existing pairs: a character already in use would be accepted", i, k)
		}
	}
	// a positive verdict is final: no further comparison is made (its result could overwrite the
	// verdict) on a path on which an earlier comparison has found a duplicate
	for _, call := range c.findCalls(fn, "strInSlice") {
		for _, s := range fa.statesBefore(call) {
			if s.dead {
				continue
			}
			for _, fct := range s.factList() {
				if fct.Kind != aTR || !fct.Val {
					continue
				}
				hit := fct.T.K == "APP" && fct.T.S == "strInSlice"
				for _, mv := range fct.T.vals {
					if len(callsBehind(c, mv, "strInSlice")) > 0 {
						hit = true
					}
				}
				if hit {
					return "the scan goes on after a duplicate was found (" + c.p.instrPos(call) + "): a later comparison can overwrite the positive verdict"
				}
			}
		}
	}
	// loops are left only past their bound or with a duplicate found
	for hdr, blocks := range fa.loopOf {
		iff, _ := hdr.Instrs[len(hdr.Instrs)-1].(*ssa.If)
		for bi, succs := range fa.edgeOut {
			if !blocks[bi] {
				continue
			}
			for j, sb := range bi.Succs {
				if blocks[sb] || j >= len(succs) {
					continue
				}
				for _, s := range succs[j] {
					if s.dead {
						continue
					}
					okExit := false
					if iff != nil && bi == hdr {
						if v, known := fa.knownTerm(s, aTR, fa.term(s, iff.Cond)); known && !v {
							okExit = true
						}
					}
					for _, fct := range s.factList() {
						if fct.Kind == aTR && fct.Val && fct.T.K == "APP" && fct.T.S == "strInSlice" {
							okExit = true
						}
						if fct.Kind == aTR && fct.Val {
							for _, mv := range fct.T.vals {
								if len(callsBehind(c, mv, "strInSlice")) > 0 {
									okExit = true
								}
							}
						}
					}
					if !okExit {
						return fmt.Sprintf("the duplicate scan can be left early (block %d -> %d) with no duplicate found and pairs left to compare", bi.Index, sb.Index)
					}
				}
			}
		}
	}
	return ""
}

// blockReaches: to is reachable from from in the CFG (from itself included).
func (c *Ctx) blockReaches(from, to *ssa.BasicBlock) bool {
	seen := map[*ssa.BasicBlock]bool{}
	var walk func(b *ssa.BasicBlock) bool
	walk = func(b *ssa.BasicBlock) bool {
		if b == to {
			return true
		}
		if seen[b] {
			return false
		}
		seen[b] = true
		for _, s := range b.Succs {
			if walk(s) {
				return true
			}
		}
		return false
	}
	return walk(from)
}

// auxKeptAsGiven: the auxiliary map handed to SetAuxiliary is the map the
// getter will return: a store of anything else (a fresh map) into
// nodeConfig.aux happens only where no argument was given or the argument is
// known to be nil.  An empty but non-nil map is the caller's map all the same.
func (c *Ctx) auxKeptAsGiven(set *ssa.Function) string {
	tt := c.eng.tt
	for _, fn := range c.reach(set) {
		var fa *FnAnalysis
		for _, b := range fn.Blocks {
			for _, in := range b.Instrs {
				st, ok := in.(*ssa.Store)
				if !ok {
					continue
				}
				f, ok := st.Addr.(*ssa.FieldAddr)
				if !ok || fieldName(f) != "nodeConfig.aux" {
					continue
				}
				// the variadic parameter of this function
				var vp *ssa.Parameter
				for _, p := range fn.Params {
					if sl, ok := p.Type().Underlying().(*types.Slice); ok && c.p.isNamed(sl.Elem(), "Auxiliary") {
						vp = p
					}
				}
				if vp == nil {
					continue
				}
				if fa == nil {
					fa = c.eng.analyze(fn, nil)
				}
				pt := fa.term(nil, vp)
				for _, s := range fa.statesBefore(in) {
					vt := fa.term(s, st.Val)
					// the argument itself: a load of aux[0]
					if vt.K == "L" && vt.A != nil && vt.A.K == "IA" && vt.A.A == pt {
						continue
					}
					noArg := c.provesFact(fa, s, Fact{aTR, tt.mk(Term{K: "B", S: "==", A: c.intConst(0), B: tt.mk(Term{K: "LEN", A: pt})}), true}, nil)
					nilArg := false
					for _, b2 := range fn.Blocks {
						for _, i2 := range b2.Instrs {
							if u, ok := i2.(*ssa.UnOp); ok && u.Op == token.MUL {
								if ia, ok := u.X.(*ssa.IndexAddr); ok && ia.X == ssa.Value(vp) {
									if v, known := fa.nonNil(s, u); known && !v {
										nilArg = true
									}
								}
							}
						}
					}
					if !noArg && !nilArg {
						return "a map other than the caller's is stored at " + c.p.instrPos(in) + " although an argument was given and is not known to be nil: a non-nil (possibly empty) map must be kept as given, or the getter returns a different map"
					}
				}
			}
		}
	}
	return ""
}

// mergeNotSkippable: in shift/unshift the merge store is bypassed only by the
// loop test, the shortcut tests on the resolved level and the resolution flag
// itself - no other condition (e.g. "some bit already set") may skip it.
func (c *Ctx) mergeNotSkippable(fn *ssa.Function, merge *ssa.Store) string {
	S := merge.Block()
	fa := c.eng.analyze(fn, nil)
	reaches := func(from *ssa.BasicBlock) bool {
		// S reachable from `from` without passing a loop header (i.e. within this iteration)
		seen := map[*ssa.BasicBlock]bool{}
		var walk func(b *ssa.BasicBlock) bool
		walk = func(b *ssa.BasicBlock) bool {
			if b == S {
				return true
			}
			if seen[b] {
				return false
			}
			seen[b] = true
			if _, isHdr := fa.loopOf[b]; isHdr {
				return false
			}
			for _, s := range b.Succs {
				if walk(s) {
					return true
				}
			}
			return false
		}
		return walk(from)
	}
	for d := S.Idom(); d != nil; d = d.Idom() {
		iff, ok := d.Instrs[len(d.Instrs)-1].(*ssa.If)
		if !ok {
			continue
		}
		bypass := false
		for _, sc := range d.Succs {
			if !reaches(sc) {
				bypass = true
			}
		}
		if !bypass {
			continue
		}
		if _, isHdr := fa.loopOf[d]; isHdr {
			continue // the loop test
		}
		cond := iff.Cond
		if no, ok := cond.(*ssa.UnOp); ok && no.Op == token.NOT {
			cond = no.X
		}
		if bo, ok := cond.(*ssa.BinOp); ok && (bo.Op == token.EQL || bo.Op == token.NEQ) {
			if _, okc := constIntOf(bo.X); okc {
				continue // shortcut test on the resolved level
			}
			if _, okc := constIntOf(bo.Y); okc {
				continue
			}
		}
		if ph, ok := cond.(*ssa.Phi); ok {
			// the resolution flag: a bool phi fed by a comma-ok map lookup / constants
			isOK := false
			for _, e := range ph.Edges {
				if ex, ok := e.(*ssa.Extract); ok {
					if lk, ok := ex.Tuple.(*ssa.Lookup); ok && lk.CommaOk {
						isOK = true
					}
				}
			}
			if isOK {
				continue
			}
		}
		// a type-switch arm (TypeAssert commaok extract) belongs to the resolution
		if ex, ok := cond.(*ssa.Extract); ok {
			if _, ok := ex.Tuple.(*ssa.TypeAssert); ok {
				continue
			}
		}
		return "the merge at " + c.p.instrPos(merge) + " can be skipped by the test at " + c.p.instrPos(iff) + ", which is neither the loop test, a none/all shortcut nor the resolution flag: a level that resolved may not be merged"
	}
	return ""
}
