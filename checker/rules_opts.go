package main

import (
	"fmt"
	"go/constant"
	"go/token"
	"go/types"
	"sort"
	"strings"

	"golang.org/x/tools/go/ssa"
)

// ---------------------------------------------------------------- R-FLAGS(b,c): public switches

// switchTable: the option each public switch drives, from the property's
// wording (method name -> flag constant).  Deprecated aliases forward.
var switchTable = map[string]string{
	"SetParen": "parens", "Paren": "parens",
	"SetFold": "cfold", "Fold": "cfold",
	"SetNoPadding": "nspad", "NoPadding": "nspad",
	"SetLeadOnce": "lonce", "LeadOnce": "lonce",
	"SetNegativeIndices": "negidx", "NegativeIndices": "negidx",
	"SetForwardIndices": "fwdidx", "ForwardIndices": "fwdidx",
	"SetNoNesting": "nnest", "NoNesting": "nnest",
	"SetReadOnly": "ronly", "ReadOnly": "ronly",
}

func (c *Ctx) flagName(v int64) string {
	scope := c.p.Types.Scope()
	for _, name := range scope.Names() {
		if k, ok := scope.Lookup(name).(*types.Const); ok && c.p.isNamed(k.Type(), "cfgFlag") {
			if x, ok := constInt64(k.Val()); ok && x == v {
				return name
			}
		}
	}
	return fmt.Sprintf("cfgFlag(%d)", v)
}

// switchFlag resolves which flag a method passes to setState, following a
// forwarding alias (return r.SetX(state...)).
func (c *Ctx) switchFlag(fn *ssa.Function, depth int) (flag string, found bool, problem string) {
	var flags []string
	for _, b := range fn.Blocks {
		for _, in := range b.Instrs {
			call, ok := in.(*ssa.Call)
			if !ok {
				continue
			}
			cal := c.p.callee(&call.Call)
			if cal == nil {
				continue
			}
			rn := relName(cal)
			if rn == "Stack.setState" || rn == "Condition.setState" {
				if len(call.Call.Args) < 3 {
					return "", true, "setState call with unexpected arity"
				}
				v, ok := constIntOf(call.Call.Args[1])
				if !ok {
					return "", true, "setState is called with a non-constant flag"
				}
				// the variadic state must be forwarded unchanged
				if p, ok := call.Call.Args[2].(*ssa.Parameter); !ok || p != fn.Params[len(fn.Params)-1] {
					return "", true, "the state argument is not forwarded unchanged to setState"
				}
				flags = append(flags, c.flagName(v))
			} else if depth < 2 && c.p.inPkg(cal) && cal.Signature.Recv() != nil && len(call.Call.Args) == len(fn.Params) && len(fn.Params) == 2 {
				// forwarding alias: same receiver, same variadic parameter
				if f, ok, prob := c.switchFlag(cal, depth+1); ok {
					if prob != "" {
						return "", true, prob
					}
					if p, isP := call.Call.Args[1].(*ssa.Parameter); !isP || p != fn.Params[1] {
						return "", true, "alias does not forward its state argument unchanged"
					}
					flags = append(flags, f)
				}
			}
		}
	}
	if len(flags) == 0 {
		return "", false, ""
	}
	if len(flags) > 1 {
		return "", true, "drives several flags: " + strings.Join(flags, ",")
	}
	return flags[0], true, ""
}

func (c *Ctx) ruleSwitchTable() {
	rep := c.rep
	byName := map[string]map[string]string{} // method -> type -> flag
	for _, m := range c.handleMethods() {
		flag, found, prob := c.switchFlag(m.Fn, 0)
		want, listed := switchTable[m.Name]
		pos := c.p.pos(m.Fn.Pos())
		if !found {
			if listed {
				rep.bad("R-SWITCH", m.String(), "flag", pos, "listed as an option switch but does not reach setState")
			}
			continue
		}
		if prob != "" {
			rep.bad("R-SWITCH", m.String(), "flag", pos, prob)
			continue
		}
		if !listed {
			rep.undecided("R-SWITCH", m.String(), "flag", pos, "exported method drives option "+flag+" but is not in the switch table of the checker; add it with the option the documentation names")
			continue
		}
		if flag != want {
			rep.bad("R-SWITCH", m.String(), "flag", pos, fmt.Sprintf("drives option %s, the property says %s", flag, want))
		} else {
			rep.ok("R-SWITCH", m.String(), "flag", pos, "drives option "+flag+" with the state argument forwarded unchanged")
		}
		if byName[m.Name] == nil {
			byName[m.Name] = map[string]string{}
		}
		byName[m.Name][m.Recv] = flag
	}
	// sibling agreement
	var names []string
	for n := range byName {
		names = append(names, n)
	}
	sort.Strings(names)
	for _, n := range names {
		if len(byName[n]) == 2 {
			if byName[n]["Stack"] == byName[n]["Condition"] {
				rep.ok("R-SWITCH", n, "Stack/Condition agree", "?", "both types drive "+byName[n]["Stack"])
			} else {
				rep.bad("R-SWITCH", n, "Stack/Condition agree", "?", fmt.Sprintf("Stack drives %s, Condition drives %s", byName[n]["Stack"], byName[n]["Condition"]))
			}
		}
	}
}

// ---------------------------------------------------------------- R-LATCH

// ruleLatch: every store to nodeConfig.ord outside the constructor happens
// only when the same field was just read as false (FIFO cannot be undone).
func (c *Ctx) ruleLatch() {
	rep := c.rep
	n := 0
	for _, fn := range c.p.Funcs {
		var fa *FnAnalysis
		ord := newOrdinal()
		for _, b := range fn.Blocks {
			for _, in := range b.Instrs {
				st, ok := in.(*ssa.Store)
				if !ok {
					continue
				}
				f, ok := st.Addr.(*ssa.FieldAddr)
				if !ok || fieldName(f) != "nodeConfig.ord" {
					continue
				}
				n++
				construct := ord.next("store nodeConfig.ord")
				pos := c.p.instrPos(in)
				if fa == nil {
					fa = c.eng.analyze(fn, nil)
				}
				// constructor: the object is fresh
				if _, isAlloc := f.X.(*ssa.Alloc); isAlloc {
					rep.ok("R-LATCH", relName(fn), construct, pos, "initialisation of a freshly allocated configuration")
					continue
				}
				ok2 := fa.reachable(in) && fa.allHold(in, func(s *State) bool {
					addr := fa.term(s, st.Addr)
					lt := c.eng.tt.mk(Term{K: "L", A: addr, N: s.epoch})
					v, known := fa.knownTerm(s, aTR, lt)
					return known && !v
				})
				if ok2 {
					rep.ok("R-LATCH", relName(fn), construct, pos, "the store is reached only when the same field was read as false with no write in between")
				} else {
					rep.bad("R-LATCH", relName(fn), construct, pos, "FIFO mode can be overwritten without first observing that it is off: the one-way latch is broken")
				}
			}
		}
	}
	if n == 0 {
		rep.bad("R-LATCH", "package", "anchor", "?", "no store to nodeConfig.ord found")
	}
	// every caller of setFIFO besides SetFIFO?
}

// ---------------------------------------------------------------- value-flow sources

type srcSet map[string]bool

// sources follows a value backwards through pure data operations and
// in-package call results; it returns the set of origins: "param:k",
// "field:T.f" (a load of that field), "const", "ext:<fn>", "elem", "alloc".
func (c *Ctx) sources(fn *ssa.Function, v ssa.Value, depth int, seen map[ssa.Value]bool, out srcSet) {
	if v == nil || seen[v] {
		return
	}
	seen[v] = true
	switch x := v.(type) {
	case *ssa.Parameter:
		for i, p := range fn.Params {
			if p == x {
				out[fmt.Sprintf("param:%d", i)] = true
			}
		}
	case *ssa.Const:
		out["const"] = true
	case *ssa.Global:
		out["global:"+x.Name()] = true
	case *ssa.Alloc:
		out["alloc"] = true
		// stores into the alloc
		if refs := x.Referrers(); refs != nil {
			for _, r := range *refs {
				if st, ok := r.(*ssa.Store); ok && st.Addr == x {
					c.sources(fn, st.Val, depth, seen, out)
				}
			}
		}
	case *ssa.UnOp:
		if x.Op == token.MUL {
			if f, ok := x.X.(*ssa.FieldAddr); ok {
				out["field:"+fieldName(f)] = true
				if _, isAlloc := f.X.(*ssa.Alloc); !isAlloc {
					return
				}
			}
			if _, ok := x.X.(*ssa.IndexAddr); ok {
				out["elem"] = true
			}
			c.sources(fn, x.X, depth, seen, out)
			return
		}
		c.sources(fn, x.X, depth, seen, out)
	case *ssa.FieldAddr:
		c.sources(fn, x.X, depth, seen, out)
	case *ssa.Field:
		if n, ok := x.X.Type().(*types.Named); ok {
			if st, ok := n.Underlying().(*types.Struct); ok {
				out["field:"+n.Obj().Name()+"."+st.Field(x.Field).Name()] = true
			}
		}
		c.sources(fn, x.X, depth, seen, out)
	case *ssa.IndexAddr:
		c.sources(fn, x.X, depth, seen, out)
	case *ssa.Index:
		out["elem"] = true
		c.sources(fn, x.X, depth, seen, out)
	case *ssa.BinOp:
		c.sources(fn, x.X, depth, seen, out)
		c.sources(fn, x.Y, depth, seen, out)
	case *ssa.Phi:
		for _, e := range x.Edges {
			c.sources(fn, e, depth, seen, out)
		}
	case *ssa.Extract:
		if call, ok := x.Tuple.(*ssa.Call); ok {
			c.callSources(fn, call, x.Index, depth, seen, out)
			return
		}
		c.sources(fn, x.Tuple, depth, seen, out)
	case *ssa.Call:
		c.callSources(fn, x, 0, depth, seen, out)
	case *ssa.ChangeType:
		c.sources(fn, x.X, depth, seen, out)
	case *ssa.Convert:
		c.sources(fn, x.X, depth, seen, out)
	case *ssa.ChangeInterface:
		c.sources(fn, x.X, depth, seen, out)
	case *ssa.MakeInterface:
		c.sources(fn, x.X, depth, seen, out)
	case *ssa.TypeAssert:
		c.sources(fn, x.X, depth, seen, out)
	case *ssa.Slice:
		c.sources(fn, x.X, depth, seen, out)
	case *ssa.Lookup:
		out["elem"] = true
		c.sources(fn, x.X, depth, seen, out)
	case *ssa.MakeMap, *ssa.MakeSlice, *ssa.MakeClosure:
		out["alloc"] = true
	case *ssa.Function:
		out["const"] = true
	default:
		out["other"] = true
	}
}

func (c *Ctx) callSources(fn *ssa.Function, call *ssa.Call, idx int, depth int, seen map[ssa.Value]bool, out srcSet) {
	if b, ok := call.Call.Value.(*ssa.Builtin); ok {
		out["builtin:"+b.Name()] = true
		for _, a := range call.Call.Args {
			c.sources(fn, a, depth, seen, out)
		}
		return
	}
	cal := c.p.callee(&call.Call)
	if cal == nil {
		out["user"] = true
		return
	}
	if !c.p.inPkg(cal) {
		out["ext:"+cal.String()] = true
		for _, a := range call.Call.Args {
			c.sources(fn, a, depth, seen, out)
		}
		return
	}
	if depth >= 4 {
		out["deep"] = true
		return
	}
	// sources of the callee's result, with its params mapped to our args
	inner := srcSet{}
	for _, b := range cal.Blocks {
		for _, in := range b.Instrs {
			if ret, ok := in.(*ssa.Return); ok && idx < len(ret.Results) {
				c.sources(cal, ret.Results[idx], depth+1, map[ssa.Value]bool{}, inner)
			}
		}
	}
	for s := range inner {
		if strings.HasPrefix(s, "param:") {
			var k int
			fmt.Sscanf(s, "param:%d", &k)
			if k < len(call.Call.Args) {
				c.sources(fn, call.Call.Args[k], depth, seen, out)
			}
			continue
		}
		out[s] = true
	}
}

func (s srcSet) fields() []string {
	var out []string
	for k := range s {
		if strings.HasPrefix(k, "field:") {
			out = append(out, strings.TrimPrefix(k, "field:"))
		}
	}
	sort.Strings(out)
	return out
}

// ---------------------------------------------------------------- R-PAIR

type pairSpec struct {
	recv, setter, getter, field string
	setterParam                  int // parameter whose value must reach the field
}

func (c *Ctx) rulePair() {
	rep := c.rep
	pairs := []pairSpec{
		{"Stack", "SetID", "ID", "nodeConfig.id", 1},
		{"Stack", "SetCategory", "Category", "nodeConfig.cat", 1},
		{"Stack", "SetDelimiter", "Delimiter", "nodeConfig.ljc", 1},
		{"Stack", "SetAuxiliary", "Auxiliary", "nodeConfig.aux", 1},
		{"Stack", "SetErr", "Err", "nodeConfig.err", 1},
		{"Condition", "SetID", "ID", "nodeConfig.id", 1},
		{"Condition", "SetCategory", "Category", "nodeConfig.cat", 1},
		{"Condition", "SetAuxiliary", "Auxiliary", "nodeConfig.aux", 1},
		{"Condition", "SetErr", "Err", "nodeConfig.err", 1},
		{"Condition", "SetKeyword", "Keyword", "condition.kw", 1},
		{"Condition", "SetOperator", "Operator", "condition.op", 1},
		{"Condition", "SetExpression", "Expression", "condition.ex", 1},
	}
	for _, ps := range pairs {
		set := c.p.ByName[ps.recv+"."+ps.setter]
		get := c.p.ByName[ps.recv+"."+ps.getter]
		key := ps.recv + "." + ps.setter + "/" + ps.getter
		if set == nil || get == nil {
			rep.bad("R-PAIR", key, "anchor", "?", "setter or getter no longer exists")
			continue
		}
		pos := c.p.pos(set.Pos())
		// getter: result derived from exactly this field
		gs := srcSet{}
		for _, b := range get.Blocks {
			for _, in := range b.Instrs {
				if ret, ok := in.(*ssa.Return); ok && len(ret.Results) > 0 {
					c.sources(get, ret.Results[0], 0, map[ssa.Value]bool{}, gs)
				}
			}
		}
		gf := gs.fields()
		hasField := false
		var other []string
		for _, f := range gf {
			if f == ps.field {
				hasField = true
			} else if f != "Stack.stack" && f != "Condition.condition" && f != "condition.cfg" {
				other = append(other, f)
			}
		}
		if !hasField || len(other) > 0 {
			rep.bad("R-PAIR", key, "getter field", c.p.pos(get.Pos()), fmt.Sprintf("getter returns data from %v, the setter's field is %s", gf, ps.field))
		} else {
			rep.ok("R-PAIR", key, "getter field", c.p.pos(get.Pos()), "the result is a load of "+ps.field)
		}
		// setter: some store to the field rooted at the receiver whose value derives from the parameter
		found := false
		derived := false
		for _, fn := range c.reach(set) {
			for _, b := range fn.Blocks {
				for _, in := range b.Instrs {
					st, ok := in.(*ssa.Store)
					if !ok {
						continue
					}
					f, ok := st.Addr.(*ssa.FieldAddr)
					if !ok || fieldName(f) != ps.field {
						continue
					}
					found = true
					ss := srcSet{}
					c.sources(fn, st.Val, 0, map[ssa.Value]bool{}, ss)
					for s := range ss {
						if strings.HasPrefix(s, "param:") && s != "param:0" {
							derived = true
						}
					}
				}
			}
		}
		switch {
		case !found:
			rep.bad("R-PAIR", key, "setter field", pos, "no store to "+ps.field+" is reachable from the setter")
		case !derived:
			rep.bad("R-PAIR", key, "setter field", pos, "the value stored into "+ps.field+" does not derive from the setter's argument")
		default:
			rep.ok("R-PAIR", key, "setter field", pos, "stores a value derived from its argument into "+ps.field)
		}
	}
}

// ---------------------------------------------------------------- R-STOREGUARD (settings)

// typGuard: state says cfg.typ (==|!=) list for the nodeConfig pointer term cfgT.
func (c *Ctx) typIsList(fa *FnAnalysis, s *State, cfgT *Term) (bool, bool) {
	listV, _ := c.p.constVal("list")
	// field index of typ
	nc := c.p.namedType("nodeConfig").Underlying().(*types.Struct)
	idx := -1
	for i := 0; i < nc.NumFields(); i++ {
		if nc.Field(i).Name() == "typ" {
			idx = i
		}
	}
	for _, f := range s.factList() {
		if f.Kind != aTR || f.T.K != "B" || f.T.S != "==" {
			continue
		}
		a, b := f.T.A, f.T.B
		if b.K == "C" {
			a, b = b, a
		}
		if a.K != "C" || a.Const == nil {
			continue
		}
		if v, ok := constInt64(a.Const); !ok || v != listV {
			continue
		}
		if b.K == "L" && b.A.K == "FA" && b.A.N == idx && b.A.A == cfgT && (b.N == s.epoch || c.typImmutable()) {
			return f.Val, true
		}
	}
	return false, false
}

// typImmutable: nodeConfig.typ is stored only into freshly allocated
// configurations (constructors), so a test of it never goes stale.
func (c *Ctx) typImmutable() bool {
	if c.typImm != 0 {
		return c.typImm == 1
	}
	c.typImm = 1
	n := 0
	for _, fn := range c.p.Funcs {
		var fa *FnAnalysis
		for _, b := range fn.Blocks {
			for _, in := range b.Instrs {
				st, ok := in.(*ssa.Store)
				if !ok {
					continue
				}
				f, ok := st.Addr.(*ssa.FieldAddr)
				if !ok || fieldName(f) != "nodeConfig.typ" {
					continue
				}
				n++
				if fa == nil {
					fa = c.eng.analyze(fn, nil)
				}
				fresh := fa.allHold(in, func(s *State) bool {
					t := fa.term(s, f.X)
					if t.K != "V" {
						return false
					}
					_, isAlloc := t.V.(*ssa.Alloc)
					return isAlloc
				})
				if !fresh {
					c.typImm = 2
					c.rep.bad("R-KINDGUARD", relName(fn), "store nodeConfig.typ", c.p.instrPos(in), "the stack kind is overwritten on an existing configuration; kind tests can go stale")
				}
			}
		}
	}
	if n == 0 {
		c.typImm = 2
	}
	return c.typImm == 1
}

func (c *Ctx) ruleSettingsGuards() {
	rep := c.rep
	// ljc: stored only when typ == list
	check := func(field string, wantList bool) {
		n := 0
		for _, fn := range c.p.Funcs {
			var fa *FnAnalysis
			for _, b := range fn.Blocks {
				for _, in := range b.Instrs {
					st, ok := in.(*ssa.Store)
					if !ok {
						continue
					}
					f, ok := st.Addr.(*ssa.FieldAddr)
					if !ok || fieldName(f) != field {
						continue
					}
					n++
					if fa == nil {
						fa = c.eng.analyze(fn, nil)
					}
					pos := c.p.instrPos(in)
					local := fa.reachable(in) && fa.allHold(in, func(s *State) bool {
						v, known := c.typIsList(fa, s, fa.term(s, f.X))
						return known && v == wantList
					})
					if local {
						rep.ok("R-KINDGUARD", relName(fn), "store "+field, pos, fmt.Sprintf("dominated by typ==list being %v on the same configuration", wantList))
						continue
					}
					// the guard may sit in the callers: every in-package call site must establish it
					callers := c.callSitesOf(fn)
					if len(callers) == 0 {
						rep.bad("R-KINDGUARD", relName(fn), "store "+field, pos, "the field is written without testing the stack kind")
						continue
					}
					allOK := true
					var why []string
					for _, cs := range callers {
						cfa := c.eng.analyze(cs.Parent(), nil)
						cc := callCommon(cs)
						if !(cfa.reachable(cs) && cfa.allHold(cs, func(s *State) bool {
							v, known := c.typIsList(cfa, s, cfa.term(s, cc.Args[0]))
							return known && v == wantList
						})) {
							allOK = false
							why = append(why, relName(cs.Parent())+" "+c.p.instrPos(cs))
						}
					}
					if allOK {
						rep.ok("R-KINDGUARD", relName(fn), "store "+field, pos, fmt.Sprintf("every call site establishes typ==list is %v before calling", wantList))
					} else {
						rep.bad("R-KINDGUARD", relName(fn), "store "+field, pos, "reached without the stack-kind test from "+strings.Join(why, ", "))
					}
				}
			}
		}
		if n == 0 {
			rep.bad("R-KINDGUARD", "package", "anchor "+field, "?", "no store to "+field+" found")
		}
	}
	check("nodeConfig.ljc", true)
	check("nodeConfig.sym", false)
	// enc: appended only when no duplicate was found
	n := 0
	for _, fn := range c.p.Funcs {
		var fa *FnAnalysis
		ord := newOrdinal()
		for _, b := range fn.Blocks {
			for _, in := range b.Instrs {
				st, ok := in.(*ssa.Store)
				if !ok {
					continue
				}
				f, ok := st.Addr.(*ssa.FieldAddr)
				if !ok || fieldName(f) != "nodeConfig.enc" {
					continue
				}
				// resetting to an empty list is always allowed
				ss := srcSet{}
				c.sources(fn, st.Val, 0, map[ssa.Value]bool{}, ss)
				if !ss["builtin:append"] {
					continue
				}
				n++
				if fa == nil {
					fa = c.eng.analyze(fn, nil)
				}
				construct := ord.next("append nodeConfig.enc")
				pos := c.p.instrPos(in)
				encIdx := c.fieldIndex("nodeConfig", "enc")
				good := fa.reachable(in) && fa.allHold(in, func(s *State) bool {
					for _, fct := range s.factList() {
						// no existing pair at all: the scan loop was not entered (0 < len(r.enc) is false)
						if fct.Kind == aTR && !fct.Val && fct.T.K == "B" && fct.T.S == "<" && fct.T.A.K == "C" && fct.T.A.S == "0" && fct.T.B.K == "LEN" {
							if l := fct.T.B.A; l.K == "L" && l.A.K == "FA" && l.A.N == encIdx {
								return true
							}
						}
						if fct.Kind == aTR && !fct.Val {
							for _, mv := range fct.T.vals {
								// the tested value is the result of strInSlice applied to the existing pairs
								for _, call := range callsBehind(c, mv, "strInSlice") {
									for _, a := range call.Call.Args {
										vs := srcSet{}
										c.sources(fn, a, 0, map[ssa.Value]bool{}, vs)
										if vs["field:nodeConfig.enc"] {
											return true
										}
									}
								}
							}
						}
					}
					return false
				})
				if good {
					rep.ok("R-ENCDUP", relName(fn), construct, pos, "the append happens only when the duplicate scan (strInSlice over the existing pairs) found nothing")
				} else {
					rep.bad("R-ENCDUP", relName(fn), construct, pos, "an encapsulation pair can be appended without the duplicate-character test having failed")
				}
			}
		}
	}
	if n == 0 {
		rep.bad("R-ENCDUP", "package", "anchor", "?", "no append to nodeConfig.enc found")
	}
}

// callsBehind: the calls to name whose result reaches v through phis.
func callsBehind(c *Ctx, v ssa.Value, name string) []*ssa.Call {
	var out []*ssa.Call
	seen := map[ssa.Value]bool{}
	var walk func(v ssa.Value)
	walk = func(v ssa.Value) {
		if v == nil || seen[v] {
			return
		}
		seen[v] = true
		switch x := v.(type) {
		case *ssa.Call:
			if cal := c.p.callee(&x.Call); cal != nil && relName(cal) == name {
				out = append(out, x)
			}
		case *ssa.Phi:
			for _, e := range x.Edges {
				walk(e)
			}
		case *ssa.UnOp:
			walk(x.X)
		}
	}
	walk(v)
	return out
}

// hasCallTo: v is (transitively, through phis) the result of a call to name.
func hasCallTo(c *Ctx, fn *ssa.Function, v ssa.Value, name string) bool {
	seen := map[ssa.Value]bool{}
	var walk func(v ssa.Value) bool
	walk = func(v ssa.Value) bool {
		if v == nil || seen[v] {
			return false
		}
		seen[v] = true
		switch x := v.(type) {
		case *ssa.Call:
			if cal := c.p.callee(&x.Call); cal != nil && relName(cal) == name {
				return true
			}
		case *ssa.Phi:
			for _, e := range x.Edges {
				if walk(e) {
					return true
				}
			}
		case *ssa.UnOp:
			return walk(x.X)
		}
		return false
	}
	return walk(v)
}

// callSitesOf returns the in-package static call sites of fn.
func (c *Ctx) callSitesOf(fn *ssa.Function) []ssa.Instruction {
	var out []ssa.Instruction
	for _, g := range c.p.Funcs {
		for _, b := range g.Blocks {
			for _, in := range b.Instrs {
				if cc := callCommon(in); cc != nil && c.p.callee(cc) == fn {
					out = append(out, in)
				}
			}
		}
	}
	return out
}

// ---------------------------------------------------------------- R-LOGLEVEL

func (c *Ctx) ruleLogLevels() {
	rep := c.rep
	checkStores := func(name string, op token.Token, allowConsts bool) {
		fn := c.anchor("R-LOGLEVEL", name)
		if fn == nil {
			return
		}
		ord := newOrdinal()
		n := 0
		for _, b := range fn.Blocks {
			for _, in := range b.Instrs {
				st, ok := in.(*ssa.Store)
				if !ok || st.Addr != fn.Params[0] {
					continue
				}
				n++
				construct := ord.next("store *r")
				pos := c.p.instrPos(in)
				if k, isC := st.Val.(*ssa.Const); isC {
					v, _ := constant.Uint64Val(k.Value)
					if allowConsts && (v == 0 || v == 65535) {
						// the shortcut must be guarded by the matching comparison of the resolved level
						fa := c.eng.analyze(fn, nil)
						want := int64(v)
						// find the dominating `x == want` test whose true edge leads here
						good := false
						for d := b; d != nil; d = d.Idom() {
							idom := d.Idom()
							if idom == nil {
								break
							}
							iff, ok := idom.Instrs[len(idom.Instrs)-1].(*ssa.If)
							if !ok || !idom.Succs[0].Dominates(b) {
								continue
							}
							bo, ok := iff.Cond.(*ssa.BinOp)
							if !ok || bo.Op != token.EQL {
								continue
							}
							kx, okx := constIntOf(bo.X)
							ky, oky := constIntOf(bo.Y)
							if (okx && uint16(kx) == uint16(want)) || (oky && uint16(ky) == uint16(want)) {
								good = fa.allHold(in, func(s *State) bool {
									v, known := fa.knownTerm(s, aTR, fa.term(s, iff.Cond))
									return known && v
								})
								break
							}
						}
						if good {
							rep.ok("R-LOGLEVEL", name, construct, pos, fmt.Sprintf("shortcut store of %d guarded by the level being exactly %d", v, v))
						} else {
							rep.bad("R-LOGLEVEL", name, construct, pos, fmt.Sprintf("the level set is overwritten with %d without the resolved level being exactly that shortcut", v))
						}
						continue
					}
					rep.bad("R-LOGLEVEL", name, construct, pos, "the level set is overwritten with a constant")
					continue
				}
				bo, ok := st.Val.(*ssa.BinOp)
				if !ok || bo.Op != op {
					rep.bad("R-LOGLEVEL", name, construct, pos, "the stored value is not *r "+op.String()+" level")
					continue
				}
				ld, ok := bo.X.(*ssa.UnOp)
				if !ok || ld.Op != token.MUL || ld.X != fn.Params[0] {
					rep.bad("R-LOGLEVEL", name, construct, pos, "left operand is not the current level set *r")
					continue
				}
				// right operand: a conversion of the resolved level, dominated by ok==true
				var inner ssa.Value
				switch cv := bo.Y.(type) {
				case *ssa.Convert:
					inner = cv.X
				case *ssa.ChangeType:
					inner = cv.X
				}
				if inner == nil || !c.p.isNamed(inner.Type(), "LogLevel") {
					rep.bad("R-LOGLEVEL", name, construct, pos, "right operand is not the resolved LogLevel")
					continue
				}
				rep.ok("R-LOGLEVEL", name, construct, pos, "merges exactly *r "+op.String()+" logLevels(level)")
			}
		}
		if n == 0 {
			rep.bad("R-LOGLEVEL", name, "anchor", c.p.pos(fn.Pos()), "no store to the level set found")
		}
	}
	checkStores("(*logLevels).shift", token.OR, true)
	checkStores("(*logLevels).unshift", token.AND_NOT, false)
	// positive: (r & level) != 0
	if fn := c.anchor("R-LOGLEVEL", "logLevels.positive"); fn != nil {
		ok := false
		for _, b := range fn.Blocks {
			for _, in := range b.Instrs {
				if bo, isB := in.(*ssa.BinOp); isB && bo.Op == token.AND {
					if bo.X == fn.Params[0] {
						ok = true
					}
				}
			}
		}
		if ok {
			rep.ok("R-LOGLEVEL", "logLevels.positive", "mask test", c.p.pos(fn.Pos()), "tests r & level")
		} else {
			rep.bad("R-LOGLEVEL", "logLevels.positive", "mask test", c.p.pos(fn.Pos()), "does not test r & level")
		}
	}
	// names <-> constants maps are mutually inverse
	names := c.mapLiteral("logLevelNames")
	byName := c.mapLiteral("logLevelMap")
	if len(names) == 0 || len(byName) == 0 {
		rep.bad("R-LOGLEVEL", "init", "maps", "?", "logLevelNames/logLevelMap initialisers not found")
		return
	}
	bad := 0
	for k, v := range names {
		if byName[v] != k {
			rep.bad("R-LOGLEVEL", "init", "logLevelNames["+k+"]", "?", fmt.Sprintf("logLevelNames[%s]=%s but logLevelMap[%s]=%s", k, v, v, byName[v]))
			bad++
		}
	}
	for k, v := range byName {
		if names[v] != k {
			rep.bad("R-LOGLEVEL", "init", "logLevelMap["+k+"]", "?", fmt.Sprintf("logLevelMap[%s]=%s but logLevelNames[%s]=%s", k, v, v, names[v]))
			bad++
		}
	}
	if bad == 0 {
		rep.ok("R-LOGLEVEL", "init", "maps inverse", "?", fmt.Sprintf("%d names and %d levels are mutually inverse", len(byName), len(names)))
	}
}

// mapLiteral reads the key->value pairs stored into a package-level map by
// the initialiser (constant keys and values only), as strings.
func (c *Ctx) mapLiteral(global string) map[string]string {
	out := map[string]string{}
	for _, fn := range c.p.Funcs {
		if !strings.HasPrefix(fn.Name(), "init") {
			continue
		}
		// find the MakeMap stored into the global
		var mm ssa.Value
		for _, b := range fn.Blocks {
			for _, in := range b.Instrs {
				if st, ok := in.(*ssa.Store); ok {
					if g, ok := st.Addr.(*ssa.Global); ok && g.Name() == global {
						mm = st.Val
					}
				}
			}
		}
		if mm == nil {
			continue
		}
		for _, b := range fn.Blocks {
			for _, in := range b.Instrs {
				if mu, ok := in.(*ssa.MapUpdate); ok && mu.Map == mm {
					k, ok1 := mu.Key.(*ssa.Const)
					v, ok2 := mu.Value.(*ssa.Const)
					if ok1 && ok2 {
						out[constString(k)] = constString(v)
					}
				}
			}
		}
	}
	return out
}
