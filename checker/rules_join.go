package main

import (
	"fmt"
	"go/constant"
	"go/token"
	"go/types"
	"sort"
	"strings"

	"golang.org/x/tools/go/ssa"
)

// ---------------------------------------------------------------- R-STR JOIN
//
// A small symbolic evaluator for string-valued SSA: a value is a sequence of
// pieces, each a literal or an opaque term.  It knows string constants,
// concatenation, path-bound phis and padValue (whose table is checked by the
// same evaluator on padValue's own body).

type strPiece struct {
	lit  string
	term *Term // nil for a literal
}

func piecesString(ps []strPiece) string {
	var sb strings.Builder
	for _, p := range ps {
		if p.term != nil {
			sb.WriteString("<" + p.term.key + ">")
		} else {
			sb.WriteString(fmt.Sprintf("%q", p.lit))
		}
	}
	return sb.String()
}

// normPieces merges adjacent literals and drops empty ones.
func normPieces(ps []strPiece) []strPiece {
	var out []strPiece
	for _, p := range ps {
		if p.term == nil {
			if p.lit == "" {
				continue
			}
			if n := len(out); n > 0 && out[n-1].term == nil {
				out[n-1].lit += p.lit
				continue
			}
		}
		out = append(out, p)
	}
	return out
}

func (c *Ctx) strEval(fa *FnAnalysis, st *State, v ssa.Value, depth int) ([]strPiece, bool) {
	if depth > 12 {
		return nil, false
	}
	if k, ok := v.(*ssa.Const); ok {
		if k.Value != nil && k.Value.Kind() == constant.String {
			return []strPiece{{lit: constant.StringVal(k.Value)}}, true
		}
		return nil, false
	}
	if t := fa.term(st, v); t != nil && t.K == "C" && t.Const != nil && t.Const.Kind() == constant.String {
		return []strPiece{{lit: constant.StringVal(t.Const)}}, true
	}
	switch x := v.(type) {
	case *ssa.Parameter:
		return []strPiece{{term: fa.term(st, x)}}, true
	case *ssa.Extract:
		// one result of a call: an opaque string
		if bt, ok := x.Type().Underlying().(*types.Basic); ok && bt.Kind() == types.String {
			return []strPiece{{term: fa.term(st, x)}}, true
		}
		return nil, false
	case *ssa.BinOp:
		if x.Op != token.ADD {
			return nil, false
		}
		a, ok1 := c.strEval(fa, st, x.X, depth+1)
		b, ok2 := c.strEval(fa, st, x.Y, depth+1)
		if !ok1 || !ok2 {
			return nil, false
		}
		return normPieces(append(append([]strPiece{}, a...), b...)), true
	case *ssa.Phi:
		if st == nil {
			return nil, false
		}
		if w, ok := st.bind[x]; ok && w != nil && w != ssa.Value(x) {
			return c.strEval(fa, st, w, depth+1)
		}
		return nil, false
	case *ssa.Call:
		cal := c.p.callee(&x.Call)
		if cal != nil && relName(cal) == "padValue" && len(x.Call.Args) == 2 {
			val, ok := c.strEval(fa, st, x.Call.Args[1], depth+1)
			if !ok {
				return nil, false
			}
			val = normPieces(val)
			if len(val) == 0 {
				return nil, true // padValue(_, "") == ""
			}
			do, known := fa.knownTerm(st, aTR, fa.term(st, x.Call.Args[0]))
			if bv, isC := isBoolConst(x.Call.Args[0]); isC {
				do, known = bv, true
			}
			if !known {
				return nil, false
			}
			// the value may still be empty at run time (an opaque term): padValue then yields ""
			// rather than two blanks; callers treat blank-only differences after condensation
			if do {
				return normPieces(append(append([]strPiece{{lit: " "}}, val...), strPiece{lit: " "})), true
			}
			return val, true
		}
		// an opaque string-valued call: a term of its own
		if bt, ok := x.Type().Underlying().(*types.Basic); ok && bt.Kind() == types.String {
			return []strPiece{{term: fa.term(st, x)}}, true
		}
	}
	return nil, false
}

// rulePadValueTable: padValue(do, v) is "" for an empty v, else pad+v+pad
// with pad a single blank exactly when do.
func (c *Ctx) rulePadValueTable() bool {
	rep := c.rep
	fn := c.anchor("R-STR", "padValue")
	if fn == nil {
		return false
	}
	pos := c.p.pos(fn.Pos())
	tt := c.eng.tt
	var problems []string
	rows := 0
	for _, do := range []bool{true, false} {
		fa := c.eng.analyze(fn, []Fact{{aTR, tt.mk(Term{K: "P", N: 0, S: fn.Params[0].Name()}), do}})
		empty := tt.mk(Term{K: "B", S: "==", A: c.intConst(0), B: tt.mk(Term{K: "LEN", A: tt.mk(Term{K: "P", N: 1, S: fn.Params[1].Name()})})})
		for _, rs := range fa.rets {
			if rs.st.dead {
				continue
			}
			rows++
			ps, ok := c.strEval(fa, rs.st, rs.ret.Results[0], 0)
			if !ok {
				problems = append(problems, "a result cannot be evaluated")
				continue
			}
			ps = normPieces(ps)
			if c.provesFact(fa, rs.st, Fact{aTR, empty, true}, nil) {
				if len(ps) != 0 {
					problems = append(problems, "an empty value does not yield the empty string: "+piecesString(ps))
				}
				continue
			}
			want := "<P(1)>"
			if do {
				want = `" "<P(1)>" "`
			}
			if got := piecesString(ps); got != want {
				problems = append(problems, fmt.Sprintf("do=%v yields %s, expected %s", do, got, want))
			}
		}
	}
	if rows < 4 {
		problems = append(problems, fmt.Sprintf("only %d result rows could be enumerated", rows))
	}
	if len(problems) == 0 {
		rep.ok("R-STR", "padValue", "JOIN: table", pos, "\"\" for an empty value, otherwise the value between two single blanks exactly when asked to pad")
		return true
	}
	sort.Strings(problems)
	rep.bad("R-STR", "padValue", "JOIN: table", pos, strings.Join(uniq(problems), "; "))
	return false
}

// ruleStrJoin: the separator handed to join in assembleStringStack, per path:
// word operator -> blank(s) word blank(s); symbol -> the bare symbol under
// no-padding and blank(s) symbol blank(s) otherwise; LIST -> the delimiter
// when one is set, otherwise nothing but blanks.
func (c *Ctx) ruleStrJoin() {
	rep := c.rep
	if !c.rulePadValueTable() {
		return
	}
	fn := c.anchor("R-STR", "stack.assembleStringStack")
	if fn == nil {
		return
	}
	nspad, ok := c.p.constVal("nspad")
	listK, ok2 := c.p.constVal("list")
	if !ok || !ok2 {
		rep.bad("R-STR", relName(fn), "JOIN: constants", c.p.pos(fn.Pos()), "constants nspad / list no longer resolve")
		return
	}
	fa := c.eng.analyze(fn, nil)
	tt := c.eng.tt
	// the joins
	var joins []*ssa.Call
	for _, b := range fn.Blocks {
		for _, in := range b.Instrs {
			call, ok := in.(*ssa.Call)
			if !ok || len(call.Call.Args) != 2 {
				continue
			}
			isJoin := false
			if ld, ok := call.Call.Value.(*ssa.UnOp); ok && ld.Op == token.MUL {
				if g, ok := ld.X.(*ssa.Global); ok && g.Name() == "join" {
					isJoin = true
				}
			}
			if cal := c.p.callee(&call.Call); cal != nil && (cal.String() == "strings.Join" || relName(cal) == "join") {
				isJoin = true
			}
			if isJoin {
				joins = append(joins, call)
			}
		}
	}
	if len(joins) == 0 {
		rep.bad("R-STR", relName(fn), "JOIN: sites", c.p.pos(fn.Pos()), "no join of the element renderings found")
		return
	}
	symCalls := c.findCalls(fn, "stack.getSymbol", "(*stack).getSymbol")
	delimCalls := c.findCalls(fn, "stack.getListDelimiter", "(*stack).getListDelimiter")
	posCalls := c.findCalls(fn, "stack.positive")
	known := func(st *State, t *Term) (bool, bool) {
		if v, k := fa.knownTerm(st, aTR, t); k {
			return v, true
		}
		if c.provesFact(fa, st, Fact{aTR, t, true}, nil) {
			return true, true
		}
		if c.provesFact(fa, st, Fact{aTR, t, false}, nil) {
			return false, true
		}
		return false, false
	}
	nonEmpty := func(st *State, calls []*ssa.Call) (*Term, bool, bool) {
		for _, sc := range calls {
			t := fa.term(st, sc)
			if v, k := c.strEmptiness(fa, st, t); k {
				return t, v, true
			}
		}
		return nil, false, false
	}
	blanksOnly := func(s string) bool { return strings.Trim(s, " ") == "" }
	// shape: blanks? X blanks?  -> (left, right, ok)
	around := func(ps []strPiece, x *Term) (string, string, bool) {
		var l, r string
		i := 0
		if i < len(ps) && ps[i].term == nil {
			l = ps[i].lit
			i++
		}
		if i >= len(ps) || ps[i].term != x {
			return "", "", false
		}
		i++
		if i < len(ps) && ps[i].term == nil {
			r = ps[i].lit
			i++
		}
		return l, r, i == len(ps) && blanksOnly(l) && blanksOnly(r)
	}
	otTerm := tt.mk(Term{K: "P", N: 2, S: fn.Params[2].Name()})
	ord := newOrdinal()
	rows := map[string]int{}
	for _, j := range joins {
		construct := ord.next("JOIN: separator")
		pos := c.p.instrPos(j)
		var problems []string
		states := fa.statesBefore(j)
		if len(states) == 0 {
			problems = append(problems, "unreachable join")
		}
		// a padding decision not yet taken on a path is split into its two outcomes
		for _, b := range fn.Blocks {
			for _, in := range b.Instrs {
				pc, ok := in.(*ssa.Call)
				if !ok || len(pc.Call.Args) != 2 || !b.Dominates(j.Block()) {
					continue
				}
				if cal := c.p.callee(&pc.Call); cal == nil || relName(cal) != "padValue" {
					continue
				}
				if _, isC := isBoolConst(pc.Call.Args[0]); isC {
					continue
				}
				var next []*State
				for _, st := range states {
					if _, k := fa.knownTerm(st, aTR, fa.term(st, pc.Call.Args[0])); k {
						next = append(next, st)
						continue
					}
					for _, pol := range []bool{true, false} {
						s2 := st.clone()
						fa.assumeVal(s2, pc.Call.Args[0], pol)
						if !s2.dead {
							next = append(next, s2)
						}
					}
				}
				states = next
			}
		}
		for _, st := range states {
			ps, ok := c.strEval(fa, st, j.Call.Args[1], 0)
			if !ok {
				problems = append(problems, "the separator cannot be evaluated on some path")
				continue
			}
			ps = normPieces(ps)
			isList, kl := known(st, tt.mk(Term{K: "B", S: "==", A: tt.mk(Term{K: "P", N: 3, S: fn.Params[3].Name()}), B: c.intConst(listK)}))
			if !kl {
				problems = append(problems, "the kind (LIST or not) is not decided where the separator is built")
				continue
			}
			if isList {
				dt, ne, k := nonEmpty(st, delimCalls)
				switch {
				case !k:
					problems = append(problems, "LIST: whether a delimiter is set is not decided")
				case ne:
					rows["list+delimiter"]++
					if !(len(ps) == 1 && ps[0].term == dt) {
						problems = append(problems, "LIST with a delimiter: the separator is "+piecesString(ps)+", not the delimiter")
					}
				default:
					rows["list"]++
					for _, p := range ps {
						if p.term != nil || !blanksOnly(p.lit) {
							problems = append(problems, "LIST without a delimiter: the separator is "+piecesString(ps))
						}
					}
				}
				continue
			}
			_, symSet, ks := nonEmpty(st, symCalls)
			if !ks {
				problems = append(problems, "whether a symbol is set is not decided where the separator is built")
				continue
			}
			l, r, shape := around(ps, otTerm)
			if !shape {
				problems = append(problems, "the separator is "+piecesString(ps)+", not the operator between blanks")
				continue
			}
			if !symSet {
				rows["word"]++
				if l == "" || r == "" {
					problems = append(problems, "word operator: the separator "+piecesString(ps)+" lacks a blank on one side")
				}
				continue
			}
			np, kn := false, false
			for _, pc := range posCalls {
				if len(pc.Call.Args) == 2 && isConstInt(pc.Call.Args[1], nspad) {
					if v, k := known(st, fa.term(st, pc)); k {
						np, kn = v, true
					}
				}
			}
			switch {
			case !kn:
				problems = append(problems, "symbol: the no-padding option is not decided where the separator is built")
			case np:
				rows["symbol+nopad"]++
				if l != "" || r != "" {
					problems = append(problems, "symbol under no-padding: the separator "+piecesString(ps)+" carries blanks")
				}
			default:
				rows["symbol"]++
				if l == "" || r == "" {
					problems = append(problems, "symbol with padding: the separator "+piecesString(ps)+" lacks a blank on one side")
				}
			}
		}
		if len(problems) == 0 {
			rep.ok("R-STR", relName(fn), construct, pos, "on every path the separator is the one the option combination prescribes")
		} else {
			sort.Strings(problems)
			rep.bad("R-STR", relName(fn), construct, pos, strings.Join(uniq(problems), "; "))
		}
	}
	var missing []string
	for _, r := range []string{"word", "symbol", "symbol+nopad", "list+delimiter", "list"} {
		if rows[r] == 0 {
			missing = append(missing, r)
		}
	}
	if len(missing) == 0 {
		rep.ok("R-STR", relName(fn), "JOIN: rows", c.p.pos(fn.Pos()), "word, symbol, symbol+no-padding, LIST with and without delimiter each reach a join")
	} else {
		rep.bad("R-STR", relName(fn), "JOIN: rows", c.p.pos(fn.Pos()), "option combinations that reach no join: "+strings.Join(missing, ", "))
	}
}

// ruleStrLeadOnce: in lead-once mode the operator is written ahead of the
// element renderings; it is written only where at least one rendering exists,
// so an empty stack contributes no dangling operator.
func (c *Ctx) ruleStrLeadOnce() {
	rep := c.rep
	fn := c.anchor("R-STR", "stack.assembleStringStack")
	if fn == nil {
		return
	}
	fa := c.eng.analyze(fn, nil)
	tt := c.eng.tt
	some := tt.mk(Term{K: "B", S: "<", A: c.intConst(0), B: tt.mk(Term{K: "LEN", A: tt.mk(Term{K: "P", N: 1, S: fn.Params[1].Name()})})})
	n := 0
	ord := newOrdinal()
	for _, b := range fn.Blocks {
		for _, in := range b.Instrs {
			call, ok := in.(*ssa.Call)
			if !ok {
				continue
			}
			cal := c.p.callee(&call.Call)
			if cal == nil || cal.String() != "(*strings.Builder).WriteString" || len(call.Call.Args) != 2 {
				continue
			}
			ps, ok := c.strEval(fa, nil, call.Call.Args[1], 0)
			mentionsOp := false
			if ok {
				for _, p := range ps {
					if p.term != nil && p.term.K == "P" && p.term.N == 2 {
						mentionsOp = true
					}
				}
			}
			if !mentionsOp {
				continue
			}
			n++
			construct := ord.next("LEADONCE: operator prefix")
			pos := c.p.instrPos(in)
			if fa.reachable(in) && fa.allHold(in, func(s *State) bool { return c.provesFact(fa, s, Fact{aTR, some, true}, nil) }) {
				rep.ok("R-STR", relName(fn), construct, pos, "the leading operator is written only when at least one element rendering follows")
			} else {
				rep.bad("R-STR", relName(fn), construct, pos, "the leading operator is written even when no element rendering follows: an empty stack in lead-once mode would contribute a dangling operator")
			}
		}
	}
	if n == 0 {
		rep.bad("R-STR", relName(fn), "LEADONCE: operator prefix", c.p.pos(fn.Pos()), "no write of the leading operator found")
	}
}

// strEmptiness: what the path knows about a string term being empty, under any
// spelling of the test (len(s) > 0, len(s) == 0, len(s) != 0, s == "", s != "").
func (c *Ctx) strEmptiness(fa *FnAnalysis, st *State, t *Term) (nonEmpty bool, known bool) {
	tt := c.eng.tt
	lenT := tt.mk(Term{K: "LEN", A: t})
	if v, k := fa.knownTerm(st, aTR, tt.mk(Term{K: "B", S: "<", A: c.intConst(0), B: lenT})); k {
		return v, true
	}
	if v, k := fa.knownTerm(st, aTR, tt.mk(Term{K: "B", S: "==", A: c.intConst(0), B: lenT})); k {
		return !v, true
	}
	empty := tt.mk(Term{K: "C", S: `""`, Const: constant.MakeString("")})
	if v, k := fa.knownTerm(st, aTR, tt.mk(Term{K: "B", S: "==", A: t, B: empty})); k {
		return !v, true
	}
	if c.provesFact(fa, st, Fact{aTR, tt.mk(Term{K: "B", S: "<", A: c.intConst(0), B: lenT}), true}, nil) {
		return true, true
	}
	if c.provesFact(fa, st, Fact{aTR, tt.mk(Term{K: "B", S: "==", A: c.intConst(0), B: lenT}), true}, nil) {
		return false, true
	}
	return false, false
}

// ruleStrOperatorPad: the operator text stack.string hands to the assembler is
// padded exactly when padding is on and no symbol is set; in every other
// combination it is the bare operator text typ() returned.
func (c *Ctx) ruleStrOperatorPad() {
	rep := c.rep
	fn := c.anchor("R-STR", "(*stack).string")
	if fn == nil {
		return
	}
	nspad, ok := c.p.constVal("nspad")
	if !ok {
		return
	}
	fa := c.eng.analyze(fn, nil)
	pos := c.p.pos(fn.Pos())
	calls := c.findCalls(fn, "stack.assembleStringStack", "(*stack).assembleStringStack")
	if len(calls) != 1 || len(calls[0].Call.Args) < 3 {
		rep.bad("R-STR", relName(fn), "OPERATOR: padding", pos, "expected one hand-over to the assembler")
		return
	}
	ac := calls[0]
	otArg := ac.Call.Args[2]
	typCalls := c.findCalls(fn, "stack.typ", "(*stack).typ")
	symCalls := c.findCalls(fn, "stack.getSymbol", "(*stack).getSymbol")
	posCalls := c.findCalls(fn, "stack.positive")
	states := fa.statesBefore(ac)
	// split undecided padding decisions
	for _, b := range fn.Blocks {
		for _, in := range b.Instrs {
			pc, ok := in.(*ssa.Call)
			if !ok || len(pc.Call.Args) != 2 || !b.Dominates(ac.Block()) {
				continue
			}
			if cal := c.p.callee(&pc.Call); cal == nil || relName(cal) != "padValue" {
				continue
			}
			var next []*State
			for _, st := range states {
				if _, k := fa.knownTerm(st, aTR, fa.term(st, pc.Call.Args[0])); k {
					next = append(next, st)
					continue
				}
				for _, pol := range []bool{true, false} {
					s2 := st.clone()
					fa.assumeVal(s2, pc.Call.Args[0], pol)
					if !s2.dead {
						next = append(next, s2)
					}
				}
			}
			states = next
		}
	}
	var problems []string
	rows := map[string]int{}
	for _, st := range states {
		ps, ok := c.strEval(fa, st, otArg, 0)
		if !ok {
			problems = append(problems, "the operator text handed to the assembler cannot be evaluated on some path")
			continue
		}
		ps = normPieces(ps)
		var opT *Term
		for _, tc := range typCalls {
			opT = fa.callResultTerm(st, tc, 0)
		}
		np, kn := false, false
		for _, pc := range posCalls {
			if len(pc.Call.Args) == 2 && isConstInt(pc.Call.Args[1], nspad) {
				if v, k := fa.knownTerm(st, aTR, fa.term(st, pc)); k {
					np, kn = v, true
				}
			}
		}
		symSet, ks := false, false
		for _, sc := range symCalls {
			if v, k := c.strEmptiness(fa, st, fa.term(st, sc)); k {
				symSet, ks = v, true
			}
		}
		// shape: blanks? op blanks?
		l, r, okShape := "", "", false
		{
			i := 0
			if i < len(ps) && ps[i].term == nil {
				l = ps[i].lit
				i++
			}
			if i < len(ps) && ps[i].term != nil && (opT == nil || ps[i].term == opT) {
				i++
				if i < len(ps) && ps[i].term == nil {
					r = ps[i].lit
					i++
				}
				okShape = i == len(ps) && strings.Trim(l, " ") == "" && strings.Trim(r, " ") == ""
			}
		}
		if !okShape {
			problems = append(problems, "the operator handed to the assembler is "+piecesString(ps)+", not typ()'s text between optional blanks")
			continue
		}
		padded := l != "" && r != ""
		bare := l == "" && r == ""
		switch {
		case kn && np: // no-padding
			rows["nopad"]++
			if !bare {
				problems = append(problems, "under no-padding the operator is handed over with blanks: "+piecesString(ps))
			}
		case ks && symSet:
			rows["symbol"]++
			if !bare {
				problems = append(problems, "a symbol operator is handed over with blanks of its own (the join adds them): "+piecesString(ps))
			}
		case kn && ks && !np && !symSet:
			rows["word"]++
			if !padded {
				problems = append(problems, "a word operator with padding on is handed over without blanks: "+piecesString(ps))
			}
		default:
			problems = append(problems, "padding option or symbol not decided where the operator text is prepared")
		}
	}
	for _, r := range []string{"nopad", "symbol", "word"} {
		if rows[r] == 0 {
			problems = append(problems, "no path for the case '"+r+"'")
		}
	}
	if len(problems) == 0 {
		rep.ok("R-STR", relName(fn), "OPERATOR: padding", pos, "typ()'s text reaches the assembler padded exactly when padding is on and no symbol is set")
	} else {
		sort.Strings(problems)
		rep.bad("R-STR", relName(fn), "OPERATOR: padding", pos, strings.Join(uniq(problems), "; "))
	}
}

// ruleStrFloatWidth: a floating-point (or complex) leaf is formatted at its
// own width: strconv.FormatFloat(float64(x), .., 32) for a float32 x, .., 64
// for a float64 (FormatComplex: 64 / 128).  Formatting a float32 at 64 bits
// prints digits the value never had (0.1 -> 0.10000000149011612).
func (c *Ctx) ruleStrFloatWidth() {
	rep := c.rep
	n := 0
	for _, fn := range c.p.Funcs {
		ord := newOrdinal()
		for _, b := range fn.Blocks {
			for _, in := range b.Instrs {
				call, ok := in.(*ssa.Call)
				if !ok {
					continue
				}
				cal := c.p.callee(&call.Call)
				if cal == nil || (cal.String() != "strconv.FormatFloat" && cal.String() != "strconv.FormatComplex") || len(call.Call.Args) != 4 {
					continue
				}
				n++
				construct := ord.next("width of " + cal.Name())
				pos := c.p.instrPos(in)
				bits, okB := constIntOf(call.Call.Args[3])
				// the operand's own type: the source of a widening conversion, else the operand type
				v := call.Call.Args[0]
				if cv, ok := v.(*ssa.Convert); ok {
					v = cv.X
				}
				want := int64(-1)
				if bt, ok := v.Type().Underlying().(*types.Basic); ok {
					switch bt.Kind() {
					case types.Float32:
						want = 32
					case types.Float64:
						want = 64
					case types.Complex64:
						want = 64
					case types.Complex128:
						want = 128
					}
				}
				// a value that comes out of reflection (Value.Float / Value.Complex) has lost its width
				if vc, ok := v.(*ssa.Call); ok {
					if cc := c.p.callee(&vc.Call); cc != nil && strings.HasPrefix(cc.String(), "(reflect.Value).") {
						want = -1
					}
				}
				if okB && want > 0 && bits == want {
					rep.ok("R-STR", relName(fn), construct, pos, fmt.Sprintf("a %d-bit operand is formatted at %d bits", want, bits))
				} else {
					rep.bad("R-STR", relName(fn), construct, pos, "the bit size handed to the formatter is not the width of the operand's own type: a float32 printed at 64 bits shows digits it never had")
				}
			}
		}
	}
	if n == 0 {
		rep.bad("R-STR", "package", "width of FormatFloat", "?", "no floating-point formatting found")
	}
}
