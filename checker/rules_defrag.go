package main

import (
	"fmt"
	"go/token"
	"sort"
	"strings"

	"golang.org/x/tools/go/ssa"
)

// ---------------------------------------------------------------- R-DEFRAG (C19, narrow)
//
// Necessary conditions only; the core of C19 (the result holds exactly the
// former non-nil elements and Len equals their count) is NOT decided.
//
//  MOVE    implode only moves: the one slot it fills receives a value loaded from
//          another slot of the same header, the vacated slot receives nil, and
//          nothing else is stored - no value is fabricated;
//  SCAN    implode's loop is left only when the scan limit is reached or the
//          slot about to be examined lies beyond the content (linear entailment
//          at every exit), so the last slot is examined too;
//  GAP     defrag calls implode, records an error and truncates only on paths
//          where a gap was found below the scan limit: a stack without nil
//          elements is left untouched;
//  ERR     the error recorded is verifyImplode's own verdict, and the header is
//          truncated only when that verdict is nil;
//  NEST    Stack.Defrag consults IsNesting on every path on which the receiver
//          itself was defragmented, visits elements 0..Len-1 in order, and hands
//          nested Stacks - direct or as a Condition's expression, through both
//          converters - the same scan limit;
//  MAX     calculateDefragMax returns a positive limit (50 unless a positive one is given).

func (c *Ctx) ruleDefrag() {
	rep := c.rep
	tt := c.eng.tt

	// ---- MOVE + SCAN
	if fn := c.anchor("R-DEFRAG", "(*stack).implode"); fn != nil {
		fa := c.eng.analyze(fn, nil)
		sv := c.stackValues(fn)
		pos := c.p.pos(fn.Pos())
		var problems []string
		stores := c.headerElemStores(fn)
		var hdrStores []elemStore
		for _, es := range stores {
			if ia := es.st.Addr.(*ssa.IndexAddr); c.p.isNamed(ia.X.Type(), "stack") {
				if _, isLoad := ia.X.(*ssa.UnOp); isLoad {
					hdrStores = append(hdrStores, es)
				}
			}
		}
		if len(hdrStores) != 2 {
			problems = append(problems, fmt.Sprintf("%d element stores through the header, expected two (fill the gap, vacate the source)", len(hdrStores)))
		} else {
			var fill, vac *elemStore
			for i := range hdrStores {
				if isNilConst(hdrStores[i].st.Val) {
					vac = &hdrStores[i]
				} else {
					fill = &hdrStores[i]
				}
			}
			if fill == nil || vac == nil {
				problems = append(problems, "the two stores are not 'move a value' and 'clear a slot'")
			} else {
				for _, s := range fa.statesBefore(fill.st) {
					if c.stateInfeasible(fa, s, sv) {
						continue
					}
					vt := fa.term(s, fill.st.Val)
					h := fa.term(s, fill.st.Addr.(*ssa.IndexAddr).X)
					if !(vt.K == "L" && vt.A != nil && vt.A.K == "IA" && vt.A.A == h) {
						problems = append(problems, "the gap is filled with something other than a slot of the same stack: "+vt.key)
						continue
					}
					// the slot vacated is the one the value came from
					if vi := fa.term(s, vac.idx); !c.eqInt(fa, s, vt.A.B, vi, sv) {
						problems = append(problems, "the slot cleared is not the slot the value was moved from (an element would be duplicated or lost)")
					}
					// forward move: source index = destination index + (a count known to be >= 0)
					okFwd := false
					di := fa.term(s, fill.idx) // start+1
					si := vt.A.B               // (start+ct)+1
					if di.K == "B" && di.S == "+" && si.K == "B" && si.S == "+" && di.B == si.B && si.A.K == "B" && si.A.S == "+" && si.A.A == di.A {
						if c.provesFact(fa, s, Fact{aTR, tt.mk(Term{K: "B", S: "<=", A: c.intConst(0), B: si.A.B}), true}, sv) {
							okFwd = true
						}
					}
					if !okFwd {
						problems = append(problems, "a value may be moved backwards (source slot is not destination slot plus a non-negative count)")
					}
					// the value moved is not nil
					if v, known := fa.nonNil(s, fill.st.Val); !known || !v {
						problems = append(problems, "a nil slot may be moved")
					}
				}
			}
		}
		if hs := c.hdrStoresIn(fn); hs > 0 {
			problems = append(problems, "implode stores the header")
		}
		// SCAN: every loop exit state: max <= ct  or  ulen <= start+ct
		if len(fa.loopOf) != 1 {
			problems = append(problems, "expected exactly one loop")
		} else if len(fn.Params) >= 3 {
			var hdr *ssa.BasicBlock
			for h := range fa.loopOf {
				hdr = h
			}
			blocks := fa.loopOf[hdr]
			maxT := tt.mk(Term{K: "P", N: 2, S: fn.Params[2].Name()})
			// the phis: ct and start
			var ints []*ssa.Phi
			for _, in := range hdr.Instrs {
				if phi, ok := in.(*ssa.Phi); ok && phi.Type().Underlying().String() == "int" {
					ints = append(ints, phi)
				}
			}
			exits := 0
			for bi, succs := range fa.edgeOut {
				if !blocks[bi] {
					continue
				}
				for k, sb := range bi.Succs {
					if blocks[sb] || k >= len(succs) {
						continue
					}
					for _, s := range succs[k] {
						if c.stateInfeasible(fa, s, sv) {
							continue
						}
						exits++
						okExit := false
						// find ct: a phi p with fact max <= p ; or start+ct >= ulen for the pair
						for _, p1 := range ints {
							if c.provesFact(fa, s, Fact{aTR, tt.mk(Term{K: "B", S: "<=", A: maxT, B: fa.term(s, p1)}), true}, sv) {
								okExit = true
							}
							for _, p2 := range ints {
								if p1 == p2 {
									continue
								}
								// the machine sum start+ct as computed in the loop
								for b2 := range blocks {
									for _, in2 := range b2.Instrs {
										sumV, ok := in2.(*ssa.BinOp)
										if !ok || sumV.Op != token.ADD || sumV.X != ssa.Value(p1) || sumV.Y != ssa.Value(p2) {
											continue
										}
										sum := fa.term(s, sumV)
										for _, uc := range c.findCalls(fn, "stack.ulen") {
											if c.provesFact(fa, s, Fact{aTR, tt.mk(Term{K: "B", S: "<=", A: fa.term(s, uc), B: sum}), true}, sv) {
												okExit = true
											}
										}
										for _, h := range sv {
											ht := fa.term(s, h)
											if ht.K != "L" {
												continue
											}
											ul := c.plusT(c.lenT(ht), c.intConst(-1))
											if c.provesFact(fa, s, Fact{aTR, tt.mk(Term{K: "B", S: "<=", A: ul, B: sum}), true}, sv) {
												okExit = true
											}
											ul2 := tt.mk(Term{K: "B", S: "-", A: c.lenT(ht), B: c.intConst(1)})
											if c.provesFact(fa, s, Fact{aTR, tt.mk(Term{K: "B", S: "<=", A: ul2, B: sum}), true}, sv) {
												okExit = true
											}
										}
									}
								}
							}
						}
						if !okExit {
							problems = append(problems, "the compaction loop can stop before the scan limit is reached and before the last slot was examined")
						}
					}
				}
			}
			if exits == 0 {
				problems = append(problems, "no loop exit found")
			}
		}
		if len(problems) == 0 {
			rep.ok("R-DEFRAG", relName(fn), "compaction moves, never fabricates", pos, "one forward move of a non-nil slot of the same stack per step, the source slot cleared; the loop ends only at the scan limit or past the last slot")
		} else {
			sort.Strings(problems)
			rep.bad("R-DEFRAG", relName(fn), "compaction moves, never fabricates", pos, strings.Join(uniq(problems), "; "))
		}
	}

	// ---- GAP + ERR
	if fn := c.anchor("R-DEFRAG", "(*stack).defrag"); fn != nil {
		fa := c.eng.analyze(fn, nil)
		pos := c.p.pos(fn.Pos())
		var problems []string
		imps := c.findCalls(fn, "(*stack).implode")
		vers := c.findCalls(fn, "stack.verifyImplode")
		sets := c.findCalls(fn, "(*stack).setErr")
		if len(imps) != 1 || len(vers) != 1 || len(sets) != 1 {
			problems = append(problems, "expected one call each of implode, verifyImplode and setErr")
		} else {
			maxT := tt.mk(Term{K: "P", N: 1, S: fn.Params[1].Name()})
			for _, s := range fa.statesBefore(imps[0]) {
				st := fa.term(s, imps[0].Call.Args[1])
				// a gap was found: start != -1, and below the limit: start < max
				a, b := st, c.intConst(-1)
				if a.key > b.key {
					a, b = b, a
				}
				if v, known := fa.knownTerm(s, aTR, tt.mk(Term{K: "B", S: "==", A: a, B: b})); !known || v {
					problems = append(problems, "the stack is compacted on a path where no nil element was found")
				}
				if !c.provesFact(fa, s, Fact{aTR, tt.mk(Term{K: "B", S: "<", A: st, B: maxT}), true}, nil) {
					problems = append(problems, "the stack is compacted although the first gap lies beyond the scan limit")
				}
				if fa.term(s, imps[0].Call.Args[2]) != maxT {
					problems = append(problems, "implode does not receive the scan limit")
				}
			}
			for _, s := range fa.statesBefore(sets[0]) {
				if fa.term(s, sets[0].Call.Args[1]) != fa.callResultTerm(s, vers[0], 1) {
					problems = append(problems, "the error recorded is not verifyImplode's verdict")
				}
			}
			// ... and it is recorded on every path that verified - a nil verdict included, which is
			// what clears an error left by an earlier operation ("Err() is nil afterwards")
			for _, rs := range fa.rets {
				if rs.st.dead {
					continue
				}
				if _, didV := rs.st.cep[vers[0]]; !didV {
					continue
				}
				if _, didS := rs.st.cep[sets[0]]; !didS {
					problems = append(problems, "a path verifies the compaction and returns without recording the verdict (a nil verdict must overwrite an older error)")
				}
			}
			// truncation only under a nil verdict, and only after the compaction
			for _, hs := range c.hdrStores() {
				if hs.fn != fn {
					continue
				}
				for _, s := range fa.statesBefore(hs.st) {
					if _, did := s.cep[imps[0]]; !did {
						problems = append(problems, "the header is truncated on a path that did not compact")
					}
					if v, known := s.get(aNN, fa.callResultTerm(s, vers[0], 1)); !known || v {
						problems = append(problems, "the header is truncated although the verification may have failed")
					}
				}
			}
		}
		if len(problems) == 0 {
			rep.ok("R-DEFRAG", relName(fn), "touched only when a gap was found", pos, "implode/setErr/truncation happen only with a gap below the scan limit; the verdict recorded is verifyImplode's; truncation only under a nil verdict")
		} else {
			sort.Strings(problems)
			rep.bad("R-DEFRAG", relName(fn), "touched only when a gap was found", pos, strings.Join(uniq(problems), "; "))
		}
	}

	// ---- NEST
	if fn := c.anchor("R-DEFRAG", "Stack.Defrag"); fn != nil {
		fa := c.eng.analyze(fn, nil)
		pos := c.p.pos(fn.Pos())
		var problems []string
		dfs := c.findCalls(fn, "(*stack).defrag")
		nest := c.findCalls(fn, "Stack.IsNesting")
		if len(dfs) != 1 || len(nest) != 1 {
			problems = append(problems, "expected one call each of defrag and IsNesting")
		} else {
			for _, ret := range c.returnsOf(fn) {
				for _, s := range fa.statesBefore(ret) {
					_, didD := s.cep[dfs[0]]
					_, didN := s.cep[nest[0]]
					if didD && !didN {
						problems = append(problems, "a path defragments the receiver but returns without looking at nested stacks")
					}
				}
			}
			// recursion: sub.Defrag(m) with the same limit, on converter results
			mcalls := c.findCalls(fn, "calculateDefragMax")
			recs := c.findCalls(fn, "Stack.Defrag")
			if len(recs) != 2 {
				problems = append(problems, fmt.Sprintf("%d recursive Defrag calls, expected two (nested Stack, Stack inside a Condition)", len(recs)))
			}
			for _, rc := range recs {
				for _, s := range fa.statesBefore(rc) {
					rt := fa.term(s, rc.Call.Args[0])
					if !(rt.K == "X" && rt.N == 0 && rt.A != nil && rt.A.K == "APP" && rt.A.S == "stackTypeAliasConverter") {
						problems = append(problems, "the recursion is not applied to a converted nested Stack")
					}
					els := variadicElems(rc.Call.Args[1])
					if len(mcalls) != 1 || len(els) != 1 || fa.term(s, els[0]) != fa.term(s, mcalls[0]) {
						problems = append(problems, "the nested Defrag does not receive the same scan limit")
					}
				}
			}
			// the element loop: 0..Len-1
			for hdr := range fa.loopOf {
				if iff, ok := hdr.Instrs[len(hdr.Instrs)-1].(*ssa.If); ok {
					if bo, ok := iff.Cond.(*ssa.BinOp); ok && bo.Op == token.LSS {
						if phi, ok := bo.X.(*ssa.Phi); ok {
							init, step, okS := c.phiInitStep(phi, hdr)
							if k, isC := constIntOf(init); !okS || !isC || k != 0 || step != 1 {
								problems = append(problems, "the elements are not visited 0, 1, 2, ...")
							}
							if bc, ok := bo.Y.(*ssa.Call); !ok || c.calleeName(&bc.Call) != "Stack.Len" {
								problems = append(problems, "the element loop is not bounded by Len()")
							}
						}
					}
				}
			}
			if len(fa.loopOf) != 1 {
				problems = append(problems, "expected exactly one element loop")
			}
		}
		if len(problems) == 0 {
			rep.ok("R-DEFRAG", relName(fn), "nested stacks", pos, "IsNesting is consulted whenever the receiver was defragmented; elements 0..Len-1; nested Stacks and Stacks inside Conditions (through the converters) get the same scan limit")
		} else {
			sort.Strings(problems)
			rep.bad("R-DEFRAG", relName(fn), "nested stacks", pos, strings.Join(uniq(problems), "; "))
		}
	}

	// ---- MAX
	if fn := c.anchor("R-DEFRAG", "calculateDefragMax"); fn != nil {
		fa := c.eng.analyze(fn, nil)
		var problems []string
		n := 0
		nReq := 0
		for _, ret := range c.returnsOf(fn) {
			for _, s := range fa.statesBefore(ret) {
				n++
				t := fa.term(s, ret.Results[0])
				if !c.provesFact(fa, s, Fact{aTR, tt.mk(Term{K: "B", S: "<=", A: c.intConst(1), B: t}), true}, nil) {
					problems = append(problems, "the scan limit returned may be zero or negative: "+t.key)
				}
				// a positive request is honoured as given (no ceiling): the caller's limit is the
				// number of consecutive nil slots the scan may cross
				p0 := tt.mk(Term{K: "P", N: 0, S: fn.Params[0].Name()})
				req := tt.mk(Term{K: "L", A: tt.mk(Term{K: "IA", A: p0, B: c.intConst(0)}), N: 0})
				given := c.provesFact(fa, s, Fact{aTR, tt.mk(Term{K: "B", S: "<", A: c.intConst(0), B: tt.mk(Term{K: "LEN", A: p0})}), true}, nil)
				if given {
					nReq++
					// find the actual load term of max[0] in this function (epoch-stamped)
					for _, b := range fn.Blocks {
						for _, in := range b.Instrs {
							if u, ok := in.(*ssa.UnOp); ok {
								if ia, ok := u.X.(*ssa.IndexAddr); ok && ia.X == ssa.Value(fn.Params[0]) && isConstInt(ia.Index, 0) {
									req = fa.term(s, u)
								}
							}
						}
					}
					if c.provesFact(fa, s, Fact{aTR, tt.mk(Term{K: "B", S: "<", A: c.intConst(0), B: req}), true}, nil) && t != req {
						problems = append(problems, "a positive limit requested by the caller is not the limit returned ("+t.key+")")
					}
				}
			}
		}
		if n == 0 {
			problems = append(problems, "no return path")
		}
		if nReq == 0 {
			problems = append(problems, "no return path on which a limit was requested")
		}
		if len(problems) == 0 {
			rep.ok("R-DEFRAG", relName(fn), "scan limit positive", c.p.pos(fn.Pos()), "every return path yields a limit >= 1, and a positive request is returned as given")
		} else {
			sort.Strings(problems)
			rep.bad("R-DEFRAG", relName(fn), "scan limit positive", c.p.pos(fn.Pos()), strings.Join(uniq(problems), "; "))
		}
	}
}
