package main

import (
	"fmt"
	"go/constant"
	"go/token"
	"go/types"
	"sort"
	"strings"

	"golang.org/x/tools/go/ssa"
)

// ---------------------------------------------------------------- R-HANDLE

func (c *Ctx) ruleHandle() {
	rep := c.rep
	want := map[string]bool{"(*Stack).Free": true, "(*Stack).Marshal": true, "(*Condition).Free": true, "(*Condition).Init": true}
	got := map[string]bool{}
	for _, m := range c.handleMethods() {
		if m.PtrRecv {
			got[m.String()] = true
			if !want[m.String()] {
				rep.bad("R-HANDLE", m.String(), "pointer receiver", c.p.pos(m.Fn.Pos()), "a new pointer-receiver method can re-seat or revive a handle; only Free, Marshal and Init may")
			}
		}
	}
	// Init always replaces the instance: every return path has stored a fresh condition into the
	// handle (whatever the receiver held before - "Init ... replaces the instance")
	if fn := c.p.ByName["(*Condition).Init"]; fn != nil {
		fa := c.eng.analyze(fn, nil)
		n, bad := 0, false
		for _, rs := range fa.rets {
			if rs.st.dead {
				continue
			}
			n++
			fresh := false
			for _, cell := range rs.st.heap {
				if cell.loc == "HANDLE" {
					ss := srcSet{}
					c.sources(fn, cell.val, 0, map[ssa.Value]bool{}, ss)
					for k := range ss {
						if strings.HasPrefix(k, "call:") || k == "alloc" {
							fresh = true
						}
					}
					if call, ok := cell.val.(*ssa.Call); ok && c.calleeName(&call.Call) == "initCondition" {
						fresh = true
					}
				}
			}
			if !fresh {
				bad = true
			}
		}
		if n > 0 && !bad {
			rep.ok("R-HANDLE", "(*Condition).Init", "always re-seats", c.p.pos(fn.Pos()), fmt.Sprintf("on each of the %d return paths the handle holds a freshly made condition", n))
		} else {
			rep.bad("R-HANDLE", "(*Condition).Init", "always re-seats", c.p.pos(fn.Pos()), "Init can return without having replaced the instance: keyword, operator, options or a recorded error of the old one would survive")
		}
	}
	// Free is complete: wherever it returns with the instance initialised and its read-only flag
	// tested false, the handle has been zeroed (no other condition - a mutex, a kind - keeps it alive)
	for _, name := range []string{"(*Stack).Free", "(*Condition).Free"} {
		fn := c.p.ByName[name]
		if fn == nil {
			continue
		}
		fa := c.eng.analyze(fn, nil)
		ra := c.newRO()
		hkey := c.eng.tt.mk(Term{K: "FA", A: c.eng.tt.mk(Term{K: "P", N: 0, S: fn.Params[0].Name()}), N: 0}).key
		nLive, bad := 0, false
		for _, rs := range fa.rets {
			if rs.st.dead {
				continue
			}
			if v, known := ra.roTestValue(fa, rs.st, 0); !known || v {
				continue
			}
			nLive++
			cell, ok := rs.st.heap[hkey]
			if !ok || !isNilConst(cell.val) {
				bad = true
			}
		}
		switch {
		case nLive == 0:
			rep.bad("R-HANDLE", name, "frees when allowed", c.p.pos(fn.Pos()), "no return path with the read-only flag tested false")
		case bad:
			rep.bad("R-HANDLE", name, "frees when allowed", c.p.pos(fn.Pos()), "Free can return with the read-only flag tested false and the handle still alive (some other condition keeps the instance from being released)")
		default:
			rep.ok("R-HANDLE", name, "frees when allowed", c.p.pos(fn.Pos()), fmt.Sprintf("on each of the %d return paths with the read-only flag tested false the handle holds nil", nLive))
		}
	}
	for n := range want {
		if got[n] {
			rep.ok("R-HANDLE", n, "pointer receiver", "?", "one of the four methods allowed to write the handle")
		} else {
			rep.bad("R-HANDLE", n, "pointer receiver", "?", "expected pointer-receiver method is missing")
		}
	}
	// every direct HANDLE write sits in one of them
	n := 0
	for _, fn := range c.p.Funcs {
		fe := c.eff.fns[fn]
		ord := newOrdinal()
		for _, s := range fe.sites {
			if !s.Direct {
				continue
			}
			for _, w := range s.Writes {
				if w.Loc != "HANDLE" {
					continue
				}
				n++
				construct := ord.next("store handle")
				pos := c.p.instrPos(s.Instr)
				if !want[relName(fn)] {
					rep.bad("R-HANDLE", relName(fn), construct, pos, "the embedded pointer of a shared Stack/Condition is written outside Free/Marshal/Init")
					continue
				}
				st := s.Instr.(*ssa.Store)
				fa := c.eng.analyze(fn, nil)
				switch fn.Name() {
				case "Free":
					initOK := fa.allHold(s.Instr, func(s2 *State) bool {
						for _, call := range c.findCalls(fn, "Stack.IsInit", "Condition.IsInit") {
							if v, k := fa.knownTerm(s2, aTR, fa.term(s2, call)); k && v {
								return true
							}
						}
						return false
					})
					ra := c.newRO()
					roOK := fa.allHold(s.Instr, func(s2 *State) bool { return ra.hasROFalse(fa, s2, 0) })
					if isNilConst(st.Val) && initOK && roOK {
						rep.ok("R-HANDLE", relName(fn), construct, pos, "stores nil, only on an initialised instance that is not read-only")
					} else if !roOK {
						rep.bad("R-HANDLE", relName(fn), construct, pos, "Free zeroes the handle on a path where the read-only flag has not been tested false")
					} else {
						rep.bad("R-HANDLE", relName(fn), construct, pos, "Free must store nil and only when the instance is initialised")
					}
				case "Marshal":
					good := fa.allHold(s.Instr, func(s2 *State) bool {
						// the stored pointer comes from a Stack known to be initialised
						for _, call := range c.findCalls(fn, "Stack.IsInit") {
							if v, k := fa.knownTerm(s2, aTR, fa.term(s2, call)); k && v {
								at := fa.term(s2, call.Call.Args[0])
								if c.eng.tt.mk(Term{K: "F", A: at, N: 0}) == fa.term(s2, st.Val) {
									return true
								}
							}
						}
						return false
					})
					if good {
						rep.ok("R-HANDLE", relName(fn), construct, pos, "the handle is seated with the pointer of a Stack that IsInit() just confirmed")
					} else {
						rep.bad("R-HANDLE", relName(fn), construct, pos, "Marshal can seat the handle with a Stack that is not known to be initialised")
					}
				default:
					rep.ok("R-HANDLE", relName(fn), construct, pos, "Init replaces the instance (documented exception)")
				}
			}
		}
	}
	if n < 3 {
		rep.bad("R-HANDLE", "package", "anchor", "?", fmt.Sprintf("only %d handle stores found; expected at least Free x2, Marshal, Init", n))
	}
}

// ---------------------------------------------------------------- R-ZERO

// zeroExceptions: documented non-zero answers of an uninitialised instance.
var zeroExceptions = map[string]string{
	"Valid":    "error",
	"IsEqual":  "error",
	"IsZero":   "true",
	"IsEmpty":  "true",
	"IsPadded": "true",
	"Kind":     "any-const",
	"ID":       "any-const",
	// Stack.Addr documents "0x0" for a zero Stack; Condition.Addr answers the empty string
	"Stack.Addr": "any",
}

func (c *Ctx) ruleZeroResults() {
	rep := c.rep
	for _, m := range c.handleMethods() {
		if m.PtrRecv {
			continue
		}
		fn := m.Fn
		p0 := c.eng.tt.mk(Term{K: "P", N: 0, S: fn.Params[0].Name()})
		h := c.eng.tt.mk(Term{K: "F", A: p0, N: 0})
		fa := c.eng.analyze(fn, []Fact{{aNN, h, false}})
		pos := c.p.pos(fn.Pos())
		if fa.unstable {
			rep.undecided("R-ZERO", m.String(), "zero results", pos, "analysis did not stabilise")
			continue
		}
		if len(fa.rets) == 0 {
			rep.bad("R-ZERO", m.String(), "zero results", pos, "no return is reachable with a zero handle (the method would not return)")
			continue
		}
		var problems []string
		for _, rs := range fa.rets {
			for k, rv := range rs.ret.Results {
				if msg := c.zeroResult(fa, rs.st, m, k, rv); msg != "" {
					problems = append(problems, fmt.Sprintf("result %d %s", k, msg))
				}
			}
		}
		// no write at all on a zero handle
		if len(problems) == 0 {
			rep.ok("R-ZERO", m.String(), "zero results", pos, fmt.Sprintf("with a nil embedded pointer all %d return path(s) yield the zero answer", len(fa.rets)))
		} else {
			sort.Strings(problems)
			rep.bad("R-ZERO", m.String(), "zero results", pos, "on a zero-valued or freed instance: "+strings.Join(uniq(problems), "; "))
		}
	}
}

func (c *Ctx) zeroResult(fa *FnAnalysis, st *State, m APIMethod, k int, rv ssa.Value) string {
	exc := zeroExceptions[m.Name]
	if e, ok := zeroExceptions[m.Recv+"."+m.Name]; ok {
		exc = e
	}
	t := fa.term(st, rv)
	typ := rv.Type()
	if exc == "any" {
		return ""
	}
	// fluent return of the receiver
	if c.p.isNamed(typ, "Stack") || c.p.isNamed(typ, "Condition") {
		if t.K == "P" && t.N == 0 {
			return ""
		}
		return "is not the (unchanged) receiver"
	}
	switch u := typ.Underlying().(type) {
	case *types.Basic:
		switch {
		case u.Kind() == types.Bool:
			v, ok := fa.knownTerm(st, aTR, t)
			if !ok {
				// split
				return "is not a constant"
			}
			if exc == "true" {
				if !v {
					return "is false, documented answer is true"
				}
				return ""
			}
			if v {
				return "is true"
			}
			return ""
		case u.Info()&types.IsInteger != 0:
			if t.K == "C" && t.Const != nil {
				if x, ok := constInt64(t.Const); ok && x == 0 {
					return ""
				}
			}
			return "is not 0 (" + t.key + ")"
		case u.Kind() == types.String:
			if t.K == "C" && t.Const != nil && t.Const.Kind() == constant.String {
				if constant.StringVal(t.Const) == "" || exc == "any-const" {
					return ""
				}
				return "is the non-empty constant " + t.S
			}
			return "is not the empty string (" + t.key + ")"
		}
	case *types.Interface, *types.Pointer, *types.Map, *types.Slice, *types.Signature:
		v, ok := fa.nonNil(st, rv)
		if exc == "error" && types.Identical(typ, types.Universe.Lookup("error").Type()) {
			if ok && v {
				return ""
			}
			return "may be a nil error, documented answer is an error"
		}
		if ok && !v {
			return ""
		}
		if _, isSlice := typ.Underlying().(*types.Slice); isSlice {
			if t.K == "C" && t.S == "nil" {
				return ""
			}
		}
		return "may be non-nil (" + t.key + ")"
	}
	return "has a type the rule does not know: " + typ.String()
}

// ---------------------------------------------------------------- R-ELEMINDEP

// ruleResetElemIndependent: nothing reachable from reset() branches on
// whether an element is nil (so nil elements are removed like any other),
// and reset's writes are confined to the content.
func (c *Ctx) ruleResetElemIndependent() {
	rep := c.rep
	fn := c.anchor("R-ELEMINDEP", "(*stack).reset")
	if fn == nil {
		return
	}
	n := 0
	for _, g := range c.reach(fn) {
		fe := c.eff.fns[g]
		for _, b := range g.Blocks {
			for _, in := range b.Instrs {
				bo, ok := in.(*ssa.BinOp)
				if !ok || (bo.Op != token.EQL && bo.Op != token.NEQ) {
					continue
				}
				var other ssa.Value
				if isNilConst(bo.Y) {
					other = bo.X
				} else if isNilConst(bo.X) {
					other = bo.Y
				} else {
					continue
				}
				isElem := false
				for r := range c.eff.rootsOf(fe, other) {
					if r.Elem {
						isElem = true
					}
				}
				if _, isIface := other.Type().Underlying().(*types.Interface); !isIface {
					isElem = false
				}
				if isElem {
					n++
					rep.bad("R-ELEMINDEP", relName(g), "nil test on an element", c.p.instrPos(in), "code reachable from Reset tests whether an element is nil: nil elements are treated differently and may survive Reset")
				}
			}
		}
	}
	if n == 0 {
		rep.ok("R-ELEMINDEP", relName(fn), "no element nil test", c.p.pos(fn.Pos()), "no branch reachable from reset() depends on an element being nil")
	}
	allowed := map[string]bool{"HDR": true, "SLOT": true, "APPEND:stack": true, "nodeConfig.ldr": true, "EXT:Mutex.Lock": true, "EXT:Mutex.Unlock": true}
	var extra []string
	for _, w := range c.eff.writesOf(fn) {
		if !allowed[w.Loc] {
			extra = append(extra, w.String())
		}
	}
	if len(extra) == 0 {
		rep.ok("R-ELEMINDEP", relName(fn), "write set", c.p.pos(fn.Pos()), "Reset writes only the content and the lock bookkeeping: kind, capacity, options and policies are kept")
	} else {
		rep.bad("R-ELEMINDEP", relName(fn), "write set", c.p.pos(fn.Pos()), "Reset also writes "+strings.Join(extra, ", "))
	}
}
