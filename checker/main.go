package main

import (
	"runtime/debug"
	"runtime/pprof"
	"flag"
	"fmt"
	"os"
	"path/filepath"
	"strconv"
	"time"
)

// A run that exceeds its time budget is abandoned and reported as undecided
// (which fails the check): a change that makes the analysis diverge must not
// hang the caller.
type budgetExceeded struct{}

var globalDeadline time.Time

func checkBudget() {
	if !globalDeadline.IsZero() && time.Now().After(globalDeadline) {
		panic(budgetExceeded{})
	}
}

func main() {
	repo := flag.String("repo", "/repo", "repository to analyse")
	verif := flag.String("verif", "", "verification directory (default: parent of the binary's dir)")
	prop := flag.String("prop", "", "property id (C01..C20)")
	tier := flag.String("tier", "quick", "quick|thorough")
	evidence := flag.String("evidence", "", "evidence file to write")
	dump := flag.String("dump", "", "debug: dump facts for a function")
	only := flag.String("only", "", "print only the obligation with this key")
	list := flag.Bool("list", false, "print every obligation")
	reqs := flag.String("requires", "", "debug: print the preconditions computed for a function")
	flag.Parse()
	start := time.Now()
	debug.SetGCPercent(800)
	if *verif == "" {
		exe, _ := os.Executable()
		*verif = filepath.Dir(filepath.Dir(exe))
	}
	seed := int64(0)
	if s := os.Getenv("VERIF_SEED"); s != "" {
		if n, err := strconv.ParseInt(s, 10, 64); err == nil {
			seed = n
		}
	}
	p, err := loadProgram(*repo, "")
	if *reqs != "" && err == nil {
		ctx := newCtx(p, "C17", "quick")
		ctx.ruleInv()
		na := ctx.nilAnalysis()
		fn := p.ByName[*reqs]
		for _, r := range na.requires[fn] {
			fmt.Println("REQ:", describeFact(r.fact), "\n   origin:", r.origin)
			for _, f := range r.pc {
				fmt.Printf("      when %s = %v\n", factKey(f.Kind, f.T), f.Val)
			}
		}
		for _, f := range na.failed[fn] {
			fmt.Println("FAIL:", f.detail)
		}
		return
	}
	if *dump != "" {
		if err != nil {
			fmt.Fprintln(os.Stderr, err)
			os.Exit(2)
		}
		debugDump(p, *dump)
		return
	}
	if *prop == "" {
		fmt.Fprintln(os.Stderr, "need -prop")
		os.Exit(2)
	}
	spec, ok := properties[*prop]
	if !ok {
		fmt.Fprintln(os.Stderr, "unknown property", *prop)
		os.Exit(2)
	}
	if *evidence == "" {
		*evidence = filepath.Join(*verif, "evidence", *prop+".json")
	}
	if err != nil {
		rep := newReport(*prop)
		rep.Level = spec.Level
		rep.Explanation = "the repository could not be loaded/type-checked; nothing was analysed"
		os.Exit(rep.finish(*verif, *tier, seed, start, nil, *evidence, err))
	}
	budget := 10 * time.Minute
	if s := os.Getenv("STACKCHECK_BUDGET_SEC"); s != "" {
		if n, err := strconv.Atoi(s); err == nil && n > 0 {
			budget = time.Duration(n) * time.Second
		}
	}
	globalDeadline = time.Now().Add(budget)
	ctx := newCtx(p, *prop, *tier)
	ctx.rep.Level = spec.Level
	ctx.rep.Explanation = spec.Explanation
	ctx.rep.NotDecided = spec.NotDecided
	ctx.rep.Trusted = spec.Trusted
	func() {
		defer func() {
			if r := recover(); r != nil {
				if _, isB := r.(budgetExceeded); isB {
					globalDeadline = time.Time{}
					ctx.rep.undecided("R-BUDGET", "stackcheck", "time budget", "?", "the analysis did not finish within its time budget (normally well under a minute): the change makes the fact/precondition fixpoint diverge; nothing can be concluded")
					return
				}
				ctx.rep.bad("INFRA", "stackcheck", "panic", "?", fmt.Sprint("analyser panic: ", r))
			}
		}()
		if pf := os.Getenv("STACKCHECK_PROF"); pf != "" {
			f, _ := os.Create(pf)
			pprof.StartCPUProfile(f)
			defer pprof.StopCPUProfile()
		}
		spec.Run(ctx)
		if *tier == "thorough" {
			ctx.ruleCallGraphCross()
			ctx.ruleNoUnsafe()
		}
	}()
	if *list || *only != "" {
		for _, o := range ctx.rep.Obls {
			if *only == "" || o.Key == *only {
				fmt.Printf("%-11s %-10s %s  %s %s\n", o.Status, o.Pos, o.Key, o.By, o.Detail)
			}
		}
	}
	os.Exit(ctx.rep.finish(*verif, *tier, seed, start, p, *evidence, nil))
}

func debugDump(p *Program, name string) {
	eff := computeEffects(p)
	eng := newEngine(p, eff)
	fn := p.ByName[name]
	if fn == nil {
		fmt.Println("no such function")
		os.Exit(2)
	}
	fmt.Println("writes:", eff.writesOf(fn))
	fa := eng.analyze(fn, nil)
	for _, b := range fn.Blocks {
		fmt.Printf("block %d\n", b.Index)
		for _, in := range b.Instrs {
			fmt.Printf("  %-60s  | %d states\n", in.String(), len(fa.before[in]))
			for _, s := range fa.before[in] {
				fmt.Printf("        {%s}\n", s.describe())
			}
		}
	}
	sum := eng.summary(fn)
	fmt.Println("summary top:", sum.Top)
	for _, c := range sum.Cases {
		fmt.Println("  case:", c.key)
	}
}
