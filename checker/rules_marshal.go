package main

import (
	"go/types"
	"fmt"
	"go/constant"
	"go/token"
	"sort"
	"strings"

	"golang.org/x/tools/go/ssa"
)

// ---------------------------------------------------------------- R-TBL / R-MARSHAL (C04, C16)
//
// Writer (Unmarshal) and reader (Marshal) agree on the wire format, and the
// reader's outcome is always "error, or an initialised Stack".
//
//  LABEL   every comparison of a label with a keyword constant is made on
//          uc(label) (case-insensitive), in marshalDefault and stackByWord;
//  KINDS   constructor -> kind constant -> word (stackType.String) -> constructor
//          (stackByWord) is the identity on {AND, OR, NOT, LIST, BASIC};
//  ROW     the CONDITION row written is [label, keyword, operator, expression]
//          (4 wide, those fields in that order) and the reader requires width 4
//          and reads keyword/operator/expression from positions 1/2/3 with
//          checked assertions;
//  WRITE   unmarshalDefault emits the kind word first and then exactly one entry
//          per slot in ascending order (whether or not the slot is nil), nested
//          Stacks/Conditions through the converters and their own Unmarshal;
//  REPROC  marshalDefault re-processes every entry of the new stack (0..Len-1)
//          and replaces entry i only by what marshalDefault made of that very
//          entry;
//  OUT     marshalDefault returns an error, an initialised Stack (built by a
//          constructor) or a Condition extractConditionValues vouched for;
//          Marshal returns a non-nil error or leaves the receiver initialised,
//          and an initialised receiver gains exactly one element.

func constStr(t *Term) (string, bool) {
	if t != nil && t.K == "C" && t.Const != nil && t.Const.Kind() == constant.String {
		return constant.StringVal(t.Const), true
	}
	return "", false
}

func (c *Ctx) calleeName(cc *ssa.CallCommon) string {
	if cal := c.p.callee(cc); cal != nil {
		if c.p.inPkg(cal) {
			return relName(cal)
		}
		return cal.String()
	}
	return ""
}

// ruleLabels: LABEL + KINDS.
func (c *Ctx) ruleLabels() {
	rep := c.rep
	// LABEL
	for _, name := range []string{"marshalDefault", "stackByWord"} {
		fn := c.anchor("R-TBL", name)
		if fn == nil {
			continue
		}
		var problems []string
		n := 0
		for _, b := range fn.Blocks {
			for _, in := range b.Instrs {
				bo, ok := in.(*ssa.BinOp)
				if !ok || (bo.Op != token.EQL && bo.Op != token.NEQ) {
					continue
				}
				var other ssa.Value
				if k, ok := bo.Y.(*ssa.Const); ok && k.Value != nil && k.Value.Kind() == constant.String {
					other = bo.X
				} else if k, ok := bo.X.(*ssa.Const); ok && k.Value != nil && k.Value.Kind() == constant.String {
					other = bo.Y
				}
				if other == nil {
					continue
				}
				n++
				call, ok := other.(*ssa.Call)
				// the fold must be the library's (strings.ToUpper, possibly through the package's alias
				// variable): a hand-written fold is not taken on trust
				if !ok || func() bool {
					cal := c.p.callee(&call.Call)
					return cal == nil || c.p.inPkg(cal) || cal.String() != "strings.ToUpper"
				}() {
					problems = append(problems, c.p.instrPos(in)+": a label is compared with a keyword without upper-casing it first (labels must be honoured case-insensitively; folded stacks emit lower-case words)")
				}
			}
		}
		if n < 4 {
			problems = append(problems, fmt.Sprintf("only %d label comparisons found", n))
		}
		if len(problems) == 0 {
			rep.ok("R-TBL", name, "case-insensitive labels", c.p.pos(fn.Pos()), fmt.Sprintf("all %d keyword comparisons are made on uc(label)", n))
		} else {
			sort.Strings(problems)
			rep.bad("R-TBL", name, "case-insensitive labels", c.p.pos(fn.Pos()), strings.Join(uniq(problems), "; "))
		}
	}
	// KINDS
	ctorKind := map[string]int64{}
	for _, cn := range []string{"And", "Or", "Not", "List", "Basic"} {
		fn := c.anchor("R-TBL", cn)
		if fn == nil {
			continue
		}
		for _, call := range c.findCalls(fn, "newStack") {
			if k, ok := constIntOf(call.Call.Args[0]); ok {
				ctorKind[cn] = k
			}
		}
	}
	wordOf := map[int64]string{}
	if fn := c.anchor("R-TBL", "stackType.String"); fn != nil {
		fa := c.eng.analyze(fn, nil)
		for _, ret := range c.returnsOf(fn) {
			for _, s := range fa.statesBefore(ret) {
				w, ok := constStr(fa.term(s, ret.Results[0]))
				if !ok {
					continue
				}
				for _, f := range s.factList() {
					if f.Kind == aTR && f.Val && f.T.K == "B" && f.T.S == "==" {
						for _, side := range []*Term{f.T.A, f.T.B} {
							if side.K == "C" && side.Const != nil && side.Const.Kind() == constant.Int {
								if k, ok := constInt64(side.Const); ok {
									wordOf[k] = w
								}
							}
						}
					}
				}
			}
		}
	}
	ctorOf := map[string]string{}
	dflt := ""
	if fn := c.anchor("R-TBL", "stackByWord"); fn != nil {
		fa := c.eng.analyze(fn, nil)
		for _, ret := range c.returnsOf(fn) {
			for _, s := range fa.statesBefore(ret) {
				t := fa.term(s, ret.Results[0])
				ctor := ""
				if t.K == "APP" {
					ctor = t.S
				} else if t.K == "V" {
					if call, ok := t.V.(*ssa.Call); ok {
						ctor = c.calleeName(&call.Call)
					}
				}
				word := ""
				for _, f := range s.factList() {
					if f.Kind == aTR && f.Val && f.T.K == "B" && f.T.S == "==" {
						for _, side := range []*Term{f.T.A, f.T.B} {
							if w, ok := constStr(side); ok {
								word = w
							}
						}
					}
				}
				if word == "" {
					dflt = ctor
				} else {
					ctorOf[word] = ctor
				}
			}
		}
	}
	var problems []string
	for _, cn := range []string{"And", "Or", "Not", "List", "Basic"} {
		k, ok := ctorKind[cn]
		if !ok {
			problems = append(problems, cn+": kind constant not found")
			continue
		}
		w, ok := wordOf[k]
		if !ok {
			problems = append(problems, fmt.Sprintf("%s: kind %d has no word in stackType.String", cn, k))
			continue
		}
		back, ok := ctorOf[w]
		if !ok {
			back = dflt
		}
		if back != cn {
			problems = append(problems, fmt.Sprintf("%s is written as %q, which the reader turns into %s()", cn, w, back))
		}
		if w != strings.ToUpper(w) {
			problems = append(problems, fmt.Sprintf("word %q is not upper case: uc(label) can never equal it", w))
		}
	}
	pos := "?"
	if fn := c.p.ByName["stackByWord"]; fn != nil {
		pos = c.p.pos(fn.Pos())
	}
	if len(problems) == 0 {
		rep.ok("R-TBL", "stackByWord", "kind round trip", pos, "constructor -> kind -> word -> constructor is the identity for AND, OR, NOT, LIST, BASIC")
	} else {
		sort.Strings(problems)
		rep.bad("R-TBL", "stackByWord", "kind round trip", pos, strings.Join(uniq(problems), "; "))
	}
	// the reader's switch in marshalDefault knows the same words (plus CONDITION)
	if fn := c.p.ByName["marshalDefault"]; fn != nil {
		words := map[string]bool{}
		for _, b := range fn.Blocks {
			for _, in := range b.Instrs {
				if bo, ok := in.(*ssa.BinOp); ok && bo.Op == token.EQL {
					if k, ok := bo.Y.(*ssa.Const); ok && k.Value != nil && k.Value.Kind() == constant.String {
						words[constant.StringVal(k.Value)] = true
					}
				}
			}
		}
		var miss []string
		for _, k := range []int64{ctorKind["And"], ctorKind["Or"], ctorKind["Not"], ctorKind["List"], ctorKind["Basic"]} {
			if w := wordOf[k]; !words[w] {
				miss = append(miss, w)
			}
		}
		if !words["CONDITION"] {
			miss = append(miss, "CONDITION")
		}
		if len(miss) == 0 {
			rep.ok("R-TBL", "marshalDefault", "label set", c.p.pos(fn.Pos()), "the reader dispatches on every word the writer can emit and on CONDITION")
		} else {
			rep.bad("R-TBL", "marshalDefault", "label set", c.p.pos(fn.Pos()), "the reader does not know the labels "+strings.Join(miss, ", "))
		}
	}
}

// ruleCondRow: ROW.
func (c *Ctx) ruleCondRow() {
	rep := c.rep
	// writer
	if fn := c.anchor("R-TBL", "condition.unmarshalDefault"); fn != nil {
		fa := c.eng.analyze(fn, nil)
		var problems []string
		n := 0
		for _, ret := range c.returnsOf(fn) {
			for _, s := range fa.statesBefore(ret) {
				n++
				parts, ok := c.seqOf(fa, s, ret.Results[0], 0)
				if !ok {
					// a slice literal: new [4]any; stores; slice[:]
					if sl, isSl := ret.Results[0].(*ssa.Slice); isSl {
						for _, e := range variadicElemsOrdered(sl) {
							parts = append(parts, seqPart{elem: fa.term(s, e), elemV: e})
						}
						ok = len(parts) > 0
					}
				}
				if !ok || len(parts) != 4 {
					problems = append(problems, fmt.Sprintf("the row written is not a 4-element literal (%d parts)", len(parts)))
					continue
				}
				if w, ok := constStr(unMI(parts[0].elem)); !ok || w != "CONDITION" {
					problems = append(problems, "position 0 is not the CONDITION label")
				}
				for k, fld := range map[int]string{1: "condition.kw", 2: "condition.op"} {
					if !c.isFieldLoad(unMI(parts[k].elem), fld) {
						problems = append(problems, fmt.Sprintf("position %d is not %s", k, fld))
					}
				}
				// position 3: the expression, or its Unmarshal() when it is a Stack
				e3 := unMI(parts[3].elem)
				if !c.isFieldLoad(e3, "condition.ex") {
					okU := false
					if e3.K == "X" && e3.N == 0 && e3.A != nil && e3.A.K == "V" {
						if call, ok := e3.A.V.(*ssa.Call); ok && (c.calleeName(&call.Call) == "Stack.Unmarshal" || c.calleeName(&call.Call) == "Condition.Unmarshal") {
							okU = true
						}
					}
					if e3.K == "MI" {
						okU = okU || c.isFieldLoad(e3.A, "condition.ex")
					}
					if !okU {
						problems = append(problems, "position 3 is neither the expression nor its Unmarshal() result: "+e3.key)
					}
				}
			}
		}
		if n == 0 {
			problems = append(problems, "no return path")
		}
		if len(problems) == 0 {
			rep.ok("R-TBL", "condition.unmarshalDefault", "CONDITION row written", c.p.pos(fn.Pos()), "[CONDITION, keyword, operator, expression or its Unmarshal()]")
		} else {
			sort.Strings(problems)
			rep.bad("R-TBL", "condition.unmarshalDefault", "CONDITION row written", c.p.pos(fn.Pos()), strings.Join(uniq(problems), "; "))
		}
	}
	// reader
	if fn := c.anchor("R-TBL", "extractConditionValues"); fn != nil {
		fa := c.eng.analyze(fn, nil)
		var problems []string
		conds := c.findCalls(fn, "Cond")
		if len(conds) == 0 {
			problems = append(problems, "no Cond(...) call")
		}
		for _, call := range conds {
			for _, s := range fa.statesBefore(call) {
				// width 4 established
				if !c.eqInt(fa, s, c.lenT(c.param(fa, 0)), c.intConst(4), nil) {
					problems = append(problems, "a Condition is built from a row whose width is not known to be 4")
				}
				args := call.Call.Args
				if len(args) != 3 {
					problems = append(problems, "Cond is not called with keyword, operator, expression")
					continue
				}
				src := func(v ssa.Value) (int64, bool) {
					// value (possibly through a checked assertion / zero default / MakeInterface) of in[k]
					t := unMI(fa.term(s, v))
					for t.K == "TA" {
						t = t.A
					}
					if t.K == "L" && t.A != nil && t.A.K == "IA" && t.A.A == c.param(fa, 0) {
						if k, ok := constInt64(t.A.B.Const); ok {
							return k, true
						}
					}
					return 0, false
				}
				for i, want := range []int64{1, 2} {
					k, ok := src(args[i])
					if ok && k != want {
						problems = append(problems, fmt.Sprintf("argument %d of Cond comes from row position %d, expected %d", i, k, want))
					}
					if !ok {
						// the zero default (assertion failed) is a constant
						t := unMI(fa.term(s, args[i]))
						if !(t.K == "C") {
							problems = append(problems, fmt.Sprintf("argument %d of Cond is neither row position %d nor its zero default: %s", i, want, t.key))
						}
					}
				}
				// expression: in[3] or what marshalDefault made of in[3].([]any)
				t3 := unMI(fa.term(s, args[2]))
				if k, ok := src(args[2]); ok {
					if k != 3 {
						problems = append(problems, fmt.Sprintf("the expression comes from row position %d, expected 3", k))
					}
				} else if !(t3.K == "X" && t3.A != nil && t3.A.K == "V" && isCallTo(c, t3.A.V, "marshalDefault")) {
					problems = append(problems, "the expression is neither row position 3 nor its decoded form: "+t3.key)
				}
			}
		}
		// no decoded expression is dropped: a 4-wide row yields no Condition only when its
		// expression was a nested row that decoded to neither an initialised Stack nor an
		// initialised Condition (an empty Stack is still a Stack)
		{
			width4 := c.eng.tt.mk(Term{K: "B", S: "==", A: c.intConst(4), B: c.lenT(c.param(fa, 0))})
			mds := c.findCalls(fn, "marshalDefault")
			nNone := 0
			for _, rs := range fa.rets {
				if rs.st.dead {
					continue
				}
				if v, k := fa.knownTerm(rs.st, aTR, width4); k && !v {
					continue
				}
				built := false
				for _, call := range conds {
					if d, _ := rs.st.get(aDID, c.eng.tt.mk(Term{K: "V", V: call})); d {
						built = true
					}
				}
				if built {
					continue
				}
				nNone++
				okNone := false
				for _, md := range mds {
					sFalse, cFalse := false, false
					for _, ic := range c.findCalls(fn, "Stack.IsInit", "Condition.IsInit") {
						at := fa.term(rs.st, ic.Call.Args[0])
						if v, k := fa.knownTerm(rs.st, aTR, fa.term(rs.st, ic)); k && !v {
							if at == fa.callResultTerm(rs.st, md, 0) {
								sFalse = true
							}
							if at == fa.callResultTerm(rs.st, md, 1) {
								cFalse = true
							}
						}
					}
					if sFalse && cFalse {
						okNone = true
					}
				}
				if !okNone {
					problems = append(problems, "a well-formed row can yield no Condition although its expression may have decoded to an initialised Stack or Condition (IsInit() of both decoded results is not known false there)")
				}
			}
			if nNone == 0 {
				problems = append(problems, "no path yields 'no Condition' (the refusal of a malformed nested row is gone)")
			}
		}
		// every type assertion on a row element is of the comma-ok form
		for _, b := range fn.Blocks {
			for _, in := range b.Instrs {
				if ta, ok := in.(*ssa.TypeAssert); ok && !ta.CommaOk {
					problems = append(problems, c.p.instrPos(in)+": unchecked type assertion on a row element")
				}
			}
		}
		if len(problems) == 0 {
			rep.ok("R-TBL", "extractConditionValues", "CONDITION row read", c.p.pos(fn.Pos()), "width 4 required; keyword/operator/expression read from positions 1/2/3 through checked assertions")
		} else {
			sort.Strings(problems)
			rep.bad("R-TBL", "extractConditionValues", "CONDITION row read", c.p.pos(fn.Pos()), strings.Join(uniq(problems), "; "))
		}
	}
}

func unMI(t *Term) *Term {
	for t != nil && t.K == "MI" {
		t = t.A
	}
	return t
}

func (c *Ctx) isFieldLoad(t *Term, field string) bool {
	if t == nil {
		return false
	}
	if t.K == "F" && t.A != nil {
		// field of the (value) receiver
		return strings.HasSuffix(field, "."+c.fieldNameOf(t))
	}
	if t.K == "L" && t.A != nil && t.A.K == "FA" {
		return strings.HasSuffix(field, "."+c.fieldNameOf(t.A))
	}
	return false
}

// fieldNameOf: name of the field selected by an F/FA term of a condition value.
func (c *Ctx) fieldNameOf(t *Term) string {
	obj := c.p.Types.Scope().Lookup("condition")
	if obj == nil {
		return ""
	}
	idx := t.N
	names := structFieldNames(obj.Type())
	if idx >= 0 && idx < len(names) {
		return names[idx]
	}
	return ""
}

// variadicElemsOrdered: the values stored into the backing array of a slice literal, by index.
func variadicElemsOrdered(sl *ssa.Slice) []ssa.Value {
	al, ok := sl.X.(*ssa.Alloc)
	if !ok {
		return nil
	}
	byIdx := map[int64]ssa.Value{}
	max := int64(-1)
	for _, r := range *al.Referrers() {
		if ia, ok := r.(*ssa.IndexAddr); ok {
			k, okc := constIntOf(ia.Index)
			if !okc {
				return nil
			}
			for _, u := range *ia.Referrers() {
				if st, ok := u.(*ssa.Store); ok && st.Addr == ssa.Value(ia) {
					byIdx[k] = st.Val
					if k > max {
						max = k
					}
				}
			}
		}
	}
	var out []ssa.Value
	for k := int64(0); k <= max; k++ {
		v, ok := byIdx[k]
		if !ok {
			return nil
		}
		out = append(out, v)
	}
	return out
}

// ruleUnmarshalLoop: WRITE.
func (c *Ctx) ruleUnmarshalLoop() {
	rep := c.rep
	fn := c.anchor("R-TBL", "stack.unmarshalDefault")
	if fn == nil {
		return
	}
	fa := c.eng.analyze(fn, nil)
	pos := c.p.pos(fn.Pos())
	var problems []string
	if len(fa.loopOf) != 1 {
		problems = append(problems, "expected exactly one loop")
		rep.bad("R-TBL", relName(fn), "entries written", pos, strings.Join(problems, "; "))
		return
	}
	var hdr *ssa.BasicBlock
	for h := range fa.loopOf {
		hdr = h
	}
	blocks := fa.loopOf[hdr]
	// the first entry: the kind word, appended before the loop to the empty result
	first := false
	var appends []*ssa.Call
	for _, b := range fn.Blocks {
		for _, in := range b.Instrs {
			call, ok := in.(*ssa.Call)
			if !ok {
				continue
			}
			if bi, ok := call.Call.Value.(*ssa.Builtin); !ok || bi.Name() != "append" {
				continue
			}
			if blocks[b] {
				appends = append(appends, call)
				continue
			}
			el := singleVariadicElem(call.Call.Args[1])
			if kc, ok := el.(*ssa.Call); ok && c.calleeName(&kc.Call) == "stack.kind" && b.Dominates(hdr) {
				first = true
			} else {
				problems = append(problems, c.p.instrPos(call)+": an entry other than the kind word is appended outside the loop")
			}
		}
	}
	if !first {
		problems = append(problems, "the kind word is not emitted first")
	}
	// counter 0,1,2..; bound ulen; lookup index(i)
	var counter *ssa.Phi
	idxCalls := []*ssa.Call{}
	for b := range blocks {
		for _, in := range b.Instrs {
			if call, ok := in.(*ssa.Call); ok && c.calleeName(&call.Call) == "stack.index" {
				idxCalls = append(idxCalls, call)
			}
		}
	}
	if len(idxCalls) != 1 {
		problems = append(problems, "expected one slot lookup per iteration")
	} else if phi, ok := idxCalls[0].Call.Args[1].(*ssa.Phi); ok && phi.Block() == hdr {
		counter = phi
		init, step, okS := c.phiInitStep(phi, hdr)
		if k, isC := constIntOf(init); !okS || !isC || k != 0 || step != 1 {
			problems = append(problems, "the loop counter does not run 0, 1, 2, ...")
		}
	} else {
		problems = append(problems, "the slot looked up is not the loop counter")
	}
	_ = counter
	// every back edge: exactly one append executed in this iteration, or an error recorded
	for bi, succs := range fa.edgeOut {
		if !blocks[bi] {
			continue
		}
		for k, sb := range bi.Succs {
			if sb != hdr || k >= len(succs) {
				continue
			}
			for _, s := range succs[k] {
				predIdx := -1
				for i, p := range hdr.Preds {
					if p == bi {
						predIdx = i
					}
				}
				var slPhi *ssa.Phi
				for _, in := range hdr.Instrs {
					if phi, ok := in.(*ssa.Phi); ok {
						if _, isSl := phi.Type().Underlying().(*types.Slice); isSl {
							slPhi = phi
						}
					}
				}
				if slPhi == nil || predIdx < 0 {
					problems = append(problems, "the result slice is not carried through the loop")
					continue
				}
				chase := func(v ssa.Value) ssa.Value {
					for i := 0; i < 8; i++ {
						if v == ssa.Value(slPhi) {
							break
						}
						if bv, ok := s.bind[v]; ok && bv != nil && bv != v {
							v = bv
						} else {
							break
						}
					}
					return v
				}
				done := 0
				v := chase(slPhi.Edges[predIdx])
				for i := 0; i < 4; i++ {
					call, ok := v.(*ssa.Call)
					if !ok {
						break
					}
					if bi2, ok := call.Call.Value.(*ssa.Builtin); !ok || bi2.Name() != "append" {
						break
					}
					done++
					v = chase(call.Call.Args[0])
				}
				if v != ssa.Value(slPhi) {
					problems = append(problems, fmt.Sprintf("the result carried to the next iteration is not the result so far plus appended entries (%T %s)", v, v.Name()))
					continue
				}
				errKnown := false
				for _, in := range hdr.Instrs {
					if phi, ok := in.(*ssa.Phi); ok && isErrorType(phi.Type()) {
						if vv, known := fa.nonNil(s, phi.Edges[predIdx]); known && vv {
							errKnown = true
						}
					}
				}
				if done != 1 && !errKnown {
					problems = append(problems, fmt.Sprintf("an iteration can finish having appended %d entries without an error (each slot, nil or not, must yield exactly one entry)", done))
				}
			}
		}
	}
	// what is appended: the slot itself, or the nested instance's own unmarshalled form
	for _, ap := range appends {
		el := singleVariadicElem(ap.Call.Args[1])
		okV := false
		switch x := el.(type) {
		case *ssa.Extract:
			if call, ok := x.Tuple.(*ssa.Call); ok {
				n := c.calleeName(&call.Call)
				if x.Index == 0 && (n == "stack.index" || n == "stack.unmarshalDefault" || n == "Condition.Unmarshal" || n == "Stack.Unmarshal") {
					okV = true
				}
			}
		case *ssa.Phi, *ssa.UnOp:
			okV = true // a merged sub-slice variable: judged by the calls that feed it
		}
		if !okV {
			problems = append(problems, c.p.instrPos(ap)+": an entry is neither the slot nor a nested instance's unmarshalled form")
		}
	}
	// nested instances are recognised through both converters on the slot
	for _, conv := range []string{"stackTypeAliasConverter", "conditionTypeAliasConverter"} {
		found := false
		for b := range blocks {
			for _, in := range b.Instrs {
				if call, ok := in.(*ssa.Call); ok && c.calleeName(&call.Call) == conv {
					if ex, ok := call.Call.Args[0].(*ssa.Extract); ok && len(idxCalls) == 1 && ex.Tuple == ssa.Value(idxCalls[0]) && ex.Index == 0 {
						found = true
					}
				}
			}
		}
		if !found {
			problems = append(problems, conv+" is not consulted on the slot (aliases would be emitted unexpanded)")
		}
	}
	if len(problems) == 0 {
		rep.ok("R-TBL", relName(fn), "entries written", pos, "kind word first; one entry per slot 0..Len-1 in order, nil slots included; nested Stacks/Conditions (aliases through the converters) as their own unmarshalled form")
	} else {
		sort.Strings(problems)
		rep.bad("R-TBL", relName(fn), "entries written", pos, strings.Join(uniq(problems), "; "))
	}
}

// ruleMarshalReproc: REPROC.
func (c *Ctx) ruleMarshalReproc() {
	rep := c.rep
	fn := c.anchor("R-MARSHAL", "marshalDefault")
	if fn == nil {
		return
	}
	fa := c.eng.analyze(fn, nil)
	pos := c.p.pos(fn.Pos())
	var problems []string
	if len(fa.loopOf) != 1 {
		problems = append(problems, "expected exactly one (re-processing) loop")
	}
	for hdr, blocks := range fa.loopOf {
		var counter *ssa.Phi
		if iff, ok := hdr.Instrs[len(hdr.Instrs)-1].(*ssa.If); ok {
			if bo, ok := iff.Cond.(*ssa.BinOp); ok && bo.Op == token.LSS {
				if phi, ok := bo.X.(*ssa.Phi); ok && phi.Block() == hdr {
					counter = phi
				}
				if bc, ok := bo.Y.(*ssa.Call); !ok || c.calleeName(&bc.Call) != "Stack.Len" {
					problems = append(problems, "the re-processing loop is not bounded by Len() of the new stack")
				}
			}
		}
		if counter == nil {
			problems = append(problems, "no loop counter")
			continue
		}
		init, step, okS := c.phiInitStep(counter, hdr)
		if k, isC := constIntOf(init); !okS || !isC || k != 0 || step != 1 {
			problems = append(problems, "the loop counter does not run 0, 1, 2, ...")
		}
		var rec []*ssa.Call
		for b := range blocks {
			for _, in := range b.Instrs {
				call, ok := in.(*ssa.Call)
				if !ok {
					continue
				}
				switch c.calleeName(&call.Call) {
				case "marshalDefault":
					rec = append(rec, call)
				case "Stack.Index":
					if call.Call.Args[1] != ssa.Value(counter) {
						problems = append(problems, "the entry examined is not the one at the loop counter")
					}
				case "Stack.Replace":
					if call.Call.Args[2] != ssa.Value(counter) {
						problems = append(problems, "an entry other than the one examined is replaced")
					}
					// value: result 0 / 1 of the recursive call of this iteration
					v := call.Call.Args[1]
					if mi, ok := v.(*ssa.MakeInterface); ok {
						v = mi.X
					}
					okV := false
					if ex, ok := v.(*ssa.Extract); ok {
						if rc, ok := ex.Tuple.(*ssa.Call); ok && c.calleeName(&rc.Call) == "marshalDefault" && blocks[rc.Block()] && (ex.Index == 0 || ex.Index == 1) {
							okV = true
							// guarded by IsInit of that very result
							guard := "Stack.IsInit"
							if ex.Index == 1 {
								guard = "Condition.IsInit"
							}
							g := false
							for _, s := range fa.statesBefore(call) {
								g = false
								for _, ic := range c.findCalls(fn, guard) {
									if ic.Call.Args[0] == ssa.Value(ex) {
										if vv, known := fa.knownTerm(s, aTR, fa.term(s, ic)); known && vv {
											g = true
										}
									}
								}
								if !g {
									break
								}
							}
							if !g {
								problems = append(problems, "an entry is replaced by a decoded value not known to be initialised")
							}
						}
					}
					if !okV {
						problems = append(problems, c.p.instrPos(call)+": an entry is replaced by something other than what marshalDefault made of it")
					}
				}
			}
		}
		// the loop is left only when the counter reached Len(): no early exit (a nil entry must not end it)
		for bi, succs := range fa.edgeOut {
			if !blocks[bi] {
				continue
			}
			for k, sb := range bi.Succs {
				if blocks[sb] || k >= len(succs) {
					continue
				}
				for _, s := range succs[k] {
					iff, ok := hdr.Instrs[len(hdr.Instrs)-1].(*ssa.If)
					okExit := false
					if ok {
						if v, known := fa.knownTerm(s, aTR, fa.term(s, iff.Cond)); known && !v {
							okExit = true
						}
					}
					if !okExit {
						problems = append(problems, fmt.Sprintf("the re-processing loop can be left early (block %d -> %d): later nested entries would stay raw slices", bi.Index, sb.Index))
					}
				}
			}
		}
		if len(rec) != 1 {
			problems = append(problems, fmt.Sprintf("%d recursive decodes per iteration, expected one", len(rec)))
		} else {
			// the recursive call decodes the entry examined, asserted to []any
			a := rec[0].Call.Args[0]
			okA := false
			if ex, ok := a.(*ssa.Extract); ok && ex.Index == 0 {
				if ta, ok := ex.Tuple.(*ssa.TypeAssert); ok && ta.CommaOk {
					if e2, ok := ta.X.(*ssa.Extract); ok && e2.Index == 0 {
						if ic, ok := e2.Tuple.(*ssa.Call); ok && c.calleeName(&ic.Call) == "Stack.Index" {
							okA = true
						}
					}
				}
			}
			if !okA {
				problems = append(problems, "the recursive decode is not applied to the entry examined (asserted to []any)")
			}
		}
	}
	if len(problems) == 0 {
		rep.ok("R-MARSHAL", "marshalDefault", "nested entries", pos, "every entry 0..Len-1 that is a []any is decoded by marshalDefault and replaced, in place, by the initialised Stack or Condition it yields")
	} else {
		sort.Strings(problems)
		rep.bad("R-MARSHAL", "marshalDefault", "nested entries", pos, strings.Join(uniq(problems), "; "))
	}
}

// ruleDeenvelope: an envelope is stripped only while the slice holds exactly one
// element and that element is itself a slice; what is kept is that element.
func (c *Ctx) ruleDeenvelope() {
	rep := c.rep
	tt := c.eng.tt
	fn := c.anchor("R-TBL", "deenvelopeSingleStack")
	if fn == nil {
		return
	}
	fa := c.eng.analyze(fn, nil)
	var problems []string
	// every type assertion to []any in the function is on element 0 of a slice known to have length 1
	n := 0
	for _, b := range fn.Blocks {
		for _, in := range b.Instrs {
			ta, ok := in.(*ssa.TypeAssert)
			if !ok {
				continue
			}
			n++
			for _, s := range fa.statesBefore(ta) {
				xt := fa.term(s, ta.X)
				okEl := xt.K == "L" && xt.A != nil && xt.A.K == "IA" && xt.A.B != nil && xt.A.B.K == "C" && xt.A.B.S == "0"
				if !okEl {
					problems = append(problems, "the element examined as a possible inner slice is not element 0")
					continue
				}
				lt := tt.mk(Term{K: "LEN", A: xt.A.A})
				if !c.eqInt(fa, s, lt, c.intConst(1), nil) {
					problems = append(problems, "an envelope is stripped from a slice not known to hold exactly one element (a one-element stack holding a nested stack would lose a level)")
				}
			}
		}
	}
	if n != 1 {
		problems = append(problems, fmt.Sprintf("%d type assertions, expected one", n))
	}
	if len(problems) == 0 {
		rep.ok("R-TBL", "deenvelopeSingleStack", "envelopes", c.p.pos(fn.Pos()), "only a slice of exactly one element whose element 0 is a slice is unwrapped")
	} else {
		sort.Strings(problems)
		rep.bad("R-TBL", "deenvelopeSingleStack", "envelopes", c.p.pos(fn.Pos()), strings.Join(uniq(problems), "; "))
	}
}

// derivesFromCtor: v is a Stack built by a constructor (through fluent calls on it).
func (c *Ctx) derivesFromCtor(v ssa.Value, depth int) bool {
	if depth > 8 {
		return false
	}
	switch x := v.(type) {
	case *ssa.Call:
		n := c.calleeName(&x.Call)
		switch n {
		case "And", "Or", "Not", "List", "Basic", "stackByWord":
			return true
		case "Stack.Push":
			return c.derivesFromCtor(x.Call.Args[0], depth+1)
		}
	case *ssa.Phi:
		for _, e := range x.Edges {
			if !c.derivesFromCtor(e, depth+1) {
				return false
			}
		}
		return len(x.Edges) > 0
	}
	return false
}

// ruleMarshalOut: OUT.
func (c *Ctx) ruleMarshalOut() {
	rep := c.rep
	// (1) marshalDefault: error, constructed Stack, or vouched Condition
	if fn := c.anchor("R-MARSHAL", "marshalDefault"); fn != nil {
		fa := c.eng.analyze(fn, nil)
		var problems []string
		n := 0
		for _, ret := range c.returnsOf(fn) {
			for _, s := range fa.statesBefore(ret) {
				n++
				if v, known := fa.nonNil(s, ret.Results[2]); known && v {
					continue
				}
				if t := fa.term(s, ret.Results[2]); (t.K == "APP" && t.S == "errorf") || (t.K == "V" && isCallTo(c, t.V, "errorf")) {
					continue
				}
				// Stack built by a constructor
				x := ret.Results[0]
				if bv, ok := s.bind[x]; ok && bv != nil {
					x = bv
				}
				if c.derivesFromCtor(x, 0) {
					continue
				}
				// Condition vouched for
				okC := false
				if ex, ok := ret.Results[1].(*ssa.Extract); ok && ex.Index == 0 {
					if call, ok := ex.Tuple.(*ssa.Call); ok && c.calleeName(&call.Call) == "extractConditionValues" {
						if v, known := fa.knownTerm(s, aTR, fa.callResultTerm(s, call, 1)); known && v {
							okC = true
						}
					}
				}
				if okC {
					continue
				}
				problems = append(problems, c.p.instrPos(ret)+": a return path yields no error, no constructed Stack and no vouched-for Condition")
			}
		}
		if n == 0 {
			problems = append(problems, "no return path")
		}
		if len(problems) == 0 {
			rep.ok("R-MARSHAL", "marshalDefault", "outcome", c.p.pos(fn.Pos()), fmt.Sprintf("all %d return path states yield an error, a constructor-built Stack, or a Condition extractConditionValues reported ok", n))
		} else {
			sort.Strings(problems)
			rep.bad("R-MARSHAL", "marshalDefault", "outcome", c.p.pos(fn.Pos()), strings.Join(uniq(problems), "; "))
		}
	}
	// (2) extractConditionValues: ok only for an initialised Condition
	if fn := c.anchor("R-MARSHAL", "extractConditionValues"); fn != nil {
		fa := c.eng.analyze(fn, nil)
		var problems []string
		for _, ret := range c.returnsOf(fn) {
			for _, s := range fa.statesBefore(ret) {
				v, known := c.knownBool(fa, s, ret.Results[1])
				if known && !v {
					continue
				}
				// ok may be true: it must be c.IsInit() of the Condition returned
				t := fa.term(s, ret.Results[1])
				okT := false
				if t.K == "APP" && t.S == "Condition.IsInit" && t.A != nil && t.A.A == fa.term(s, ret.Results[0]) {
					okT = true
				}
				if known && v {
					for _, ic := range c.findCalls(fn, "Condition.IsInit") {
						if fa.term(s, ic.Call.Args[0]) == fa.term(s, ret.Results[0]) {
							if vv, kk := fa.knownTerm(s, aTR, fa.term(s, ic)); kk && vv {
								okT = true
							}
						}
					}
				}
				if !okT {
					problems = append(problems, c.p.instrPos(ret)+": ok can be true without being IsInit() of the Condition returned: "+t.key)
				}
			}
		}
		if len(problems) == 0 {
			rep.ok("R-MARSHAL", "extractConditionValues", "outcome", c.p.pos(fn.Pos()), "ok is exactly IsInit() of the Condition returned")
		} else {
			sort.Strings(problems)
			rep.bad("R-MARSHAL", "extractConditionValues", "outcome", c.p.pos(fn.Pos()), strings.Join(uniq(problems), "; "))
		}
	}
	// (3) Marshal
	if fn := c.anchor("R-MARSHAL", "(*Stack).Marshal"); fn != nil {
		fa := c.eng.analyze(fn, nil)
		tt := c.eng.tt
		var problems []string
		p0 := tt.mk(Term{K: "P", N: 0, S: fn.Params[0].Name()})
		handle := tt.mk(Term{K: "FA", A: p0, N: 0})
		mds := c.findCalls(fn, "marshalDefault")
		pushes := c.findCalls(fn, "Stack.Push")
		n := 0
		for _, ret := range c.returnsOf(fn) {
			for _, s := range fa.statesBefore(ret) {
				n++
				ev := ret.Results[0]
				if v, known := fa.nonNil(s, ev); known && v {
					continue
				}
				et := fa.term(s, ev)
				if (et.K == "APP" && et.S == "errorf") || (et.K == "V" && isCallTo(c, et.V, "errorf")) {
					continue
				}
				// a user marshaler decides
				if et.K == "V" {
					if call, ok := et.V.(*ssa.Call); ok && c.p.callee(&call.Call) == nil && !call.Call.IsInvoke() {
						continue
					}
				}
				// receiver initialised on entry?
				initKnown, initVal := false, false
				for _, ic := range c.findCalls(fn, "Stack.IsInit") {
					at := fa.term(s, ic.Call.Args[0])
					if at.K == "L" && at.A == p0 {
						if v, known := fa.knownTerm(s, aTR, fa.term(s, ic)); known {
							initKnown, initVal = true, v
						}
					}
				}
				if !initKnown {
					problems = append(problems, c.p.instrPos(ret)+": a path does not depend on whether the receiver is initialised")
					continue
				}
				if initVal {
					// an initialised receiver is never re-seated: its capacity, options and content stay
					if _, reseated := s.heap[handle.key]; reseated {
						problems = append(problems, "an initialised receiver is replaced by the decoded stack (its capacity, options and content are lost) instead of gaining one element")
					}
					// gains at most one element: exactly one Push executed iff something was decoded
					done := 0
					for _, pc := range pushes {
						if _, did := s.cep[pc]; did {
							done++
							if els := variadicElems(pc.Call.Args[1]); len(els) != 1 {
								problems = append(problems, "an initialised receiver is pushed more than one value")
							}
						}
					}
					if done > 1 {
						problems = append(problems, "an initialised receiver gains more than one element")
					}
					continue
				}
				// uninitialised receiver, err possibly nil: the handle must have been seated ...
				if cell, ok := s.heap[handle.key]; ok {
					// ... with the decoded Stack, known initialised
					vt := fa.term(s, cell.val)
					okH := false
					for _, md := range mds {
						if _, did := s.cep[md]; !did {
							continue
						}
						xs := fa.callResultTerm(s, md, 0)
						if vt.K == "F" && vt.A == xs {
							for _, ic := range c.findCalls(fn, "Stack.IsInit") {
								if fa.term(s, ic.Call.Args[0]) == xs {
									if v, known := fa.knownTerm(s, aTR, fa.term(s, ic)); known && v {
										okH = true
									}
								}
							}
						}
					}
					if !okH {
						problems = append(problems, "the receiver is seated with something other than the decoded Stack known to be initialised")
					}
					continue
				}
				// ... or the error returned is marshalDefault's own on a path where it yielded neither Stack nor Condition
				okF := false
				for _, md := range mds {
					if _, did := s.cep[md]; !did {
						continue
					}
					if et == fa.callResultTerm(s, md, 2) {
						// non-nil by the outcome rule of marshalDefault - provided it yielded neither a Stack nor a Condition here
						neither := 0
						for k, guard := range []string{"Stack.IsInit", "Condition.IsInit"} {
							rk := fa.callResultTerm(s, md, k)
							for _, ic := range c.findCalls(fn, guard) {
								if fa.term(s, ic.Call.Args[0]) == rk {
									if v, known := fa.knownTerm(s, aTR, fa.term(s, ic)); known && !v {
										neither++
									}
								}
							}
						}
						if neither >= 2 {
							okF = true
						}
					}
				}
				if !okF {
					problems = append(problems, c.p.instrPos(ret)+": an uninitialised receiver can be left uninitialised with an error that is not marshalDefault's")
				}
			}
		}
		// the handle is seated nowhere else in Marshal
		if n == 0 {
			problems = append(problems, "no return path")
		}
		if len(problems) == 0 {
			rep.ok("R-MARSHAL", "(*Stack).Marshal", "outcome", c.p.pos(fn.Pos()), fmt.Sprintf("all %d return path states: non-nil error, or receiver initialised (seated with the decoded Stack under IsInit, or initialised before and grown by at most one element), or marshalDefault's own error where it produced nothing", n))
		} else {
			sort.Strings(problems)
			rep.bad("R-MARSHAL", "(*Stack).Marshal", "outcome", c.p.pos(fn.Pos()), strings.Join(uniq(problems), "; "))
		}
	}
	// (4) unknown label -> BASIC holding all entries; known label -> the rest
	if fn := c.p.ByName["marshalDefault"]; fn != nil {
		fa := c.eng.analyze(fn, nil)
		var problems []string
		in0 := fn.Params[0]
		for _, call := range c.findCalls(fn, "Stack.Push") {
			recv := call.Call.Args[0]
			rc, ok := recv.(*ssa.Call)
			if !ok {
				problems = append(problems, "Push on something other than a fresh constructor result")
				continue
			}
			arg := call.Call.Args[1]
			// the (possibly de-enveloped) input: a phi/loop value derived from deenvelopeSingleStack
			fromInput := func(v ssa.Value) bool {
				if v == ssa.Value(in0) {
					return true
				}
				if dc, ok := v.(*ssa.Call); ok && c.calleeName(&dc.Call) == "deenvelopeSingleStack" {
					return true
				}
				return false
			}
			switch c.calleeName(&rc.Call) {
			case "Basic":
				if !fromInput(arg) {
					problems = append(problems, "the BASIC fallback does not push all entries")
				}
			case "stackByWord":
				sl, ok := arg.(*ssa.Slice)
				k := int64(-1)
				if ok && sl.Low != nil {
					k, _ = constIntOf(sl.Low)
				}
				if !ok || !fromInput(sl.X) || k != 1 || sl.High != nil {
					problems = append(problems, "a labelled stack is not filled with the entries after the label (in[1:])")
				}
				// the word handed to stackByWord is the label
				_ = fa
			default:
				problems = append(problems, "Push on an unexpected receiver")
			}
		}
		if len(problems) == 0 {
			rep.ok("R-MARSHAL", "marshalDefault", "entries decoded", c.p.pos(fn.Pos()), "a recognised label yields stackByWord(label).Push(in[1:]...), anything else Basic().Push(in...)")
		} else {
			sort.Strings(problems)
			rep.bad("R-MARSHAL", "marshalDefault", "entries decoded", c.p.pos(fn.Pos()), strings.Join(uniq(problems), "; "))
		}
	}
}

func structFieldNames(t types.Type) []string {
	st, ok := t.Underlying().(*types.Struct)
	if !ok {
		return nil
	}
	var out []string
	for i := 0; i < st.NumFields(); i++ {
		out = append(out, st.Field(i).Name())
	}
	return out
}

// ruleMarshalUnlimited: the stacks the decoder creates carry no capacity: every
// call of a Stack constructor reachable from marshalDefault passes no capacity
// argument.  A capacity would make the reconstruction observably different
// (Cap(), refused pushes) and, if smaller than the number of entries pushed,
// silently drop entries.
func (c *Ctx) ruleMarshalUnlimited() {
	rep := c.rep
	root := c.anchor("R-MARSHAL", "marshalDefault")
	if root == nil {
		return
	}
	ctors := map[string]bool{"And": true, "Or": true, "Not": true, "List": true, "Basic": true}
	n := 0
	for _, fn := range c.reach(root) {
		if ctors[relName(fn)] {
			continue // the constructors' own bodies
		}
		ord := newOrdinal()
		for _, b := range fn.Blocks {
			for _, in := range b.Instrs {
				call, ok := in.(*ssa.Call)
				if !ok {
					continue
				}
				cal := c.p.callee(&call.Call)
				if cal == nil || !c.p.inPkg(cal) || !ctors[relName(cal)] {
					continue
				}
				n++
				construct := ord.next("constructor " + relName(cal))
				pos := c.p.instrPos(in)
				good := len(call.Call.Args) == 1
				if good {
					k, isC := call.Call.Args[0].(*ssa.Const)
					good = isC && k.IsNil()
				}
				if good {
					rep.ok("R-MARSHAL", relName(fn), construct, pos, "the decoded stack is created without a capacity")
				} else {
					rep.bad("R-MARSHAL", relName(fn), construct, pos, "the decoder creates a stack with a capacity argument: the reconstruction would report a capacity the original never had and may drop entries")
				}
			}
		}
	}
	if n < 5 {
		rep.bad("R-MARSHAL", "marshalDefault", "constructors", c.p.pos(root.Pos()), fmt.Sprintf("only %d constructor calls found in the decoder's scope (expected the five kinds)", n))
	}
}

// ruleMarshalGain: "an already initialised receiver gains the decoded Stack or
// Condition as one new element".  On the built-in path Marshal pushes the
// decoded value; a receiver that is full, read-only or refuses it by policy
// gains nothing, and that must not pass for success: wherever Marshal returns
// after such a push with a possibly nil error, the receiver's Len() is known to
// differ from the Len() read before the push.
func (c *Ctx) ruleMarshalGain() {
	rep := c.rep
	fn := c.anchor("R-MARSHAL", "(*Stack).Marshal")
	if fn == nil {
		return
	}
	pos := c.p.pos(fn.Pos())
	fa := c.eng.analyze(fn, nil)
	pushes := c.findCalls(fn, "Stack.Push")
	if len(pushes) == 0 {
		rep.bad("R-MARSHAL", "(*Stack).Marshal", "receiver gains the decoded value", pos, "no Push of the decoded value into an initialised receiver found")
		return
	}
	// comparisons of two Len() readings of the receiver
	isLen := func(v ssa.Value) bool {
		call, ok := v.(*ssa.Call)
		return ok && c.calleeName(&call.Call) == "Stack.Len"
	}
	var lenCmps []*ssa.BinOp
	lenCalls := c.findCalls(fn, "Stack.Len")
	for _, b := range fn.Blocks {
		for _, in := range b.Instrs {
			if bo, ok := in.(*ssa.BinOp); ok && (bo.Op == token.EQL || bo.Op == token.NEQ) && isLen(bo.X) && isLen(bo.Y) && bo.X != bo.Y {
				lenCmps = append(lenCmps, bo)
			}
		}
	}
	n := 0
	bad := false
	for _, rs := range fa.rets {
		if rs.st.dead {
			continue
		}
		pushed := false
		for _, pc := range pushes {
			if d, _ := rs.st.get(aDID, c.eng.tt.mk(Term{K: "V", V: pc})); d {
				pushed = true
			}
		}
		if !pushed {
			continue
		}
		if v, known := fa.nonNil(rs.st, rs.ret.Results[0]); known && v {
			continue // an error is reported
		}
		n++
		grew := false
		for _, cmp := range lenCmps {
			if v, known := fa.knownTerm(rs.st, aTR, fa.term(rs.st, cmp)); known && v == (cmp.Op == token.NEQ) {
				grew = true
			}
		}
		if !grew {
			// any other spelling of the test (<=, >, a difference): the two readings are provably different
			for _, c1 := range lenCalls {
				for _, c2 := range lenCalls {
					if c1 == c2 {
						continue
					}
					t1, t2 := fa.term(rs.st, c1), fa.term(rs.st, c2)
					if c.provesFact(fa, rs.st, Fact{aTR, c.eng.tt.mk(Term{K: "B", S: "<", A: t1, B: t2}), true}, nil) {
						grew = true
					}
				}
			}
		}
		if !grew {
			bad = true
		}
	}
	// an uninitialised receiver that adopted the decoded stack returns the decoder's own verdict:
	// nothing (an emptiness or "did it grow" test meant for the other branch) turns that into an error
	{
		mds := c.findCalls(fn, "marshalDefault")
		nAdopt, wrong := 0, false
		for _, rs := range fa.rets {
			if rs.st.dead {
				continue
			}
			adopted := false
			for _, cell := range rs.st.heap {
				if cell.loc == "HANDLE" {
					adopted = true
				}
			}
			if !adopted {
				continue
			}
			nAdopt++
			okV := false
			rt := fa.term(rs.st, rs.ret.Results[0])
			for _, md := range mds {
				if rt == fa.callResultTerm(rs.st, md, 2) {
					okV = true
				}
			}
			if v, known := fa.nonNil(rs.st, rs.ret.Results[0]); known && !v {
				okV = true
			}
			if !okV {
				wrong = true
			}
		}
		switch {
		case nAdopt == 0:
			rep.bad("R-MARSHAL", "(*Stack).Marshal", "adoption returns the decoder's verdict", pos, "no return path on which an uninitialised receiver adopts the decoded stack")
		case wrong:
			rep.bad("R-MARSHAL", "(*Stack).Marshal", "adoption returns the decoder's verdict", pos, "after adopting the decoded stack Marshal can return an error of its own making (e.g. for an empty decoded stack such as [\"AND\"])")
		default:
			rep.ok("R-MARSHAL", "(*Stack).Marshal", "adoption returns the decoder's verdict", pos, fmt.Sprintf("on each of the %d adopting return paths the result is marshalDefault's own error", nAdopt))
		}
	}
	switch {
	case bad:
		rep.bad("R-MARSHAL", "(*Stack).Marshal", "receiver gains the decoded value", pos, "Marshal can return a nil error after pushing into an initialised receiver without having observed that its length changed (a full or read-only receiver would silently gain nothing)")
	case n == 0:
		rep.bad("R-MARSHAL", "(*Stack).Marshal", "receiver gains the decoded value", pos, "no successful return follows the push into an initialised receiver")
	default:
		rep.ok("R-MARSHAL", "(*Stack).Marshal", "receiver gains the decoded value", pos, fmt.Sprintf("on each of the %d successful returns after the push, Len() is known to differ from the Len() read before it", n))
	}
}
