package main

import (
	"fmt"
	"go/constant"
	"go/token"
	"go/types"
	"sort"
	"strings"

	"golang.org/x/tools/go/ssa"
)

// ---------------------------------------------------------------- R-RO

type roRecord struct {
	chain []string
	instr ssa.Instruction
	loc   string
	cond  *Term // unguarded only when this param-rooted term is true (nil: always)
	deref bool  // loc is "*Pk" of the tracked parameter itself: re-classified at the call site
	shallow bool // the written cell lies inside the object Pk points at (no load in between)
}

type roKey struct {
	fn *ssa.Function
	k  int
}

type roAnalysis struct {
	c       *Ctx
	tests   map[*ssa.Function]bool
	memo    map[roKey][]roRecord
	busy    map[roKey]bool
}

func (c *Ctx) newRO() *roAnalysis {
	ra := &roAnalysis{c: c, tests: map[*ssa.Function]bool{}, memo: map[roKey][]roRecord{}, busy: map[roKey]bool{}}
	for _, n := range []string{"Stack.getState", "Condition.getState", "stack.positive"} {
		if fn := c.anchor("R-RO", n); fn != nil {
			ra.tests[fn] = true
		}
	}
	// wrappers: func (r T) X() bool { return r.getState(ronly) }
	for changed := true; changed; {
		changed = false
		for _, fn := range c.p.Funcs {
			if ra.tests[fn] || len(fn.Params) != 1 || fn.Signature.Results().Len() != 1 {
				continue
			}
			fa := c.eng.analyze(fn, nil)
			if len(fa.rets) == 0 {
				continue
			}
			all := true
			for _, rs := range fa.rets {
				v := rs.ret.Results[0]
				for i := 0; i < 4; i++ {
					if w, ok := rs.st.bind[v]; ok && w != nil {
						v = w
					} else {
						break
					}
				}
				call, ok := v.(*ssa.Call)
				if !ok || !ra.isROTestCall(fa, rs.st, call, 0) {
					all = false
					break
				}
			}
			if all {
				ra.tests[fn] = true
				changed = true
			}
		}
	}
	return ra
}

// isROTestCall: call is getState(x, ronly) (or a wrapper) with x = param k
// (or a load of pointer param k).
func (ra *roAnalysis) isROTestCall(fa *FnAnalysis, st *State, call *ssa.Call, k int) bool {
	cal := ra.c.p.callee(&call.Call)
	if cal == nil || !ra.tests[cal] {
		return false
	}
	if len(call.Call.Args) == 0 {
		return false
	}
	t := fa.term(st, call.Call.Args[0])
	if !(t.K == "P" && t.N == k) && !(t.K == "L" && t.A.K == "P" && t.A.N == k) {
		return false
	}
	if strings.HasSuffix(relName(cal), ".getState") || relName(cal) == "stack.positive" {
		if len(call.Call.Args) < 2 || !isConstInt(call.Call.Args[1], ra.c.ronly) {
			return false
		}
	}
	return true
}

func (ra *roAnalysis) roTestValue(fa *FnAnalysis, st *State, k int) (bool, bool) {
	// when the flag was tested more than once on this path, the test made in the
	// latest memory epoch speaks for the current state
	best, bestEp, found := false, -1, false
	for _, b := range fa.fn.Blocks {
		for _, in := range b.Instrs {
			call, ok := in.(*ssa.Call)
			if !ok || !ra.isROTestCall(fa, st, call, k) {
				continue
			}
			if v, known := fa.knownTerm(st, aTR, fa.term(st, call)); known {
				ep, has := st.cep[call]
				if !has {
					ep = 0
				}
				if !found || ep > bestEp {
					best, bestEp, found = v, ep, true
				}
			}
		}
	}
	return best, found
}

func (ra *roAnalysis) hasROFalse(fa *FnAnalysis, st *State, k int) bool {
	v, known := ra.roTestValue(fa, st, k)
	return known && !v
}

// escapeCond finds a fact  Pj == ronly  in the state (the `|| cf == ronly`
// arm of setState's guard).
func (ra *roAnalysis) escapeCond(st *State) *Term {
	for _, f := range st.factList() {
		if f.Kind != aTR || !f.Val || f.T.K != "B" || f.T.S != "==" {
			continue
		}
		a, b := f.T.A, f.T.B
		if a.K == "P" {
			a, b = b, a
		}
		if a.K == "C" && b.K == "P" && a.Const != nil {
			if v, ok := constInt64(a.Const); ok && v == ra.c.ronly {
				return f.T
			}
		}
	}
	return nil
}

// initFalse: the state says the receiver handle is not initialised.
func (ra *roAnalysis) initFalse(fa *FnAnalysis, st *State, k int) bool {
	for _, f := range st.factList() {
		if f.Kind == aNN && !f.Val {
			// handle pointer is nil:  F(P(k),0) or F(L(P(k)),0)
			t := f.T
			if t.K == "F" && t.N == 0 {
				if (t.A.K == "P" && t.A.N == k) || (t.A.K == "L" && t.A.A.K == "P" && t.A.A.N == k) {
					return true
				}
			}
		}
	}
	for _, b := range fa.fn.Blocks {
		for _, in := range b.Instrs {
			call, ok := in.(*ssa.Call)
			if !ok {
				continue
			}
			if cal := ra.c.p.callee(&call.Call); cal != nil && (relName(cal) == "Stack.IsInit" || relName(cal) == "Condition.IsInit") {
				t := fa.term(st, call.Call.Args[0])
				if (t.K == "P" && t.N == k) || (t.K == "L" && t.A.K == "P" && t.A.N == k) {
					if v, known := fa.knownTerm(st, aTR, fa.term(st, call)); known && !v {
						return true
					}
				}
			}
		}
	}
	return false
}

func (ra *roAnalysis) unguarded(fn *ssa.Function, k int) []roRecord {
	key := roKey{fn, k}
	if r, ok := ra.memo[key]; ok {
		return r
	}
	if ra.busy[key] {
		return []roRecord{{chain: []string{relName(fn) + " (recursive)"}, loc: "RECURSION"}}
	}
	ra.busy[key] = true
	defer delete(ra.busy, key)
	c := ra.c
	fe := c.eff.fns[fn]
	fa := c.eng.analyze(fn, nil)
	var out []roRecord
	want := Root{Kind: 'p', Idx: k}
	for _, site := range fe.sites {
		var locs []string
		for _, w := range site.Writes {
			if w.Root == want {
				locs = append(locs, w.Loc)
			}
		}
		if len(locs) == 0 {
			continue
		}
		states := fa.statesBefore(site.Instr)
		anyPlain := false
		var esc *Term
		allGuarded := true
		for _, s := range states {
			if ra.hasROFalse(fa, s, k) {
				continue
			}
			allGuarded = false
			if e := ra.escapeCond(s); e != nil {
				esc = e
			} else {
				anyPlain = true
			}
		}
		if allGuarded {
			continue
		}
		siteCond := esc
		if anyPlain {
			siteCond = nil
		}
		if site.Direct || site.Callee == nil || !c.p.inPkg(site.Callee) {
			for _, l := range locs {
				rec := roRecord{chain: []string{relName(fn)}, instr: site.Instr, loc: l, cond: siteCond}
				if st, ok := site.Instr.(*ssa.Store); ok {
					if k < len(fn.Params) && st.Addr == fn.Params[k] {
						rec.deref = true
					}
					rec.shallow = shallowAddr(st.Addr)
				}
				out = append(out, rec)
			}
			continue
		}
		cc := callCommon(site.Instr)
		args := c.eff.callArgs(cc)
		var st0 *State
		if len(states) > 0 {
			st0 = states[0]
		}
		var argTerms []*Term
		for _, a := range cc.Args {
			argTerms = append(argTerms, fa.term(st0, a))
		}
		for j, a := range args {
			direct := c.eff.rootsOf(fe, a)[want]
			viaCopy := false
			if !direct {
				for _, r := range c.eff.expandFresh(fe, c.eff.rootsOf(fe, a)) {
					if r == want {
						viaCopy = true
					}
				}
			}
			if !direct && !viaCopy {
				continue
			}
			for _, sub := range ra.unguarded(site.Callee, j) {
				if viaCopy && sub.shallow {
					continue // the callee only writes the caller's local copy
				}
				rec := roRecord{chain: append([]string{relName(fn)}, sub.chain...), instr: sub.instr, loc: sub.loc}
				if direct && sub.shallow && shallowAddr(a) {
					rec.shallow = true
				}
				if sub.deref {
					rec.loc = c.eff.classifyAddr(a)
					if pa, ok := a.(*ssa.Parameter); ok && k < len(fn.Params) && pa == fn.Params[k] {
						rec.deref = true
					}
				}
				if sub.instr == nil {
					rec.instr = site.Instr
				}
				drop := false
				if sub.cond != nil {
					t := c.eng.tt.subst(sub.cond, argTerms)
					switch {
					case t == nil:
						rec.cond = nil
					case t.K == "C" && t.Const != nil && t.Const.Kind() == constant.Bool:
						if !constant.BoolVal(t.Const) {
							drop = true
						}
					case t.paramRooted():
						rec.cond = t
					}
				} else {
					rec.cond = siteCond
				}
				if !drop {
					out = append(out, rec)
				}
			}
		}
	}
	ra.memo[key] = out
	return out
}

var roExempt = map[string]map[string]bool{
	// method name -> locations it may write while read-only (from the property statement)
	"SetReadOnly": {"nodeConfig.opt": true, "nodeConfig.ldr": true, "EXT:Mutex.Lock": true, "EXT:Mutex.Unlock": true},
	"ReadOnly":    {"nodeConfig.opt": true, "nodeConfig.ldr": true, "EXT:Mutex.Lock": true, "EXT:Mutex.Unlock": true},
	"SetErr":      {"nodeConfig.err": true},
	"Init":        {"HANDLE": true},
}

func (c *Ctx) ruleRO() {
	rep := c.rep
	ra := c.newRO()
	var testNames []string
	for fn := range ra.tests {
		testNames = append(testNames, relName(fn))
	}
	sort.Strings(testNames)
	rep.Extra["ro_test_functions"] = testNames
	mutators := 0
	guardSites := 0
	var nested []string
	for _, m := range c.handleMethods() {
		fe := c.eff.fns[m.Fn]
		fa := c.eng.analyze(m.Fn, nil)
		if fa.unstable {
			rep.undecided("R-RO", m.String(), "analysis", c.p.pos(m.Fn.Pos()), "fact propagation did not stabilise")
			continue
		}
		recv := Root{Kind: 'p', Idx: 0}
		hasRecvWrite := false
		for w := range fe.writes {
			if w.Root == recv {
				hasRecvWrite = true
			}
			if w.Root.Kind == 'u' || w.Root.Kind == 'v' {
				rep.undecided("R-RO", m.String(), "write "+w.Loc+" with unknown root", c.p.pos(m.Fn.Pos()), "cannot attribute a write to an object: "+w.String())
			}
			if w.Root.Kind == 'p' && w.Root.Idx == 0 && w.Root.Elem {
				nested = append(nested, m.String()+": "+w.Loc+" on a nested element (outside the statement: the nested object's own flag governs it)")
			}
		}
		if !hasRecvWrite {
			continue
		}
		mutators++
		ord := newOrdinal()
		recs := ra.unguarded(m.Fn, 0)
		bySite := map[ssa.Instruction][]roRecord{}
		for _, r := range recs {
			// attribute to the top-level site in m
			bySite[c.topSite(m.Fn, r)] = append(bySite[c.topSite(m.Fn, r)], r)
		}
		for _, site := range fe.sites {
			touches := false
			for _, w := range site.Writes {
				if w.Root == recv {
					touches = true
				}
			}
			if !touches {
				continue
			}
			construct := ord.next(c.describeInstr(site.Instr))
			pos := c.p.instrPos(site.Instr)
			bad := bySite[site.Instr]
			if len(bad) == 0 {
				guardSites++
				rep.ok("R-RO", m.String(), construct, pos, "every receiver write below this site is dominated by the false edge of getState(recv, ronly)")
				continue
			}
			ex := roExempt[m.Name]
			var msgs []string
			for _, r := range bad {
				if ex != nil && ex[r.loc] {
					continue
				}
				if r.loc == "HANDLE" && m.Name == "Marshal" {
					// accepted only when the receiver is known uninitialised
					okInit := true
					for _, s := range fa.statesBefore(site.Instr) {
						if !ra.hasROFalse(fa, s, 0) && !ra.initFalse(fa, s, 0) {
							okInit = false
						}
					}
					if okInit {
						continue
					}
				}
				cond := ""
				if r.cond != nil {
					cond = " when " + r.cond.key
				}
				msgs = append(msgs, fmt.Sprintf("%s written at %s via %s with no read-only guard%s", r.loc, c.p.instrPos(r.instr), strings.Join(r.chain, " -> "), cond))
			}
			if len(msgs) == 0 {
				rep.ok("R-RO", m.String(), construct, pos, "exempt by the property statement ("+m.Name+")")
				continue
			}
			sort.Strings(msgs)
			rep.bad("R-RO", m.String(), construct, pos, strings.Join(msgs, "; "))
		}
	}
	sort.Strings(nested)
	rep.Extra["nested_object_writes_out_of_scope"] = nested
	rep.Extra["mutating_entry_points"] = mutators
	rep.Extra["guarded_sites"] = guardSites
}

// topSite maps a record to the instruction of fn through which it happens.
func (c *Ctx) topSite(fn *ssa.Function, r roRecord) ssa.Instruction {
	if len(r.chain) <= 1 {
		return r.instr
	}
	// find the call site in fn to chain[1]
	next := strings.TrimSuffix(r.chain[1], " (recursive)")
	fe := c.eff.fns[fn]
	for _, s := range fe.sites {
		if s.Callee != nil && relName(s.Callee) == next {
			return s.Instr
		}
	}
	return r.instr
}

// ruleFreeRO: Free on a read-only instance returns a non-nil error and does
// not touch the handle.
func (c *Ctx) ruleFreeRO() {
	ra := c.newRO()
	for _, n := range []string{"(*Stack).Free", "(*Condition).Free"} {
		fn := c.anchor("R-RO-FREE", n)
		if fn == nil {
			continue
		}
		fa := c.eng.analyze(fn, nil)
		nRO := 0
		ok := true
		for _, rs := range fa.rets {
			isRO := false
			if v, known := ra.roTestValue(fa, rs.st, 0); known && v {
				isRO = true
			}
			if !isRO {
				continue
			}
			nRO++
			if v, known := fa.nonNil(rs.st, rs.ret.Results[0]); !known || !v {
				ok = false
			}
		}
		if nRO == 0 {
			c.rep.bad("R-RO-FREE", n, "error on read-only", c.p.pos(fn.Pos()), "no return path tests the read-only flag")
		} else if ok {
			c.rep.ok("R-RO-FREE", n, "error on read-only", c.p.pos(fn.Pos()), "every return reached with getState(ronly)==true yields a non-nil error")
		} else {
			c.rep.bad("R-RO-FREE", n, "error on read-only", c.p.pos(fn.Pos()), "a return reached with the read-only flag set may yield a nil error")
		}
	}
}

// ---------------------------------------------------------------- R-MASK

// ruleMask checks that the bit helpers do exactly |=, &^=, test-and-branch.
func (c *Ctx) ruleMask() {
	rep := c.rep
	check := func(name string, f func(fn *ssa.Function) string) {
		fn := c.anchor("R-MASK", name)
		if fn == nil {
			return
		}
		if msg := f(fn); msg != "" {
			rep.bad("R-MASK", name, "body", c.p.pos(fn.Pos()), msg)
		} else {
			rep.ok("R-MASK", name, "body", c.p.pos(fn.Pos()), "operator and operands are exactly receiver and parameter")
		}
	}
	storeBin := func(op token.Token) func(fn *ssa.Function) string {
		return func(fn *ssa.Function) string {
			// exactly one store: *r = *r OP x
			var stores []*ssa.Store
			for _, b := range fn.Blocks {
				for _, in := range b.Instrs {
					if s, ok := in.(*ssa.Store); ok {
						stores = append(stores, s)
					}
					if cc := callCommon(in); cc != nil {
						return "unexpected call in a bit helper"
					}
				}
			}
			if len(stores) != 1 {
				return fmt.Sprintf("expected exactly one store, found %d", len(stores))
			}
			s := stores[0]
			if s.Addr != fn.Params[0] {
				return "store does not target the receiver"
			}
			bo, ok := s.Val.(*ssa.BinOp)
			if !ok || bo.Op != op {
				return "stored value is not *r " + op.String() + " x"
			}
			ld, ok := bo.X.(*ssa.UnOp)
			if !ok || ld.Op != token.MUL || ld.X != fn.Params[0] {
				return "left operand is not the current value *r"
			}
			if bo.Y != fn.Params[1] {
				return "right operand is not the parameter x"
			}
			return ""
		}
	}
	check("(*cfgFlag).shift", storeBin(token.OR))
	check("(*cfgFlag).unshift", storeBin(token.AND_NOT))
	check("cfgFlag.positive", func(fn *ssa.Function) string {
		// return r&x != 0
		for _, b := range fn.Blocks {
			for _, in := range b.Instrs {
				if ret, ok := in.(*ssa.Return); ok {
					ne, ok := ret.Results[0].(*ssa.BinOp)
					if !ok || ne.Op != token.NEQ || !isConstInt(ne.Y, 0) {
						return "result is not (r & x) != 0"
					}
					and, ok := ne.X.(*ssa.BinOp)
					if !ok || and.Op != token.AND {
						return "result is not (r & x) != 0"
					}
					if !((and.X == fn.Params[0] && and.Y == fn.Params[1]) || (and.X == fn.Params[1] && and.Y == fn.Params[0])) {
						return "operands of & are not receiver and parameter"
					}
					return ""
				}
			}
		}
		return "no return"
	})
	check("(*cfgFlag).toggle", func(fn *ssa.Function) string {
		// if r.positive(x) { r.unshift(x) } else { r.shift(x) }
		fa := c.eng.analyze(fn, nil)
		var nShift, nUnshift int
		for _, b := range fn.Blocks {
			for _, in := range b.Instrs {
				call, ok := in.(*ssa.Call)
				if !ok {
					if _, isStore := in.(*ssa.Store); isStore {
						return "direct store in toggle"
					}
					continue
				}
				cal := c.p.callee(&call.Call)
				switch relName(cal) {
				case "cfgFlag.positive":
					ld, ok := call.Call.Args[0].(*ssa.UnOp)
					if !ok || ld.X != fn.Params[0] || call.Call.Args[1] != fn.Params[1] {
						return "positive() not applied to (*r, x)"
					}
				case "(*cfgFlag).shift", "(*cfgFlag).unshift":
					if call.Call.Args[0] != fn.Params[0] || call.Call.Args[1] != fn.Params[1] {
						return relName(cal) + " not applied to (r, x)"
					}
					wantPositive := relName(cal) == "(*cfgFlag).unshift"
					for _, s := range fa.statesBefore(in) {
						found := false
						for _, pc := range c.findCalls(fn, "cfgFlag.positive") {
							if v, known := fa.knownTerm(s, aTR, fa.term(s, pc)); known && v == wantPositive {
								found = true
							}
						}
						if !found {
							return relName(cal) + " is not on the correct branch of positive(x)"
						}
					}
					if wantPositive {
						nUnshift++
					} else {
						nShift++
					}
				default:
					return "unexpected call " + relName(cal)
				}
			}
		}
		if nShift != 1 || nUnshift != 1 {
			return "toggle must call shift and unshift exactly once each"
		}
		return ""
	})
	// nodeConfig wrappers apply the helper to the opt field with the same x
	for name, helper := range map[string]string{"(*nodeConfig).setOpt": "(*cfgFlag).shift", "(*nodeConfig).unsetOpt": "(*cfgFlag).unshift", "(*nodeConfig).toggleOpt": "(*cfgFlag).toggle"} {
		helper := helper
		check(name, func(fn *ssa.Function) string {
			n := 0
			for _, b := range fn.Blocks {
				for _, in := range b.Instrs {
					if _, isStore := in.(*ssa.Store); isStore {
						return "direct store"
					}
					call, ok := in.(*ssa.Call)
					if !ok {
						continue
					}
					cal := c.p.callee(&call.Call)
					rn := relName(cal)
					if rn == "(*nodeConfig).valid" {
						continue
					}
					if rn != helper {
						return "calls " + rn + " instead of " + helper
					}
					f, ok := call.Call.Args[0].(*ssa.FieldAddr)
					if !ok || f.X != fn.Params[0] || fieldName(f) != "nodeConfig.opt" {
						return "helper not applied to r.opt"
					}
					if call.Call.Args[1] != fn.Params[1] {
						return "helper not applied to the parameter x"
					}
					n++
				}
			}
			if n != 1 {
				return fmt.Sprintf("expected one call of %s, found %d", helper, n)
			}
			return ""
		})
	}
	// stack/condition wrappers forward (config/cfg, x) unchanged
	for _, pair := range [][2]string{
		{"(*stack).setOpt", "(*nodeConfig).setOpt"}, {"(*stack).unsetOpt", "(*nodeConfig).unsetOpt"}, {"(*stack).toggleOpt", "(*nodeConfig).toggleOpt"},
		{"(*condition).setOpt", "(*nodeConfig).setOpt"}, {"(*condition).unsetOpt", "(*nodeConfig).unsetOpt"}, {"(*condition).toggleOpt", "(*nodeConfig).toggleOpt"},
	} {
		name, helper := pair[0], pair[1]
		check(name, func(fn *ssa.Function) string {
			n := 0
			for _, b := range fn.Blocks {
				for _, in := range b.Instrs {
					call, ok := in.(*ssa.Call)
					if !ok {
						continue
					}
					rn := relName(c.p.callee(&call.Call))
					if strings.HasPrefix(rn, "(*nodeConfig).") && strings.HasSuffix(rn, "Opt") {
						if rn != helper {
							return "calls " + rn + " instead of " + helper
						}
						if call.Call.Args[1] != fn.Params[1] {
							return "flag argument is not forwarded unchanged"
						}
						n++
					}
				}
			}
			if n != 1 {
				return fmt.Sprintf("expected one call of %s, found %d", helper, n)
			}
			return ""
		})
	}
}

// ---------------------------------------------------------------- R-FLAGS(a)

func (c *Ctx) ruleFlagsDistinct() {
	rep := c.rep
	scope := c.p.Types.Scope()
	for _, tn := range []string{"cfgFlag", "LogLevel"} {
		seen := map[uint64]string{}
		n := 0
		var names []string
		for _, name := range scope.Names() {
			names = append(names, name)
		}
		for _, name := range names {
			k, ok := scope.Lookup(name).(*types.Const)
			if !ok || !c.p.isNamed(k.Type(), tn) {
				continue
			}
			v, _ := constant.Uint64Val(k.Val())
			if tn == "LogLevel" && (name == "NoLogLevels" || name == "AllLogLevels") {
				continue
			}
			n++
			if v == 0 || v&(v-1) != 0 {
				rep.bad("R-FLAGS", tn, "const "+name, c.p.pos(k.Pos()), fmt.Sprintf("value %d is not a single bit", v))
				continue
			}
			if other, dup := seen[v]; dup {
				rep.bad("R-FLAGS", tn, "const "+name, c.p.pos(k.Pos()), fmt.Sprintf("value %d duplicates %s", v, other))
				continue
			}
			seen[v] = name
			rep.ok("R-FLAGS", tn, "const "+name, c.p.pos(k.Pos()), fmt.Sprintf("single bit %d, distinct", v))
		}
		_ = n
	}
}

// ruleNoUnsafe re-checks the trusted-base facts: no unsafe import, no
// reflective setter, no explicit panic, no goroutine.
func (c *Ctx) ruleNoUnsafe() {
	bad := false
	for _, imp := range c.p.Types.Imports() {
		if imp.Path() == "unsafe" {
			c.rep.bad("R-BASE", "package", "import unsafe", "?", "the package imports unsafe; effect analysis is no longer sound")
			bad = true
		}
	}
	for _, fn := range c.p.Funcs {
		for _, b := range fn.Blocks {
			for _, in := range b.Instrs {
				if cc := callCommon(in); cc != nil {
					if cal := c.p.callee(cc); cal != nil && !c.p.inPkg(cal) {
						n := cal.String()
						if strings.HasPrefix(n, "(reflect.Value).Set") || n == "reflect.Copy" || n == "reflect.Append" || strings.HasPrefix(n, "unsafe.") {
							c.rep.bad("R-BASE", relName(fn), "call "+n, c.p.instrPos(in), "reflective/unsafe write: effect analysis is no longer sound")
							bad = true
						}
					}
				}
				if _, ok := in.(*ssa.Go); ok {
					c.rep.bad("R-BASE", relName(fn), "go statement", c.p.instrPos(in), "the package starts goroutines; sequential reasoning no longer applies")
					bad = true
				}
			}
		}
	}
	if !bad {
		c.rep.ok("R-BASE", "package", "no unsafe/reflect.Set/go", "?", "trusted-base facts re-checked on this tree")
	}
}

// ---------------------------------------------------------------- R-RO-ARG

// termMentionsParam: P(k) occurs somewhere in t.
func termMentionsParam(t *Term, k int) bool {
	if t == nil {
		return false
	}
	if t.K == "P" && t.N == k {
		return true
	}
	if termMentionsParam(t.A, k) || termMentionsParam(t.B, k) {
		return true
	}
	return false
}

// handleBase strips loads and the embedded-pointer field selection from a
// term naming a *stack / *condition, giving the Stack / Condition it belongs to.
func handleBase(t *Term) *Term {
	for t != nil {
		switch {
		case t.K == "L":
			t = t.A
		case t.K == "F" && t.N == 0:
			t = t.A
		default:
			return t
		}
	}
	return t
}

// ruleROArgs: an exported method that writes the shared state of an object
// handed in as an argument (Transfer's destination) does so only after that
// object's own read-only flag has tested false.
func (c *Ctx) ruleROArgs() {
	rep := c.rep
	ra := c.newRO()
	n := 0
	for _, m := range c.handleMethods() {
		fe := c.eff.fns[m.Fn]
		var fa *FnAnalysis
		ord := newOrdinal()
		for _, site := range fe.sites {
			ks := map[int][]string{}
			for _, w := range site.Writes {
				if w.Root.Kind == 'p' && w.Root.Idx >= 1 && !w.Root.Elem {
					ks[w.Root.Idx] = append(ks[w.Root.Idx], w.Loc)
				}
			}
			if len(ks) == 0 {
				continue
			}
			if fa == nil {
				fa = c.eng.analyze(m.Fn, nil)
			}
			var idx []int
			for k := range ks {
				idx = append(idx, k)
			}
			sort.Ints(idx)
			for _, k := range idx {
				n++
				locs := ks[k]
				sort.Strings(locs)
				construct := ord.next(fmt.Sprintf("%s writes argument %d", c.describeInstr(site.Instr), k))
				pos := c.p.instrPos(site.Instr)
				// the object written: the argument of the site rooted at parameter k
				var bases []*Term
				states := fa.statesBefore(site.Instr)
				if cc := callCommon(site.Instr); cc != nil && len(states) > 0 {
					for _, a := range c.eff.callArgs(cc) {
						if c.eff.rootsOf(fe, a)[Root{Kind: 'p', Idx: k}] {
							bases = append(bases, handleBase(fa.term(states[0], a)))
						}
					}
				}
				guarded := len(states) > 0
				for _, st := range states {
					found := false
					for _, b := range m.Fn.Blocks {
						for _, in := range b.Instrs {
							call, ok := in.(*ssa.Call)
							if !ok {
								continue
							}
							cal := c.p.callee(&call.Call)
							if cal == nil || !ra.tests[cal] || len(call.Call.Args) == 0 {
								continue
							}
							if (strings.HasSuffix(relName(cal), ".getState") || relName(cal) == "stack.positive") && (len(call.Call.Args) < 2 || !isConstInt(call.Call.Args[1], c.ronly)) {
								continue
							}
							at := handleBase(fa.term(st, call.Call.Args[0]))
							if !termMentionsParam(at, k) {
								continue
							}
							same := len(bases) == 0
							for _, bt := range bases {
								if bt == at {
									same = true
								}
							}
							if !same {
								continue
							}
							if v, known := fa.knownTerm(st, aTR, fa.term(st, call)); known && !v {
								found = true
							}
						}
					}
					if !found {
						guarded = false
					}
				}
				if guarded {
					rep.ok("R-RO-ARG", m.String(), construct, pos, "the argument object's state ("+strings.Join(locs, ", ")+") is written only after its own read-only flag tested false")
				} else {
					rep.bad("R-RO-ARG", m.String(), construct, pos, "writes "+strings.Join(locs, ", ")+" of the object passed as argument "+fmt.Sprint(k)+" on a path where that object's read-only flag has not tested false")
				}
			}
		}
	}
	rep.Extra["argument_object_write_sites"] = n
}

// ---------------------------------------------------------------- R-RO-NESTED

// lock bookkeeping is not observable state (C09 lists what is)
var roBookkeeping = map[string]bool{"EXT:Mutex.Lock": true, "EXT:Mutex.Unlock": true, "nodeConfig.ldr": true}

// ruleRONested: an exported method that reaches into a nested Stack or
// Condition (an element of the receiver, a Condition's expression) writes it
// only through a callee that consults the nested object's own read-only flag
// before every write.
func (c *Ctx) ruleRONested() {
	rep := c.rep
	ra := c.newRO()
	var roots []*ssa.Function
	for _, m := range c.handleMethods() {
		roots = append(roots, m.Fn)
	}
	n := 0
	for _, fn := range c.reach(roots...) {
		fe := c.eff.fns[fn]
		if fe == nil {
			continue
		}
		ord := newOrdinal()
		for _, site := range fe.sites {
			var nestedRoots []Root
			seen := map[Root]bool{}
			var locs []string
			for _, w := range site.Writes {
				if w.Root.Kind == 'p' && w.Root.Elem && !roBookkeeping[w.Loc] {
					if !seen[w.Root] {
						seen[w.Root] = true
						nestedRoots = append(nestedRoots, w.Root)
					}
					locs = append(locs, w.Loc)
				}
			}
			if len(nestedRoots) == 0 {
				continue
			}
			n++
			sort.Strings(locs)
			construct := ord.next(c.describeInstr(site.Instr) + " reaches a nested object")
			pos := c.p.instrPos(site.Instr)
			if site.Direct || site.Callee == nil || !c.p.inPkg(site.Callee) {
				rep.bad("R-RO-NESTED", relName(fn), construct, pos, "a nested object's "+strings.Join(locs, ", ")+" is written directly, without a method of that object consulting its read-only flag")
				continue
			}
			cc := callCommon(site.Instr)
			var msgs []string
			for j, a := range c.eff.callArgs(cc) {
				isNested := false
				rs := c.eff.rootsOf(fe, a)
				for _, r := range c.eff.expandFresh(fe, rs) {
					if seen[r] {
						isNested = true
					}
				}
				for r := range rs {
					if seen[r] {
						isNested = true
					}
				}
				if !isNested {
					continue
				}
				// the caller may have consulted the nested object's flag itself
				if fa := c.eng.analyze(fn, nil); fa.reachable(site.Instr) && fa.allHold(site.Instr, func(s *State) bool {
					return ra.roFalseOnTerm(fa, s, handleBase(fa.term(s, a)))
				}) {
					continue
				}
				for _, sub := range ra.unguarded(site.Callee, j) {
					// a shallow write (into the cell the argument itself points at) is harmless only
					// when that cell is a local copy; a *stack / *condition taken from a nested
					// object is the object's own storage
					if roBookkeeping[sub.loc] || (sub.shallow && !pointsIntoNested(a)) {
						continue
					}
					msgs = append(msgs, fmt.Sprintf("%s written at %s via %s", sub.loc, c.p.instrPos(sub.instr), strings.Join(sub.chain, " -> ")))
				}
			}
			if len(msgs) == 0 {
				rep.ok("R-RO-NESTED", relName(fn), construct, pos, "every write of the nested object below this call is dominated by the false edge of the nested object's own read-only test")
			} else {
				sort.Strings(msgs)
				rep.bad("R-RO-NESTED", relName(fn), construct, pos, "the nested object is written without its own read-only flag having tested false: "+strings.Join(msgs, "; "))
			}
		}
	}
	rep.Extra["nested_object_write_sites"] = n
}

// roFalseOnTerm: on this path a read-only test applied to the object named by
// term obj (a Stack/Condition value, or the *stack / *condition inside it) has
// returned false.
func (ra *roAnalysis) roFalseOnTerm(fa *FnAnalysis, st *State, obj *Term) bool {
	if obj == nil {
		return false
	}
	c := ra.c
	for _, b := range fa.fn.Blocks {
		for _, in := range b.Instrs {
			call, ok := in.(*ssa.Call)
			if !ok {
				continue
			}
			cal := c.p.callee(&call.Call)
			if cal == nil || !ra.tests[cal] || len(call.Call.Args) == 0 {
				continue
			}
			if (strings.HasSuffix(relName(cal), ".getState") || relName(cal) == "stack.positive") && (len(call.Call.Args) < 2 || !isConstInt(call.Call.Args[1], c.ronly)) {
				continue
			}
			if handleBase(fa.term(st, call.Call.Args[0])) != obj {
				continue
			}
			if v, known := fa.knownTerm(st, aTR, fa.term(st, call)); known && !v {
				return true
			}
		}
	}
	return false
}

// pointsIntoNested: the argument is a pointer value obtained from somewhere (a load, a field
// of a call result) rather than the address of a local variable of the caller.
func pointsIntoNested(a ssa.Value) bool {
	if isLocalAddr(a) {
		return false
	}
	_, isPtr := a.Type().Underlying().(*types.Pointer)
	return isPtr
}
