package main

type PropSpec struct {
	Level       string
	Explanation string
	NotDecided  string
	Trusted     []string
	Run         func(c *Ctx)
}

var properties = map[string]PropSpec{
	"C06": {
		Level: "other",
		Explanation: "wip",
		Run: func(c *Ctx) {
			c.ruleInv()
			c.ttCondValid()
			c.ttCondExprHandler()
			c.ruleCondStores()
			c.ttCondString()
		},
	},
	"C14": {
		Level: "other",
		Explanation: "wip",
		Run: func(c *Ctx) {
			c.ruleDispatch()
			c.rulePushLoops()
			c.ruleBasicRefusal()
		},
	},
	"C13": {
		Level: "other",
		Explanation: "wip",
		Run: func(c *Ctx) {
			c.ttCanPushNester()
			c.ttGetter("Stack.CanNest", "nnest", false)
			c.ttGetter("Condition.CanNest", "nnest", false)
			c.ttCondExprHandler()
			c.rulePushLoops()
			c.ruleOptionWritesOnlyOpt()
		},
	},
	"C18": {
		Level: "other",
		Explanation: "wip",
		Run: func(c *Ctx) {
			c.ruleFlagsDistinct()
			c.ruleMask()
			c.ttSetState()
			for _, t := range []string{"Stack", "Condition"} {
				c.ttGetter(t+".IsParen", "parens", true)
				c.ttGetter(t+".IsPadded", "nspad", false)
				c.ttGetter(t+".IsReadOnly", "ronly", true)
				c.ttGetter(t+".CanNest", "nnest", false)
			}
			c.ruleSwitchTable()
			c.ruleLatch()
			c.rulePair()
			c.ruleSettingsGuards()
			c.ruleLogLevels()
		},
	},
	"C17": {
		Level: "other",
		Explanation: "wip",
		Run: func(c *Ctx) {
			c.ruleInv()
			c.ruleNil("R-NIL", nil)
			c.ruleRefl("R-REFL", nil)
			c.ruleHandle()
			c.ruleZeroResults()
			c.ruleResetElemIndependent()
		},
	},
	"C11": {
		Level: "proof",
		Explanation: "Effect analysis over every exported query method of Stack and Condition (the names in the statement, every Is.../Can... method and the plain getters; enumerated from go/types on each run): the transitive write set over all in-package callees must be empty on every non-fresh object - no store, append into shared backing, map update, global write or lock call (R-PURE). Returned slices/maps must be rooted at an allocation made during the call (R-FRESH; Auxiliary/Logger exempt by the statement). No source of nondeterminism (math/rand, time.Now, order-sensitive map iteration) is reachable (R-NONDET). With an empty write set, concurrent queries cannot race: a data race needs a write.",
		NotDecided: "effects of user closures and user String() methods invoked by queries (USER edges, listed); internal synchronisation of fmt/reflect; races between a query and a concurrent mutator (C10)",
		Trusted: []string{"root tracing of effects.go", "purity table for the standard library functions used (strings, strconv, fmt.Sprintf, reflect read accessors, errors.New)"},
		Run: func(c *Ctx) {
			c.ruleNoUnsafe()
			c.rulePure()
			c.rep.floor("R-PURE", 55)
			c.rep.floor("R-FRESH", 4)
		},
	},
	"C09": {
		Level: "proof",
		Explanation: "Effect analysis over the type-checked SSA of every exported Stack/Condition method (enumerated from go/types on each run): every store, append, map update or lock call whose target is rooted at the receiver - directly or through any chain of in-package callees - must be reached only through the false edge of getState(recv, ronly) (rule R-RO, path-sensitive DNF facts; setState's `|| cf == ronly` arm is followed to the constant each caller passes). Exemptions are exactly those of the statement (SetReadOnly/ReadOnly: the option word; SetErr: the error field; Condition.Init: the handle; Marshal: the handle of an uninitialised receiver). R-MASK/R-FLAGS prove that switching the read-only bit touches no other bit; R-RO-FREE proves Free returns a non-nil error when the flag is set.",
		NotDecided: "effects of user closures and user String()/Operator methods; mutation of a nested read-only object through a non-read-only parent (listed under nested_object_writes_out_of_scope); contents of the user-owned Auxiliary map",
		Trusted: []string{"root tracing of effects.go (unknown roots fail the check)", "no unsafe and no reflective setters in the package (re-checked each run)"},
		Run: func(c *Ctx) {
			c.ruleNoUnsafe()
			c.ruleRO()
			c.ruleFreeRO()
			c.ruleMask()
			c.ruleFlagsDistinct()
			c.rep.floor("R-RO", 85)
			c.rep.floor("R-MASK", 13)
			c.rep.floor("R-FLAGS", 26)
		},
	},
}
