package main

import (
	"strings"

	"golang.org/x/tools/go/ssa"
)

type PropSpec struct {
	Level       string
	Explanation string
	NotDecided  string
	Trusted     []string
	Run         func(c *Ctx)
}

var properties = map[string]PropSpec{
	"C19": {
		Level: "other",
		Explanation: "Explicitly narrow: necessary conditions of C19 only. MOVE: implode stores through the header exactly twice per step - the gap receives a non-nil value loaded from a later slot of the same stack (source slot = destination slot + a count proved >= 0) and exactly that source slot is then cleared - and stores no header: compaction moves existing values forward and fabricates, duplicates or drops nothing by itself. SCAN: implode's loop can be left only when the scan limit is reached (max <= count) or the slot about to be examined lies beyond the content (ulen <= start+count), by linear entailment at every exit - the last slot is examined too. GAP: defrag compacts, records an error and truncates only on paths where a nil element was found below the scan limit; a stack without nil elements is untouched. ERR: the error recorded is verifyImplode's own verdict and the header is truncated only under a nil verdict, after the compaction. NEST: Stack.Defrag consults IsNesting on every path on which the receiver was defragmented, visits elements 0..Len-1 in order and hands nested Stacks - direct elements or a Condition's expression, through both alias converters - the same scan limit. MAX: the scan limit is positive (50 unless a positive one is given). Index and slice ranges of defrag/implode/verifyImplode are C08's obligations (one of them, the truncation index, is the recorded assumption). What Defrag relies on is checked as well: stack.index's found flag means exactly 'the slot is not nil' (R-SEQ), IsNesting is truthful and uncached (R-SCAN, R-TT), and calculateDefragMax returns a positive request as given (no ceiling). The verdict of verifyImplode is recorded on every path that verified (a nil verdict clears an older error); isStackKind judges by the pointer-flattened type at any depth (R-TT). R-MASK/R-FLAGS: the index options the scan honours and the read-only bit stay off when switched off. Condition.Expression answers the stored expression on every path of an initialised instance (a recorded error does not hide a nested Stack from Defrag). Shared option helpers, checked in every property whose statement depends on an option: the bit helpers are exact |= / &^= / test (R-MASK), the option constants are distinct single bits (R-FLAGS), and the tests every option read goes through - (*nodeConfig).valid and getState - depend on the kind word and the raw bit only (R-TT). Shared conversion helpers, checked in every property that recognises nested Stacks/Conditions: derefPtr follows pointers to the end, only while non-nil, type and value together (R-COVER), isStackKind judges by the pointer-flattened type (R-TT), and the converters write no package-level state (R-CONV: no memo keyed by type). R-DEFRAG: verifyImplode turns positions into map keys with strconv.Itoa only (distinct keys for distinct positions). R-CONV: the converters keep no package-level state (no memo keyed by type that a nil pointer could poison). R-DEFRAG: the transitive write set of Defrag is content, the error record and lock bookkeeping - no flag of its own in a configuration record that could outlive the call and make a later Defrag skip the stack.",
		NotDecided: "THE CORE OF C19 IS NOT DECIDED: that the result holds exactly the former non-nil elements in order, that Len equals their count and that Err() is nil. The truncation index and the verdict come from verifyImplode's pattern bookkeeping (a map filled in the same loop), a functional property of data out of reach of these domains. The pinned tree is in fact known - from an exhaustive run over all nil patterns of length <= 8 made by an independent test agent, not from this check - to violate the core for most patterns (e.g. Push(\"x\",nil,\"y\").Defrag() leaves [x y nil]; Push(nil,nil,nil,nil,4).Defrag() loses 4); the pinned test TestDefrag_experimental_001 hard-codes the resulting (wrong) length, so no repair can keep the unedited suite passing and none was made. This check neither reports nor masks that defect.",
		Run: func(c *Ctx) {
			c.optionHelpers()
			c.converterHelpers()
			c.ruleInv()
			c.ruleDefrag()
			// what Defrag relies on: "vacant" means nil and nothing else (stack.index's found flag),
			// and IsNesting tells the truth about nested stacks (no stale verdict)
			c.seqIndex()
			c.ruleScanNesting()
			c.ttIsNestingWrappers()
			c.ttIsStackKind() // "a nested Stack" is judged by the pointer-flattened type, any depth
			c.ruleMask() // the index options Defrag's scan honours and the read-only bit stay off when switched off
			c.ruleFlagsDistinct()
			c.ruleCondGetters() // a Condition's nested Stack is reached through Expression(), which answers the stored value
			c.ruleDefragKeys()  // the position bookkeeping of verifyImplode uses distinct keys (strconv.Itoa)
			c.ruleDefragWrites() // Defrag keeps no state of its own in a configuration record
			c.rep.floor("R-DEFRAG", 4)
		},
	},
	"C02": {
		Level: "other",
		Explanation: "Structural clauses of the String() grammar, each a necessary condition whose violation changes the rendering. NOT: in the Stack branch of defaultAssertionHandler every stack-level reading (kind, symbol, rendering) is made on the nested, converted Stack - never on the enclosing one; the NOT word is prefixed only on paths where the nested kind is NOT, it has no symbol and its rendering is non-empty (an empty nested stack contributes nothing: no dangling operator), and the word is exactly the one typ() of the nested stack returned, i.e. in the NOT stack's own case. EMPTY: stack.string collects renderings only by append(list, val) under len(val) > 0 for the very value defaultAssertionHandler returned for slot i (i = 1, 2, ... in stored order) and hands exactly that list to the assembler, so BASIC stacks, empty stacks and invalid Conditions (which render to the empty string) leave no dangling operator or delimiter. UTF8: condenseWHSP ranges over runes, writes every rune except blank (32) and tab (9) unchanged, writes one blank only for a blank or tab and uses no Unicode class test - leaf text of any script is reproduced verbatim. ENCAP: encapValue walks the pair list from the last pair to the first and wraps the value built so far as L+v+R or c+v+c, so the first configured pair ends up outermost; Condition expressions pass through it on every rendering path (R-ENCAP in C06). PAREN: stack.paren wraps exactly when the parenthetical bit is set and the kind is not BASIC (table over both atoms), with the same padding left and right. INVALID: the unguarded Condition renderer condition.string is called, anywhere in the package, only where Valid() of that very Condition has just returned nil. LEAF: in defaultAssertionHandler the text of a leaf (own String method, primitive stringer) goes to the enclosing stack's encapv and from there to padValue and the result, nothing in between; encapv hands its argument and the receiver's own pair list to encapValue; encapValue returns the bare argument only when no pair is configured (the empty string is wrapped like any other text). JOIN: a small symbolic string evaluator (constants, concatenation, path-bound phis, padValue - whose own table is checked first) computes the separator handed to join on every path of assembleStringStack and compares it with the table: word operator -> blank(s) word blank(s); symbol -> blank(s) symbol blank(s), or the bare symbol under no-padding; LIST -> the delimiter when one is set, otherwise blanks only; all five rows must reach a join. LEADONCE: the leading operator of lead-once mode is written only where at least one element rendering follows (an empty stack contributes no dangling operator). Rendering is gated by canString (valid and kind not BASIC) and the presentation policy dispatch (C14); option polarity of the getters is C18. VERBATIM: the getters the rendering code uses for the symbol and the LIST delimiter return the stored configuration field itself (nothing is applied on the way), and stack.typ hands a configured symbol on untouched - case folding applies to operator words only. OPERATOR: the operator text stack.string hands to the assembler is typ()'s text, between blanks exactly when padding is on and no symbol is set. NUMBER: a float/complex leaf is formatted at the width of its own type (FormatFloat(float64(x),..,32) for a float32). R-PURE (the effect analysis of C11 on every query): rendering reads and never writes - no memo, cache or scratch buffer in shared state - so the text is a function of the current tree and options, not of earlier calls. NOBYPASS: encapv returns encapValue's result or nothing, a wrapping helper inside encapValue must be left+v+right on every path, and assembleStringStack returns condenseWHSP(paren(...)) on every path - no rendering escapes encapsulation or the condensation of blanks. NUMBER: nothing in the primitive stringers converts an unsigned integer to a signed one. FOLD: foldValue returns the bare word only with folding off or for the empty word; with folding on every non-empty word, of any length (OR as well as AND), is strings.ToUpper/ToLower of itself. A leaf's String method is looked up on reflect.ValueOf of the value as given (pointer-receiver stringers and pointers to zero values are found). R-MASK/R-FLAGS: the presentation options are switched by exact |= / &^= of one distinct bit, so an option switched off while already off stays off. Shared option helpers, checked in every property whose statement depends on an option: the bit helpers are exact |= / &^= / test (R-MASK), the option constants are distinct single bits (R-FLAGS), and the tests every option read goes through - (*nodeConfig).valid and getState - depend on the kind word and the raw bit only (R-TT). Shared conversion helpers, checked in every property that recognises nested Stacks/Conditions: derefPtr follows pointers to the end, only while non-nil, type and value together (R-COVER), isStackKind judges by the pointer-flattened type (R-TT), and the converters write no package-level state (R-CONV: no memo keyed by type). NUMBER: every result of intStringer/uintStringer/floatStringer/complexStringer is a strconv.Format* result (no hand-made digits, no shortcut for small values). NOBYPASS: condenseWHSP returns the text its rune loop built on every path. R-TT: isStringPrimitive/isBoolPrimitive answer the type test and nothing else (the empty string is a string). The operator text a Condition element renders is one of six pairwise different constants (String() evaluated over the constants). R-KINDGUARD: a symbol given in pieces is collected by 'accumulator + piece' only, so it is stored and rendered whole.",
		NotDecided: "equality of the produced string with the canonical rendering over trees x option combinations as a whole (lead-once layout, fold, the outer padding and its condensation): string-valued functional correctness, out of reach of a static argument here.",
		Run: func(c *Ctx) {
			c.optionHelpers()
			c.converterHelpers()
			c.ruleInv()
			c.ruleStr()
			c.ruleCondStringEncap()
			c.rulePure() // rendering reads and never writes: the text is a function of the current tree and options, not of earlier calls
			c.ruleFoldTable()      // case folding applies to every non-empty operator word, whatever its length
			c.ruleNumberStringers() // number text comes from strconv only; the condenser returns what its rune loop built
			c.ttPrimitiveTests()    // "is a string" is the type test and nothing else (the empty string is a string)
			c.ruleOperatorTexts()   // a Condition element renders one of six different operator texts (<= is not <)
			c.ruleSymbolPieces()    // a symbol given in pieces is stored (and rendered) whole
			c.ruleStringerLookup() // a leaf's String method is looked up on the value as given
			c.ruleMask()           // an option switched off stays off (presentation options drive the rendering)
			c.ruleFlagsDistinct()
			c.rep.floor("R-PURE", 55)
			c.rep.floor("R-STR", 14)
			c.rep.floor("R-ENCAP", 1)
		},
	},
	"C10": {
		Level: "other",
		Explanation: "R-LOCK: the lock discipline that atomicity of the eight content mutators needs, decided on the SSA of everything reachable from Push, Pop, Insert, Remove, Replace, Swap, Reverse and Reset. L1: every store of a slice header or an element slot in that scope lies in the held region (CFG-reachable from lock() without passing unlock(), and dominated by the lock()) of the lock of the very stack it writes, or in a function all of whose call sites - transitively - lie in such regions. L2: (a) a function that locks its receiver does not use it before the acquisition, so no validation (emptiness, bounds, capacity) can be stale; (b) the capacity invariant (R-CAP), the configuration-slot invariant (R-SLOT0) and the list-operation specifications (R-SEQ) are re-proved in concurrent mode, in which acquiring a lock forgets everything known about shared memory - so the guards protecting each write are evaluated inside the same critical section as the write (capacity never exceeded, configuration never returned or removed, Pop on a stack emptied by a competitor returns (nil,false)). L3: the lock bookkeeping (nodeConfig.ldr) is written after Mutex.Lock and before Mutex.Unlock. L4: nothing called while a lock is held locks the same stack again (self-deadlock; lock summaries rooted at parameters, whole package), and every lock() is followed at once by a deferred unlock() or by an unlock() on every path to a return (no leaked lock). L5: reads of the shared configuration slot made without any lock - the exported wrappers' IsInit/IsEmpty/getState pre-checks and lock()'s own lookup of the mutex - are reported; they are genuine data races (the mutex lives inside slot 0 of the data it protects) and are listed as known findings. L7: the mutex installed is a fresh allocation (no two stacks share a mutex). L8: lock() and unlock() reach the mutex under the same tests. R-BACKCAP/R-CAPEQ: 'full' is judged against the configured capacity, never the backing array's. L4 also covers the double release: where unlock() is deferred no explicit unlock() of the same stack is reachable.",
		NotDecided: "linearizability of return values and final content over all schedules, and data-race freedom as a whole: these quantify over interleavings; a lock-discipline analysis gives necessary conditions. Lock-order deadlocks between two different stacks (Transfer, nested Reveal) are not analysed.",
		Run: func(c *Ctx) {
			c.ruleInv()
			c.ruleLocks()
			c.ruleMutexFresh()
			c.ruleLockSymmetry()
			c.ruleBackingCap() // "full" is judged against the configured capacity, never the backing array's
			c.ruleCapEq()
			c.withConcurrent(func() {
				c.ruleCapInv()
				c.ruleSlot0Stores()
				c.ruleSeq()
				// element stores keep clear of slot 0 and stay in range with every bound re-established after the lock
				saved := c.nilA
				c.nilA = nil
				var roots []*ssa.Function
				for _, n := range lockMutators {
					if f := c.p.ByName[n]; f != nil {
						roots = append(roots, f)
					}
				}
				c.ruleSlot0ElemsIn(c.reach(roots...))
				c.nilA = saved
			})
			c.rep.floor("R-LOCK", 60)
			c.rep.floor("R-CAP", 7)
			c.rep.floor("R-SEQ", 19)
		},
	},
	"C12": {
		Level: "other",
		Explanation: "R-CONV: a user-declared alias of Stack/Condition (or a pointer to one) reaches the same code as the native value - the necessary condition for behaving like it. ASSERT: the package recognises a Stack or Condition by a plain type assertion (which no alias satisfies) nowhere except in the two converters themselves and in three positive fast paths (isNesting, canPushNester, the Condition-side no-nesting filter) whose other branch goes through the converter; the census of such assertions is re-done on every run. FIRST: in condition.string and stack.defaultAssertionHandler a value is rendered through its own String method or the primitive stringer only on paths where both converters have been applied to that very value and declined it, so an alias that has its own String method is still rendered as the Stack/Condition it is. USES: each consumer named by the property (String on both types, IsEqual, Unmarshal on both types, Traverse's two helpers, both IsNesting, Condition.Len, both no-nesting filters, Defrag, Transfer) calls the converter(s); stackageStructsEqual applies IsEqual to the converted first operand with the converted second operand; ConvertStack/ConvertCondition return the converter's results unchanged. SELF: every (zero,false) return path of each converter is justified by a nil argument, a zero native or converted instance, or ConvertibleTo()==false evaluated on derefPtr(typOf(u), valOf(u)) of the argument itself - nothing else can decline a value (e.g. a kind test before pointers are followed). TYPEID: two reflect.Types are compared for identity only inside the confirmed leaf comparers (channels, functions, maps) that valuesEqual reaches after both converters declined. derefPtr follows pointers to the end, and applies Elem()/Indirect only to a Value that tested non-nil (a typed nil pointer to an alias stays a pointer and is declined, not turned into the zero Value). FIRST also covers the equality functions: none of them may judge a value by its own String method before both converters declined it. R-TT on Condition.Valid: validity depends on keyword, operator and expression being present, never on the type of the expression (an alias without a String method of its own is as valid as the native value). R-STR EMPTY: the rendering a nested alias contributes is the one the assertion handler returned, nothing of its own. R-CONV: an element is handed back raw by Unmarshal only where both converters declined it. R-TT on stackageStructsEqual. R-LOOPRET on (*stack).isEqual: the element loop is left early only with a recorded difference - no test of its own (pointer or value) ends it. Shared conversion helpers, checked in every property that recognises nested Stacks/Conditions: derefPtr follows pointers to the end, only while non-nil, type and value together (R-COVER), isStackKind judges by the pointer-flattened type (R-TT), and the converters write no package-level state (R-CONV: no memo keyed by type). R-APPEND: what Push stores is the very value offered (a pointer to an alias stays that pointer).",
		NotDecided: "that the results (String, IsEqual in both directions, Unmarshal, Traverse, ...) coincide with those of the native tree: functional equality; the rule ensures the alias reaches the native code path. derefPtr's pointer-following loop is covered for panics by C08, not for 'all levels' as a functional statement.",
		Run: func(c *Ctx) {
			c.converterHelpers()
			c.ttCondValid() // validity looks at keyword, operator and expression being present - never at what type the expression has
			c.ruleDerefLoop() // pointers to aliases: followed to the end, and only while non-nil
			c.ruleInv()
			c.ruleConv()
			c.ttCanPushNester()
			c.ttCondExprHandler()
			c.ruleStrEmpty()     // a nested alias contributes the rendering the assertion handler returned, nothing of its own
			c.ruleUnmarshalRaw() // an alias is never handed back raw: only what both converters declined is
			c.ttStackageStructsTried()
			c.rulePushLoops() // what is stored is the very value offered (a pointer to an alias stays a pointer)
			if f := c.anchor("R-LOOPRET", "(*stack).isEqual"); f != nil {
				c.ruleEqLoops([]*ssa.Function{f}) // elements are compared after conversion only: no test of its own (pointer or not) ends the loop
			}
			c.rep.floor("R-CONV", 26)
		},
	},
	"C16": {
		Level: "other",
		Explanation: "Marshal returns normally for every []any and ends in 'error, or an initialised receiver'. PANIC: the nil / type-assertion / bounds / reflect census restricted to everything reachable from Marshal, with preconditions checked at every call site and none allowed at the exported entry: in[0], in[1:], the CONDITION row positions 1..3 and every assertion on a label, keyword, operator or nested slice are guarded for every shape of input (empty and nested envelopes, rows of any width, wrongly typed fields). OUT: marshalDefault's 70-odd return path states each yield a non-nil error, a Stack built by a constructor, or a Condition for which extractConditionValues reported ok (= IsInit() of the Condition it returns, built only from a row of width 4); Marshal's return paths each yield a non-nil error, a receiver seated with the decoded Stack under IsInit()==true, marshalDefault's own error where it produced nothing, or - receiver already initialised - at most one Push of exactly one decoded value. LABEL: every keyword comparison is made on uc(label); the reader knows every word the writer can emit and CONDITION; an unrecognised first element yields Basic().Push(in...), a recognised one stackByWord(label).Push(in[1:]...). ROW: width 4 is required and keyword/operator/expression are read from positions 1/2/3 by checked assertions. REPROC: every nested []any entry 0..Len-1 is decoded by marshalDefault itself and replaced in place by the initialised Stack/Condition it yields. The census covers everything reachable from Marshal, String, Unmarshal and IsEqual (the methods the statement says must return normally on the result). R-CONDSTORE: an operator taken from a CONDITION row is refused, not invoked, when it is nil or a nil pointer. The decoder creates its stacks without a capacity argument. On the built-in path of an initialised receiver Marshal returns nil only where Len() is known to differ from the Len() read before the push (a full, read-only or refusing receiver yields an error); R-DISPATCH for Marshal: no shortcut around the built-in reader. R-NILPTR: a method of the package's own interfaces (Operator, Interface) is invoked on a user-supplied value only where an in-package nil-pointer predicate said no about it, or on the operator stored in a Condition: a nil *Stack / *Condition / *ComparisonOperator among the values never has a method called through it. The census also covers the package's own Operator implementation (ComparisonOperator.String/Context), reached through the interface. R-TT: without no-nesting canPushNester refuses nothing (a zero Stack entry is kept). Labels are folded with strings.ToUpper itself (a hand-written fold is not taken on trust). R-LOCK pairing and re-entrancy over the whole package: Marshal returns on a mutex-enabled receiver, too. R-COVER derefPtr (typed nil pointers in the input: type and value advance together). R-TBL KINDS: every kind constant has the type word's own label. Shared conversion helpers, checked in every property that recognises nested Stacks/Conditions: derefPtr follows pointers to the end, only while non-nil, type and value together (R-COVER), isStackKind judges by the pointer-flattened type (R-TT), and the converters write no package-level state (R-CONV: no memo keyed by type). R-MARSHAL: the decoder keeps no package-level state and leaves its input as given.",
		NotDecided: "what a user-installed marshaler closure does; panics inside user String()/Operator code.",
		Run: func(c *Ctx) {
			c.converterHelpers()
			c.ruleInv()
			{
				// Marshal itself, and what the statement says must also return normally on its result
				var roots []*ssa.Function
				for _, n := range []string{"(*Stack).Marshal", "Stack.String", "Stack.Unmarshal", "Stack.IsEqual", "ComparisonOperator.String", "ComparisonOperator.Context"} {
					if f := c.anchor("R-MARSHAL", n); f != nil {
						roots = append(roots, f)
					}
				}
				c.ruleCensus(c.reach(roots...), map[string]bool{"R-NIL": true, "R-REFL": true, "R-TA": true, "R-BND": true})
			}
			c.ruleCanif()
			c.ruleMethodValue()
			c.ruleIfaceCompare()
			c.ruleNilPtrInvoke(nil)
			c.ruleLabels()
			c.ruleCondRow()
			c.ruleCondStores() // a wrongly typed or nil-pointer operator in a CONDITION row is refused, not invoked
			c.ruleDerefLoop()  // typed nil pointers in the input: type and value flattened in step
			c.ruleKindLabels() // every kind has its label
			c.ruleReaderStateless() // the decoder keeps no package-level state and leaves its input as given
			c.ruleDeenvelope()
			c.ruleMarshalReproc()
			c.ruleMarshalOut()
			c.ruleMarshalUnlimited()
			c.ruleMarshalGain()
			c.ruleLockPairing("R-LOCK", c.p.Funcs) // Marshal returns on a mutex-enabled receiver too: no lock taken twice or left held
			c.ruleLockReentry("R-LOCK", c.p.Funcs)
			c.ttCanPushNester() // "a BASIC stack holding all entries": without no-nesting nothing offered is refused, a zero Stack included
			c.ruleDispatchFor(map[string]bool{"(*Stack).Marshal": true})
			c.rep.floor("R-MARSHAL", 5)
			c.rep.floor("R-TBL", 6)
			c.rep.floor("R-BND", 5)
		},
	},
	"C04": {
		Level: "other",
		Explanation: "Writer (Unmarshal) and reader (Marshal) agree on the wire format - the structural precondition of the round trip. KINDS: constructor -> kind constant -> word (stackType.String) -> constructor (stackByWord) is the identity on AND, OR, NOT, LIST, BASIC, the words are upper case, and the reader's dispatch knows each of them and CONDITION. LABEL: every keyword comparison on the reader side is made on uc(label), so the lower-case words a case-folded stack emits are honoured. WRITE: stack.unmarshalDefault emits the kind word first and then exactly one entry per slot 0..Len-1 in ascending order - nil slots included (no dependence on the lookup's found flag) - a nested Stack or Condition (recognised through both alias converters) as its own unmarshalled form, anything else as is; an error ends the loop. ROW: a Condition is written as [CONDITION, keyword, operator, expression-or-its-Unmarshal()] and read back from a row of width 4, positions 1/2/3, by checked assertions, the expression decoded by marshalDefault when it is a slice. REPROC: the reader re-processes every entry 0..Len-1 of the stack it built and replaces entry i only by the initialised Stack/Condition marshalDefault made of that very entry. R-MARSHAL also requires that the decoder creates its stacks without a capacity argument (a capacity would be observable and could drop entries). R-DISPATCH (restricted to Stack.Unmarshal, Condition.Unmarshal, Marshal): with no closure installed the built-in writer/reader runs on every path - no shortcut around it. R-SEQ (Push wrapper and push loops, from C01): the reader rebuilds through Push, whose arguments reach the worker unchanged and are appended in order. The CONDITION row reader yields no Condition only when its nested expression decoded to neither an initialised Stack nor an initialised Condition (an empty Stack is still a Stack). R-SEQ for Replace (nested rows are converted in place through it: every position 0..Len-1 can be replaced) and R-BACKCAP (the capacity IsEqual compares is the configured one). The label written is the kind word, never a presentation setting; an uninitialised receiver that adopts the decoded stack returns the decoder's own verdict (an empty stack such as [AND] is a stack). R-DISPATCH also covers the two IsEqual dispatchers (with no closure installed nothing but the built-in comparison decides - e.g. not the FIFO mode, which the wire format does not carry) and R-CONV the converters (the writer expands exactly what they recognise). R-CONDSTORE: the constructor the reader rebuilds Conditions through offers each of the three components on every path, with its own argument, whatever became of the others (a partial Condition keeps its expression). R-SEQ: Replace - through which nested rows are installed - refuses a value only for being nil. R-TBL KINDS: (*nodeConfig).kind is evaluated over the kind constants (a small constant interpreter follows its paths with the type word bound to each constant): no defined kind, BASIC included, is labelled \"null\". R-CONV: stack.unmarshalDefault hands an element back raw only where both converters declined that very element. Shared conversion helpers, checked in every property that recognises nested Stacks/Conditions: derefPtr follows pointers to the end, only while non-nil, type and value together (R-COVER), isStackKind judges by the pointer-flattened type (R-TT), and the converters write no package-level state (R-CONV: no memo keyed by type). R-MARSHAL: nothing reachable from Marshal, Unmarshal or IsEqual writes package-level state, and Marshal writes nothing through its input argument (the caller's slices stay equal to what Unmarshal produced). R-COVER: the comparison of original and reconstruction decides through the confirmed external comparers only.",
		NotDecided: "that Marshal(Unmarshal(S)) is deeply equal to S (value equality over trees; options such as capacity, fold or symbols are not part of the wire format by design); user-installed marshaler/unmarshaler closures.",
		Run: func(c *Ctx) {
			c.converterHelpers()
			c.ruleInv()
			c.ruleLabels()
			c.ruleCondRow()
			c.ruleUnmarshalLoop()
			c.ruleDeenvelope()
			c.ruleMarshalReproc()
			c.ruleMarshalUnlimited()
			// with no closure installed the built-in writer/reader runs on every path (no shortcut around it)
			c.ruleDispatchFor(map[string]bool{"Stack.Unmarshal": true, "Condition.Unmarshal": true, "(*Stack).Marshal": true, "Stack.IsEqual": true, "Condition.IsEqual": true})
			c.ruleConv() // the writer expands what the converters recognise: they decline only nil, zero and unrelated values
			// the reader rebuilds through Push: arguments forwarded unchanged, appended in order
			c.seqWrappers()
			c.seqPushLoops()
			c.seqReplace() // nested rows are converted in place through Replace: every position 0..Len-1 can be replaced
			c.ruleBackingCap()
			c.ruleEqKindWord() // the label written is the kind word (never a symbol)
			c.ruleMarshalGain() // adoption by an uninitialised receiver returns the decoder's verdict (an empty stack is a stack)
			c.ruleCondStores()      // the reader rebuilds Conditions through the constructor: every component is offered whatever became of the others
			c.ruleWrapperRefusals() // ... and nested rows through Replace, which refuses a value only for being nil (an empty Stack is a value)
			c.ruleKindLabels()      // the writer has the type word's own label for every kind (BASIC included)
			c.ruleUnmarshalRaw()    // an element comes back raw only after both converters declined it
			c.ruleReaderStateless() // no package-level state, and the input slices are left as given
			if roots := []*ssa.Function{c.p.ByName["Stack.IsEqual"], c.p.ByName["Condition.IsEqual"]}; roots[0] != nil && roots[1] != nil {
				c.ruleEqDeciders(c.reach(roots...)) // IsEqual(original, reconstruction) decides through the confirmed comparers only
			}
			c.rep.floor("R-DISPATCH", 3)
			c.rep.floor("R-TBL", 7)
			c.rep.floor("R-MARSHAL", 1)
		},
	},
	"C15": {
		Level: "other",
		Explanation: "R-XFER, decided on Stack.Transfer and its worker. SRC: the transitive write sets of both have no location rooted at the source (content, configuration, lock bookkeeping), and an element is pushed only in states where destination != source is established (a stack is never transferred into itself). GUARD: the worker is reached only for an initialised source, a destination the converter accepts (native, alias, pointer) and a destination whose own read-only flag is clear; its verdict is returned and every other path returns false; the worker receives (source, converted destination). FIT: a push is reachable only on paths where the destination has no capacity or Len(src) <= cap(dst) - len(dst) holds for the headers found (linear entailment), so a transfer that does not fit writes nothing and reports false. ALL: the copy loop runs i = 0, 1, ... while i < Len(src), pushes exactly src.index(i) - whether or not the lookup reports it found, so nil elements are copied - once per iteration, and nothing else in the worker writes. TRUE: the verdict is dst.ulen() after the loop == dst.ulen() before it + src.ulen(). R-NIL/R-REFL/R-BND census over Transfer's scope (zero, foreign and typed-nil destinations cannot panic). R-BACKCAP: the room test uses the configured capacity only. R-SEQ (wrappers, push loops, batch forwarding): Transfer appends through Push, whose arguments reach the append loops unchanged. R-SEQ on stack.index, through which the source is read: position translation, found = not nil, and an in-range index yields nothing only for a nil slot (a typed nil pointer element is transferred as it is). Shared option helpers, checked in every property whose statement depends on an option: the bit helpers are exact |= / &^= / test (R-MASK), the option constants are distinct single bits (R-FLAGS), and the tests every option read goes through - (*nodeConfig).valid and getState - depend on the kind word and the raw bit only (R-TT). Shared conversion helpers, checked in every property that recognises nested Stacks/Conditions: derefPtr follows pointers to the end, only while non-nil, type and value together (R-COVER), isStackKind judges by the pointer-flattened type (R-TT), and the converters write no package-level state (R-CONV: no memo keyed by type). R-APPEND: the append loops Transfer feeds append the offered values themselves and nothing a loop calls appends on its own (a refused nested Stack is dropped, not replaced by its members).",
		NotDecided: "that on success the destination holds its previous elements followed by the source's in order (sequence equality: follows from C01's push specification plus ALL, not mechanised as one statement); a destination whose push policy or no-nesting option rejects elements is modified partially and false is returned (outside the statement).",
		Run: func(c *Ctx) {
			c.optionHelpers()
			c.converterHelpers()
			c.ruleInv()
			if root := c.anchor("R-XFER", "Stack.Transfer"); root != nil {
				c.ruleCensus(c.reach(root), map[string]bool{"R-NIL": true, "R-REFL": true, "R-TA": true, "R-BND": true})
			}
			c.ruleXfer()
			c.seqIndex() // the source is read through stack.index: position translation and "found = not nil", nothing else
			c.ruleBackingCap()
			c.seqWrappers()  // Transfer appends through Push: arguments reach the worker unchanged ...
			c.seqPushLoops() // ... and the append loops receive the worker's own batch, appended in order
			c.rulePushLoops() // ... appending only the offered values themselves (nothing a callee of the loop appends on its own)
			c.rep.floor("R-XFER", 4)
			c.rep.floor("R-NIL", 50)
		},
	},
	"C05": {
		Level: "other",
		Explanation: "Necessary conditions of 'IsEqual rejects any difference and never panics', decided on everything reachable from Stack.IsEqual and Condition.IsEqual. R-LOOPRET (every comparison loop: stack.isEqual, slicesEqual, structsEqual, mapsEqual): the error variable is a latch - each comparison whose verdict is stored into it is made only in states where it is still nil, so a difference found at one element can never be overwritten by a later nil; the function returns that variable (or, straight out of the loop, the verdict/fresh error just obtained); counting loops start at 0, advance by exactly one, fetch both sides at the loop counter itself, are bounded by the length (Len/NumField/ulen) and can be left only when the counter reached the bound, a difference is recorded, or an error is returned. NILRET: each equality function returns nil only on paths on which every comparison it made outside a loop returned nil. R-COVER: on every accepting path of condition.isEqual the keywords were compared equal, the operators are both absent or their String() and Context() were both compared equal, and the verdict returned is valuesEqual(r.ex, o.ex); on every accepting path of stack.isEqual the two are the same object or capLenEqual held, the kinds were compared equal, and the element loop compares r.index(i) with o.index(i). R-NIL/R-REFL/R-CANIF/R-TA/R-BND census over the scope: typed nil pointers of any depth, zero reflect.Values, unexported struct fields, missing map keys cannot panic; every reflect.Value method called is classified (panic conditions tabled or known total) and Value.Equal is reached only with operands accepted by isKnownPrimitive. R-DISPATCH (restricted to the two IsEqual dispatchers): a nil verdict comes from the built-in comparison or from an installed closure, never from an exit taken ahead of them. derefPtr follows a pointer chain to its end: its loop is left only on a non-pointer type, a non-pointer value or a nil pointer (no hop limit). External deciders: every function from outside the package that returns a bool or an int and is called inside the equality scope must be in a table of reviewed functions (reflect's IsValid/IsNil/IsZero/CanInterface/Len/Cap/Equal, unicode.IsUpper in foldValue, exact comparers of strings/bytes); anything else - strings.EqualFold, reflect.DeepEqual, prefix/substring tests - is reported as an unreviewed notion of equality. R-BACKCAP: the capacity compared is the configured one, never the backing array's. R-CONV (all of C12's converter rules): a nested Stack/Condition is declined by the converters only when nil, zero or unrelated - otherwise it would be compared as a plain struct, whose unexported fields are skipped - and type identity is tested only in the confirmed leaf comparers. The kind two stacks are compared by carries no presentation setting (symbol, delimiter). isNumberPrimitive recognises all 14 numeric types of the language; capLenEqual is true exactly when capacities and lengths both agree (R-TT). R-TT on stackageStructsEqual: 'tried' is true exactly when the left operand is a Condition or a Stack, so a Stack against a Condition ends in this function's error and never in the generic struct comparison. Shared conversion helpers, checked in every property that recognises nested Stacks/Conditions: derefPtr follows pointers to the end, only while non-nil, type and value together (R-COVER), isStackKind judges by the pointer-flattened type (R-TT), and the converters write no package-level state (R-CONV: no memo keyed by type). R-COVER: ComparisonOperator.String, evaluated over the six constants, yields six pairwise different non-empty texts (operators are compared by text).",
		NotDecided: "symmetry of the verdict and completeness of rejection for every leaf kind (semantics of reflect.Value.Equal, kind lattice, map iteration): value-level reasoning. Known gap observed by testing, not decided here: a []Stack / []Condition leaf is compared through reflect.Values, which skips the unexported embedded pointer (two such leaves differing only inside a nested stack compare equal).",
		Run: func(c *Ctx) {
			c.converterHelpers()
			c.ruleInv()
			var roots []*ssa.Function
			for _, n := range []string{"Stack.IsEqual", "Condition.IsEqual"} {
				if f := c.anchor("R-COVER", n); f != nil {
					roots = append(roots, f)
				}
			}
			scope := c.reach(roots...)
			c.ruleCensus(scope, map[string]bool{"R-NIL": true, "R-REFL": true, "R-TA": true, "R-BND": true})
			c.ruleCanif()
			c.ruleMethodValue()
			c.ruleIfaceCompare()
			c.ruleNilPtrInvoke(nil)
			c.ruleReflComplete(scope)
			c.ruleEqLoops(scope)
			c.ruleEqNilRet(scope)
			c.ruleEqParts()
			// a verdict of "equal" comes from the comparison (or an installed closure), never from a shortcut ahead of it
			c.ruleDispatchFor(map[string]bool{"Stack.IsEqual": true, "Condition.IsEqual": true})
			c.ruleDerefLoop()
			c.ruleEqKindWord()
			c.ruleNumericPrimitives()
			c.ttCapLenEqual()
			c.ruleEqDeciders(scope)
			c.ruleBackingCap() // the capacity compared is the configured one, never the backing array's
			c.ruleConv()       // the converters decline only nil, zero and unrelated values (else a nested instance is compared as a plain struct)
			c.ttStackageStructsTried() // a Stack against a Condition ends in the package's own comparison, never in the generic struct one
			c.ruleOperatorTexts()      // operators are compared by text: the six built-in texts are pairwise different
			c.rep.floor("R-LOOPRET", 14)
			c.rep.floor("R-COVER", 2)
			c.rep.floor("R-REFL", 20)
		},
	},
	"C07": {
		Level: "other",
		Explanation: "Traverse is implemented by four loop-free, mutually recursive functions; stepwise Index descent is a finite decision at each level, so agreement is decided per level and follows for every path length and tree by induction on the path. R-LEVEL: each level consumes exactly one path element - stack.traverse reads indices[0] only, every call inside the group passes the path on unchanged, and the single recursive call of traverse receives exactly indices[1:]; the path is used for nothing else. R-TRAV (tables, return paths enumerated exactly): traverse hands the handler the element stack.index returned for indices[0] and only when that lookup reported it found (non-nil), otherwise (nil,false) - also for an invalid receiver and an empty path; traverseStack returns (value,true) for a Stack/alias at the end of the path, the results of the descent into the Stack it converts to when elements remain, (nil,false) for a non-Stack; traverseStackInCondition returns (the Condition,true) at the end of the path, continues with the Condition's own Expression() when elements remain, (nil,false) for a non-Condition; the handler returns the Stack helper's results if it succeeded, else the Condition helper's, else (element,true) for a leaf at the end of the path, else (nil,false); Stack.Traverse forwards path and results and yields (nil,false) when uninitialised. Lookup = the same stack.index that Index uses (position translation proved in C01). R-NIL/R-REFL/R-BND/R-TA census restricted to everything reachable from Traverse: no tree or path can panic. R-CONV (from C12): 'descendable' is what the converters say, and they decline only nil, zero and unrelated values on every path (no cached or validity-dependent verdict). stack.traverse gives up (returns nothing without consulting the handler) only because the receiver is invalid, the path is empty or the lookup itself - which honours the index options - reported 'not found'. R-TT on (*stack).valid - the gate of every level: initialised and, if a validity closure is installed, approved by it; nothing else (a recorded error) closes the gate. R-SEQ wrappers: the exported Index returns the private lookup's results unchanged. R-COVER: derefPtr advances type and value together (each Type.Elem with a Value.Elem on the same straight-line path), so a typed nil pointer never reaches Convert with a mismatched type. R-PAIR: Condition.Expression, through which a Condition is descended, answers the stored value on every path of an initialised instance. Shared option helpers, checked in every property whose statement depends on an option: the bit helpers are exact |= / &^= / test (R-MASK), the option constants are distinct single bits (R-FLAGS), and the tests every option read goes through - (*nodeConfig).valid and getState - depend on the kind word and the raw bit only (R-TT). Shared conversion helpers, checked in every property that recognises nested Stacks/Conditions: derefPtr follows pointers to the end, only while non-nil, type and value together (R-COVER), isStackKind judges by the pointer-flattened type (R-TT), and the converters write no package-level state (R-CONV: no memo keyed by type). R-SEQ on stack.index, which every level of Traverse goes through: with the option on a negative index is refused only below -Len and an oversize one never, so Traverse and a chain of Index calls resolve alike. R-PURE: Traverse writes nothing - not into the caller's path slice either.",
		NotDecided: "that the converters recognise exactly the Stack/Condition aliases (C12); equality with an independently written oracle on concrete trees (the induction argument is by reading the tables, not mechanised end to end).",
		Run: func(c *Ctx) {
			c.optionHelpers()
			c.converterHelpers()
			c.ruleInv()
			if root := c.p.ByName["Stack.Traverse"]; root != nil {
				c.ruleCensus(c.reach(root), map[string]bool{"R-NIL": true, "R-REFL": true, "R-TA": true, "R-BND": true})
			}
			c.ruleTraverse()
			c.ttStackValid() // the level gate: initialised, and the validity closure (if any) agrees - nothing else
			c.seqWrappers()  // the exported Index the statement compares with returns the private lookup's results unchanged
			c.ruleConv() // "descendable" is what the converters say: they decline only nil, zero and unrelated values (no stale verdict)
			c.ruleDerefLoop()   // pointers are flattened type and value in step (a typed nil pointer never reaches Convert with a mismatched type)
			c.ruleCondGetters() // a Condition is descended through Expression(), which answers the stored value whatever the options say
			c.seqIndex()        // every level resolves its index like Index: -Len..-1 and oversize indices are honoured exactly when the option is on
			c.rulePure()        // Traverse writes nothing - in particular not into the caller's path slice
			c.rep.floor("R-LEVEL", 4)
			c.rep.floor("R-TRAV", 5)
			c.rep.floor("R-NIL", 60)
		},
	},
	"C01": {
		Level: "other",
		Explanation: "Each mutator is verified, once and for all inputs, against the list operation the property names, by a symbolic sequence algebra over the SSA: the header a mutator leaves behind is evaluated on every path as a concatenation of segments of the header it found (h0) and single values, and compared with the specification by linear entailment (Fourier-Motzkin). Pop: h0 without slot k and the value returned is h0[k], k = 1 under FIFO and len-1 otherwise; untouched header and (nil,false) when empty. Insert: h0 with x inserted exactly once at the clamped position (end when left >= Len, front when left <= 0, slot left+1 otherwise), everything else unchanged and in order, flag false on non-storing paths. Reset: h0[:1]. Replace: one element store of the argument at slot i+1, flag true exactly when stored. Swap: two element stores exchanging the values found at slots i+1 and j+1. Reverse: the loop exchanges mirror slots (a + b == len, by a conserved-sum loop invariant), starting at (1, len-1), one step per iteration, a <= b in the body and a >= b at every exit (no pair skipped, none exchanged twice). Remove: a filter loop over slots 1..len-1 in ascending order keeping every slot except the looked-up position, stored as [configuration] ++ kept, returning the element looked up. Push: both append loops visit x[0], x[1], ... one per iteration and append at the end of the current header (nil values included: no nil test). stack.index: i in [0,Len) addresses slot i+1, -k slot len-k, an oversize index the last slot (options on), and the value returned is the slot at the position returned. The nine exported wrappers hand their arguments to the worker unchanged and return its results. R-SLOT0: no header store or element store can lose, move or overwrite the configuration slot, so Len() == len(header)-1 always (R-CAPEQ Stack.Len). R-ELEMINDEP: Reset does not depend on element values. Since every mutator is a list operation on the header it finds, the content after any sequential history is that of the ordered list, by induction on the history. R-CAPEQ (from C03): the fullness test both push loops rely on is exactly len(header) == configured capacity (not the backing array's). stack.index's found flag means exactly 'the slot is not nil'. Front and Back: one upward scan 0..Len-1 and one downward scan Len-1..0, each in its mode, left only past the last position or with a position found. Replace stores for exactly the indices 0..Len-1 (a non-storing path is confined to i<0 or i>=Len). The worker push hands its own batch to the append loops untouched. R-LATCH: FIFO mode is a one-way latch ('once FIFO mode is on'). R-TT: IsEmpty - which gates Pop and Reverse - is true exactly for an uninitialised instance or Len()==0. R-BACKCAP: builtin cap() is never applied to a stack (only the configured capacity is consulted). Pop re-slices the header and writes no element slot. R-MASK/R-FLAGS: the options that change what an index means (negative, forward) and the read-only flag are switched by exact |= / &^= of one distinct bit. stack.index yields nothing for an in-range index only when the slot holds nil. Insert/Replace refuse a value only for being nil: a path of the wrapper that returns without having called the worker depends on the receiver and on the nil-ness of the value, on nothing else about it. Shared option helpers, checked in every property whose statement depends on an option: the bit helpers are exact |= / &^= / test (R-MASK), the option constants are distinct single bits (R-FLAGS), and the tests every option read goes through - (*nodeConfig).valid and getState - depend on the kind word and the raw bit only (R-TT). R-APPEND: the worker push appends only through the two per-value loops, each append is gated on that very value, and nothing a loop calls appends to the receiver on its own.",
		NotDecided: "Front/Back (they skip nil slots by a scan) and IsEmpty are covered only through Len/Index; the success flags of Pop/Remove for nil elements (they report false for a nil element although it was removed); capacity interaction (C03), concurrent histories (C10); the argument is an induction over verified single operations, with hand-written recognisers (level other).",
		Run: func(c *Ctx) {
			c.optionHelpers()
			c.ruleInv()
			c.ruleSlot0()
			c.ruleSeq()
			c.ruleWrapperRefusals() // Insert/Replace refuse a value only for being nil
			c.rulePushLoops()       // the worker appends only through the per-value loops, and nothing they call appends on its own
			c.ruleCapEq() // the fullness test the push loops rely on is exactly len == configured capacity
			c.ruleBackingCap()
			c.ruleLatch() // "once FIFO mode is on": the mode is a one-way latch
			c.ttIsEmpty()
			c.ruleMask() // index options and read-only are switched by exact |= / &^= of one distinct bit (a redundant "off" stays off)
			c.ruleFlagsDistinct()
			c.ruleResetElemIndependent()
			c.rep.floor("R-SEQ", 19)
			c.rep.floor("R-SLOT0", 9)
		},
	},
	"C20": {
		Level: "other",
		Explanation: "Structural necessary conditions of C20, decided on the SSA of everything reachable from Stack.Reveal. (W) The transitive write set of Reveal is {element slot, Condition expression, lock bookkeeping}: no slice header is stored, so no stack changes its length (nothing added, dropped or duplicated by shifting), no configuration word (kind, options, parenthetical flag) is written, nothing is appended. (PROV) The only element-slot store in the scope is replace(), called once (revealDescend), at the index the inner stack was found at, and on every path the value stored is the inner stack itself (re-stored in place) or its only child - the latter exactly under kind != NOT, exactly one element, child is a Stack/Condition (Interface) and neither wrapper nor child parenthetical (facts required on each such path); reveal hands revealDescend the element it found at i together with that i; the only expression store is SetExpression in revealSingle, which gives the Condition back its own (converted, revealed-in-place) expression stack. (ALLOC) No Stack, Condition or configuration is constructed in the scope, so nesting depth cannot grow. (LOCK) In every function of the scope, nothing called while a stack's lock is held (region = CFG-reachable from lock() without passing unlock()) locks the same stack again: no self-deadlock with the mutex enabled. (PANIC) The nil/reflect/type-assertion/bounds census restricted to the scope, with preconditions checked at every call site. R-TT: IsParen on both types answers the raw parenthetical bit (the notion of \"parenthetical\" Reveal's hoist condition reads). R-NILPTR: a method of the package's own interfaces (Operator, Interface) is invoked on a user-supplied value only where an in-package nil-pointer predicate said no about it, or on the operator stored in a Condition: a nil *Stack / *Condition / *ComparisonOperator among the values never has a method called through it. L7: a mutex stored into a configuration is allocated on the spot, so a parent and its members never share one (Reveal locks both). L8: lock() and unlock() reach the mutex under the same tests. R-TT on (*nodeConfig).valid: the option test behind IsParen depends on the kind word only, so a recorded error does not make a parenthetical wrapper look plain. R-COVER derefPtr: the converters Reveal applies to every slot advance type and value together. Shared option helpers, checked in every property whose statement depends on an option: the bit helpers are exact |= / &^= / test (R-MASK), the option constants are distinct single bits (R-FLAGS), and the tests every option read goes through - (*nodeConfig).valid and getState - depend on the kind word and the raw bit only (R-TT). Shared conversion helpers, checked in every property that recognises nested Stacks/Conditions: derefPtr follows pointers to the end, only while non-nil, type and value together (R-COVER), isStackKind judges by the pointer-flattened type (R-TT), and the converters write no package-level state (R-CONV: no memo keyed by type).",
		NotDecided: "that the depth-first leaf sequence is identical before and after for every tree and that both reduce to the same fully-unwrapped form (tree-valued functional equality); deadlock through a stack that contains itself or through two goroutines (C10); user String()/Operator code.",
		Run: func(c *Ctx) {
			c.optionHelpers()
			c.converterHelpers()
			c.ruleInv()
			if root := c.p.ByName["Stack.Reveal"]; root != nil {
				c.ruleCensus(c.reach(root), map[string]bool{"R-NIL": true, "R-REFL": true, "R-TA": true, "R-BND": true})
			}
			c.ruleReveal()
			c.ruleNilPtrInvoke(nil) // a nil pointer among the elements satisfies Interface too: nothing is asked of it
			c.ruleMutexFresh()      // parent and member never share a mutex (Reveal locks both)
			c.ruleLockSymmetry()    // lock() and unlock() act under the same tests (no unlock of a mutex left alone)
			// "parenthetical" as Reveal reads it is the raw option bit, on both types
			c.ttGetter("Stack.IsParen", "parens", true)
			c.ttGetter("Condition.IsParen", "parens", true)
			c.ttCfgValid()    // ... and the option test behind it depends on the kind word only (not on a recorded error)
			c.ruleDerefLoop() // the converters Reveal applies to every slot flatten type and value in step (typed nil pointers)
			c.rep.floor("R-TT", 2)
			c.rep.floor("R-REVEAL", 8)
			c.rep.floor("R-NIL", 100)
		},
	},
	"C03": {
		Level: "other",
		Explanation: "An inductive-invariant argument, checked on the SSA of the whole package. INV-CAP: for every slice header a stack object ever holds, cap == 0 or len(header) <= cap, where cap is the capacity word of the configuration in slot 0 (Len() == len-1, Cap() == cap-1, so Len() <= k). Base (R-CAPEQ newStack): the word is requested+1 for a positive request, 0 otherwise, and the empty backing array is made with that capacity. Frame (R-CAPW, R-SLOT0): the word is written nowhere else; slot 0 keeps holding the same configuration - every header store derives its value from the object's own header by re-slicing from 0 with high >= 1, appending to a non-empty header, or rebuilding from its own configuration; element stores and bulk copies through a header use a slot >= 1 (interprocedural bounds census restricted to those sites); by-value stack arguments are loaded headers. Step (R-CAP): every store of a header anywhere in the package (push loops, Insert, Pop, Remove, Reset, Defrag - hence also Transfer-into and Marshal-into, which only grow through push) is proved, on every path state, to keep the invariant: Fourier-Motzkin entailment of len(new) <= cap from the path's guards (isFull()==false evaluated on the very header being extended, Insert's capacity guard), assuming the invariant for the headers read so far. Observers (R-CAPEQ): the return cases of Len, Cap, Avail, IsFull and isFull are proved equal to len-1, cap-1 / -1, cap-len / -1 and (cap != 0 and len == cap), i.e. Cap()==k, Avail()==k-Len(), IsFull()==(Len()==k), and -1/-1/never full without a capacity. R-BACKCAP: builtin cap() is never applied to a stack header. R-SEQ (wrappers, push loops, batch forwarding): the batch reaches the append loops as given and is appended in order, so the values kept are the earliest-offered ones. R-CAP is re-proved in concurrent mode (acquiring the lock forgets what was known about shared memory), so a capacity test made before the lock cannot justify a write made under it. Every constructor (And, Or, Not, List, Basic) hands its capacity argument to newStack. L6 (from C10): SetMutex never replaces an existing mutex, so the fullness test and the append of one writer are never interleaved with another's under a second mutex.",
		NotDecided: "'the earliest-offered ones in order' is decided per operation (forwarding + ascending append loops + per-append fullness gate), not as one statement about sequences; linearizability under concurrency is C10 (only the capacity step is re-proved in concurrent mode here). One re-slice (Defrag's truncation) inherits the range assumption recorded for C08. The invariant is about headers stored by the package: a capacity request so large that make() fails panics in the constructor and creates no stack.",
		Run: func(c *Ctx) {
			c.ruleInv()
			c.ruleSlot0()
			c.ruleCapW()
			c.ruleCtorForward()
			c.ruleBackingCap()
			c.ruleCapInv()
			c.ruleCapEq()
			// "keeping the earliest-offered ones in order": the batch reaches the worker as given and is appended in order
			c.seqWrappers()
			c.seqPushLoops()
			// with the mutex enabled the guards are evaluated inside the critical section of the write
			c.withConcurrent(func() { c.ruleCapInv() })
			c.ruleMutexOnce() // ... of one and the same mutex: SetMutex never replaces an existing one
			c.ruleMarshalOut() // an initialised (capacity-bearing) receiver is never re-seated by Marshal
			c.rep.floor("R-SLOT0", 9)
			c.rep.floor("R-CAP", 7)
			c.rep.floor("R-CAPEQ", 6)
			c.rep.floor("R-CAPW", 1)
			c.rep.floor("R-BND", 3)
		},
	},
	"C08": {
		Level: "other",
		Explanation: "The panic-site census of the whole package, for every argument value. R-BND: every index, slice and string-index expression (about 110 non-trivial sites) is proved in range on every path by linear entailment (Fourier-Motzkin) from the path's branch facts; user integers are unconstrained 64-bit values and a sum/difference/product is related to its operands only when the facts prove it cannot overflow (so MinInt/MaxInt are covered); loop counters get inductive bounds; helper functions returning lengths are inlined by return case; preconditions of unexported workers are checked at every call site and exported entry points may have none; element writes and user-element reads on a stack need index >= 1, so the configuration slot can never be written or returned through an index. R-NIL / R-REFL / R-CANIF: every nil-dereference and every panicking reflect.Value call is discharged likewise (typed nil pointers of any depth, zero Stacks/Conditions, zero reflect.Values, unexported struct fields). R-TA: every unchecked type assertion is dominated by the matching type test. R-DIV: no division by a possibly-zero integer. A method is looked up on a reflect.Value only where it tested non-zero/non-nil (calling a value-receiver method bound to a nil pointer panics). No explicit panic and no goroutine exist (R-BASE). R-SEQ (the sequence specifications of C01, restricted to the index-taking operations insert, replace, swap, remove and the position translation of stack.index): for every int argument the header left behind is the header found with exactly the prescribed change, a failing index stores nothing and reports failure, and the configuration record never ends up in a user slot. R-NILPTR: a method of the package's own interfaces (Operator, Interface) is invoked on a user-supplied value only where an in-package nil-pointer predicate said no about it, or on the operator stored in a Condition: a nil *Stack / *Condition / *ComparisonOperator among the values never has a method called through it. R-LEVEL/R-TRAV (from C07): Traverse gives up only for the reasons the lookup gives; no test of its own on a path element can ignore the negative/forward index options. R-LOCK pairing and re-entrancy over the whole package: a call that fails (an index addressing nothing) never returns with the stack's lock held, and no method locks a stack it already holds - the stack stays usable. R-MASK/R-FLAGS: the negative/forward index options are switched by exact |= / &^= of one distinct bit (a redundant 'off' cannot switch them on). Shared option helpers, checked in every property whose statement depends on an option: the bit helpers are exact |= / &^= / test (R-MASK), the option constants are distinct single bits (R-FLAGS), and the tests every option read goes through - (*nodeConfig).valid and getState - depend on the kind word and the raw bit only (R-TT). R-SEQ on stack.index now also proves that, with the option on, a negative index is refused only below -Len (every -k with 1 <= k <= Len addresses an element) and an oversize one never. R-REFL: slicesEqual indexes its operands only where their lengths were compared equal (two arrays need not have the same type). R-XFER (from C15): a transfer into itself is refused however the destination is spelled - otherwise the source grows while it is read and the call does not return.",
		NotDecided: "that -k addresses exactly the k-th element from the end is decided as the position translation row of stack.index plus the linear identity proved for factorNegIndex's result range; Traverse's failure behaviour is decided only through the bounds/nil obligations; panics inside user closures/String() methods and the Go runtime are excluded. One site is assumed (Defrag's truncation index, see assumptions).",
		Run: func(c *Ctx) {
			c.optionHelpers()
			c.ruleNoUnsafe()
			c.ruleInv()
			c.ruleCensus(nil, map[string]bool{"R-NIL": true, "R-REFL": true, "R-TA": true, "R-DIV": true})
			c.ruleCanif()
			c.ruleMethodValue()
			c.ruleIfaceCompare()
			c.ruleNilPtrInvoke(nil)
			c.ruleReflComplete(nil)
			c.ruleCensus(nil, map[string]bool{"R-BND": true})
			// what an index-taking operation leaves behind: the sequence specifications of C01
			c.seqInsert()
			c.seqReplace()
			c.seqSwap()
			c.seqRemove()
			c.seqIndex()
			c.ruleLockPairing("R-LOCK", c.p.Funcs)  // a failing index never leaves the stack locked ("stays initialised and usable")
			c.ruleLockReentry("R-LOCK", c.p.Funcs)  // ... and no call locks a stack it already holds
			c.ruleTraverse() // Traverse gives up only for the reasons Index would: the lookup (which honours the index options) decides
			c.ruleMask() // the index options are switched by exact |= / &^=: a redundant "off" leaves negative/forward indices off
			c.ruleSliceLenBeforeIndex() // slice/array leaves are indexed only after their lengths compared equal
			c.ruleXfer()                // a transfer into itself is refused however the destination is spelled (the source would grow while it is read: the call would not return)
			c.ruleFlagsDistinct()
			c.rep.floor("R-SEQ", 5)
			c.rep.floor("R-BND", 80)
			c.rep.floor("R-NIL", 1300)
			c.rep.floor("R-REFL", 30)
			c.rep.floor("R-TA", 2)
		},
	},
	"C06": {
		Level: "other",
		Explanation: "Decides the clauses of C06 that are visible in the shape of the code. (1) R-TT: the return paths of Condition.Valid are enumerated exactly and compared, row by row, with the table the property states (nil iff keyword non-empty, operator present - a built-in one within 1..6 - and expression non-nil; an installed validity closure decides instead); the same for the expression filter (defaultAssertionExpressionHandler / assertConditionExpressionValue: empty string, nil, Stack under no-nesting, pending error are refused) and for condition.string (parentheses iff requested, padding iff not disabled). (2) R-CONDSTORE: keyword/operator/expression are written only by their setters and only after the acceptance test (operator: non-nil, not a nil pointer wrapped in the interface - no method of the offered operator is invoked before an in-package predicate, itself checked to return reflect's IsNil() for every pointer, has said no - with non-empty Context() and String(); expression: the value the filter returned with ok==true), so a rejected argument leaves the previous value; Cond records Valid()'s verdict via SetErr; Condition.String renders only when Valid()==nil and returns \"\" otherwise. (3) R-NIL/R-REFL restricted to everything reachable from Cond, Init and the setters/getters: no call panics on nil, empty or wrongly typed arguments. R-IFACECMP: nowhere in the package are two non-nil interface values compared with == / != (that panics for an uncomparable dynamic type such as a slice-based user Operator), except the confirmed sites on reflect.Type values, library sentinels and operands whose kind was just tested. R-NILPTR: a method of the package's own interfaces (Operator, Interface) is invoked on a user-supplied value only where an in-package nil-pointer predicate said no about it, or on the operator stored in a Condition: a nil *Stack / *Condition / *ComparisonOperator among the values never has a method called through it. R-TT on setState (both types): the option switches the statement quantifies over set on true, clear on false and toggle on no argument. Each private setter's write set is exactly its own component (a refused argument has no other effect, e.g. no error recorded that would block later arguments). R-HANDLE: Init replaces the instance on every return path. The keyword is stored only where the argument was recognised (the asserted string, its own String() text, or a helper's first result under a true ok flag), so a wrongly typed argument cannot wipe it; the constructor records no error ahead of the expression; the encapsulation loop of C02 (every wrap is left+v+right, no 'already wrapped' shortcut) is checked here too. ComparisonOperator.Context answers one non-empty constant on every path, so a built-in operator is never refused for its number (an out-of-range one is stored and then reported by Valid). getStringer looks the String method up on the value as given. Keyword/Operator/Expression answer the stored component on every path of an initialised instance, whatever else is on record. R-ENCDUP (from C18): an encapsulation entry is refused only for an exact duplicate. Shared option helpers, checked in every property whose statement depends on an option: the bit helpers are exact |= / &^= / test (R-MASK), the option constants are distinct single bits (R-FLAGS), and the tests every option read goes through - (*nodeConfig).valid and getState - depend on the kind word and the raw bit only (R-TT). Shared conversion helpers, checked in every property that recognises nested Stacks/Conditions: derefPtr follows pointers to the end, only while non-nil, type and value together (R-COVER), isStackKind judges by the pointer-flattened type (R-TT), and the converters write no package-level state (R-CONV: no memo keyed by type). isNilPtr says yes only where Kind()==Ptr and IsNil() (a nil map/slice/func used as an operator is a usable value). R-ENCDUP: once a duplicate was found no further comparison is made (a later one could overwrite the verdict). The operator text is one of six pairwise different, non-empty constants (String() evaluated over the six constants). Cond calls newCondition with its own three arguments on every path (a nil operator does not make the constructor drop keyword and expression).",
		NotDecided: "the exact rendered text (spacing, encapsulated expression rendering) - a string-valued functional property (C02's undecided part); behaviour of user Operator/Stringer implementations",
		Run: func(c *Ctx) {
			c.optionHelpers()
			c.converterHelpers()
			c.ruleInv()
			c.ttCondValid()
			c.ttCondExprHandler()
			c.ruleCondStores()
			c.ttCondString()
			c.ruleCondStringEncap()
			var roots []*ssa.Function
			for _, m := range c.api {
				if m.Name == "Cond" || (m.Recv == "Condition" && (strings.HasPrefix(m.Name, "Set") || m.Name == "Init" || m.Name == "Valid" || m.Name == "String" || m.Name == "Keyword" || m.Name == "Operator" || m.Name == "Expression" || m.Name == "Err")) {
					roots = append(roots, m.Fn)
				}
			}
			scope := c.reach(roots...)
			c.ruleCensus(scope, map[string]bool{"R-NIL": true, "R-REFL": true})
			c.ruleIfaceCompare() // offered operators/expressions are never compared as interfaces (uncomparable user types panic)
			c.ruleStrEncap() // the expression text is wrapped on every path, also when it already carries the pair
			c.ttSetState()  // the option setters the statement quantifies over: set on true, clear on false, toggle on no argument
			c.ruleHandle()  // Init always replaces the instance
			c.ruleOpContext()      // a built-in operator cannot be refused for its number: its context is one non-empty constant
			c.ruleNilPtrExact()    // ... nor for being a nil map/slice/func: isNilPtr says yes only about pointers
			c.ruleOperatorTexts()  // the operator text rendered is one of six different, non-empty constants
			c.ruleStringerLookup() // stringer keywords/expressions: the method is looked up on the value as given
			c.ruleCondGetters()    // the getters answer the stored component whenever the instance is initialised
			c.ruleSettingsGuards() // an encapsulation entry is refused only for an exact duplicate (R-ENCDUP)
			c.rep.floor("R-TT", 4)
			c.rep.floor("R-CONDSTORE", 6)
			c.rep.floor("R-NIL", 150)
		},
	},
	"C14": {
		Level: "other",
		Explanation: "R-DISPATCH: for each of the 12 closure slots' dispatchers (Valid, String, IsEqual, Unmarshal, Marshal, Less, Evaluate on both types; push) the return paths are enumerated: the installed closure is invoked exactly when the slot is non-nil, the built-in implementation does not run on that path, the dispatcher returns the closure's own result (for Stack validity: true exactly when the closure returns nil), and with a nil slot the built-in code runs; an exit taken before the slot is looked at may only refuse (a non-nil error, false, the empty string) unless the receiver is uninitialised - a positive verdict never bypasses an installed closure. R-SETTER: each exported setter stores its argument (nil included, so removal restores the default) into exactly its own slot. R-APPEND/R-POLICY: in the policy-gated append the policy is consulted only while isFull()==false (same memory epoch), once per loop iteration, the appended value is the approved one, a rejection calls setErr with the policy's own error and cannot reach another policy call or append; on every return path that follows a rejection setErr(policy error) has been executed (no condition can suppress the report), and the per-value loop is left only past the last value, on a full stack or on a rejection. R-BASIC: a BASIC stack never stores a presentation policy and records a non-nil error; rendering is gated by canString (table checked: initialised, valid per the validity closure, kind neither 0 nor BASIC). The closure a dispatcher invokes is the receiver's own on every path (its value mentions the receiver and no other parameter: an operand's or element's policy is never borrowed). Inside an iteration of the policy loop only the fullness test can bypass the policy call: no other filter drops a value without the policy having seen it. The closure is handed the dispatcher's own receiver and parameters as given - no argument is a computed value (an unwrapped or filtered list). Every setErr/SetErr stores or forwards the error parameter itself, so Err() reports the policy's own error value (errors.Is / == hold). R-TT on Stack.Valid: nil exactly when the handle is set and the worker - hence the closure - approves; a recorded error does not overrule an approving closure. R-SETTER: each exported closure setter stores on every path of an initialised, writable receiver - whatever the argument (nil removes) and whatever else the instance's state (a rejecting validity closure cannot make itself irremovable). R-BACKCAP/R-CAPEQ: 'while room remains' is judged against the configured capacity. R-SEQ: the exported Push stores nothing itself, so no value bypasses the policy-gated worker. R-LOCK pairing and re-entrancy over the whole package: reporting a rejection (setErr) happens under push's lock, and nothing on that path locks the stack again.",
		NotDecided: "what the closures themselves do; 'once per offered value' is decided structurally (one call site inside the per-value loop), not as a count over executions",
		Run: func(c *Ctx) {
			c.ruleDispatch()
			c.rulePushLoops()
			c.ruleBasicRefusal()
			c.ruleSetErrVerbatim()  // Err() reports the policy's own error value, not a copy
			c.ruleBackingCap()      // "while room remains" is judged against the configured capacity
			c.ruleCapEq()
			c.seqWrappers()         // the exported Push stores nothing itself: every value goes through the policy-gated worker
			c.ruleLockPairing("R-LOCK", c.p.Funcs) // reporting a rejection (setErr) happens under push's lock: nothing on that path locks again
			c.ruleLockReentry("R-LOCK", c.p.Funcs)
			c.ttStackValidWrapper() // Stack.Valid: an error exactly when the worker (hence the closure) says no
			c.rep.floor("R-DISPATCH", 12)
			c.rep.floor("R-SETTER", 12)
			c.rep.floor("R-POLICY", 3)
			c.rep.floor("R-APPEND", 2)
		},
	},
	"C13": {
		Level: "other",
		Explanation: "Both clauses of C13 are finite predicates and are decided exactly. R-TT enumerates the return paths of canPushNester (accept = not(isStack and no-nesting)), of Stack.CanNest / Condition.CanNest (initialised and bit clear) and of the Condition-side filter (a Stack is refused exactly under no-nesting; the previous expression is kept because the store is gated, R-CONDSTORE). R-APPEND proves that in the per-value loop the append is gated by the verdict on that very value and by isFull()==false with no write in between. R-APPEND also proves that every offered value gets its turn: the per-value loop visits x[0], x[1], ... up to len(x) and is left only past the last value, on a full stack, or (policy loop) on a rejection - a value refused by the no-nesting test does not end the batch. R-OPTW proves that switching the option writes only the option word, so elements already present are untouched; R-MASK/R-FLAGS prove that the switch itself is exactly |= / &^= of one distinct bit (a redundant 'off' stays off). R-TT: Stack.IsNesting answers its scan's verdict for every initialised receiver whatever the option says (no cached or option-dependent shortcut), and condition.isNesting is exactly isStackKind of the expression. R-CONDSTORE: setExpression writes nothing but the expression (a refused Stack leaves no trace that would make later arguments be refused). The worker push appends nothing itself: every value goes through one of the two per-value loops, hence through the no-nesting test. R-COVER: derefPtr flattens type and value in step in one loop, so a typed nil pointer to a Stack is not judged to be a Stack. Shared option helpers, checked in every property whose statement depends on an option: the bit helpers are exact |= / &^= / test (R-MASK), the option constants are distinct single bits (R-FLAGS), and the tests every option read goes through - (*nodeConfig).valid and getState - depend on the kind word and the raw bit only (R-TT). Shared conversion helpers, checked in every property that recognises nested Stacks/Conditions: derefPtr follows pointers to the end, only while non-nil, type and value together (R-COVER), isStackKind judges by the pointer-flattened type (R-TT), and the converters write no package-level state (R-CONV: no memo keyed by type). R-SEQ: the exported Push stores nothing into the stack itself - every value goes through the worker and its no-nesting test. R-SWITCH: SetNoNesting and its deprecated alias drive the nnest bit with the caller's own argument on every path. R-TT on setState: set / clear / toggle are obeyed whatever the bit's current value; only the read-only flag blocks a switch (an option that is on can be switched off).",
		NotDecided: "IsNesting's scan over all elements is checked only through the converter rules of C12 (not claimed here); behaviour under a custom push policy (documented to ignore the option)",
		Run: func(c *Ctx) {
			c.optionHelpers()
			c.converterHelpers()
			c.ttCanPushNester()
			c.ttGetter("Stack.CanNest", "nnest", false)
			c.ttGetter("Condition.CanNest", "nnest", false)
			c.ttCondExprHandler()
			c.ruleCondStores()
			c.rulePushLoops()
			c.ruleScanNesting()
			c.ttIsNestingWrappers()
			c.ruleOptionWritesOnlyOpt()
			c.ruleMask() // switching the option on and off is exactly |= and &^= of its own bit
			c.ruleFlagsDistinct()
			c.ruleDerefLoop() // "is a Stack" is judged on type and value flattened in step (a typed nil pointer is not a Stack)
			c.seqWrappers()      // the exported Push stores nothing itself: every value goes through the worker, hence through the test
			c.ruleSwitchTable()  // the switch and its deprecated alias drive the no-nesting bit with the caller's argument
			c.ttSetState()       // ... and setState obeys set / clear / toggle whatever the bit's current value (only read-only blocks it)
			c.rep.floor("R-MASK", 11)
			c.rep.floor("R-FLAGS", 22)
			c.rep.floor("R-TT", 5)
			c.rep.floor("R-SCAN", 1)
			c.rep.floor("R-APPEND", 2)
			c.rep.floor("R-OPTW", 20)
		},
	},
	"C18": {
		Level: "other",
		Explanation: "R-FLAGS: the option constants are pairwise distinct single bits. R-MASK: shift/unshift/toggle/positive and their wrappers are exactly |=, &^=, test-and-branch on (receiver, parameter) - switching one option cannot alter another. R-TT: setState (both types) is compared row by row with the prescribed tri-state table (set on true, clear on false, toggle on no argument, nothing when uninitialised or read-only unless the flag is the read-only flag itself); the getters IsParen/IsPadded/IsReadOnly/CanNest have the stated polarity on both types. R-SWITCH: every public switch drives the option the documentation names, forwards its argument unchanged, and Stack/Condition agree. R-OPTW (in C13) / write sets: a switch writes only the option word. R-LATCH: FIFO mode is stored only after reading it as false with no write in between. R-PAIR: each setter/getter pair (ID, category, delimiter, auxiliary, error, keyword, operator, expression) goes through one field. R-KINDGUARD: the delimiter is stored only on LIST stacks, the symbol only on non-LIST stacks (the kind itself is immutable after construction). R-ENCDUP: an encapsulation entry is appended only when the duplicate scan found nothing (found-flag or early-return idiom), and the scan compares every character of the new entry (its length is taken from the call sites) with every existing pair, its loops being left only past their bound or on a duplicate. R-LOGLEVEL: the level set is merged with exactly |= / &^= of the resolved level; the shortcuts exist and are guarded (set: level exactly 0 -> none, and only when the argument did resolve to a level; level exactly 65535 -> all; unset: level exactly 65535 -> none); a raw integer is converted to a level only inside 0..65535; the two name tables are mutually inverse. R-PAIR for the auxiliary map: a map other than the caller's is stored only where no argument was given or it is known nil (an empty non-nil map is kept as given). R-LOGLEVEL: the merge can be bypassed only by the loop test, the shortcuts and the resolution flag. R-STR VERBATIM (from C02): symbol and delimiter reach the rendering exactly as stored, the symbol is never case-folded. R-TT on getState: the getters' source is the raw bit. A raw integer is converted to a level exactly when it lies in 0..65535 (every value in the range is accepted, none outside). R-PURE (the effect analysis of C11): a getter computes its answer from the current settings and writes nothing - no memo that a later change could fail to invalidate. The symbol is stored on every path of a non-LIST stack (an explicit empty string clears it). LogLevels(): the listing loop of logLevels.String is unrolled over its constants and must test all 16 single bits. R-SWITCH: every return path of a public switch has executed setState (or its alias), except for an uninitialised receiver - no state of the instance makes a switch a silent no-op. R-TT on (*nodeConfig).valid: the verdict every option test consults depends on the kind word only. Shared option helpers, checked in every property whose statement depends on an option: the bit helpers are exact |= / &^= / test (R-MASK), the option constants are distinct single bits (R-FLAGS), and the tests every option read goes through - (*nodeConfig).valid and getState - depend on the kind word and the raw bit only (R-TT). R-PAIR: newLogSystem returns a fresh allocation on every path (log levels are per instance); ID and category reach the record as given - the caller's own parameter or, for the magic ID words, the generated value - and the record stores exactly what it is handed. R-KINDGUARD: a symbol given in pieces is collected by 'accumulator + piece' only.",
		NotDecided: "'reflected in String()' for symbol and encapsulation (string-valued, C02's undecided part); the _random/_addr ID keywords; polarity of lead-once / fold / padding inside the rendering loop",
		Run: func(c *Ctx) {
			c.optionHelpers()
			c.ruleFlagsDistinct()
			c.ruleMask()
			c.ttSetState()
			for _, t := range []string{"Stack", "Condition"} {
				c.ttGetter(t+".IsParen", "parens", true)
				c.ttGetter(t+".IsPadded", "nspad", false)
				c.ttGetter(t+".IsReadOnly", "ronly", true)
				c.ttGetter(t+".CanNest", "nnest", false)
			}
			c.ruleSwitchTable()
			c.ruleOptionWritesOnlyOpt()
			c.ruleLatch()
			c.rulePair()
			c.ruleSettingsGuards()
			c.ruleLogLevels()
			c.ruleLogLevelsListing() // the getter's text lists every active level (all 16 bits are tested)
			c.ruleFreshLogSystem()   // log levels are per instance: every constructor call allocates its own log system
			c.ruleIDVerbatim()       // ID and category are stored as given (no folding), the magic ID words aside
			c.ruleSymbolPieces()     // a symbol given in pieces is stored whole
			c.ttCfgValid()           // the option test depends on the kind word only
			c.ruleStrVerbatimSettings() // symbol and delimiter reach the rendering exactly as stored
			c.ttGetState()
			c.rulePure() // a getter computes its answer from the current settings: no memo that a later change fails to invalidate
			c.rep.floor("R-STR", 3)
			c.rep.floor("R-FLAGS", 22)
			c.rep.floor("R-MASK", 11)
			c.rep.floor("R-TT", 10)
			c.rep.floor("R-SWITCH", 28)
			c.rep.floor("R-PAIR", 20)
			c.rep.floor("R-LATCH", 2)
			c.rep.floor("R-LOGLEVEL", 6)
			c.rep.floor("R-KINDGUARD", 2)
			c.rep.floor("R-ENCDUP", 2)
		},
	},
	"C17": {
		Level: "other",
		Explanation: "R-NIL: census of every nil-panic-capable instruction of the package (pointer loads/stores, field addresses, interface invokes, calls of function values, nil-map writes, external pointer-receiver calls); each is discharged by a non-nil fact on every path (forward path-sensitive DNF facts with relational callee summaries), by provenance, by the proved object invariants (R-INV: condition.cfg, nodeConfig.log, package loggers), or becomes a (conditional) precondition that is checked at every call site; exported entry points may have no precondition (A-RECV: the pointer receiver of the four pointer-receiver methods is assumed non-nil). R-REFL/R-CANIF: the same for every panicking reflect.Value call (validity, kind, CanInterface), and a method is looked up on a Value only where it tested non-zero/non-nil (no method of a nil pointer is bound). R-HANDLE: only Free/Marshal/Init can write a handle; Free stores nil and only when initialised and with the read-only flag tested false on that path; Marshal seats only a Stack IsInit() just confirmed. R-ZERO: each exported value-receiver method is re-analysed under the assumption that the embedded pointer is nil; every return path must yield the zero answer (documented exceptions: Valid/IsEqual an error, IsZero/IsEmpty/IsPadded true, Stack.ID/Kind their constants). R-ELEMINDEP: nothing reachable from Reset branches on an element being nil, and Reset writes only content and lock bookkeeping. Free is complete: wherever it returns with the read-only flag tested false the handle holds nil (no other condition keeps the instance alive). R-IFACECMP: no comparison of two non-nil interface values outside the confirmed sites. R-NILPTR: a method of the package's own interfaces (Operator, Interface) is invoked on a user-supplied value only where an in-package nil-pointer predicate said no about it, or on the operator stored in a Condition: a nil *Stack / *Condition / *ComparisonOperator among the values never has a method called through it. R-LOCK pairing and re-entrancy over the whole package: Reset (like every method) neither takes a lock twice nor leaves one held, so it returns also on a mutex-enabled stack. Shared option helpers, checked in every property whose statement depends on an option: the bit helpers are exact |= / &^= / test (R-MASK), the option constants are distinct single bits (R-FLAGS), and the tests every option read goes through - (*nodeConfig).valid and getState - depend on the kind word and the raw bit only (R-TT). R-ZERO: Condition.Addr answers the empty string on a zero Condition; only Stack.Addr (documented \"0x0\") is an exception.",
		NotDecided: "panics inside user closures / String() methods and the Go runtime; index-range panics are C08's R-BND (not part of this check)",
		Run: func(c *Ctx) {
			c.optionHelpers()
			c.ruleNoUnsafe()
			c.ruleInv()
			c.ruleCensus(nil, map[string]bool{"R-NIL": true, "R-REFL": true})
			c.ruleCanif()
			c.ruleMethodValue()
			c.ruleIfaceCompare()
			c.ruleNilPtrInvoke(nil)
			c.ruleHandle()
			c.ruleZeroResults()
			c.ruleResetElemIndependent()
			c.ruleLockPairing("R-LOCK", c.p.Funcs) // Reset (and every other method) returns: no lock is taken twice or left held
			c.ruleLockReentry("R-LOCK", c.p.Funcs)
			c.rep.floor("R-NIL", 1300)
			c.rep.floor("R-REFL", 30)
			c.rep.floor("R-ZERO", 100)
			c.rep.floor("R-HANDLE", 8)
			c.rep.floor("R-INV", 7)
		},
	},
	"C11": {
		Level: "proof",
		Explanation: "Effect analysis over every exported query method of Stack and Condition (the names in the statement, every Is.../Can... method and the plain getters; enumerated from go/types on each run): the transitive write set over all in-package callees must be empty on every non-fresh object - no store, append into shared backing, map update, global write or lock call (R-PURE). Returned slices/maps must be rooted at an allocation made during the call (R-FRESH; Auxiliary/Logger exempt by the statement). No source of nondeterminism (math/rand, time.Now, order-sensitive map iteration) is reachable (R-NONDET). With an empty write set, concurrent queries cannot race: a data race needs a write.",
		NotDecided: "effects of user closures and user String() methods invoked by queries (USER edges, listed); internal synchronisation of fmt/reflect; races between a query and a concurrent mutator (C10)",
		Trusted: []string{"root tracing of effects.go", "purity table for the standard library functions used (strings, strconv, fmt.Sprintf, reflect read accessors, errors.New)"},
		Run: func(c *Ctx) {
			c.ruleNoUnsafe()
			c.rulePure()
			c.rep.floor("R-PURE", 55)
			c.rep.floor("R-FRESH", 4)
		},
	},
	"C09": {
		Level: "proof",
		Explanation: "Effect analysis over the type-checked SSA of every exported Stack/Condition method (enumerated from go/types on each run): every store, append, map update or lock call whose target is rooted at the receiver - directly or through any chain of in-package callees - must be reached only through the false edge of getState(recv, ronly) (rule R-RO, path-sensitive DNF facts; setState's `|| cf == ronly` arm is followed to the constant each caller passes). Exemptions are exactly those of the statement (SetReadOnly/ReadOnly: the option word; SetErr: the error field; Condition.Init: the handle; Marshal: the handle of an uninitialised receiver). R-RO-ARG: an exported method that writes the shared state of an object handed in as an argument (Transfer's destination) does so only after that object's own read-only flag tested false. R-RO-NESTED: wherever code reachable from an exported method reaches into a nested Stack or Condition (an element of the receiver, a Condition's expression - Reveal, Defrag), every write of the nested object is dominated by the false edge of the nested object's own read-only test (lock bookkeeping excepted), so a writable parent cannot change a read-only child. R-MASK/R-FLAGS prove that switching the read-only bit touches no other bit; R-RO-FREE proves Free returns a non-nil error when the flag is set. R-TT on getState itself (both types): it answers the raw option bit of an initialised instance, false otherwise, and nothing reachable from it calls user code - so no validity closure or other user code can make the guards fail open. R-TT on (*nodeConfig).valid: the record's own validity, which positive() and so every guard consults, is 'exists and has a kind word' and nothing else - a recorded error (SetErr is a permitted exception) cannot switch the guards off. Shared option helpers, checked in every property whose statement depends on an option: the bit helpers are exact |= / &^= / test (R-MASK), the option constants are distinct single bits (R-FLAGS), and the tests every option read goes through - (*nodeConfig).valid and getState - depend on the kind word and the raw bit only (R-TT). R-RO-NESTED treats a write into the cell a *stack / *condition argument points at as a write to the nested object unless that argument is the address of a local copy (a private setter called on a nested Condition's own pointer is a write to that Condition).",
		NotDecided: "effects of user closures and user String()/Operator methods; contents of the user-owned Auxiliary map",
		Trusted: []string{"root tracing of effects.go (unknown roots fail the check)", "no unsafe and no reflective setters in the package (re-checked each run)"},
		Run: func(c *Ctx) {
			c.optionHelpers()
			c.ruleNoUnsafe()
			c.ttGetState() // the guard itself: raw bit of an initialised instance, no user code behind it
			c.ttCfgValid() // ... and the record's own validity (which every option test consults) depends on the kind word only
			c.ruleRO()
			c.ruleROArgs()
			c.ruleRONested()
			c.ruleFreeRO()
			c.ruleMask()
			c.ruleFlagsDistinct()
			c.rep.floor("R-RO", 85)
			c.rep.floor("R-RO-ARG", 1)
			c.rep.floor("R-RO-NESTED", 8)
			c.rep.floor("R-MASK", 11)
			c.rep.floor("R-FLAGS", 22)
		},
	},
}

// optionHelpers: what every reading of an option relies on.
func (c *Ctx) optionHelpers() {
	c.ruleMask()
	c.ruleFlagsDistinct()
	c.ttCfgValid()
	c.ttGetState()
}

// converterHelpers: what every recognition of a nested Stack/Condition relies on.
func (c *Ctx) converterHelpers() {
	c.ruleDerefLoop()
	c.ttIsStackKind()
	c.ruleConvPure()
}
