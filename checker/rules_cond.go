package main

import (
	"sort"
	"fmt"
	"go/token"
	"go/types"
	"strings"

	"golang.org/x/tools/go/ssa"
)

// padAfterKeyword finds B(+, <condition.kw>, X) in a concatenation and returns X.
func padAfterKeyword(t *Term) *Term {
	if t == nil {
		return nil
	}
	if t.K == "B" && t.S == "+" && t.A != nil && t.A.K == "F" && t.A.N == 1 && t.A.A.K == "P" {
		return t.B
	}
	if p := padAfterKeyword(t.A); p != nil {
		return p
	}
	return padAfterKeyword(t.B)
}

// termMentionsConst reports whether the term tree contains the string constant s.
func termMentionsConst(t *Term, s string) bool {
	if t == nil {
		return false
	}
	if t.K == "C" && t.S == s {
		return true
	}
	return termMentionsConst(t.A, s) || termMentionsConst(t.B, s)
}

// ttCondValid: Condition.Valid is nil exactly when keyword non-empty,
// operator present (a built-in one within 1..6) and expression non-nil; an
// installed validity closure decides instead.
func (c *Ctx) ttCondValid() {
	callTerm := func(fa *FnAnalysis, st *State, name string) *Term {
		for _, call := range c.findCalls(fa.fn, name) {
			return fa.term(st, call)
		}
		return nil
	}
	nnAtom := func(label, callee string, neg bool) ttAtom {
		return ttAtom{label, func(fa *FnAnalysis, st *State) (bool, bool) {
			t := callTerm(fa, st, callee)
			if t == nil {
				return false, false
			}
			v, ok := fa.knownTerm(st, aNN, t)
			if neg {
				v = !v
			}
			return v, ok
		}}
	}
	coTerm := func(fa *FnAnalysis, st *State) (*Term, *Term) {
		op := callTerm(fa, st, "Condition.Operator")
		if op == nil {
			return nil, nil
		}
		T := c.p.namedType("ComparisonOperator")
		ok := c.eng.tt.mk(Term{K: "TAOK", S: typeStr(T), Typ: T, A: op})
		val := c.eng.tt.mk(Term{K: "CV", S: "int", A: c.eng.tt.mk(Term{K: "TA", S: typeStr(T), Typ: T, A: op})})
		return ok, val
	}
	c.runTable(ttTable{
		rule: "R-TT", fn: "Condition.Valid",
		atoms: []ttAtom{
			c.initAtom(),
			{"policy", func(fa *FnAnalysis, st *State) (bool, bool) {
				// nil-ness of the loaded vpf slot
				for _, f := range st.factList() {
					if f.Kind == aNN && f.T.K == "L" && f.T.A.K == "FA" && c.isSlotIdx("vpf", f.T.A.N) {
						return f.Val, true
					}
				}
				return false, false
			}},
			{"kw==\"\"", func(fa *FnAnalysis, st *State) (bool, bool) {
				t := callTerm(fa, st, "Condition.Keyword")
				if t == nil {
					return false, false
				}
				return fa.knownTerm(st, aTR, c.eng.tt.mk(Term{K: "B", S: "==", A: c.intConst(0), B: c.eng.tt.mk(Term{K: "LEN", A: t})}))
			}},
			nnAtom("op==nil", "Condition.Operator", true),
			{"builtinOp", func(fa *FnAnalysis, st *State) (bool, bool) {
				ok, _ := coTerm(fa, st)
				if ok == nil {
					return false, false
				}
				return fa.knownTerm(st, aTR, ok)
			}},
			{"1<=op", func(fa *FnAnalysis, st *State) (bool, bool) {
				_, v := coTerm(fa, st)
				if v == nil {
					return false, false
				}
				return c.knownCmp(fa, st, c.intConst(1), v)
			}},
			{"op<=6", func(fa *FnAnalysis, st *State) (bool, bool) {
				_, v := coTerm(fa, st)
				if v == nil {
					return false, false
				}
				return c.knownCmp(fa, st, v, c.intConst(6))
			}},
			nnAtom("ex==nil", "Condition.Expression", true),
		},
		feasible: func(v map[string]bool) bool {
			if !v["INIT"] && (v["policy"] || v["builtinOp"]) {
				return false
			}
			if v["op==nil"] && v["builtinOp"] {
				return false
			}
			if !v["builtinOp"] && (!v["1<=op"] || !v["op<=6"]) {
				return false // range atoms only meaningful for built-in operators; keep one representative
			}
			if !v["1<=op"] && !v["op<=6"] {
				return false
			}
			return true
		},
		expect: func(v map[string]bool) string {
			switch {
			case !v["INIT"]:
				return "error"
			case v["policy"]:
				return "closure"
			case v["kw==\"\""], v["op==nil"], v["ex==nil"]:
				return "error"
			case v["builtinOp"] && !(v["1<=op"] && v["op<=6"]):
				return "error"
			}
			return "nil"
		},
		outcome: func(fa *FnAnalysis, st *State, ret *ssa.Return) string {
			for _, call := range c.closureCalls(fa.fn, "vpf") {
				if d, _ := st.get(aDID, c.eng.tt.mk(Term{K: "V", V: call})); d {
					return "closure"
				}
			}
			if v, ok := fa.nonNil(st, ret.Results[0]); ok {
				if v {
					return "error"
				}
				return "nil"
			}
			return "unknown"
		},
	})
}

func (c *Ctx) isSlotIdx(slot string, idx int) bool {
	nc := c.p.namedType("nodeConfig").Underlying()
	st, ok := nc.(interface {
		NumFields() int
	})
	_ = st
	_ = ok
	return c.fieldIndex("nodeConfig", slot) == idx
}

func (c *Ctx) fieldIndex(strct, field string) int {
	n := c.p.namedType(strct)
	if n == nil {
		return -1
	}
	if st, ok := n.Underlying().(interface{ NumFields() int }); ok {
		_ = st
	}
	return structFieldIndex(n, field)
}

// ruleCondStores: keyword/operator/expression are stored only by their
// setters and only after the acceptance test the property describes.
func (c *Ctx) ruleCondStores() {
	rep := c.rep
	owners := map[string]string{"condition.kw": "(*condition).setKeyword", "condition.op": "(*condition).setOperator", "condition.ex": "(*condition).setExpression"}
	seen := map[string]int{}
	for _, fn := range c.p.Funcs {
		var fa *FnAnalysis
		ord := newOrdinal()
		for _, b := range fn.Blocks {
			for _, in := range b.Instrs {
				st, ok := in.(*ssa.Store)
				if !ok {
					continue
				}
				f, ok := st.Addr.(*ssa.FieldAddr)
				if !ok {
					continue
				}
				fld := fieldName(f)
				owner, tracked := owners[fld]
				if !tracked {
					continue
				}
				seen[fld]++
				construct := ord.next("store " + fld)
				pos := c.p.instrPos(in)
				if relName(fn) != owner {
					rep.bad("R-CONDSTORE", relName(fn), construct, pos, fld+" is written outside its setter "+owner)
					continue
				}
				if fa == nil {
					fa = c.eng.analyze(fn, nil)
				}
				switch fld {
				case "condition.op":
					good := fa.reachable(in) && st.Val == fn.Params[1] && fa.allHold(in, func(s *State) bool {
						if v, k := fa.nonNil(s, fn.Params[1]); !k || !v {
							return false
						}
						need := map[string]bool{"Context": false, "String": false}
						for _, bb := range fn.Blocks {
							for _, i2 := range bb.Instrs {
								call, ok := i2.(*ssa.Call)
								if !ok || !call.Call.IsInvoke() || call.Call.Value != fn.Params[1] {
									continue
								}
								lt := c.eng.tt.mk(Term{K: "B", S: "<", A: c.intConst(0), B: c.eng.tt.mk(Term{K: "LEN", A: fa.term(s, call)})})
								if v, k := fa.knownTerm(s, aTR, lt); k && v {
									need[call.Call.Method.Name()] = true
								} else if c.provesFact(fa, s, Fact{aTR, lt, true}, nil) {
									need[call.Call.Method.Name()] = true // e.g. established as len(...) == 0 being false
								}
							}
						}
						return need["Context"] && need["String"]
					})
					// no method of the offered operator is called while it may be a nil pointer inside the
					// interface (a value-receiver method called through it panics in the runtime's wrapper)
					if good {
						for _, bb := range fn.Blocks {
							for _, i2 := range bb.Instrs {
								call, ok := i2.(*ssa.Call)
								if !ok || !call.Call.IsInvoke() || call.Call.Value != fn.Params[1] {
									continue
								}
								if !fa.allHold(call, func(s *State) bool { return c.nilPtrTestedFalse(fn, fa, s, fn.Params[1]) }) {
									good = false
									rep.bad("R-CONDSTORE", relName(fn), ord.next("invoke "+call.Call.Method.Name()+" on the offered operator"), c.p.instrPos(call), "a method of the offered operator is called although it may be a nil pointer wrapped in the interface (no test for that on this path)")
								}
							}
						}
						if !good {
							continue
						}
					}
					if good {
						rep.ok("R-CONDSTORE", relName(fn), construct, pos, "the argument is stored only when it is non-nil, not a nil pointer, and both Context() and String() are non-empty")
					} else {
						rep.bad("R-CONDSTORE", relName(fn), construct, pos, "an operator can be stored without being non-nil with non-empty Context() and String()")
					}
				case "condition.ex":
					good := fa.reachable(in) && fa.allHold(in, func(s *State) bool {
						for _, call := range c.findCalls(fn, "(*condition).assertConditionExpressionValue") {
							if v, k := fa.knownTerm(s, aTR, fa.callResultTerm(s, call, 1)); k && v {
								if fa.term(s, st.Val) == fa.callResultTerm(s, call, 0) && call.Call.Args[1] == fn.Params[1] {
									return true
								}
							}
						}
						return false
					})
					if good {
						rep.ok("R-CONDSTORE", relName(fn), construct, pos, "the stored value is the one the acceptance filter returned with ok==true for this argument")
					} else {
						rep.bad("R-CONDSTORE", relName(fn), construct, pos, "an expression can be stored without having passed the acceptance filter")
					}
				case "condition.kw":
					ss := srcSet{}
					c.sources(fn, st.Val, 0, map[ssa.Value]bool{}, ss)
					// ... and it is stored only where the argument was recognised: the asserted string itself,
					// the result of its own String method, or the first result of a helper whose ok flag is
					// known true - never a zero default standing for "not a keyword" (which would wipe the
					// keyword accepted before)
					recognised := func() bool {
						switch v := st.Val.(type) {
						case *ssa.Extract:
							if _, isTA := v.Tuple.(*ssa.TypeAssert); isTA {
								return true
							}
							if hc, isCall := v.Tuple.(*ssa.Call); isCall && v.Index == 0 {
								if fa == nil {
									fa = c.eng.analyze(fn, nil)
								}
								return fa.allHold(in, func(s2 *State) bool {
									for k := 1; k < hc.Call.Signature().Results().Len(); k++ {
										if ok, known := fa.knownTerm(s2, aTR, fa.callResultTerm(s2, hc, k)); known && ok {
											return true
										}
									}
									return false
								})
							}
						case *ssa.TypeAssert:
							return true
						case *ssa.Call:
							return !v.Call.IsInvoke() && c.p.callee(&v.Call) == nil // a dynamic call: the value's own stringer
						}
						return false
					}
					if (ss["param:1"] || ss["user"]) && !recognised() {
						rep.bad("R-CONDSTORE", relName(fn), construct, pos, "the keyword is overwritten with a value computed for every argument, recognised or not: a wrongly typed argument would replace the accepted keyword with the empty string")
					} else if ss["param:1"] || ss["user"] {
						rep.ok("R-CONDSTORE", relName(fn), construct, pos, "the keyword is the argument (or its String() text)")
					} else {
						rep.bad("R-CONDSTORE", relName(fn), construct, pos, "the stored keyword does not derive from the argument")
					}
				}
			}
		}
	}
	for fld := range owners {
		if seen[fld] == 0 {
			rep.bad("R-CONDSTORE", "package", "anchor "+fld, "?", "no store to "+fld+" found")
		}
	}
	// Cond records Valid's verdict through SetErr
	if fn := c.anchor("R-CONDSTORE", "Cond"); fn != nil {
		fa := c.eng.analyze(fn, nil)
		ok := false
		for _, call := range c.findCalls(fn, "Condition.SetErr") {
			good := fa.reachable(call) && fa.allHold(call, func(s *State) bool {
				for _, vc := range c.findCalls(fn, "Condition.Valid") {
					if v, k := fa.nonNil(s, vc); k && v && fa.term(s, call.Call.Args[1]) == fa.term(s, vc) {
						return true
					}
				}
				return false
			})
			if good {
				ok = true
			}
		}
		if ok {
			rep.ok("R-CONDSTORE", "Cond", "records Valid verdict", c.p.pos(fn.Pos()), "SetErr is called with Valid()'s non-nil error")
		} else {
			rep.bad("R-CONDSTORE", "Cond", "records Valid verdict", c.p.pos(fn.Pos()), "the constructor does not record Valid()'s error")
		}
	}
	// Cond builds through newCondition on every path, with its own three arguments: whatever is
	// wrong with one of them, the others are offered (and kept, for a setter history to complete)
	if fn := c.p.ByName["Cond"]; fn != nil {
		var problems []string
		calls := c.findCalls(fn, "newCondition")
		if len(calls) != 1 {
			problems = append(problems, fmt.Sprintf("expected one call of newCondition, found %d", len(calls)))
		} else {
			for _, ret := range c.returnsOf(fn) {
				if !(calls[0].Block() == ret.Block() || calls[0].Block().Dominates(ret.Block())) {
					problems = append(problems, c.p.instrPos(ret)+": a return is reached without newCondition having been called (an unusable argument makes the constructor drop the others)")
				}
			}
			for k, a := range calls[0].Call.Args {
				if p, isP := a.(*ssa.Parameter); !isP || k >= len(fn.Params) || p != fn.Params[k] {
					problems = append(problems, fmt.Sprintf("argument %d of newCondition is not Cond's own argument %d", k, k))
				}
			}
		}
		if len(problems) == 0 {
			rep.ok("R-CONDSTORE", "Cond", "builds through newCondition", c.p.pos(fn.Pos()), "newCondition is called with Cond's three arguments on every path")
		} else {
			sort.Strings(problems)
			rep.bad("R-CONDSTORE", "Cond", "builds through newCondition", c.p.pos(fn.Pos()), strings.Join(uniq(problems), "; "))
		}
	}
	// the constructor offers the three arguments and nothing else happens in between: no error is
	// recorded ahead of the expression (which would make the expression filter refuse a good value)
	if fn := c.p.ByName["newCondition"]; fn != nil {
		var problems []string
		exprCalls := c.findCalls(fn, "(*condition).setExpression")
		if len(exprCalls) != 1 {
			problems = append(problems, "expected one call of setExpression")
		} else {
			fe := c.eff.fns[fn]
			for _, site := range fe.sites {
				if site.Instr == ssa.Instruction(exprCalls[0]) {
					continue
				}
				// sites from which the expression call is still to come
				before := false
				if site.Instr.Block() == exprCalls[0].Block() {
					before = instrIndex(site.Instr) < instrIndex(exprCalls[0])
				} else {
					before = c.blockReaches(site.Instr.Block(), exprCalls[0].Block())
				}
				if !before {
					continue
				}
				for _, w := range site.Writes {
					if w.Loc == "nodeConfig.err" {
						problems = append(problems, c.p.instrPos(site.Instr)+": an error is recorded before the expression is offered")
					}
				}
			}
			// the Condition under construction is a fresh object, whose writes the effect summary of
			// this function leaves out: look at what the callees write, whatever it is rooted at
			for _, b := range fn.Blocks {
				for _, in := range b.Instrs {
					call, ok := in.(*ssa.Call)
					if !ok || call == exprCalls[0] {
						continue
					}
					before := false
					if b == exprCalls[0].Block() {
						before = instrIndex(in) < instrIndex(exprCalls[0])
					} else {
						before = c.blockReaches(b, exprCalls[0].Block())
					}
					if !before {
						continue
					}
					if cal := c.p.callee(&call.Call); cal != nil && c.p.inPkg(cal) {
						for _, w := range c.eff.writesOf(cal) {
							if w.Loc == "nodeConfig.err" {
								problems = append(problems, c.p.instrPos(in)+": "+relName(cal)+" records an error before the expression is offered")
							}
						}
					}
				}
			}
		}
		if len(problems) == 0 {
			rep.ok("R-CONDSTORE", "newCondition", "no error ahead of the expression", c.p.pos(fn.Pos()), "nothing writes the error slot before setExpression is called")
		} else {
			sort.Strings(problems)
			rep.bad("R-CONDSTORE", "newCondition", "no error ahead of the expression", c.p.pos(fn.Pos()), strings.Join(uniq(problems), "; "))
		}
	}
	// each of the three components is offered on every path, whatever became of the others: the
	// reader of the wire format rebuilds partial Conditions (no operator, no keyword) through this
	// constructor, and a setter history may complete an instance later
	if fn := c.p.ByName["newCondition"]; fn != nil {
		var problems []string
		for _, setter := range []string{"(*condition).setKeyword", "(*condition).setOperator", "(*condition).setExpression"} {
			calls := c.findCalls(fn, setter)
			if len(calls) != 1 {
				problems = append(problems, fmt.Sprintf("expected one call of %s, found %d", setter, len(calls)))
				continue
			}
			for _, ret := range c.returnsOf(fn) {
				if !(calls[0].Block() == ret.Block() || calls[0].Block().Dominates(ret.Block())) {
					problems = append(problems, c.p.instrPos(ret)+": a return can be reached without "+setter+" having been called (one component not taking makes the constructor drop the others)")
				}
			}
			// the argument offered is the constructor's own
			okArg := false
			for _, a := range calls[0].Call.Args[1:] {
				if p, isP := a.(*ssa.Parameter); isP && p.Parent() == fn {
					okArg = true
				}
			}
			if !okArg {
				problems = append(problems, setter+" is not handed the constructor's own argument")
			}
		}
		if len(problems) == 0 {
			rep.ok("R-CONDSTORE", "newCondition", "every component offered", c.p.pos(fn.Pos()), "setKeyword, setOperator and setExpression are each called with the constructor's argument on every path")
		} else {
			sort.Strings(problems)
			rep.bad("R-CONDSTORE", "newCondition", "every component offered", c.p.pos(fn.Pos()), strings.Join(uniq(problems), "; "))
		}
	}
	// a setter writes its own component and nothing else: a refused argument has no other effect
	// (no error recorded that would make later, acceptable arguments be refused as well)
	for _, sw := range []struct{ fn, loc string }{
		{"(*condition).setKeyword", "condition.kw"}, {"(*condition).setOperator", "condition.op"}, {"(*condition).setExpression", "condition.ex"},
	} {
		fn := c.p.ByName[sw.fn]
		if fn == nil {
			continue
		}
		var other []string
		for _, w := range c.eff.writesOf(fn) {
			if w.Loc != sw.loc {
				other = append(other, w.String())
			}
		}
		sort.Strings(other)
		if len(other) == 0 {
			rep.ok("R-CONDSTORE", sw.fn, "writes only its component", c.p.pos(fn.Pos()), "the write set is {"+sw.loc+"}")
		} else {
			rep.bad("R-CONDSTORE", sw.fn, "writes only its component", c.p.pos(fn.Pos()), "besides "+sw.loc+" the setter also writes "+strings.Join(other, ", ")+": offering a value that is refused must leave everything as it was")
		}
	}
	// String is gated by Valid()==nil
	if fn := c.anchor("R-CONDSTORE", "Condition.String"); fn != nil {
		fa := c.eng.analyze(fn, nil)
		calls := c.findCalls(fn, "condition.string")
		good := len(calls) > 0
		for _, call := range calls {
			if !fa.allHold(call, func(s *State) bool {
				for _, vc := range c.findCalls(fn, "Condition.Valid") {
					if v, k := fa.nonNil(s, vc); k && !v {
						return true
					}
				}
				return false
			}) {
				good = false
			}
		}
		// and returns "" otherwise
		for _, rs := range fa.rets {
			invalid := false
			for _, vc := range c.findCalls(fn, "Condition.Valid") {
				if v, k := fa.nonNil(rs.st, vc); k && v {
					invalid = true
				}
			}
			if invalid {
				t := fa.term(rs.st, rs.ret.Results[0])
				if !(t.K == "C" && t.S == `""`) {
					good = false
				}
			}
		}
		if good {
			rep.ok("R-CONDSTORE", "Condition.String", "gated by Valid", c.p.pos(fn.Pos()), "rendering happens only when Valid()==nil; otherwise the empty string is returned")
		} else {
			rep.bad("R-CONDSTORE", "Condition.String", "gated by Valid", c.p.pos(fn.Pos()), "an invalid Condition can render, or a valid one returns a constant")
		}
	}
}

// ttCondString: parentheses iff requested, padding iff not disabled.
func (c *Ctx) ttCondString() {
	c.runTable(ttTable{
		rule: "R-TT", fn: "condition.string",
		atoms: []ttAtom{
			{"policy", func(fa *FnAnalysis, st *State) (bool, bool) {
				for _, f := range st.factList() {
					if f.Kind == aNN && f.T.K == "L" && f.T.A.K == "FA" && c.isSlotIdx("rpf", f.T.A.N) {
						return f.Val, true
					}
				}
				return false, false
			}},
			c.flagAtom("nspad", "nspad"),
			c.flagAtom("parens", "parens"),
		},
		expect: func(v map[string]bool) string {
			if v["policy"] {
				return "closure"
			}
			s := "plain"
			if v["parens"] {
				s = "paren"
			}
			if v["nspad"] {
				return s + "+nopad"
			}
			return s + "+pad"
		},
		outcome: func(fa *FnAnalysis, st *State, ret *ssa.Return) string {
			for _, call := range c.closureCalls(fa.fn, "rpf") {
				if d, _ := st.get(aDID, c.eng.tt.mk(Term{K: "V", V: call})); d {
					return "closure"
				}
			}
			t := fa.term(st, ret.Results[0])
			s := "plain"
			if termMentionsConst(t, `"("`) && termMentionsConst(t, `")"`) {
				s = "paren"
			}
			// the pad is what is concatenated right after the keyword field
			if p := padAfterKeyword(t); p != nil && p.K == "C" {
				if p.S == `" "` {
					return s + "+pad"
				}
				if p.S == `""` {
					return s + "+nopad"
				}
			}
			return s + "+?pad(" + t.key + ")"
		},
	})
}

var _ = token.ADD
var _ = fmt.Sprint
var _ = strings.Join

// ruleCondStringEncap: on every default-rendering path of condition.string the
// expression text passes through encapValue(r.cfg.enc, <text>) exactly once and
// that result is what is concatenated (whatever kind of expression produced
// the text: Stack, Condition, stringer or primitive).
func (c *Ctx) ruleCondStringEncap() {
	rep := c.rep
	fn := c.anchor("R-ENCAP", "condition.string")
	if fn == nil {
		return
	}
	fa := c.eng.analyze(fn, nil)
	pos := c.p.pos(fn.Pos())
	encs := c.findCalls(fn, "encapValue")
	var problems []string
	if len(encs) == 0 {
		problems = append(problems, "no encapValue call")
	}
	n := 0
	for _, ret := range c.returnsOf(fn) {
		for _, s := range fa.statesBefore(ret) {
			// presentation policy installed: its result is returned
			usedPolicy := false
			t := fa.term(s, ret.Results[0])
			if t.K == "V" {
				if call, ok := t.V.(*ssa.Call); ok && c.p.callee(&call.Call) == nil && !call.Call.IsInvoke() {
					usedPolicy = true
				}
			}
			if usedPolicy {
				continue
			}
			n++
			done := 0
			var the *ssa.Call
			for _, e := range encs {
				if _, did := s.cep[e]; did {
					done++
					the = e
				}
			}
			if done != 1 {
				problems = append(problems, fmt.Sprintf("a rendering path applies the encapsulation %d times (expected once, for every kind of expression)", done))
				continue
			}
			// its text argument is the rendering of the expression: the result of String()/stringer/primitiveStringer
			at := the.Call.Args[1]
			for i := 0; i < 6; i++ {
				if bv, ok := s.bind[at]; ok && bv != nil && bv != at {
					at = bv
				} else {
					break
				}
			}
			if _, isCall := at.(*ssa.Call); !isCall {
				problems = append(problems, "the text encapsulated is not the rendering of the expression")
			}
			// the result is part of the string returned
			if !c.stringUses(ret.Results[0], the, map[ssa.Value]bool{}) {
				problems = append(problems, "the encapsulated text is not what is concatenated into the result")
			}
		}
	}
	if n == 0 {
		problems = append(problems, "no default rendering path")
	}
	if len(problems) == 0 {
		rep.ok("R-ENCAP", relName(fn), "expression text encapsulated", pos, fmt.Sprintf("all %d default rendering path states run encapValue once on the expression's text and concatenate its result", n))
	} else {
		sort.Strings(problems)
		rep.bad("R-ENCAP", relName(fn), "expression text encapsulated", pos, strings.Join(uniq(problems), "; "))
	}
}

// stringUses: the string value v is built (by concatenation / merges) from target.
func (c *Ctx) stringUses(v ssa.Value, target ssa.Value, seen map[ssa.Value]bool) bool {
	if v == target {
		return true
	}
	if seen[v] {
		return false
	}
	seen[v] = true
	switch x := v.(type) {
	case *ssa.BinOp:
		return c.stringUses(x.X, target, seen) || c.stringUses(x.Y, target, seen)
	case *ssa.Phi:
		for _, e := range x.Edges {
			if c.stringUses(e, target, seen) {
				return true
			}
		}
	}
	return false
}

// knownCmp: truth of a <= b in state st - by a stored fact or by linear entailment
// (so that every spelling of a range test is recognised).
func (c *Ctx) knownCmp(fa *FnAnalysis, st *State, a, b *Term) (bool, bool) {
	le := c.eng.tt.mk(Term{K: "B", S: "<=", A: a, B: b})
	if v, ok := fa.knownTerm(st, aTR, le); ok {
		return v, true
	}
	if c.provesFact(fa, st, Fact{aTR, le, true}, nil) {
		return true, true
	}
	if c.provesFact(fa, st, Fact{aTR, c.eng.tt.mk(Term{K: "B", S: "<", A: b, B: a}), true}, nil) {
		return false, true
	}
	return false, false
}

// nilPtrTestedFalse: on this path an in-package predicate that is true for
// every nil pointer (checked on its body: it returns reflect's IsNil() of its
// argument whenever the argument's kind is Ptr) has said no about v.
func (c *Ctx) nilPtrTestedFalse(fn *ssa.Function, fa *FnAnalysis, s *State, v ssa.Value) bool {
	vt := fa.term(s, v)
	for _, b := range fn.Blocks {
		for _, in := range b.Instrs {
			call, ok := in.(*ssa.Call)
			if !ok || len(call.Call.Args) != 1 {
				continue
			}
			g := c.p.callee(&call.Call)
			if g == nil || !c.p.inPkg(g) || !c.isNilPtrPredicate(g) {
				continue
			}
			at := fa.term(s, call.Call.Args[0])
			for at != nil && (at.K == "MI" || at.K == "CV") {
				at = at.A
			}
			if at != vt {
				continue
			}
			if r, known := fa.knownTerm(s, aTR, fa.term(s, call)); known && !r {
				return true
			}
		}
	}
	return false
}

func (c *Ctx) isNilPtrPredicate(g *ssa.Function) bool {
	if c.nilPtrPred == nil {
		c.nilPtrPred = map[*ssa.Function]bool{}
	}
	if v, ok := c.nilPtrPred[g]; ok {
		return v
	}
	res := false
	defer func() { c.nilPtrPred[g] = res }()
	sig := g.Signature
	if sig.Params().Len() != 1 || sig.Results().Len() != 1 || len(g.Blocks) == 0 {
		return false
	}
	if bt, ok := sig.Results().At(0).Type().Underlying().(*types.Basic); !ok || bt.Kind() != types.Bool {
		return false
	}
	fa := c.eng.analyze(g, nil)
	tt := c.eng.tt
	vo := tt.mk(Term{K: "VALOF", A: tt.mk(Term{K: "P", N: 0, S: g.Params[0].Name()})})
	isnil := tt.mk(Term{K: "ISNIL", A: vo})
	kindPtr := tt.mk(Term{K: "B", S: "==", A: tt.mk(Term{K: "KIND", A: vo}), B: c.intConst(kPtr)})
	n := 0
	for _, rs := range fa.rets {
		if rs.st.dead {
			continue
		}
		n++
		rt := fa.term(rs.st, rs.ret.Results[0])
		if rt == isnil {
			continue // the verdict is IsNil() itself
		}
		if v, known := fa.knownTerm(rs.st, aTR, rt); known && v {
			continue // says "nil pointer": always safe
		}
		// says no (or unknown): only allowed where the kind is known not to be Ptr
		if v, known := fa.knownTerm(rs.st, aTR, kindPtr); known && !v {
			continue
		}
		return false
	}
	res = n > 0
	return res
}

// ruleNilPtrInvoke: a method of one of the package's own interfaces (Operator,
// Interface) invoked on a value that came from the user - an element, an
// argument - panics in the runtime's pointer wrapper when that value is a nil
// pointer whose type has the method on its value receiver (a nil *Stack, a nil
// *ComparisonOperator).  Every such invoke is reached only where an in-package
// nil-pointer predicate has said no about the receiver value on that path, or
// its receiver is the operator stored in a Condition (which R-CONDSTORE shows is
// stored only after that very test).
func (c *Ctx) ruleNilPtrInvoke(scope []*ssa.Function) {
	rep := c.rep
	n := 0
	fns := scope
	if fns == nil {
		fns = c.p.Funcs
	}
	for _, fn := range fns {
		var fa *FnAnalysis
		ord := newOrdinal()
		for _, b := range fn.Blocks {
			for _, in := range b.Instrs {
				call, ok := in.(*ssa.Call)
				if !ok || !call.Call.IsInvoke() {
					continue
				}
				nt, ok := call.Call.Value.Type().(*types.Named)
				if !ok || nt.Obj().Pkg() == nil || nt.Obj().Pkg() != c.p.Types {
					continue
				}
				n++
				construct := ord.next("invoke " + nt.Obj().Name() + "." + call.Call.Method.Name())
				pos := c.p.instrPos(in)
				ss := srcSet{}
				c.sources(fn, call.Call.Value, 0, map[ssa.Value]bool{}, ss)
				stored := ss["field:condition.op"]
				for k := range ss {
					if (strings.HasPrefix(k, "param:") && k != "param:0") || k == "elem" {
						stored = false
					}
				}
				if stored {
					rep.ok("R-NILPTR", relName(fn), construct, pos, "the receiver is the operator stored in the Condition (stored only after the nil-pointer test, R-CONDSTORE)")
					continue
				}
				if fa == nil {
					fa = c.eng.analyze(fn, nil)
				}
				recv := call.Call.Value
				// a checked assertion x.(I) keeps the value: test the asserted operand as well
				cands := []ssa.Value{recv}
				if ex, ok := recv.(*ssa.Extract); ok {
					if ta, ok := ex.Tuple.(*ssa.TypeAssert); ok {
						cands = append(cands, ta.X)
					}
				}
				if ta, ok := recv.(*ssa.TypeAssert); ok {
					cands = append(cands, ta.X)
				}
				good := fa.reachable(call) && fa.allHold(call, func(s *State) bool {
					for _, v := range cands {
						if c.nilPtrTestedFalse(fn, fa, s, v) {
							return true
						}
					}
					return false
				})
				if good {
					rep.ok("R-NILPTR", relName(fn), construct, pos, "reached only where the nil-pointer predicate said no about the receiver value")
				} else {
					rep.bad("R-NILPTR", relName(fn), construct, pos, "a method of a user-supplied value is invoked through the interface although the value may be a nil pointer (calling a value-receiver method through it panics)")
				}
			}
		}
	}
	rep.Extra["own_interface_invokes"] = n
}
