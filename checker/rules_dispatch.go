package main

import (
	"fmt"
	"go/types"
	"strings"

	"golang.org/x/tools/go/ssa"
)

// ---------------------------------------------------------------- R-DISPATCH
//
// For every closure slot and its dispatcher: the closure is invoked exactly
// when it is installed, the built-in implementation is then not run, the
// dispatcher returns the closure's result, and with no closure installed the
// built-in implementation runs.

type dispatchSpec struct {
	fn      string   // dispatcher
	slot    string   // nodeConfig field holding the closure
	defs    []string // callee(s) that mark the built-in path ("" = none)
	results [][2]int // (dispatcher result index, closure result index) that must be identical
	boolNeg bool     // dispatcher's bool result 0 must be (closure result 0 == nil)
}

func (c *Ctx) closureCalls(fn *ssa.Function, slot string) []*ssa.Call {
	var out []*ssa.Call
	for _, b := range fn.Blocks {
		for _, in := range b.Instrs {
			call, ok := in.(*ssa.Call)
			if !ok || call.Call.IsInvoke() || c.p.callee(&call.Call) != nil {
				continue
			}
			if _, isB := call.Call.Value.(*ssa.Builtin); isB {
				continue
			}
			ss := srcSet{}
			c.sources(fn, call.Call.Value, 0, map[ssa.Value]bool{}, ss)
			if ss["field:nodeConfig."+slot] {
				out = append(out, call)
			}
		}
	}
	return out
}

func (c *Ctx) ruleDispatch() { c.ruleDispatchFor(nil) }

// ruleDispatchFor: the dispatch rule for the named dispatchers only (nil = all,
// plus the push path and the setters).
func (c *Ctx) ruleDispatchFor(only map[string]bool) {
	rep := c.rep
	specs := []dispatchSpec{
		{fn: "Stack.IsEqual", slot: "eqf", defs: []string{"(*stack).isEqual"}, results: [][2]int{{0, 0}}},
		{fn: "Stack.Unmarshal", slot: "umf", defs: []string{"stack.unmarshalDefault"}, results: [][2]int{{0, 0}, {1, 1}}},
		{fn: "(*Stack).Marshal", slot: "maf", defs: []string{"marshalDefault"}, results: [][2]int{{0, 0}}},
		{fn: "Stack.Less", slot: "lss", defs: []string{"stack.defaultLesser"}, results: [][2]int{{0, 0}}},
		{fn: "(*stack).string", slot: "rpf", defs: []string{"stack.assembleStringStack"}, results: [][2]int{{0, 0}}},
		{fn: "(*stack).valid", slot: "vpf", boolNeg: true},
		{fn: "Condition.Valid", slot: "vpf", defs: []string{"Condition.Keyword", "Condition.Operator", "Condition.Expression"}, results: [][2]int{{0, 0}}},
		{fn: "condition.string", slot: "rpf", defs: []string{"encapValue"}, results: [][2]int{{0, 0}}},
		{fn: "Condition.IsEqual", slot: "eqf", defs: []string{"(*condition).isEqual"}, results: [][2]int{{0, 0}}},
		{fn: "Condition.Unmarshal", slot: "umf", defs: []string{"condition.unmarshalDefault"}, results: [][2]int{{0, 0}, {1, 1}}},
		{fn: "Condition.Evaluate", slot: "evl", results: [][2]int{{0, 0}, {1, 1}}},
	}
	for _, sp := range specs {
		if only != nil && !only[sp.fn] {
			continue
		}
		fn := c.anchor("R-DISPATCH", sp.fn)
		if fn == nil {
			continue
		}
		pos := c.p.pos(fn.Pos())
		calls := c.closureCalls(fn, sp.slot)
		if len(calls) != 1 {
			rep.bad("R-DISPATCH", sp.fn, "closure "+sp.slot, pos, fmt.Sprintf("expected exactly one invocation of the installed %s closure, found %d", sp.slot, len(calls)))
			continue
		}
		call := calls[0]
		fa := c.eng.analyze(fn, nil)
		slotIdx := -1
		if nc, ok := c.p.namedType("nodeConfig").Underlying().(*types.Struct); ok {
			for i := 0; i < nc.NumFields(); i++ {
				if nc.Field(i).Name() == sp.slot {
					slotIdx = i
				}
			}
		}
		callT := c.eng.tt.mk(Term{K: "V", V: call})
		var problems []string
		// the closure consulted is the receiver's own: on no path does its value come from another
		// object's configuration (the comparand's, a nested element's)
		if !fa.allHold(call, func(s *State) bool {
			ct := fa.term(s, call.Call.Value)
			if !termMentionsParam(ct, 0) {
				return false
			}
			for k := 1; k < len(fn.Params); k++ {
				if termMentionsParam(ct, k) {
					return false
				}
			}
			return true
		}) {
			problems = append(problems, "the closure invoked is not (only) the one installed on the receiver itself")
		}
		// what the closure is handed is the dispatcher's own receiver and parameters, as given:
		// nothing computed from them (an unwrapped, filtered or converted argument list)
		if !fa.allHold(call, func(s *State) bool {
			for _, a := range call.Call.Args {
				if termHasKind(fa.term(s, a), "APP") {
					return false
				}
			}
			return true
		}) {
			problems = append(problems, "an argument handed to the closure is computed (a call result), not the receiver or a parameter as given")
		}
		nClosure, nDefault, nEarly, nUninit := 0, 0, 0, 0
		_ = nUninit
		for _, rs := range fa.rets {
			s := rs.st
			did, _ := s.get(aDID, callT)
			ranDefault := len(sp.defs) > 0 && c.didCall(fa, s, sp.defs...)
			if did {
				nClosure++
				if ranDefault {
					problems = append(problems, "a path runs both the installed closure and the built-in implementation")
				}
				for _, pr := range sp.results {
					if pr[0] >= len(rs.ret.Results) {
						continue
					}
					got := fa.term(s, rs.ret.Results[pr[0]])
					want := fa.callResultTerm(s, call, pr[1])
					if got != want {
						problems = append(problems, fmt.Sprintf("result %d returned after invoking the closure is not the closure's result %d", pr[0], pr[1]))
					}
				}
				if sp.boolNeg {
					is, k1 := fa.knownTerm(s, aTR, fa.term(s, rs.ret.Results[0]))
					nn, k2 := fa.nonNil(s, call)
					if !k1 || !k2 || is == nn {
						problems = append(problems, "the boolean verdict does not follow the closure's error (must be true exactly when the closure returns nil)")
					}
				}
			} else {
				// closure not invoked: either it is not installed (then the default must run) or an earlier exit
				slotNil := false
				for _, f := range s.factList() {
					if f.Kind == aNN && !f.Val && f.T.K == "L" && f.T.A.K == "FA" && f.T.A.N == slotIdx {
						slotNil = true
					}
					if f.Kind == aNN && !f.Val && f.T == fa.term(s, call.Call.Value) {
						slotNil = true
					}
				}
				if slotNil {
					nDefault++
					if len(sp.defs) > 0 && !ranDefault {
						problems = append(problems, "with no closure installed a path returns without running the built-in implementation")
					}
				} else if (&roAnalysis{c: c}).initFalse(fa, s, 0) {
					// an uninitialised receiver has no configuration, hence no closure
					nUninit++
				} else if !s.dead {
					// an exit taken before the closure was looked at: it may only refuse (an error, false,
					// the empty string) - a positive verdict must come from the closure when one is installed
					nEarly++
					if msg := c.refusalOnly(fa, s, rs.ret); msg != "" {
						problems = append(problems, "a path returns "+msg+" without having consulted the installed closure or run the built-in implementation")
					}
				}
			}
		}
		if nClosure == 0 {
			problems = append(problems, "no return path invokes the installed closure")
		}
		if nDefault == 0 && len(sp.defs) > 0 {
			problems = append(problems, "no return path runs the built-in implementation when the slot is nil")
		}
		if len(problems) == 0 {
			rep.ok("R-DISPATCH", sp.fn, "closure "+sp.slot, pos, fmt.Sprintf("%d path(s) return the closure's verdict without the built-in code; %d path(s) with no closure run the built-in code; %d earlier exit(s) only refuse", nClosure, nDefault, nEarly))
		} else {
			rep.bad("R-DISPATCH", sp.fn, "closure "+sp.slot, pos, strings.Join(uniq(sortedCopy(problems)), "; "))
		}
	}
	if only != nil {
		return
	}
	// push: policy path and generic path are exclusive
	if fn := c.anchor("R-DISPATCH", "(*stack).push"); fn != nil {
		fa := c.eng.analyze(fn, nil)
		okp := true
		nm, ng := 0, 0
		for _, rs := range fa.rets {
			m := c.didCall(fa, rs.st, "(*stack).methodAppend")
			g := c.didCall(fa, rs.st, "(*stack).genericAppend")
			if m {
				nm++
			}
			if g {
				ng++
			}
			if m == g {
				okp = false
			}
		}
		// the policy handed to methodAppend is the loaded ppf slot, and it is non-nil there
		for _, call := range c.findCalls(fn, "(*stack).methodAppend") {
			ss := srcSet{}
			c.sources(fn, call.Call.Args[1], 0, map[ssa.Value]bool{}, ss)
			if !ss["field:nodeConfig.ppf"] {
				okp = false
			}
			if !fa.allHold(call, func(s *State) bool { v, k := fa.nonNil(s, call.Call.Args[1]); return k && v }) {
				okp = false
			}
		}
		if okp && nm > 0 && ng > 0 {
			rep.ok("R-DISPATCH", "(*stack).push", "closure ppf", c.p.pos(fn.Pos()), "with a policy installed only the policy-gated append runs, otherwise only the generic append")
		} else {
			rep.bad("R-DISPATCH", "(*stack).push", "closure ppf", c.p.pos(fn.Pos()), "the installed push policy does not exclusively decide the append path")
		}
	}
	c.ruleClosureSetters()
}

func sortedCopy(ss []string) []string {
	out := append([]string{}, ss...)
	for i := 1; i < len(out); i++ {
		for j := i; j > 0 && out[j] < out[j-1]; j-- {
			out[j], out[j-1] = out[j-1], out[j]
		}
	}
	return out
}

// ruleClosureSetters: every exported setter of a closure slot stores a value
// derived from its argument into exactly that slot (nil / no argument
// removes it), and nothing else writes the slot.
func (c *Ctx) ruleClosureSetters() {
	rep := c.rep
	want := map[string]string{ // method -> slot
		"Stack.SetPushPolicy": "ppf", "Stack.SetPresentationPolicy": "rpf", "Stack.SetValidityPolicy": "vpf",
		"Stack.SetEqualityPolicy": "eqf", "Stack.SetUnmarshaler": "umf", "Stack.SetMarshaler": "maf", "Stack.SetLessFunc": "lss",
		"Condition.SetEvaluator": "evl", "Condition.SetValidityPolicy": "vpf", "Condition.SetPresentationPolicy": "rpf",
		"Condition.SetEqualityPolicy": "eqf", "Condition.SetUnmarshaler": "umf",
	}
	slots := map[string]bool{"evl": true, "ppf": true, "vpf": true, "rpf": true, "eqf": true, "lss": true, "umf": true, "maf": true}
	for name, slot := range want {
		fn := c.p.ByName[name]
		if fn == nil {
			rep.bad("R-SETTER", name, "anchor", "?", "setter no longer exists")
			continue
		}
		var stores []string
		okAll := true
		n := 0
		for _, g := range c.reach(fn) {
			for _, b := range g.Blocks {
				for _, in := range b.Instrs {
					st, ok := in.(*ssa.Store)
					if !ok {
						continue
					}
					f, ok := st.Addr.(*ssa.FieldAddr)
					if !ok || !strings.HasPrefix(fieldName(f), "nodeConfig.") {
						continue
					}
					fld := strings.TrimPrefix(fieldName(f), "nodeConfig.")
					if !slots[fld] {
						continue
					}
					n++
					stores = append(stores, fld)
					if fld != slot {
						okAll = false
						continue
					}
					// stored value: nil constant, or derived from the (variadic) argument, or the built-in default bound to the receiver
					if isNilConst(st.Val) {
						continue
					}
					ss := srcSet{}
					c.sources(g, st.Val, 0, map[ssa.Value]bool{}, ss)
					derived := false
					for s := range ss {
						if strings.HasPrefix(s, "param:") && s != "param:0" {
							derived = true
						}
					}
					if !derived {
						okAll = false
					}
				}
			}
		}
		// the store happens on every path of an initialised, writable receiver: whatever the
		// argument (nil removes the closure) and whatever the instance's other state (a rejecting
		// validity closure, a recorded error), the setter cannot be a silent no-op
		{
			fa := c.eng.analyze(fn, nil)
			loc := "nodeConfig." + slot
			var writers []*ssa.Call
			for _, b := range fn.Blocks {
				for _, in := range b.Instrs {
					if call, ok := in.(*ssa.Call); ok {
						if cal := c.p.callee(&call.Call); cal != nil && c.p.inPkg(cal) {
							for _, w := range c.eff.writesOf(cal) {
								if w.Loc == loc {
									writers = append(writers, call)
									break
								}
							}
						}
					}
				}
			}
			init, ro := c.initAtom(), c.flagAtom("ronly", "ronly")
			silent := ""
			for _, rs := range fa.rets {
				if rs.st.dead {
					continue
				}
				stored := false
				for _, cell := range rs.st.heap {
					if cell.loc == loc {
						stored = true
					}
				}
				for _, w := range writers {
					if did, _ := rs.st.get(aDID, c.eng.tt.mk(Term{K: "V", V: w})); did {
						stored = true
					}
				}
				if stored {
					continue
				}
				if is, known := init.eval(fa, rs.st); known && !is {
					continue
				}
				if is, known := ro.eval(fa, rs.st); known && is {
					continue
				}
				silent = c.p.instrPos(rs.ret)
			}
			if silent == "" {
				rep.ok("R-SETTER", name, "stores on every writable path", c.p.pos(fn.Pos()), "only an uninitialised or read-only receiver leaves the slot alone")
			} else {
				rep.bad("R-SETTER", name, "stores on every writable path", c.p.pos(fn.Pos()), "a path ("+silent+") returns without storing although the receiver is not known to be uninitialised or read-only: the closure cannot be installed/removed in that state or with that argument")
			}
		}
		pos := c.p.pos(fn.Pos())
		if n == 0 {
			rep.bad("R-SETTER", name, "slot "+slot, pos, "the setter never stores into nodeConfig."+slot)
		} else if okAll {
			rep.ok("R-SETTER", name, "slot "+slot, pos, "stores its argument (or nil) into nodeConfig."+slot+" and into no other closure slot")
		} else {
			rep.bad("R-SETTER", name, "slot "+slot, pos, fmt.Sprintf("the setter writes closure slot(s) %v; it must store its argument into %s only", stores, slot))
		}
	}
}

// ruleBasicRefusal: a BASIC stack refuses a presentation policy, records an
// error and never renders; rendering of any stack is gated by canString
// (initialised, valid per the validity closure, kind neither 0 nor BASIC).
func (c *Ctx) ruleBasicRefusal() {
	rep := c.rep
	basicV, _ := c.p.constVal("basic")
	if fn := c.anchor("R-BASIC", "(*stack).setPresentationPolicy"); fn != nil {
		fa := c.eng.analyze(fn, nil)
		isBasic := func(s *State) (bool, bool) {
			for _, call := range c.findCalls(fn, "stack.stackType") {
				t := c.eng.tt.mk(Term{K: "B", S: "==", A: c.intConst(basicV), B: fa.term(s, call)})
				if v, ok := fa.knownTerm(s, aTR, t); ok {
					return v, true
				}
			}
			return false, false
		}
		nst := 0
		for _, b := range fn.Blocks {
			for _, in := range b.Instrs {
				st, ok := in.(*ssa.Store)
				if !ok {
					continue
				}
				if f, ok := st.Addr.(*ssa.FieldAddr); ok && fieldName(f) == "nodeConfig.rpf" {
					nst++
					if fa.allHold(in, func(s *State) bool { v, k := isBasic(s); return k && !v }) {
						rep.ok("R-BASIC", relName(fn), "store rpf", c.p.instrPos(in), "the presentation policy is stored only when the kind is not BASIC")
					} else {
						rep.bad("R-BASIC", relName(fn), "store rpf", c.p.instrPos(in), "a BASIC stack can receive a presentation policy")
					}
				}
			}
		}
		if nst == 0 {
			rep.bad("R-BASIC", relName(fn), "store rpf", c.p.pos(fn.Pos()), "no store to nodeConfig.rpf found")
		}
		// refusal records a non-nil error
		okErr, n := true, 0
		for _, rs := range fa.rets {
			if v, k := isBasic(rs.st); k && v {
				n++
				good := false
				for _, call := range c.findCalls(fn, "(*stack).setErr") {
					if d, _ := rs.st.get(aDID, c.eng.tt.mk(Term{K: "V", V: call})); d {
						if nn, k := fa.nonNil(rs.st, call.Call.Args[1]); k && nn {
							good = true
						}
					}
				}
				if !good {
					okErr = false
				}
			}
		}
		if n > 0 && okErr {
			rep.ok("R-BASIC", relName(fn), "refusal records error", c.p.pos(fn.Pos()), "every return on the BASIC path has called setErr with a non-nil error")
		} else {
			rep.bad("R-BASIC", relName(fn), "refusal records error", c.p.pos(fn.Pos()), "the BASIC refusal path does not record a non-nil error")
		}
	}
	// canString table
	c.runTable(ttTable{
		rule: "R-TT", fn: "(*stack).canString",
		atoms: []ttAtom{
			c.atomTerm("r!=nil", aNN, func(fa *FnAnalysis, st *State) *Term { return c.param(fa, 0) }, false),
			c.atomCallBool("valid()", []string{"(*stack).valid"}, nil),
			{"kind==0", func(fa *FnAnalysis, st *State) (bool, bool) {
				for _, call := range c.findCalls(fa.fn, "stack.typ") {
					t := c.eng.tt.mk(Term{K: "B", S: "==", A: c.intConst(0), B: fa.callResultTerm(st, call, 1)})
					if v, ok := fa.knownTerm(st, aTR, t); ok {
						return v, true
					}
				}
				return false, false
			}},
			{"kind==BASIC", func(fa *FnAnalysis, st *State) (bool, bool) {
				for _, call := range c.findCalls(fa.fn, "stack.typ") {
					t := c.eng.tt.mk(Term{K: "B", S: "==", A: c.intConst(basicV), B: fa.callResultTerm(st, call, 1)})
					if v, ok := fa.knownTerm(st, aTR, t); ok {
						return v, true
					}
				}
				return false, false
			}},
		},
		feasible: func(v map[string]bool) bool {
			if v["kind==0"] && v["kind==BASIC"] {
				return false
			}
			if v["valid()"] && !v["r!=nil"] {
				return false
			}
			return true
		},
		expect: func(v map[string]bool) string {
			return fmt.Sprint(v["r!=nil"] && v["valid()"] && !v["kind==0"] && !v["kind==BASIC"])
		},
		outcome: c.boolOutcome(0),
	})
	// rendering is gated by canString
	if fn := c.anchor("R-BASIC", "(*stack).string"); fn != nil {
		fa := c.eng.analyze(fn, nil)
		gate := func(s *State) bool {
			for _, call := range c.findCalls(fn, "(*stack).canString") {
				if v, ok := fa.knownTerm(s, aTR, fa.callResultTerm(s, call, 0)); ok && v {
					return true
				}
			}
			return false
		}
		var sites []ssa.Instruction
		for _, call := range c.findCalls(fn, "stack.assembleStringStack", "stack.defaultAssertionHandler") {
			sites = append(sites, call)
		}
		for _, call := range c.closureCalls(fn, "rpf") {
			sites = append(sites, call)
		}
		bad := 0
		for _, in := range sites {
			if !fa.allHold(in, gate) {
				bad++
				rep.bad("R-BASIC", relName(fn), "render gated by canString", c.p.instrPos(in), "rendering code is reachable without canString() having said yes (BASIC / invalid stacks must render as the empty string)")
			}
		}
		if len(sites) < 2 {
			rep.bad("R-BASIC", relName(fn), "render gated by canString", c.p.pos(fn.Pos()), "rendering call sites not found")
		} else if bad == 0 {
			rep.ok("R-BASIC", relName(fn), "render gated by canString", c.p.pos(fn.Pos()), fmt.Sprintf("%d rendering call sites are dominated by canString()==true", len(sites)))
		}
	}
}

// refusalOnly: the results of this return are a refusal - a non-nil error when
// the function has an error result, otherwise false / the empty string.
// Returns a description of the offending result, or "".
func (c *Ctx) refusalOnly(fa *FnAnalysis, s *State, ret *ssa.Return) string {
	sig := fa.fn.Signature.Results()
	hasErr := false
	for i := 0; i < sig.Len(); i++ {
		if types.Identical(sig.At(i).Type(), types.Universe.Lookup("error").Type()) {
			hasErr = true
			if v, known := fa.nonNil(s, ret.Results[i]); !known || !v {
				return "a possibly nil error"
			}
		}
	}
	if hasErr {
		return ""
	}
	for i := 0; i < sig.Len(); i++ {
		bt, ok := sig.At(i).Type().Underlying().(*types.Basic)
		if !ok {
			continue
		}
		switch {
		case bt.Kind() == types.Bool:
			if v, known := fa.knownTerm(s, aTR, fa.term(s, ret.Results[i])); !known || v {
				return "a possibly true verdict"
			}
		case bt.Kind() == types.String:
			t := fa.term(s, ret.Results[i])
			if !(t.K == "C" && t.S == `""`) {
				return "a possibly non-empty text"
			}
		}
	}
	return ""
}
