package main

import (
	"go/constant"
	"fmt"
	"os"
	"sort"
	"go/token"
	"go/types"
	"math/big"
	"strings"

	"golang.org/x/tools/go/ssa"
)

// ---------------------------------------------------------------- R-BND
//
// Every index and slice expression of the package is in range for all
// integer values.  The branch facts of each path state are translated into a
// linear system (linear.go); machine arithmetic is modelled soundly: a sum or
// difference is related to its operands only when the system proves that it
// does not overflow, otherwise it is an unconstrained integer.

const maxLen = int64(1) << 58

type bndProver struct {
	c   *Engine
	fa  *FnAnalysis
	st  *State
	sys *linSys
	ari map[*Term]bool // arithmetic atoms already related to their operands
	axDone map[*Term]bool
	pendingDiv []*Term // x / k atoms whose axiom waits for x >= 0 to become provable
}

func (c *Ctx) newProver(fa *FnAnalysis, st *State) *bndProver {
	if st.frozen {
		if c.proverCache == nil {
			c.proverCache = map[*State]*bndProver{}
		}
		base, ok := c.proverCache[st]
		if !ok {
			base = newProverE(c.eng, fa, st)
			c.proverCache[st] = base
		}
		return base.cloneP()
	}
	return newProverE(c.eng, fa, st)
}

func (p *bndProver) cloneP() *bndProver {
	n := &bndProver{c: p.c, fa: p.fa, st: p.st, sys: p.sys.clone(), ari: map[*Term]bool{}, axDone: map[*Term]bool{}}
	for k, v := range p.ari {
		n.ari[k] = v
	}
	for k, v := range p.axDone {
		n.axDone[k] = v
	}
	n.pendingDiv = append([]*Term{}, p.pendingDiv...)
	return n
}

func newProverE(c *Engine, fa *FnAnalysis, st *State) *bndProver {
	p := &bndProver{c: c, fa: fa, st: st, sys: &linSys{}, ari: map[*Term]bool{}, axDone: map[*Term]bool{}}
	atoms := map[*Term]bool{}
	var arith []*Term
	var collect func(t *Term)
	collect = func(t *Term) {
		if t == nil {
			return
		}
		switch t.K {
		case "B":
			if t.S == "+" || t.S == "-" || t.S == "*" {
				arith = append(arith, t)
			}
		}
		collect(t.A)
		collect(t.B)
	}
	for _, f := range st.factList() {
		if f.Kind != aTR || f.T.K != "B" {
			continue
		}
		if f.T.S != "<" && f.T.S != "<=" && f.T.S != "==" {
			continue
		}
		a, okA := p.lin(f.T.A, atoms)
		b, okB := p.lin(f.T.B, atoms)
		if !okA || !okB {
			continue
		}
		collect(f.T.A)
		collect(f.T.B)
		switch f.T.S {
		case "<":
			if f.Val {
				p.sys.addLT(a, b)
			} else {
				p.sys.addLE(b, a)
			}
		case "<=":
			if f.Val {
				p.sys.addLE(a, b)
			} else {
				p.sys.addLT(b, a)
			}
		case "==":
			if f.Val {
				p.sys.addEQ(a, b)
			}
		}
	}
	// lemma (R-INV stack.index): a lookup known to have found its element returned a position in [1, len-1]
	if c.indexLemma {
		for _, f := range st.factList() {
			if f.Kind != aTR || !f.Val || f.T.K != "X" || f.T.N != 2 || f.T.A == nil || f.T.A.K != "APP" || f.T.A.S != "stack.index" || f.T.A.A == nil {
				continue
			}
			h := f.T.A.A.A
			post := c.tt.mk(Term{K: "X", A: f.T.A, N: 1})
			lenT := c.tt.mk(Term{K: "LEN", A: h})
			sub := map[*Term]bool{}
			lp, ok1 := p.lin(post, sub)
			ll, ok2 := p.lin(lenT, sub)
			if ok1 && ok2 {
				for t := range sub {
					atoms[t] = true
				}
				p.sys.addLE(linConst(1), lp)
				p.sys.addLT(lp, ll)
			}
		}
	}
	p.axioms(atoms)
	p.relateArith(arith, atoms)
	// disequalities: a != b strengthens a one-sided bound (a >= b  =>  a >= b+1)
	for round := 0; round < 2; round++ {
		for _, f := range st.factList() {
			if f.Kind != aTR || f.Val || f.T.K != "B" || f.T.S != "==" {
				continue
			}
			sub := map[*Term]bool{}
			a, okA := p.lin(f.T.A, sub)
			b, okB := p.lin(f.T.B, sub)
			if !okA || !okB {
				continue
			}
			p.axioms(sub)
			if p.sys.entailsLE(b, a) {
				p.sys.addLT(b, a)
			} else if p.sys.entailsLE(a, b) {
				p.sys.addLT(a, b)
			}
		}
	}
	return p
}

// lin translates a term into a linear expression; arithmetic subterms are
// atoms (related to their operands separately, when no overflow is possible).
func (p *bndProver) lin(t *Term, atoms map[*Term]bool) (*linExpr, bool) {
	switch t.K {
	case "C":
		if r, ok := constRat(t.Const); ok {
			l := newLin()
			l.k.Set(r)
			return l, true
		}
		return nil, false
	case "CV":
		// conversions between integer types of the same or larger width keep the value
		if strings.HasPrefix(t.S, "int") || t.S == "uint" || t.S == "uint64" {
			return p.lin(t.A, atoms)
		}
	case "TA":
		// the value of a checked assertion to an integer type is an integer like any other
		if t.Typ != nil {
			if b, ok := t.Typ.Underlying().(*types.Basic); ok && b.Info()&types.IsInteger != 0 {
				atoms[t] = true
				return linAtom(t), true
			}
		}
		return nil, false
	case "N", "MI", "TAOK", "ISNIL", "TYPEOF", "VALOF", "FA", "IA":
		return nil, false
	case "B":
		if t.S == "(+)" {
			// exact (unwrapped) sum, produced only by the conserved-sum loop invariant and by rules
			a, okA := p.lin(t.A, atoms)
			b, okB := p.lin(t.B, atoms)
			if !okA || !okB {
				return nil, false
			}
			r := a.clone()
			r.addScaled(b, big.NewRat(1, 1))
			return r, true
		}
	}
	atoms[t] = true
	return linAtom(t), true
}

func (p *bndProver) axioms(atoms map[*Term]bool) {
	var ts []*Term
	for t := range atoms {
		ts = append(ts, t)
	}
	sort.Slice(ts, func(i, j int) bool { return ts[i].key < ts[j].key })
	for _, t := range ts {
		if p.axDone[t] {
			continue
		}
		p.axDone[t] = true
		switch {
		case t.K == "LEN":
			p.sys.addLE(linConst(0), linAtom(t))
			p.sys.addLE(linAtom(t), linConst(maxLen))
			if t.A.K == "C" && t.A.Const == nil && strings.HasPrefix(t.A.S, "nil") {
				p.sys.addEQ(linAtom(t), linConst(0)) // nil slice
			}
			// make([]T, n) / slice of a fixed array: the length is known
			if t.A.K == "V" {
				switch mv := t.A.V.(type) {
				case *ssa.MakeSlice:
					if n, ok := constIntOf(mv.Len); ok {
						p.sys.addEQ(linAtom(t), linConst(n))
					} else {
						// make([]T, n): the length is n (as evaluated at the make)
						sub := map[*Term]bool{}
						if ln, ok := p.lin(p.fa.term(p.st, mv.Len), sub); ok {
							p.axioms(sub)
							p.sys.addEQ(linAtom(t), ln)
						}
					}
				case *ssa.Slice:
					if arr, ok := derefArray(mv.X.Type()); ok {
						lo, hi := int64(0), arr.Len()
						okc := true
						if mv.Low != nil {
							if k, ok := constIntOf(mv.Low); ok {
								lo = k
							} else {
								okc = false
							}
						}
						if mv.High != nil {
							if k, ok := constIntOf(mv.High); ok {
								hi = k
							} else {
								okc = false
							}
						}
						if okc {
							p.sys.addEQ(linAtom(t), linConst(hi-lo))
						}
					}
				}
			}
		case t.K == "B" && t.S == "%":
			if t.B.K == "C" {
				if r, ok := constRat(t.B.Const); ok && r.Sign() > 0 {
					k := r.Num().Int64()
					p.sys.addLT(linAtom(t), linConst(k))
					p.sys.addLT(linConst(-k), linAtom(t))
					sub := map[*Term]bool{}
					if la, ok := p.lin(t.A, sub); ok {
						p.axioms(sub)
						if p.sys.entailsLE(linConst(0), la) {
							p.sys.addLE(linConst(0), linAtom(t))
						}
					}
				}
			}
		case t.K == "B" && t.S == "/":
			p.pendingDiv = append(p.pendingDiv, t)
		case t.K == "V":
			if call, ok := t.V.(*ssa.Call); ok {
				if cal := p.c.p.callee(&call.Call); cal != nil && cal.String() == "math/rand.Int63" {
					p.sys.addLE(linConst(0), linAtom(t)) // contract of math/rand.Int63
				}
			}
		}
		if t.K != "LEN" && (t.K != "B" || t.S == "/") {
			// every int value lies within the 64-bit range
			lo := newLin()
			lo.k.SetInt(new(big.Int).Neg(new(big.Int).Lsh(big.NewInt(1), 63)))
			hi := newLin()
			hi.k.SetInt(new(big.Int).Sub(new(big.Int).Lsh(big.NewInt(1), 63), big.NewInt(1)))
			p.sys.addLE(lo, linAtom(t))
			p.sys.addLE(linAtom(t), hi)
		}
		if t.K == "LEN" && t.A.K == "V" {
			p.lenOf(t, t.A.V)
		}
	}
}

// lenOf relates the length of an append / reslice result to its operands.
func (p *bndProver) lenOf(lt *Term, v ssa.Value) {
	tt := p.c.tt
	switch x := v.(type) {
	case *ssa.Call:
		if b, ok := x.Call.Value.(*ssa.Builtin); ok && b.Name() == "append" && len(x.Call.Args) == 2 {
			l0 := tt.mk(Term{K: "LEN", A: p.fa.term(p.st, x.Call.Args[0])})
			l1 := tt.mk(Term{K: "LEN", A: p.fa.term(p.st, x.Call.Args[1])})
			sub := map[*Term]bool{}
			a, _ := p.lin(l0, sub)
			c, _ := p.lin(l1, sub)
			p.axioms(sub)
			sum := a.clone()
			sum.addScaled(c, big.NewRat(1, 1))
			p.sys.addEQ(linAtom(lt), sum)
		}
	case *ssa.Slice:
		if _, isArr := derefArray(x.X.Type()); isArr {
			return
		}
		sub := map[*Term]bool{}
		var lo, hi *linExpr
		if x.Low == nil {
			lo = linConst(0)
		} else {
			lo, _ = p.lin(p.fa.term(p.st, x.Low), sub)
		}
		if x.High == nil {
			hi, _ = p.lin(tt.mk(Term{K: "LEN", A: p.fa.term(p.st, x.X)}), sub)
		} else {
			hi, _ = p.lin(p.fa.term(p.st, x.High), sub)
		}
		if lo == nil || hi == nil {
			return
		}
		p.axioms(sub)
		p.relateArith(arithSubtermsOfAtoms(sub), sub)
		d := hi.clone()
		d.addScaled(lo, big.NewRat(-1, 1))
		p.sys.addEQ(linAtom(lt), d)
	}
}

func arithSubtermsOfAtoms(atoms map[*Term]bool) []*Term {
	var ts []*Term
	for t := range atoms {
		ts = append(ts, t)
	}
	sort.Slice(ts, func(i, j int) bool { return ts[i].key < ts[j].key })
	return arithSubterms(ts...)
}

// stackLen adds len >= 1 for a value of the package's `stack` type
// (INV-SLOT0, proved by rule R-SLOT0).
func (p *bndProver) stackLen(v ssa.Value) {
	if !p.c.p.isNamed(v.Type(), "stack") {
		return
	}
	lt := p.c.tt.mk(Term{K: "LEN", A: p.fa.term(p.st, v)})
	p.sys.addLE(linConst(1), linAtom(lt))
	p.sys.addLE(linAtom(lt), linConst(maxLen))
}

// relateArith adds  w == a op b  for arithmetic atoms whose exact result
// provably fits in an int64.
func (p *bndProver) relateArith(arith []*Term, atoms map[*Term]bool) {
	maxI := new(big.Rat).SetInt(new(big.Int).Lsh(big.NewInt(1), 63))
	for round := 0; round < 6; round++ {
		changed := false
		for _, w := range arith {
			if p.ari[w] {
				continue
			}
			a, okA := p.lin(w.A, atoms)
			b, okB := p.lin(w.B, atoms)
			if !okA || !okB {
				continue
			}
			p.axioms(atoms)
			var r *linExpr
			switch w.S {
			case "+":
				r = a.clone()
				r.addScaled(b, big.NewRat(1, 1))
			case "-":
				r = a.clone()
				r.addScaled(b, big.NewRat(-1, 1))
			case "*":
				switch {
				case len(a.coef) == 0:
					r = newLin()
					r.addScaled(b, a.k)
				case len(b.coef) == 0:
					r = newLin()
					r.addScaled(a, b.k)
				default:
					continue
				}
			}
			hi := newLin()
			hi.k.Sub(maxI, big.NewRat(1, 1))
			lo := newLin()
			lo.k.Neg(maxI)
			if p.sys.entailsLE(r, hi) && p.sys.entailsLE(lo, r) {
				p.sys.addEQ(linAtom(w), r)
				p.ari[w] = true
				changed = true
				continue
			}
			// x + k (k > 0 constant) wraps only into [MinInt, MinInt+k-1]; x - k only into
			// [MaxInt-k+1, MaxInt]: a result known to lie outside that range is exact
			if (w.S == "+" || w.S == "-") && len(b.coef) == 0 && b.k.IsInt() {
				k := new(big.Rat).Set(b.k)
				if w.S == "-" {
					k.Neg(k)
				}
				wl := linAtom(w)
				if k.Sign() > 0 {
					bound := newLin()
					bound.k.Add(lo.k, k) // MinInt + k
					if p.sys.entailsLE(bound, wl) {
						p.sys.addEQ(wl, r)
						p.ari[w] = true
						changed = true
					}
				} else if k.Sign() < 0 {
					bound := newLin()
					bound.k.Add(hi.k, k) // MaxInt - |k|
					if p.sys.entailsLE(wl, bound) {
						p.sys.addEQ(wl, r)
						p.ari[w] = true
						changed = true
					}
				}
			}
		}
		if !changed {
			break
		}
	}
}

// arithSubterms lists the +,-,* subterms of the given terms, innermost first.
func arithSubterms(ts ...*Term) []*Term {
	var out []*Term
	seen := map[*Term]bool{}
	var walk func(t *Term)
	walk = func(t *Term) {
		if t == nil || seen[t] {
			return
		}
		seen[t] = true
		walk(t.A)
		walk(t.B)
		if t.K == "B" && (t.S == "+" || t.S == "-" || t.S == "*") {
			out = append(out, t)
		}
	}
	for _, t := range ts {
		walk(t)
	}
	return out
}

// tryDiv adds, for every pending x / k (k > 0 constant) whose dividend is now provably
// non-negative, the axiom of truncated division:  k*q <= x <= k*q + k-1,  q >= 0.
func (p *bndProver) tryDiv() {
	for round := 0; round < 3; round++ {
		var still []*Term
		progress := false
		for _, t := range p.pendingDiv {
			done := false
			if t.B.K == "C" {
				if r, ok := constRat(t.B.Const); ok && r.Sign() > 0 {
					sub := map[*Term]bool{}
					if la, ok := p.lin(t.A, sub); ok {
						p.axioms(sub)
						p.relateArith(arithSubterms(t.A), sub)
						if p.sys.entailsLE(linConst(0), la) {
							kq := newLin()
							kq.addScaled(linAtom(t), r)
							p.sys.addLE(kq, la)
							up := kq.clone()
							up.k.Add(up.k, new(big.Rat).Sub(r, big.NewRat(1, 1)))
							p.sys.addLE(la, up)
							p.sys.addLE(linConst(0), linAtom(t))
							done = true
							progress = true
						}
					}
				} else {
					done = true
				}
			} else {
				done = true
			}
			if !done {
				still = append(still, t)
			}
		}
		p.pendingDiv = still
		if !progress || len(still) == 0 {
			break
		}
	}
}

func (p *bndProver) le(a, b *Term) bool {
	atoms := map[*Term]bool{}
	la, ok1 := p.lin(a, atoms)
	lb, ok2 := p.lin(b, atoms)
	if !ok1 || !ok2 {
		return false
	}
	p.axioms(atoms)
	p.tryDiv()
	p.relateArith(arithSubterms(a, b), atoms)
	return p.sys.entailsLE(la, lb)
}

func (p *bndProver) lt(a, b *Term) bool {
	atoms := map[*Term]bool{}
	la, ok1 := p.lin(a, atoms)
	lb, ok2 := p.lin(b, atoms)
	if !ok1 || !ok2 {
		return false
	}
	p.axioms(atoms)
	p.tryDiv()
	p.relateArith(arithSubterms(a, b), atoms)
	return p.sys.entailsLT(la, lb)
}

// provesFact: linear entailment of a comparison fact.
func (c *Ctx) provesFact(fa *FnAnalysis, st *State, f Fact, stackVals []ssa.Value) bool {
	if f.Kind == aTR && f.T.K == "C" && f.T.Const != nil && f.T.Const.Kind() == constant.Bool {
		return constant.BoolVal(f.T.Const) == f.Val // a comparison of constants, already folded
	}
	if f.Kind != aTR || f.T.K != "B" {
		return false
	}
	// states stored by an analysis are immutable: cache per (state, goal)
	if c.proveCache == nil {
		c.proveCache = map[*State]map[string]bool{}
	}
	ck := fmt.Sprintf("%s=%v", f.T.key, f.Val)
	if m, ok := c.proveCache[st]; ok {
		if v, ok := m[ck]; ok {
			return v
		}
	}
	res := c.provesFactUncached(fa, st, f, stackVals)
	if st.frozen {
		if c.proveCache[st] == nil {
			c.proveCache[st] = map[string]bool{}
		}
		c.proveCache[st][ck] = res
	}
	return res
}

func (c *Ctx) provesFactUncached(fa *FnAnalysis, st *State, f Fact, stackVals []ssa.Value) bool {
	p := c.newProver(fa, st)
	for _, v := range stackVals {
		p.stackLen(v)
	}
	switch f.T.S {
	case "<":
		if f.Val {
			return p.lt(f.T.A, f.T.B)
		}
		return p.le(f.T.B, f.T.A)
	case "<=":
		if f.Val {
			return p.le(f.T.A, f.T.B)
		}
		return p.lt(f.T.B, f.T.A)
	case "==":
		if f.Val {
			return p.le(f.T.A, f.T.B) && p.le(f.T.B, f.T.A)
		}
	}
	return false
}

// stateInfeasible: the linear content of the state has no integer solution.
func (c *Ctx) stateInfeasible(fa *FnAnalysis, st *State, stackVals []ssa.Value) bool {
	if st.frozen {
		if c.infeasCache == nil {
			c.infeasCache = map[*State]bool{}
		}
		if v, ok := c.infeasCache[st]; ok {
			return v
		}
		v := c.stateInfeasibleUncached(fa, st, stackVals)
		c.infeasCache[st] = v
		return v
	}
	return c.stateInfeasibleUncached(fa, st, stackVals)
}

func (c *Ctx) stateInfeasibleUncached(fa *FnAnalysis, st *State, stackVals []ssa.Value) bool {
	p := c.newProver(fa, st)
	for _, v := range stackVals {
		p.stackLen(v)
	}
	p.tryDiv()
	return p.sys.infeasible()
}

// stackValues: every SSA value of type `stack` in fn (params and loads).
func (c *Ctx) stackValues(fn *ssa.Function) []ssa.Value {
	var out []ssa.Value
	for _, p := range fn.Params {
		if c.p.isNamed(p.Type(), "stack") {
			out = append(out, p)
		}
	}
	for _, b := range fn.Blocks {
		for _, in := range b.Instrs {
			if v, ok := in.(ssa.Value); ok && c.p.isNamed(v.Type(), "stack") {
				if u, isLoad := in.(*ssa.UnOp); isLoad && u.Op == token.MUL {
					out = append(out, v)
				}
			}
		}
	}
	return out
}

// collectBndSites: index / slice / string-lookup instructions.
func (na *nilAnalysis) collectBndSites(fn *ssa.Function) []nilSite {
	c := na.c
	tt := c.eng.tt
	var out []nilSite
	sv := c.stackValues(fn)
	zero := c.intConst(0)
	one := c.intConst(1)
	mkNeed := func(base ssa.Value, idx ssa.Value, lower *Term, strictUpper bool, what string) func(fa *FnAnalysis, s *State) []Fact {
		return func(fa *FnAnalysis, s *State) []Fact {
			var missing []Fact
			if c.stateInfeasible(fa, s, sv) {
				return nil // the branch facts of this path contradict each other arithmetically
			}
			it := fa.term(s, idx)
			var lenT *Term
			if arr, ok := derefArray(base.Type()); ok {
				lenT = c.intConst(arr.Len())
			} else {
				lenT = tt.mk(Term{K: "LEN", A: fa.term(s, base)})
			}
			lo := Fact{aTR, tt.mk(Term{K: "B", S: "<=", A: lower, B: it}), true}
			var hi Fact
			if strictUpper {
				hi = Fact{aTR, tt.mk(Term{K: "B", S: "<", A: it, B: lenT}), true}
			} else {
				hi = Fact{aTR, tt.mk(Term{K: "B", S: "<=", A: it, B: lenT}), true}
			}
			for _, f := range []Fact{lo, hi} {
				if v, ok := fa.knownTerm(s, f.Kind, f.T); ok && v {
					continue
				}
				if c.provesFact(fa, s, f, sv) {
					continue
				}
				// an index with a small provable constant bound: ask instead for that many elements
				// (a parameter-rooted, hence propagatable, sufficient condition)
				if f == hi && !it.paramRooted() && lenT.paramRooted() {
					pr := c.newProver(fa, s)
					done := false
					for ub := int64(0); ub <= 8 && !done; ub++ {
						if pr.le(it, c.intConst(ub)) {
							strong := Fact{aTR, tt.mk(Term{K: "B", S: "<", A: c.intConst(ub), B: lenT}), true}
							if v, ok := fa.knownTerm(s, strong.Kind, strong.T); (ok && v) || c.provesFact(fa, s, strong, sv) {
								done = true
								break
							}
							missing = append(missing, strong)
							done = true
						}
					}
					if done {
						continue
					}
				}
				if os.Getenv("STACKCHECK_BNDDEBUG") == relName(fa.fn) {
					fmt.Fprintf(os.Stderr, "BND miss %s need %s in state {%s}\n", relName(fa.fn), f.T.key, s.describe())
				}
				missing = append(missing, f)
			}
			return missing
		}
	}
	for _, b := range fn.Blocks {
		for _, in := range b.Instrs {
			switch x := in.(type) {
			case *ssa.IndexAddr:
				if isVarargsIndex(x) {
					continue
				}
				lower := zero
				what := "index " + typeStr(x.X.Type())
				if c.p.isNamed(derefType(x.X.Type()), "stack") && c.isWrittenOrUserRead(x) {
					lower = one
					what = "element access on stack (slot >= 1)"
					for _, r := range *x.Referrers() {
						if st, ok := r.(*ssa.Store); ok && st.Addr == ssa.Value(x) {
							what = "element store on stack (slot >= 1)"
						}
					}
				}
				out = append(out, nilSite{rule: "R-BND", instr: in, what: what, need: mkNeed(x.X, x.Index, lower, true, what)})
			case *ssa.Index:
				out = append(out, nilSite{rule: "R-BND", instr: in, what: "index " + typeStr(x.X.Type()), need: mkNeed(x.X, x.Index, zero, true, "")})
			case *ssa.Lookup:
				if _, isMap := x.X.Type().Underlying().(*types.Map); isMap {
					continue
				}
				out = append(out, nilSite{rule: "R-BND", instr: in, what: "string index", need: mkNeed(x.X, x.Index, zero, true, "")})
			case *ssa.Slice:
				if isVarargsSlice(x) {
					continue
				}
				what := "slice " + typeStr(x.X.Type())
				lowV, highV := x.Low, x.High
				xs := x
				out = append(out, nilSite{rule: "R-BND", instr: in, what: what, need: func(fa *FnAnalysis, s *State) []Fact {
					var missing []Fact
					if c.stateInfeasible(fa, s, sv) {
						return nil
					}
					var lenT *Term
					if arr, ok := derefArray(xs.X.Type()); ok {
						lenT = c.intConst(arr.Len())
					} else {
						lenT = tt.mk(Term{K: "LEN", A: fa.term(s, xs.X)})
					}
					lo := zero
					if lowV != nil {
						lo = fa.term(s, lowV)
					}
					hi := lenT
					if highV != nil {
						hi = fa.term(s, highV)
					}
					var fs []Fact
					if lowV != nil {
						fs = append(fs, Fact{aTR, tt.mk(Term{K: "B", S: "<=", A: zero, B: lo}), true})
					}
					fs = append(fs, Fact{aTR, tt.mk(Term{K: "B", S: "<=", A: lo, B: hi}), true})
					if highV != nil {
						fs = append(fs, Fact{aTR, tt.mk(Term{K: "B", S: "<=", A: hi, B: lenT}), true})
					}
					for _, f := range fs {
						if v, ok := fa.knownTerm(s, f.Kind, f.T); ok && v {
							continue
						}
						if c.provesFact(fa, s, f, sv) {
							continue
						}
						missing = append(missing, f)
					}
					return missing
				}})
			}
		}
	}
	return out
}

func derefType(t types.Type) types.Type {
	if p, ok := t.Underlying().(*types.Pointer); ok {
		return p.Elem()
	}
	return t
}

func derefArray(t types.Type) (*types.Array, bool) {
	if p, ok := t.Underlying().(*types.Pointer); ok {
		t = p.Elem()
	}
	a, ok := t.Underlying().(*types.Array)
	return a, ok
}

// isVarargsIndex: &t[k] on a fresh argument array with a constant in-range index.
func isVarargsIndex(x *ssa.IndexAddr) bool {
	arr, ok := derefArray(x.X.Type())
	if !ok {
		return false
	}
	if k, ok := constIntOf(x.Index); ok && k >= 0 && k < arr.Len() {
		return true
	}
	return false
}

func isVarargsSlice(x *ssa.Slice) bool {
	if _, ok := derefArray(x.X.Type()); ok && x.Low == nil && x.High == nil {
		return true
	}
	return false
}

// isWrittenOrUserRead: the element address is stored to, or it is a read
// with a non-constant-zero index (slot 0 is only ever read as r[0]).
func (c *Ctx) isWrittenOrUserRead(x *ssa.IndexAddr) bool {
	if k, ok := constIntOf(x.Index); ok && k == 0 {
		for _, r := range *x.Referrers() {
			if st, ok := r.(*ssa.Store); ok && st.Addr == x {
				return true
			}
		}
		return false
	}
	return true
}

var _ = fmt.Sprint
