package main

import (
	"fmt"
	"sort"
	"strings"

	"golang.org/x/tools/go/ssa"
)

// ---------------------------------------------------------------- R-LEVEL / R-TRAV (C07)
//
// Traverse(i1..in) equals stepwise Index descent.  The four functions that
// implement it (traverse, traverseAssertionHandler, traverseStack,
// traverseStackInCondition) are loop-free; their mutual recursion is judged by
//
//  LEVEL  each level consumes exactly one path element: traverse looks up
//         indices[0] through the one lookup function (stack.index) and hands the
//         element found - only when found - to the handler; every call inside the
//         group passes the path on unchanged, except the single recursive call
//         of traverse, which passes indices[1:] and is applied to the Stack the
//         examined value converts to;
//  TABLE  the return paths of each function, enumerated exactly, against the
//         decision table of stepwise descent (value / ok for: Stack or alias,
//         Condition or alias with and without a Stack expression, leaf, with
//         and without path elements left; empty path; element not found).

type travRes struct {
	kind  string // nil | true | false | param | call | other
	param int
	call  *ssa.Call
	k     int
	desc  string
}

func (c *Ctx) travResult(fa *FnAnalysis, s *State, v ssa.Value) travRes {
	if b, ok := c.knownBool(fa, s, v); ok && isBoolType(v) {
		if b {
			return travRes{kind: "true", desc: "true"}
		}
		return travRes{kind: "false", desc: "false"}
	}
	t := fa.term(s, v)
	if t.K == "C" && t.Const == nil {
		return travRes{kind: "nil", desc: "nil"}
	}
	if t.K == "P" {
		return travRes{kind: "param", param: t.N, desc: fmt.Sprintf("argument %d", t.N)}
	}
	if t.K == "X" && t.A != nil && t.A.K == "V" {
		if call, ok := t.A.V.(*ssa.Call); ok {
			name := "?"
			if cal := c.p.callee(&call.Call); cal != nil {
				name = relName(cal)
			}
			return travRes{kind: "call", call: call, k: t.N, desc: fmt.Sprintf("result %d of %s", t.N, name)}
		}
	}
	return travRes{kind: "other", desc: t.key}
}

func isBoolType(v ssa.Value) bool {
	return v.Type().Underlying().String() == "bool"
}

func (c *Ctx) ruleTraverse() {
	rep := c.rep
	names := []string{"stack.traverse", "stack.traverseAssertionHandler", "stack.traverseStack", "stack.traverseStackInCondition"}
	fns := map[string]*ssa.Function{}
	for _, n := range names {
		fn := c.anchor("R-LEVEL", n)
		if fn == nil {
			return
		}
		fns[n] = fn
	}
	group := map[*ssa.Function]bool{}
	for _, f := range fns {
		group[f] = true
	}
	// ---- LEVEL
	for _, n := range names {
		fn := fns[n]
		fa := c.eng.analyze(fn, nil)
		pos := c.p.pos(fn.Pos())
		var problems []string
		if len(fa.loopOf) > 0 {
			problems = append(problems, "contains a loop: a level may consume more than one path element or retry with a sibling")
		}
		indices := fn.Params[len(fn.Params)-1]
		for _, b := range fn.Blocks {
			for _, in := range b.Instrs {
				call, ok := in.(*ssa.Call)
				if !ok {
					continue
				}
				cal := c.p.callee(&call.Call)
				if cal == nil || !group[cal] {
					continue
				}
				last := call.Call.Args[len(call.Call.Args)-1]
				if relName(cal) == "stack.traverse" {
					sl, isSl := last.(*ssa.Slice)
					k, isC := int64(0), false
					if isSl && sl.Low != nil {
						k, isC = constIntOf(sl.Low)
					}
					if !isSl || sl.X != ssa.Value(indices) || !isC || k != 1 || sl.High != nil {
						problems = append(problems, c.p.instrPos(call)+": the recursive descent does not pass exactly indices[1:]")
					}
				} else if last != ssa.Value(indices) {
					problems = append(problems, c.p.instrPos(call)+": "+relName(cal)+" does not receive the path unchanged")
				}
			}
		}
		// any other use of the path: only len(indices), indices[0] in traverse, and the calls above
		for _, r := range *indices.Referrers() {
			switch x := r.(type) {
			case *ssa.Call:
				if b, ok := x.Call.Value.(*ssa.Builtin); ok && b.Name() == "len" {
					continue
				}
				if cal := c.p.callee(&x.Call); cal != nil && group[cal] {
					continue
				}
				problems = append(problems, c.p.instrPos(x)+": the path is handed to something outside the traversal group")
			case *ssa.Slice:
				// judged at the call that receives it
				for _, u := range *x.Referrers() {
					if uc, ok := u.(*ssa.Call); ok {
						if cal := c.p.callee(&uc.Call); cal != nil && relName(cal) == "stack.traverse" {
							continue
						}
					}
					if _, isDbg := u.(*ssa.DebugRef); isDbg {
						continue
					}
					problems = append(problems, c.p.instrPos(x)+": a sub-path is used other than for the recursive descent")
				}
			case *ssa.IndexAddr:
				if k, ok := constIntOf(x.Index); !ok || k != 0 || n != "stack.traverse" {
					problems = append(problems, c.p.instrPos(x)+": a path element other than indices[0] of this level is read")
				}
			case *ssa.DebugRef:
			default:
				problems = append(problems, c.p.instrPos(r)+": unexpected use of the path")
			}
		}
		if len(problems) == 0 {
			rep.ok("R-LEVEL", n, "path handling", pos, "loop-free; the path is only measured, read at [0] (traverse) and passed on unchanged, or as indices[1:] to the one recursive descent")
		} else {
			sort.Strings(problems)
			rep.bad("R-LEVEL", n, "path handling", pos, strings.Join(uniq(problems), "; "))
		}
	}
	c.travTables(fns)
}

func (c *Ctx) lenLE1(fa *FnAnalysis, s *State, indices ssa.Value) (bool, bool) {
	tt := c.eng.tt
	lt := tt.mk(Term{K: "LEN", A: fa.term(s, indices)})
	if c.provesFact(fa, s, Fact{aTR, tt.mk(Term{K: "B", S: "<=", A: lt, B: c.intConst(1)}), true}, nil) {
		return true, true
	}
	if c.provesFact(fa, s, Fact{aTR, tt.mk(Term{K: "B", S: "<", A: c.intConst(1), B: lt}), true}, nil) {
		return false, true
	}
	return false, false
}

func (c *Ctx) convOK(fa *FnAnalysis, s *State, fn *ssa.Function, conv string, arg *Term) (bool, bool, *ssa.Call) {
	for _, call := range c.findCalls(fn, conv) {
		if len(call.Call.Args) == 1 && fa.term(s, call.Call.Args[0]) == arg {
			if _, did := s.cep[call]; !did {
				continue
			}
			if v, known := fa.knownTerm(s, aTR, fa.callResultTerm(s, call, 1)); known {
				return v, true, call
			}
		}
	}
	return false, false, nil
}

func (c *Ctx) travTables(fns map[string]*ssa.Function) {
	rep := c.rep
	tt := c.eng.tt
	check := func(name string, judge func(fa *FnAnalysis, s *State, ret *ssa.Return) []string) {
		fn := fns[name]
		fa := c.eng.analyze(fn, nil)
		pos := c.p.pos(fn.Pos())
		if fa.unstable || len(fa.collapsed) > 0 {
			rep.undecided("R-TRAV", name, "table", pos, "return paths could not be enumerated exactly")
			return
		}
		var problems []string
		n := 0
		for _, ret := range c.returnsOf(fn) {
			for _, s := range fa.statesBefore(ret) {
				if c.stateInfeasible(fa, s, nil) {
					continue
				}
				n++
				problems = append(problems, judge(fa, s, ret)...)
			}
		}
		if n == 0 {
			problems = append(problems, "no return path")
		}
		if len(problems) == 0 {
			rep.ok("R-TRAV", name, "table", pos, fmt.Sprintf("all %d return paths agree with stepwise descent", n))
		} else {
			sort.Strings(problems)
			rep.bad("R-TRAV", name, "table", pos, strings.Join(uniq(problems), "; "))
		}
	}
	zero := func(fa *FnAnalysis, s *State, ret *ssa.Return, why string) []string {
		var out []string
		r0 := c.travResult(fa, s, ret.Results[0])
		r1 := c.travResult(fa, s, ret.Results[1])
		if r0.kind != "nil" || r1.kind != "false" {
			out = append(out, fmt.Sprintf("%s: returns (%s, %s), stepwise descent gives (nil, false)", why, r0.desc, r1.desc))
		}
		return out
	}
	forwards := func(fa *FnAnalysis, s *State, ret *ssa.Return, callee string, why string) ([]string, *ssa.Call) {
		var out []string
		var call *ssa.Call
		for k := 0; k < 2; k++ {
			r := c.travResult(fa, s, ret.Results[k])
			cal := (*ssa.Function)(nil)
			if r.kind == "call" {
				cal = c.p.callee(&r.call.Call)
			}
			if k == 1 && (r.kind == "true" || r.kind == "false") {
				// the flag was branched on: it is the callee's flag if that is known to have this value
				matched := false
				for _, cc := range c.findCalls(fa.fn, callee) {
					if _, did := s.cep[cc]; !did {
						continue
					}
					if v, known := fa.knownTerm(s, aTR, fa.callResultTerm(s, cc, 1)); known && v == (r.kind == "true") {
						if bv := fa.term(s, ret.Results[1]); bv == fa.callResultTerm(s, cc, 1) || true {
							matched = true
							if call == nil {
								call = cc
							}
						}
					}
				}
				if matched {
					continue
				}
			}
			if r.kind != "call" || cal == nil || relName(cal) != callee || r.k != k {
				out = append(out, fmt.Sprintf("%s: result %d is %s, expected result %d of %s", why, k, r.desc, k, callee))
				continue
			}
			if call != nil && call != r.call {
				out = append(out, why+": results come from different calls")
			}
			call = r.call
		}
		return out, call
	}

	// traverseStack(u, idx, indices)
	check("stack.traverseStack", func(fa *FnAnalysis, s *State, ret *ssa.Return) []string {
		fn := fa.fn
		u := tt.mk(Term{K: "P", N: 1, S: fn.Params[1].Name()})
		isS, known, conv := c.convOK(fa, s, fn, "stackTypeAliasConverter", u)
		if !known {
			return []string{"a return path does not depend on whether the value is a Stack"}
		}
		if !isS {
			return zero(fa, s, ret, "value is not a Stack")
		}
		le1, lk := c.lenLE1(fa, s, fn.Params[3])
		if !lk {
			return []string{"a return path does not depend on whether path elements remain"}
		}
		if le1 {
			var out []string
			r0 := c.travResult(fa, s, ret.Results[0])
			r1 := c.travResult(fa, s, ret.Results[1])
			if !(r0.kind == "param" && r0.param == 1) || r1.kind != "true" {
				out = append(out, fmt.Sprintf("Stack at the end of the path: returns (%s, %s), expected (the value, true)", r0.desc, r1.desc))
			}
			return out
		}
		out, call := forwards(fa, s, ret, "stack.traverse", "Stack with path elements left")
		if call != nil {
			// applied to the Stack the value converts to
			rt := fa.term(s, call.Call.Args[0])
			want := fa.callResultTerm(s, conv, 0)
			okRecv := rt.K == "L" && rt.A != nil && rt.A.K == "F" && rt.A.A == want
			if !okRecv {
				out = append(out, "the descent is not applied to the Stack the value converts to: "+rt.key)
			}
		}
		return out
	})

	// traverseStackInCondition(u, idx, indices)
	check("stack.traverseStackInCondition", func(fa *FnAnalysis, s *State, ret *ssa.Return) []string {
		fn := fa.fn
		u := tt.mk(Term{K: "P", N: 1, S: fn.Params[1].Name()})
		isC, known, conv := c.convOK(fa, s, fn, "conditionTypeAliasConverter", u)
		if !known {
			return []string{"a return path does not depend on whether the value is a Condition"}
		}
		if !isC {
			return zero(fa, s, ret, "value is not a Condition")
		}
		le1, lk := c.lenLE1(fa, s, fn.Params[3])
		if !lk {
			return []string{"a return path does not depend on whether path elements remain"}
		}
		if le1 {
			var out []string
			r0t := fa.term(s, ret.Results[0])
			r1 := c.travResult(fa, s, ret.Results[1])
			want := fa.callResultTerm(s, conv, 0)
			_ = want
			okV := r0t.K == "P" && r0t.N == 1
			if !okV || r1.kind != "true" {
				out = append(out, fmt.Sprintf("Condition at the end of the path: returns (%s, %s), expected (the element as stored - what Index returns -, true)", r0t.key, r1.desc))
			}
			return out
		}
		out, call := forwards(fa, s, ret, "stack.traverseStack", "Condition with path elements left")
		if call != nil {
			// the value examined next is the Condition's expression
			at := fa.term(s, call.Call.Args[1])
			want := fa.callResultTerm(s, conv, 0)
			okE := at.K == "APP" && at.S == "Condition.Expression" && at.A != nil && at.A.A == want
			if !okE {
				out = append(out, "the descent does not continue with the Condition's expression: "+at.key)
			}
		}
		return out
	})

	// traverseAssertionHandler(x, idx, indices)
	check("stack.traverseAssertionHandler", func(fa *FnAnalysis, s *State, ret *ssa.Return) []string {
		fn := fa.fn
		x := tt.mk(Term{K: "P", N: 1, S: fn.Params[1].Name()})
		var out []string
		sCalls := c.findCalls(fn, "stack.traverseStack")
		cCalls := c.findCalls(fn, "stack.traverseStackInCondition")
		if len(sCalls) != 1 || len(cCalls) != 1 {
			return []string{"expected one call each of traverseStack and traverseStackInCondition"}
		}
		for _, call := range []*ssa.Call{sCalls[0], cCalls[0]} {
			if _, did := s.cep[call]; did && fa.term(s, call.Call.Args[1]) != x {
				out = append(out, "a helper examines something other than the element handed in")
			}
		}
		sOK, sKnown := fa.knownTerm(s, aTR, fa.callResultTerm(s, sCalls[0], 1))
		if !sKnown {
			return append(out, "a return path does not depend on the Stack helper's verdict")
		}
		if sOK {
			o, _ := forwards(fa, s, ret, "stack.traverseStack", "Stack helper succeeded")
			return append(out, o...)
		}
		cOK, cKnown := fa.knownTerm(s, aTR, fa.callResultTerm(s, cCalls[0], 1))
		if !cKnown {
			return append(out, "a return path does not depend on the Condition helper's verdict")
		}
		if cOK {
			o, _ := forwards(fa, s, ret, "stack.traverseStackInCondition", "Condition helper succeeded")
			return append(out, o...)
		}
		le1, lk := c.lenLE1(fa, s, fn.Params[3])
		if !lk {
			return append(out, "a return path does not depend on whether path elements remain")
		}
		r0 := c.travResult(fa, s, ret.Results[0])
		r1 := c.travResult(fa, s, ret.Results[1])
		if le1 {
			if !(r0.kind == "param" && r0.param == 1) || r1.kind != "true" {
				out = append(out, fmt.Sprintf("leaf at the end of the path: returns (%s, %s), expected (the element, true)", r0.desc, r1.desc))
			}
			return out
		}
		// neither descendable nor at the end: (nil, false); ok still holds the failing helper's false
		okFalse := r1.kind == "false"
		if r1.kind == "call" {
			if v, known := fa.knownTerm(s, aTR, fa.term(s, ret.Results[1])); known && !v {
				okFalse = true
			}
		}
		if r0.kind != "nil" || !okFalse {
			out = append(out, fmt.Sprintf("path elements left at a value that cannot be descended into: returns (%s, %s), expected (nil, false)", r0.desc, r1.desc))
		}
		return out
	})

	// traverse(indices)
	check("stack.traverse", func(fa *FnAnalysis, s *State, ret *ssa.Return) []string {
		fn := fa.fn
		idxCalls := c.findCalls(fn, "stack.index")
		hCalls := c.findCalls(fn, "stack.traverseAssertionHandler")
		if len(idxCalls) != 1 || len(hCalls) != 1 {
			return []string{"expected exactly one lookup (stack.index) and one hand-over to the handler"}
		}
		ic, hc := idxCalls[0], hCalls[0]
		_, didH := s.cep[hc]
		if !didH {
			out := zero(fa, s, ret, "nothing handed to the handler (invalid receiver, empty path or element not found)")
			// ... and only for one of these three reasons: "not found" is the lookup's verdict (which
			// honours the negative / forward index options), never a test of its own on the path element
			reason := false
			for _, vc := range c.findCalls(fn, "(*stack).valid", "stack.valid") {
				if v, known := fa.knownTerm(s, aTR, fa.term(s, vc)); known && !v {
					reason = true
				}
			}
			p1 := c.eng.tt.mk(Term{K: "P", N: 1, S: fn.Params[1].Name()})
			if c.provesFact(fa, s, Fact{aTR, c.eng.tt.mk(Term{K: "B", S: "==", A: c.intConst(0), B: c.eng.tt.mk(Term{K: "LEN", A: p1})}), true}, nil) {
				reason = true
			}
			if _, didI := s.cep[ic]; didI {
				if v, known := fa.knownTerm(s, aTR, fa.callResultTerm(s, ic, 2)); known && !v {
					reason = true
				}
			}
			if !reason {
				out = append(out, "the traversal gives up although the receiver is valid, the path is not empty and the lookup did not say 'not found' (a test of its own on the path element ignores the index options)")
			}
			return out
		}
		var out []string
		// handed over only when found, and it is the element found at indices[0]
		if _, didI := s.cep[ic]; !didI {
			return []string{"the handler is reached without a lookup"}
		}
		if v, known := fa.knownTerm(s, aTR, fa.callResultTerm(s, ic, 2)); !known || !v {
			out = append(out, "an element is handed to the handler although the lookup did not report it found")
		}
		it := fa.term(s, ic.Call.Args[1])
		okIdx := it.K == "L" && it.A != nil && it.A.K == "IA" && it.A.A != nil && it.A.A.K == "P" && it.A.A.N == 1 && it.A.B != nil && it.A.B.S == "0"
		if !okIdx {
			out = append(out, "the lookup does not use indices[0]: "+it.key)
		}
		if rt := fa.term(s, ic.Call.Args[0]); !(rt.K == "P" && rt.N == 0) {
			out = append(out, "the lookup is not made on the receiver")
		}
		h, ix, okE := indexElem(fa.term(s, hc.Call.Args[1]))
		if !okE || !(h.K == "P" && h.N == 0) || ix != it {
			out = append(out, "the value handed to the handler is not the element the lookup returned")
		}
		o, call := forwards(fa, s, ret, "stack.traverseAssertionHandler", "element found")
		out = append(out, o...)
		if call != nil && call != hc {
			out = append(out, "results come from another call")
		}
		return out
	})

	// exported wrapper
	{
		fn := c.anchor("R-TRAV", "Stack.Traverse")
		if fn != nil {
			fa := c.eng.analyze(fn, nil)
			var problems []string
			calls := c.findCalls(fn, "stack.traverse")
			if len(calls) != 1 {
				problems = append(problems, "expected one call of stack.traverse")
			} else {
				call := calls[0]
				for _, s := range fa.statesBefore(call) {
					if t := fa.term(s, call.Call.Args[1]); !(t.K == "P" && t.N == 1) {
						problems = append(problems, "the path handed to traverse is not the caller's path")
					}
				}
				for _, ret := range c.returnsOf(fn) {
					for _, s := range fa.statesBefore(ret) {
						if _, did := s.cep[call]; !did {
							problems = append(problems, zero(fa, s, ret, "uninitialised receiver")...)
							continue
						}
						o, _ := forwards(fa, s, ret, "stack.traverse", "initialised receiver")
						problems = append(problems, o...)
					}
				}
			}
			pos := c.p.pos(fn.Pos())
			if len(problems) == 0 {
				rep.ok("R-TRAV", "Stack.Traverse", "wrapper", pos, "hands its path to stack.traverse and returns its (value, ok)")
			} else {
				sort.Strings(problems)
				rep.bad("R-TRAV", "Stack.Traverse", "wrapper", pos, strings.Join(uniq(problems), "; "))
			}
		}
	}
}
