package main

import (
	"fmt"
	"sort"
	"strings"

	"golang.org/x/tools/go/ssa"
)

// ---------------------------------------------------------------- R-REVEAL (C20)
//
// Reveal only removes redundant wrappers.  Decided structurally:
//
//  W      the write set of Stack.Reveal (transitive, all in-package callees) is
//         {element slot, Condition expression, lock bookkeeping}: no slice
//         header is stored (no stack changes its length: nothing is added or
//         dropped), no configuration word is written, nothing is appended;
//  PROV   the only slot store in Reveal's scope is replace(), called once, by
//         revealDescend, and the value it stores is - on every path - either the
//         very stack found at that index (re-stored in place) or that stack's
//         only child, the latter exactly when kind != NOT, Len() == 1, the child
//         is a Stack/Condition (Interface) and neither is parenthetical; the
//         index is the one the stack was found at; the only expression store
//         is SetExpression(inner) in revealSingle with inner the (converted)
//         expression of that same Condition;
//  ALLOC  no Stack, Condition or configuration is allocated in the scope
//         (nesting depth cannot grow, nothing is fabricated);
//  LOCK   no function of the scope calls, while it holds a stack's lock,
//         anything that locks the same stack again (self-deadlock);
//  PANIC  the nil / reflect / bounds census restricted to the scope.

func (c *Ctx) ruleReveal() {
	rep := c.rep
	root := c.anchor("R-REVEAL", "Stack.Reveal")
	if root == nil {
		return
	}
	scope := c.reach(root)
	inScope := map[*ssa.Function]bool{}
	for _, f := range scope {
		inScope[f] = true
	}
	pos := c.p.pos(root.Pos())

	// ---- W
	allowed := func(loc string) bool {
		return loc == "SLOT" || loc == "condition.ex" || loc == "nodeConfig.ldr" || strings.HasPrefix(loc, "EXT:Mutex.")
	}
	var badW []string
	for _, w := range c.eff.writesOf(root) {
		if !allowed(w.Loc) {
			badW = append(badW, w.String())
		}
	}
	if len(badW) == 0 {
		rep.ok("R-REVEAL", "Stack.Reveal", "write set", pos, "transitive write set is within {element slot, Condition expression, lock bookkeeping}: no header store (no length change), no configuration write, no append")
	} else {
		rep.bad("R-REVEAL", "Stack.Reveal", "write set", pos, "Reveal can write more than element slots and Condition expressions: "+strings.Join(badW, ", ")+" (a header store changes a stack's length: elements added or dropped)")
	}

	// ---- PROV: direct writers of SLOT / condition.ex in the scope
	slotWriters := map[string]bool{}
	exWriters := map[string]bool{}
	for _, f := range scope {
		for _, b := range f.Blocks {
			for _, in := range b.Instrs {
				st, ok := in.(*ssa.Store)
				if !ok {
					continue
				}
				switch c.eff.classifyAddr(st.Addr) {
				case "SLOT":
					if c.storeIsShared(f, st) {
						slotWriters[relName(f)] = true
					}
				case "condition.ex":
					exWriters[relName(f)] = true
				}
			}
		}
	}
	wantSlot := map[string]bool{"(*stack).replace": true}
	wantEx := map[string]bool{"(*condition).setExpression": true}
	if !sameSet(slotWriters, wantSlot) {
		rep.bad("R-REVEAL", "Stack.Reveal", "slot writers", pos, "functions storing element slots in Reveal's scope are "+setStr(slotWriters)+", expected only (*stack).replace")
	} else {
		rep.ok("R-REVEAL", "Stack.Reveal", "slot writers", pos, "the only element-slot store reachable from Reveal is (*stack).replace")
	}
	if !sameSet(exWriters, wantEx) {
		rep.bad("R-REVEAL", "Stack.Reveal", "expression writers", pos, "functions storing a Condition expression in Reveal's scope are "+setStr(exWriters)+", expected only (*condition).setExpression")
	} else {
		rep.ok("R-REVEAL", "Stack.Reveal", "expression writers", pos, "the only expression store reachable from Reveal is (*condition).setExpression")
	}
	// call sites of the writers inside the scope
	type site struct {
		fn   *ssa.Function
		call *ssa.Call
	}
	var replaceSites, setExSites []site
	for _, f := range scope {
		for _, call := range c.findCalls(f, "(*stack).replace", "Stack.Replace") {
			replaceSites = append(replaceSites, site{f, call})
		}
		for _, call := range c.findCalls(f, "Condition.SetExpression", "(*condition).setExpression") {
			if relName(f) == "Condition.SetExpression" {
				continue // the exported wrapper itself
			}
			setExSites = append(setExSites, site{f, call})
		}
	}
	if len(replaceSites) != 1 || relName(replaceSites[0].fn) != "(*stack).revealDescend" {
		var ss []string
		for _, s := range replaceSites {
			ss = append(ss, relName(s.fn)+" "+c.p.instrPos(s.call))
		}
		rep.bad("R-REVEAL", "Stack.Reveal", "replace call sites", pos, "replace is called from "+strings.Join(ss, ", ")+"; expected exactly one call, in revealDescend")
	} else {
		c.revealReplaceSite(replaceSites[0].fn, replaceSites[0].call)
	}
	if len(setExSites) != 1 || relName(setExSites[0].fn) != "(*stack).revealSingle" {
		var ss []string
		for _, s := range setExSites {
			ss = append(ss, relName(s.fn)+" "+c.p.instrPos(s.call))
		}
		rep.bad("R-REVEAL", "Stack.Reveal", "SetExpression call sites", pos, "SetExpression is called from "+strings.Join(ss, ", ")+"; expected exactly one call, in revealSingle")
	} else {
		c.revealSetExSite(setExSites[0].fn, setExSites[0].call)
	}
	c.revealDescendCallSite()

	// ---- ALLOC
	var allocs []string
	for _, f := range scope {
		for _, b := range f.Blocks {
			for _, in := range b.Instrs {
				al, ok := in.(*ssa.Alloc)
				if !ok || !al.Heap || isSpill(al) {
					continue
				}
				t := derefType(al.Type())
				for _, n := range []string{"nodeConfig", "condition"} {
					if c.p.isNamed(t, n) {
						allocs = append(allocs, relName(f)+" "+c.p.instrPos(al)+" new "+n)
					}
				}
			}
		}
		for _, call := range c.findCalls(f, "newStack", "initCondition", "And", "Or", "Not", "List", "Basic", "Cond") {
			allocs = append(allocs, relName(f)+" "+c.p.instrPos(call)+" constructor call")
		}
	}
	if len(allocs) == 0 {
		rep.ok("R-REVEAL", "Stack.Reveal", "no construction", pos, fmt.Sprintf("none of the %d functions reachable from Reveal allocates a Stack, Condition or configuration: nesting depth cannot grow", len(scope)))
	} else {
		rep.bad("R-REVEAL", "Stack.Reveal", "no construction", pos, "Reveal's scope constructs new nodes: "+strings.Join(allocs, "; "))
	}

	// ---- LOCK
	c.ruleLockReentry("R-REVEAL", scope)
	c.ruleLockPairing("R-REVEAL", scope)
}

// storeIsShared: the store writes memory that is not a fresh local object of f.
func (c *Ctx) storeIsShared(f *ssa.Function, st *ssa.Store) bool {
	if ia, ok := st.Addr.(*ssa.IndexAddr); ok {
		// a slice under construction in a local variable is not shared until it is stored as a header
		switch x := ia.X.(type) {
		case *ssa.UnOp:
			_ = x
			return true
		case *ssa.Parameter:
			return true
		default:
			return !c.p.isNamed(ia.X.Type(), "stack") || true
		}
	}
	return true
}

func sameSet(a, b map[string]bool) bool {
	if len(a) != len(b) {
		return false
	}
	for k := range a {
		if !b[k] {
			return false
		}
	}
	return true
}

func setStr(a map[string]bool) string {
	var ks []string
	for k := range a {
		ks = append(ks, k)
	}
	sort.Strings(ks)
	return "{" + strings.Join(ks, ", ") + "}"
}

// indexElem recognises "the element stack.index(h, i) found": either result 0
// of the lookup or the slot load at the position it returned (result 1); the
// engine uses both forms for the same value.
func indexElem(t *Term) (h, i *Term, ok bool) {
	app := func(x *Term, k int) (*Term, *Term, bool) {
		if x != nil && x.K == "X" && x.N == k && x.A != nil && x.A.K == "APP" && x.A.S == "stack.index" && x.A.A != nil && x.A.A.B != nil {
			return x.A.A.A, x.A.A.B.A, true
		}
		return nil, nil, false
	}
	if h, i, ok := app(t, 0); ok {
		return h, i, true
	}
	if t != nil && t.K == "L" && t.A != nil && t.A.K == "IA" {
		if h, i, ok := app(t.A.B, 1); ok && t.A.A == h {
			return h, i, true
		}
	}
	return nil, nil, false
}

// revealReplaceSite: the value stored by revealDescend.
func (c *Ctx) revealReplaceSite(fn *ssa.Function, call *ssa.Call) {
	rep := c.rep
	tt := c.eng.tt
	fa := c.eng.analyze(fn, nil)
	pos := c.p.instrPos(call)
	if len(call.Call.Args) != 3 || len(fn.Params) != 3 {
		rep.bad("R-REVEAL", relName(fn), "value stored by replace", pos, "unexpected signature")
		return
	}
	notK, okNot := c.p.constVal("not")
	inner := tt.mk(Term{K: "P", N: 1, S: fn.Params[1].Name()})
	innerIface := tt.mk(Term{K: "MI", S: typeStr(fn.Params[1].Type()), Typ: fn.Params[1].Type(), A: inner})
	idxP := tt.mk(Term{K: "P", N: 2, S: fn.Params[2].Name()})
	recv := tt.mk(Term{K: "P", N: 0, S: fn.Params[0].Name()})
	var problems []string
	nChild, nSame := 0, 0
	sv := c.stackValues(fn)
	for _, s := range fa.statesBefore(call) {
		if c.stateInfeasible(fa, s, sv) {
			continue
		}
		if fa.term(s, call.Call.Args[0]) != recv {
			problems = append(problems, "the store does not target the receiver")
		}
		if fa.term(s, call.Call.Args[2]) != idxP {
			problems = append(problems, "the store does not target the index the inner stack was found at")
		}
		ut := fa.term(s, call.Call.Args[1])
		if ut == innerIface {
			nSame++
			continue
		}
		// the only child: result 0 of inner.index(0)
		isChild := false
		if h, ix, okE := indexElem(ut); okE {
			if h != nil && h.K == "L" && h.S == "HDR" && h.A != nil && h.A.K == "F" && h.A.A == inner && ix != nil && ix.K == "C" && ix.S == "0" {
				isChild = true
				nChild++
				hl := tt.mk(Term{K: "LEN", A: h})
				// kind != NOT
				kindOK := false
				if okNot {
					for _, kc := range c.findCalls(fn, "stack.stackType", "Stack.stackType") {
						kt := fa.term(s, kc)
						a, b := kt, c.intConst(notK)
						if a.key > b.key {
							a, b = b, a
						}
						if v, known := fa.knownTerm(s, aTR, tt.mk(Term{K: "B", S: "==", A: a, B: b})); known && !v {
							kindOK = true
						}
					}
				}
				if !kindOK {
					problems = append(problems, "the child replaces its wrapper on a path where the wrapper is not known to be a non-NOT stack")
				}
				// exactly one element: len(header) == 2
				if !c.provesFact(fa, s, Fact{aTR, tt.mk(Term{K: "B", S: "<=", A: hl, B: c.intConst(2)}), true}, sv) ||
					!c.provesFact(fa, s, Fact{aTR, tt.mk(Term{K: "B", S: "<=", A: c.intConst(2), B: hl}), true}, sv) {
					problems = append(problems, "the child replaces its wrapper on a path where the wrapper is not known to hold exactly one element")
				}
				// the child is a Stack/Condition (Interface) ...
				var ifaceT *Term
				var ifaceForms []*Term
				for _, b := range fn.Blocks {
					for _, in := range b.Instrs {
						if ex, ok := in.(*ssa.Extract); ok {
							if ta, ok := ex.Tuple.(*ssa.TypeAssert); ok && ta.CommaOk && ex.Index == 1 {
								h2, i2, ok2 := indexElem(fa.term(s, ta.X))
								if !ok2 || h2 != h || i2 != ix {
									continue
								}
								for _, form := range []*Term{fa.term(s, ta.X), ut} {
									if v, known := fa.knownTerm(s, aTR, tt.mk(Term{K: "TAOK", S: typeStr(ta.AssertedType), Typ: ta.AssertedType, A: form})); known && v {
										ifaceT = tt.mk(Term{K: "TA", S: typeStr(ta.AssertedType), Typ: ta.AssertedType, A: form})
										ifaceForms = append(ifaceForms, tt.mk(Term{K: "TA", S: typeStr(ta.AssertedType), Typ: ta.AssertedType, A: fa.term(s, ta.X)}), tt.mk(Term{K: "TA", S: typeStr(ta.AssertedType), Typ: ta.AssertedType, A: ut}))
									}
								}
							}
						}
					}
				}
				if ifaceT == nil {
					problems = append(problems, "the child replaces its wrapper without having been recognised as a Stack or Condition")
				} else {
					// ... that is not parenthetical
					parenOK := false
					for _, b := range fn.Blocks {
						for _, in := range b.Instrs {
							if ic, ok := in.(*ssa.Call); ok && ic.Call.IsInvoke() && ic.Call.Method.Name() == "IsParen" && termIn(fa.term(s, ic.Call.Value), ifaceForms) {
								if v, known := fa.knownTerm(s, aTR, fa.term(s, ic)); known && !v {
									parenOK = true
								}
							}
						}
					}
					if !parenOK {
						problems = append(problems, "the child replaces its wrapper on a path where the child is not known to be non-parenthetical")
					}
				}
				// the wrapper is not parenthetical
				wrapOK := false
				for _, pc := range c.findCalls(fn, "Stack.IsParen") {
					if len(pc.Call.Args) == 1 && fa.term(s, pc.Call.Args[0]) == inner {
						if v, known := fa.knownTerm(s, aTR, fa.term(s, pc)); known && !v {
							wrapOK = true
						}
					}
				}
				if !wrapOK {
					problems = append(problems, "the child replaces its wrapper on a path where the wrapper is not known to be non-parenthetical")
				}
			}
		}
		if !isChild {
			problems = append(problems, "a value that is neither the stack found at the index nor its only child is stored: "+ut.key)
		}
	}
	if nChild == 0 {
		problems = append(problems, "no path hoists the only child (the rule's anchor is gone)")
	}
	if nSame == 0 {
		problems = append(problems, "no path re-stores the inner stack")
	}
	if len(problems) == 0 {
		rep.ok("R-REVEAL", relName(fn), "value stored by replace", pos, fmt.Sprintf("on %d path(s) the stack itself is re-stored, on %d its only child - exactly when kind != NOT, one element, child is a Stack/Condition and neither is parenthetical", nSame, nChild))
	} else {
		sort.Strings(problems)
		rep.bad("R-REVEAL", relName(fn), "value stored by replace", pos, strings.Join(uniq(problems), "; "))
	}
}

// revealDescendCallSite: reveal hands revealDescend the stack it found at
// index i together with that same i.
func (c *Ctx) revealDescendCallSite() {
	rep := c.rep
	fn := c.anchor("R-REVEAL", "(*stack).reveal")
	if fn == nil {
		return
	}
	fa := c.eng.analyze(fn, nil)
	calls := c.findCalls(fn, "(*stack).revealDescend")
	if len(calls) != 1 {
		rep.bad("R-REVEAL", relName(fn), "revealDescend call", c.p.pos(fn.Pos()), fmt.Sprintf("%d calls of revealDescend, expected 1", len(calls)))
		return
	}
	call := calls[0]
	pos := c.p.instrPos(call)
	var problems []string
	n := 0
	for _, s := range fa.statesBefore(call) {
		n++
		if len(call.Call.Args) != 3 {
			problems = append(problems, "unexpected signature")
			continue
		}
		if fa.term(s, call.Call.Args[0]).key != "P(0)" {
			problems = append(problems, "revealDescend is not applied to the receiver")
		}
		ot := fa.term(s, call.Call.Args[1])
		it := fa.term(s, call.Call.Args[2])
		// ot == X(APP(stackTypeAliasConverter: AL(X(APP(stack.index: AL(hdr, AL(i))),0))),0)
		ok := false
		if ot.K == "X" && ot.N == 0 && ot.A != nil && ot.A.K == "APP" && ot.A.S == "stackTypeAliasConverter" && ot.A.A != nil {
			if h, ix, okE := indexElem(ot.A.A.A); okE {
				if h != nil && h.K == "L" && h.S == "HDR" && h.A != nil && h.A.key == "P(0)" && ix == it {
					ok = true
				}
			}
		}
		if !ok {
			problems = append(problems, "the stack handed to revealDescend is not the element found at the index handed along: "+ot.key+" / "+it.key)
		}
	}
	if n == 0 {
		problems = append(problems, "the call is unreachable")
	}
	if len(problems) == 0 {
		rep.ok("R-REVEAL", relName(fn), "revealDescend call", pos, "revealDescend receives the (converted) element found at index i and that same i")
	} else {
		sort.Strings(problems)
		rep.bad("R-REVEAL", relName(fn), "revealDescend call", pos, strings.Join(uniq(problems), "; "))
	}
}

// revealSetExSite: revealSingle stores back the Condition's own (revealed) expression stack.
func (c *Ctx) revealSetExSite(fn *ssa.Function, call *ssa.Call) {
	rep := c.rep
	fa := c.eng.analyze(fn, nil)
	pos := c.p.instrPos(call)
	var problems []string
	n := 0
	for _, s := range fa.statesBefore(call) {
		n++
		if len(call.Call.Args) != 2 {
			problems = append(problems, "unexpected signature")
			continue
		}
		ct := fa.term(s, call.Call.Args[0])
		vt := fa.term(s, call.Call.Args[1])
		// vt == MI(Stack, X(APP(stackTypeAliasConverter: AL(APP(Condition.Expression: AL(ct)))),0))
		ok := false
		if vt.K == "MI" && vt.A != nil && vt.A.K == "X" && vt.A.N == 0 && vt.A.A != nil && vt.A.A.K == "APP" && vt.A.A.S == "stackTypeAliasConverter" && vt.A.A.A != nil {
			ex := vt.A.A.A.A
			if ex != nil && ex.K == "APP" && ex.S == "Condition.Expression" && ex.A != nil && ex.A.A == ct {
				ok = true
			}
		}
		if !ok {
			problems = append(problems, "the expression stored is not the Condition's own expression stack: "+vt.key)
		}
	}
	if n == 0 {
		problems = append(problems, "the call is unreachable")
	}
	if len(problems) == 0 {
		rep.ok("R-REVEAL", relName(fn), "expression stored by SetExpression", pos, "the Condition gets back its own expression stack (converted, revealed in place)")
	} else {
		sort.Strings(problems)
		rep.bad("R-REVEAL", relName(fn), "expression stored by SetExpression", pos, strings.Join(uniq(problems), "; "))
	}
}

// ---------------------------------------------------------------- lock re-entrancy
//
// sync.Mutex is not re-entrant.  For every function of the scope and every
// lock() call on a parameter-rooted stack term P, the held region is every
// instruction dominated by the lock and not dominated by a non-deferred
// unlock(P).  No call in the held region may (transitively) lock P again.

func (c *Ctx) lockSets() map[*ssa.Function][]*Term {
	if c.lockSetCache != nil {
		return c.lockSetCache
	}
	tt := c.eng.tt
	sets := map[*ssa.Function]map[*Term]bool{}
	for _, f := range c.p.Funcs {
		sets[f] = map[*Term]bool{}
	}
	depth := func(t *Term) int {
		n := 0
		for x := t; x != nil; x = x.A {
			n++
		}
		return n
	}
	for round := 0; round < 12; round++ {
		changed := false
		for _, f := range c.p.Funcs {
			if len(f.Blocks) == 0 {
				continue
			}
			fa := c.eng.analyze(f, nil)
			for _, b := range f.Blocks {
				for _, in := range b.Instrs {
					cc := callCommon(in)
					if cc == nil {
						continue
					}
					if _, isDefer := in.(*ssa.Defer); isDefer {
						// a deferred call runs at exit: relevant only if it locks (none does); treated like a call
					}
					cal := c.p.callee(cc)
					if cal == nil {
						continue
					}
					sts := fa.statesBefore(in)
					if len(sts) == 0 {
						continue
					}
					s := sts[0]
					args := fa.argTerms(s, cc)
					var add []*Term
					if relName(cal) == "(*stack).lock" && len(args) == 1 {
						add = append(add, args[0])
					}
					for q := range sets[cal] {
						add = append(add, tt.subst(q, args))
					}
					for _, t := range add {
						if t == nil || !t.paramRooted() || !t.mentionsParam() || depth(t) > 6 {
							continue
						}
						if !sets[f][t] {
							sets[f][t] = true
							changed = true
						}
					}
				}
			}
		}
		if !changed {
			break
		}
	}
	out := map[*ssa.Function][]*Term{}
	for f, m := range sets {
		for t := range m {
			out[f] = append(out[f], t)
		}
		sort.Slice(out[f], func(i, j int) bool { return out[f][i].key < out[f][j].key })
	}
	c.lockSetCache = out
	return out
}

func dominatesInstr(a, b ssa.Instruction) bool {
	if a.Block() == b.Block() {
		return instrIndex(a) < instrIndex(b)
	}
	return a.Block().Dominates(b.Block())
}

func (c *Ctx) ruleLockReentry(rule string, scope []*ssa.Function) {
	rep := c.rep
	tt := c.eng.tt
	sets := c.lockSets()
	nRegions := 0
	for _, f := range scope {
		if len(f.Blocks) == 0 {
			continue
		}
		fa := c.eng.analyze(f, nil)
		ord := newOrdinal()
		var locks, unlocks []*ssa.Call
		for _, call := range c.findCalls(f, "(*stack).lock") {
			locks = append(locks, call)
		}
		for _, call := range c.findCalls(f, "(*stack).unlock") {
			unlocks = append(unlocks, call)
		}
		for _, lk := range locks {
			sts := fa.statesBefore(lk)
			if len(sts) == 0 {
				continue
			}
			held := fa.term(sts[0], lk.Call.Args[0])
			nRegions++
			construct := ord.next("region held by lock()")
			var problems []string
			// held region: instructions reachable from the lock without passing a (non-deferred) unlock of the same stack
			isRelease := func(in ssa.Instruction) bool {
				for _, ul := range unlocks {
					if ssa.Instruction(ul) != in {
						continue
					}
					us := fa.statesBefore(ul)
					if len(us) > 0 && fa.term(us[0], ul.Call.Args[0]) == held {
						return true
					}
				}
				return false
			}
			var region []ssa.Instruction
			seenB := map[*ssa.BasicBlock]bool{}
			var walk func(b *ssa.BasicBlock, from int)
			walk = func(b *ssa.BasicBlock, from int) {
				for k := from; k < len(b.Instrs); k++ {
					if isRelease(b.Instrs[k]) {
						return
					}
					region = append(region, b.Instrs[k])
				}
				for _, sb := range b.Succs {
					if !seenB[sb] {
						seenB[sb] = true
						walk(sb, 0)
					}
				}
			}
			walk(lk.Block(), instrIndex(lk)+1)
			{
				for _, in := range region {
					cc := callCommon(in)
					if cc == nil || in == ssa.Instruction(lk) {
						continue
					}
					if _, isDefer := in.(*ssa.Defer); isDefer {
						continue // runs at exit (unlock)
					}
					cal := c.p.callee(cc)
					if cal == nil {
						continue
					}
					ss := fa.statesBefore(in)
					if len(ss) == 0 {
						continue
					}
					args := fa.argTerms(ss[0], cc)
					if relName(cal) == "(*stack).lock" && len(args) == 1 && args[0] == held {
						problems = append(problems, c.p.instrPos(in)+": lock() taken again on the same stack")
					}
					for _, q := range sets[cal] {
						if tt.subst(q, args) == held {
							problems = append(problems, c.p.instrPos(in)+": call of "+shortFn(cal)+" locks the stack whose lock is already held (sync.Mutex is not re-entrant: self-deadlock with the mutex enabled)")
						}
					}
				}
			}
			if len(problems) == 0 {
				rep.ok(rule, relName(f), construct, c.p.instrPos(lk), "nothing called while the lock is held locks the same stack again")
			} else {
				sort.Strings(problems)
				rep.bad(rule, relName(f), construct, c.p.instrPos(lk), strings.Join(uniq(problems), "; "))
			}
		}
	}
	rep.Extra[rule+"_lock_regions"] = nRegions
}

func termIn(t *Term, ts []*Term) bool {
	for _, x := range ts {
		if x == t {
			return true
		}
	}
	return false
}
