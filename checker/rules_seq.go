package main

import (
	"go/constant"
	"fmt"
	"go/token"
	"os"
	"sort"
	"strings"

	"golang.org/x/tools/go/ssa"
)

// ---------------------------------------------------------------- R-SEQ (C01)
//
// Sequence algebra.  The header a mutator leaves behind is evaluated
// symbolically as a concatenation of segments of the header it found (h0)
// and single values:  Seg(h0, lo, hi) | Elem(v).  For each loop-free mutator
// every return path's final header is compared, with the linear prover, with
// the list operation the property names:
//
//   pop      h0 without slot k, returning h0[k];  k = 1 under FIFO, len-1 otherwise
//   insert   h0[:p] ++ [x] ++ h0[p:]  with p = len (left >= ulen), 1 (left <= 0), left+1 otherwise
//   reset    h0[:1]
//   replace  one element store of x at slot i+1, guarded by 0 <= i < ulen
//   swap     two element stores exchanging the values loaded from slots i+1 and j+1
//
// Loops are judged by shape plus linear facts:
//
//   reverse  the body exchanges two mirror slots (a + b == len), the first pair
//            is (1, len-1), the counter advances by one, and at every loop exit
//            the next pair would satisfy a >= b (no pair left, none done twice);
//   remove   a filter loop: slots 1..len-1 in ascending order, each appended
//            to the rebuilt content iff it is not the looked-up position;
//   push     both append loops visit x[0..len(x)-1] in ascending order, one
//            step per iteration, and append at the end of the current header.

type seqPart struct {
	base   *Term // segment of this header ...
	lo, hi *Term // ... [lo, hi)
	elem   *Term // or a single value
	elemV  ssa.Value
}

func (p seqPart) String() string {
	if p.base == nil {
		return "Elem(" + p.elem.key + ")"
	}
	return "Seg(" + p.base.key + "," + p.lo.key + "," + p.hi.key + ")"
}

func seqString(ps []seqPart) string {
	var ss []string
	for _, p := range ps {
		ss = append(ss, p.String())
	}
	return "[" + strings.Join(ss, " ++ ") + "]"
}

func (c *Ctx) plusT(a, b *Term) *Term {
	if a.K == "C" && a.S == "0" {
		return b
	}
	if b.K == "C" && b.S == "0" {
		return a
	}
	if a.K == "C" && b.K == "C" {
		if x, ok := constInt64(a.Const); ok {
			if y, ok := constInt64(b.Const); ok {
				return c.intConst(x + y)
			}
		}
	}
	return c.eng.tt.mk(Term{K: "B", S: "+", A: a, B: b})
}

func (c *Ctx) lenT(h *Term) *Term { return c.eng.tt.mk(Term{K: "LEN", A: h}) }

// seqOf evaluates a slice-typed SSA value as a sequence over headers loaded
// from memory.  ok=false: the value is not built by the recognised operations.
func (c *Ctx) seqOf(fa *FnAnalysis, s *State, v ssa.Value, depth int) ([]seqPart, bool) {
	if depth > 12 {
		return nil, false
	}
	if isNilConst(v) {
		return nil, true
	}
	switch x := v.(type) {
	case *ssa.UnOp:
		if x.Op != token.MUL {
			return nil, false
		}
		if bv, ok := s.bind[x]; ok && bv != nil && bv != ssa.Value(x) {
			return c.seqOf(fa, s, bv, depth+1)
		}
		t := fa.term(s, x)
		if t.K == "L" && t.S == "HDR" {
			return []seqPart{{base: t, lo: c.intConst(0), hi: c.lenT(t)}}, true
		}
		return nil, false
	case *ssa.Parameter:
		if c.p.isNamed(x.Type(), "stack") {
			t := fa.term(s, x)
			return []seqPart{{base: t, lo: c.intConst(0), hi: c.lenT(t)}}, true
		}
		return nil, false
	case *ssa.Phi:
		if bv, ok := s.bind[x]; ok && bv != nil && bv != ssa.Value(x) {
			return c.seqOf(fa, s, bv, depth+1)
		}
		return nil, false
	case *ssa.ChangeType:
		return c.seqOf(fa, s, x.X, depth+1)
	case *ssa.MakeSlice:
		if k, ok := constIntOf(x.Len); ok && k == 0 {
			return nil, true
		}
		return nil, false
	case *ssa.Slice:
		if _, isArr := derefArray(x.X.Type()); isArr {
			if x.High != nil {
				if k, ok := constIntOf(x.High); ok && k == 0 {
					return nil, true
				}
			}
			if x.Low == nil && x.High == nil {
				var out []seqPart
				for _, e := range variadicElems(x) {
					out = append(out, seqPart{elem: fa.term(s, e), elemV: e})
				}
				if len(out) > 0 {
					return out, true
				}
			}
			return nil, false
		}
		sub, ok := c.seqOf(fa, s, x.X, depth+1)
		if !ok || len(sub) != 1 || sub[0].base == nil {
			return nil, false
		}
		p := sub[0]
		np := seqPart{base: p.base, lo: p.lo, hi: p.hi}
		if x.High != nil {
			np.hi = c.plusT(p.lo, fa.term(s, x.High))
		}
		if x.Low != nil {
			np.lo = c.plusT(p.lo, fa.term(s, x.Low))
		}
		return []seqPart{np}, true
	case *ssa.Call:
		if b, ok := x.Call.Value.(*ssa.Builtin); ok && b.Name() == "append" && len(x.Call.Args) == 2 {
			a, ok1 := c.seqOf(fa, s, x.Call.Args[0], depth+1)
			bb, ok2 := c.seqOf(fa, s, x.Call.Args[1], depth+1)
			if ok1 && ok2 {
				return append(append([]seqPart{}, a...), bb...), true
			}
		}
	}
	return nil, false
}

// eqInt: a == b in state s (syntactic or by linear entailment).
func (c *Ctx) eqInt(fa *FnAnalysis, s *State, a, b *Term, sv []ssa.Value) bool {
	if a == b {
		return true
	}
	if a.K == "C" && b.K == "C" {
		x, ok1 := constInt64(a.Const)
		y, ok2 := constInt64(b.Const)
		return ok1 && ok2 && x == y
	}
	x, y := a, b
	if x.key > y.key {
		x, y = y, x
	}
	return c.provesFact(fa, s, Fact{aTR, c.eng.tt.mk(Term{K: "B", S: "==", A: x, B: y}), true}, sv)
}

// normalise drops empty segments and merges adjacent segments of one header.
func (c *Ctx) seqNorm(fa *FnAnalysis, s *State, ps []seqPart, sv []ssa.Value) []seqPart {
	var out []seqPart
	for _, p := range ps {
		if p.base != nil && c.eqInt(fa, s, p.lo, p.hi, sv) {
			continue
		}
		if n := len(out); n > 0 && p.base != nil && out[n-1].base == p.base && c.eqInt(fa, s, out[n-1].hi, p.lo, sv) {
			out[n-1].hi = p.hi
			continue
		}
		out = append(out, p)
	}
	return out
}

// seqMatches: ps == want (same shape, bounds equal by entailment).
func (c *Ctx) seqMatches(fa *FnAnalysis, s *State, ps, want []seqPart, sv []ssa.Value) bool {
	ps = c.seqNorm(fa, s, ps, sv)
	want = c.seqNorm(fa, s, want, sv)
	if len(ps) != len(want) {
		return false
	}
	for i := range ps {
		a, b := ps[i], want[i]
		if (a.base == nil) != (b.base == nil) {
			return false
		}
		if a.base == nil {
			if a.elem != b.elem {
				return false
			}
			continue
		}
		if a.base != b.base || !c.eqInt(fa, s, a.lo, b.lo, sv) || !c.eqInt(fa, s, a.hi, b.hi, sv) {
			return false
		}
	}
	return true
}

// finalHeader: the header of the receiver object when the state s is
// reached (ok2=false: never stored on this path, i.e. unchanged).
func (c *Ctx) finalHeader(fa *FnAnalysis, s *State, addr ssa.Value) (parts []seqPart, stored bool, ok bool) {
	at := fa.term(s, addr)
	cell, has := s.heap[at.key]
	if !has {
		return nil, false, true
	}
	ps, ok := c.seqOf(fa, s, cell.val, 0)
	return ps, true, ok
}

// entryHeader: the header the mutator works on - the one found at entry, or,
// in concurrent mode, the one found when the lock was acquired.
func (c *Ctx) entryHeader(fn *ssa.Function) *Term {
	p0 := c.eng.tt.mk(Term{K: "P", N: 0, S: fn.Params[0].Name()})
	ep := 0
	if c.concurrent {
		fa := c.eng.analyze(fn, nil)
		for _, lk := range c.findCalls(fn, "(*stack).lock") {
			k := instrIndex(lk) + 1
			if k < len(lk.Block().Instrs) {
				if ss := fa.statesBefore(lk.Block().Instrs[k]); len(ss) > 0 {
					ep = ss[0].locEpoch("HDR")
				}
			}
		}
	}
	return c.eng.tt.mk(Term{K: "L", A: p0, N: ep, S: "HDR"})
}

// elemOf: t is the element h[k] (a load of slot k of header h), for some k equal to want.
func (c *Ctx) isElemAt(fa *FnAnalysis, s *State, t, h, want *Term, sv []ssa.Value) bool {
	if t.K == "L" && t.A != nil && t.A.K == "IA" && t.A.A == h {
		return c.eqInt(fa, s, t.A.B, want, sv)
	}
	return false
}

func (c *Ctx) seqReport(fn *ssa.Function, construct string, problems []string, n int, okMsg string) {
	pos := c.p.pos(fn.Pos())
	if n == 0 {
		problems = append(problems, "no return path could be examined")
	}
	if len(problems) == 0 {
		c.rep.ok("R-SEQ", relName(fn), construct, pos, fmt.Sprintf("%s (%d path states)", okMsg, n))
	} else {
		sort.Strings(problems)
		c.rep.bad("R-SEQ", relName(fn), construct, pos, strings.Join(uniq(problems), "; "))
	}
}

// ---- pop

func (c *Ctx) seqPop() {
	fn := c.anchor("R-SEQ", "(*stack).pop")
	if fn == nil {
		return
	}
	fa := c.eng.analyze(fn, nil)
	sv := c.stackValues(fn)
	h0 := c.entryHeader(fn)
	var problems []string
	if es := c.headerElemStores(fn); len(es) > 0 {
		problems = append(problems, fmt.Sprintf("Pop writes %d element slot(s) besides re-slicing the header (e.g. at %s): an element that stays would be overwritten", len(es), c.p.instrPos(es[0].st)))
	}

	n := 0
	nRemoved := 0
	for _, ret := range c.returnsOf(fn) {
		for _, s := range fa.statesBefore(ret) {
			if c.stateInfeasible(fa, s, sv) {
				continue
			}
			n++
			parts, stored, ok := c.finalHeader(fa, s, fn.Params[0])
			if !ok {
				problems = append(problems, "the header left behind is not built from the header found by slicing/appending")
				continue
			}
			r0 := fa.term(s, ret.Results[0])
			if !stored {
				if !(r0.K == "C" && r0.Const == nil) {
					problems = append(problems, "a value is returned although nothing was removed: "+r0.key)
				}
				if v, known := c.knownBool(fa, s, ret.Results[1]); !known || v {
					problems = append(problems, "success is reported although nothing was removed: "+fa.term(s, ret.Results[1]).key+" in {"+s.describe()+"}")
				}
				continue
			}
			nRemoved++
			var k *Term
			fifoKnown := false
			for _, fc := range c.findCalls(fn, "stack.isFIFO") {
				if v, known := fa.knownTerm(s, aTR, fa.term(s, fc)); known {
					fifoKnown = true
					if v {
						k = c.intConst(1)
					} else {
						k = c.plusT(c.lenT(h0), c.intConst(-1))
					}
				}
			}
			if !fifoKnown {
				problems = append(problems, "the end that is removed does not depend on the FIFO mode on some path")
				continue
			}
			want := []seqPart{{base: h0, lo: c.intConst(0), hi: k}, {base: h0, lo: c.plusT(k, c.intConst(1)), hi: c.lenT(h0)}}
			if !c.seqMatches(fa, s, parts, want, sv) {
				problems = append(problems, fmt.Sprintf("the header left behind is %s, expected the header found without slot %s", seqString(parts), k.key))
			}
			if !c.isElemAt(fa, s, r0, h0, k, sv) {
				problems = append(problems, fmt.Sprintf("the value returned (%s) is not the element removed (slot %s of the header found)", r0.key, k.key))
			}
			if v, known := c.knownBool(fa, s, ret.Results[1]); !known || !v {
				problems = append(problems, "failure is reported although an element (possibly nil) was removed")
			}
		}
	}
	if nRemoved < 2 {
		problems = append(problems, "fewer than two removing paths (LIFO and FIFO) found")
	}
	c.seqReport(fn, "list operation", problems, n, "every return path either leaves the header untouched and returns (nil,false) or removes slot 1 (FIFO) / len-1 (LIFO) and returns the element that was there")
}

// ---- reset

func (c *Ctx) seqReset() {
	fn := c.anchor("R-SEQ", "(*stack).reset")
	if fn == nil {
		return
	}
	fa := c.eng.analyze(fn, nil)
	sv := c.stackValues(fn)
	h0 := c.entryHeader(fn)
	var problems []string
	n := 0
	for _, ret := range c.returnsOf(fn) {
		for _, s := range fa.statesBefore(ret) {
			if c.stateInfeasible(fa, s, sv) {
				continue
			}
			n++
			parts, stored, ok := c.finalHeader(fa, s, fn.Params[0])
			if !ok {
				problems = append(problems, "the header left behind is not a re-slice of the header found")
				continue
			}
			if !stored {
				// unchanged: must already be empty (len == 1)
				if !c.eqInt(fa, s, c.lenT(h0), c.intConst(1), sv) {
					problems = append(problems, "a path leaves the content in place although the stack is not known to be empty")
				}
				continue
			}
			want := []seqPart{{base: h0, lo: c.intConst(0), hi: c.intConst(1)}}
			if !c.seqMatches(fa, s, parts, want, sv) {
				problems = append(problems, "the header left behind is "+seqString(parts)+", expected the configuration slot alone")
			}
		}
	}
	c.seqReport(fn, "list operation", problems, n, "every return path leaves exactly the configuration slot")
}

// ---- insert

func (c *Ctx) seqInsert() {
	fn := c.anchor("R-SEQ", "(*stack).insert")
	if fn == nil {
		return
	}
	fa := c.eng.analyze(fn, nil)
	sv := c.stackValues(fn)
	tt := c.eng.tt
	h0 := c.entryHeader(fn)
	if len(fn.Params) != 3 {
		c.rep.bad("R-SEQ", relName(fn), "list operation", c.p.pos(fn.Pos()), "unexpected signature")
		return
	}
	x := tt.mk(Term{K: "P", N: 1, S: fn.Params[1].Name()})
	left := tt.mk(Term{K: "P", N: 2, S: fn.Params[2].Name()})
	L := c.lenT(h0)
	var problems []string
	n, nIns := 0, 0
	kinds := map[string]bool{}
	for _, ret := range c.returnsOf(fn) {
		for _, s := range fa.statesBefore(ret) {
			if c.stateInfeasible(fa, s, sv) {
				continue
			}
			n++
			parts, stored, ok := c.finalHeader(fa, s, fn.Params[0])
			if !stored {
				if v, known := c.knownBool(fa, s, ret.Results[0]); !known || v {
					problems = append(problems, "success is reported on a path that stores nothing")
				}
				continue
			}
			if !ok {
				problems = append(problems, "the header left behind is not built from the header found by slicing/appending")
				continue
			}
			nIns++
			// an element store into the rebuilt slice before it became the header (R[left] = x)
			parts = c.applyElemStores(fa, s, fn, parts, sv)
			// where does x sit?
			p := -1
			for i, q := range parts {
				if q.base == nil && q.elem == x {
					if p >= 0 {
						p = -2
					} else {
						p = i
					}
				}
			}
			if p < 0 {
				problems = append(problems, "the new header "+seqString(parts)+" does not contain the inserted value exactly once")
				continue
			}
			// position of x in the new header: sum of the lengths before it
			posT := c.intConst(0)
			bad := false
			for _, q := range parts[:p] {
				if q.base == nil {
					posT = c.plusT(posT, c.intConst(1))
				} else {
					posT = c.plusT(posT, tt.mk(Term{K: "B", S: "-", A: q.hi, B: q.lo}))
				}
			}
			// expected: everything else is the old header, in order, with the configuration first
			rest := append(append([]seqPart{}, parts[:p]...), parts[p+1:]...)
			// the rebuilt front may start with the configuration value instead of Seg(h0,0,1)
			if len(rest) > 0 && rest[0].base == nil && rest[0].elemV != nil && c.isCfgOf(fa, s, rest[0].elemV, fn.Params[0]) {
				rest[0] = seqPart{base: h0, lo: c.intConst(0), hi: c.intConst(1)}
			}
			if !c.seqMatches(fa, s, rest, []seqPart{{base: h0, lo: c.intConst(0), hi: L}}, sv) {
				problems = append(problems, "apart from the inserted value the new header is "+seqString(rest)+", expected the header found, unchanged and in order")
				bad = true
			}
			if bad {
				continue
			}
			// clamped position: slot = len when left >= ulen; 1 when left <= 0; left+1 otherwise
			pr := c.newProver(fa, s)
			for _, v := range sv {
				pr.stackLen(v)
			}
			one := c.intConst(1)
			ulen := c.plusT(L, c.intConst(-1))
			switch {
			case pr.le(ulen, left):
				kinds["end"] = true
				if !c.eqInt(fa, s, posT, L, sv) {
					problems = append(problems, "left >= Len(): the value lands at slot "+posT.key+", expected the end")
				}
			case pr.le(left, c.intConst(0)):
				kinds["front"] = true
				if !c.eqInt(fa, s, posT, one, sv) {
					problems = append(problems, "left <= 0: the value lands at slot "+posT.key+", expected the front")
				}
			case pr.lt(c.intConst(0), left) && pr.lt(left, ulen):
				kinds["middle"] = true
				if !c.eqInt(fa, s, posT, c.plusT(left, one), sv) {
					problems = append(problems, "0 < left < Len(): the value lands at slot "+posT.key+", expected slot left+1")
				}
			default:
				problems = append(problems, "a storing path does not determine whether left is below, inside or beyond the content")
			}
			if v, known := c.knownBool(fa, s, ret.Results[0]); known && !v {
				problems = append(problems, "failure is reported on a path that inserted the value")
			}
		}
	}
	for _, k := range []string{"end", "front", "middle"} {
		if !kinds[k] {
			problems = append(problems, "no storing path for the case '"+k+"'")
		}
	}
	c.seqReport(fn, "list operation", problems, n, "every storing path yields the header found with x inserted once at the clamped position (end / front / left+1), everything else unchanged and in order; non-storing paths report failure")
}

// applyElemStores patches the sequence with element stores made through a
// local slice value before it was stored as the header (R[i] = v).
func (c *Ctx) applyElemStores(fa *FnAnalysis, s *State, fn *ssa.Function, parts []seqPart, sv []ssa.Value) []seqPart {
	tt := c.eng.tt
	for _, b := range fn.Blocks {
		for _, in := range b.Instrs {
			st, ok := in.(*ssa.Store)
			if !ok {
				continue
			}
			ia, ok := st.Addr.(*ssa.IndexAddr)
			if !ok || !c.p.isNamed(ia.X.Type(), "stack") {
				continue
			}
			if _, isLoad := ia.X.(*ssa.UnOp); isLoad {
				continue // a store through the object's header, not through a local slice
			}
			// executed on this path?
			if len(fa.statesBefore(st)) == 0 {
				continue
			}
			onPath := false
			for _, s2 := range fa.statesBefore(st) {
				if stateExtends(s, s2) {
					onPath = true
				}
			}
			if !onPath {
				continue
			}
			idx := fa.term(s, ia.Index)
			val := fa.term(s, st.Val)
			var valV ssa.Value = st.Val
			if mi, ok := st.Val.(*ssa.MakeInterface); ok {
				_ = mi
			}
			// split the segment containing idx
			off := c.intConst(0)
			var out []seqPart
			done := false
			for _, q := range parts {
				if done {
					out = append(out, q)
					continue
				}
				if q.base == nil {
					if c.eqInt(fa, s, off, idx, sv) {
						out = append(out, seqPart{elem: val, elemV: valV})
						done = true
					} else {
						out = append(out, q)
					}
					off = c.plusT(off, c.intConst(1))
					continue
				}
				ln := tt.mk(Term{K: "B", S: "-", A: q.hi, B: q.lo})
				end := c.plusT(off, ln)
				pr := c.newProver(fa, s)
				for _, v := range sv {
					pr.stackLen(v)
				}
				if pr.le(off, idx) && pr.lt(idx, end) {
					// position inside this segment: q.lo + (idx - off)
					at := c.plusT(q.lo, tt.mk(Term{K: "B", S: "-", A: idx, B: off}))
					out = append(out, seqPart{base: q.base, lo: q.lo, hi: at})
					out = append(out, seqPart{elem: val, elemV: valV})
					out = append(out, seqPart{base: q.base, lo: c.plusT(at, c.intConst(1)), hi: q.hi})
					done = true
				} else {
					out = append(out, q)
				}
				off = end
			}
			if done {
				parts = out
			}
		}
	}
	return parts
}

// stateExtends: every fact of the earlier state b also holds in a (a lies on a path through b).
func stateExtends(a, b *State) bool {
	for _, f := range b.factList() {
		if f.Kind == aDID {
			continue
		}
		if v, ok := a.get(f.Kind, f.T); !ok || v != f.Val {
			return false
		}
	}
	return true
}

// ---- replace / swap: element stores through the object's header

type elemStore struct {
	st  *ssa.Store
	idx ssa.Value
}

func (c *Ctx) headerElemStores(fn *ssa.Function) []elemStore {
	var out []elemStore
	for _, b := range fn.Blocks {
		for _, in := range b.Instrs {
			st, ok := in.(*ssa.Store)
			if !ok {
				continue
			}
			ia, ok := st.Addr.(*ssa.IndexAddr)
			if !ok || !c.p.isNamed(ia.X.Type(), "stack") {
				continue
			}
			out = append(out, elemStore{st, ia.Index})
		}
	}
	return out
}

func (c *Ctx) seqReplace() {
	fn := c.anchor("R-SEQ", "(*stack).replace")
	if fn == nil {
		return
	}
	fa := c.eng.analyze(fn, nil)
	sv := c.stackValues(fn)
	tt := c.eng.tt
	var problems []string
	stores := c.headerElemStores(fn)
	if len(stores) != 1 {
		problems = append(problems, fmt.Sprintf("%d element stores, expected exactly one", len(stores)))
	}
	if hs := c.hdrStoresIn(fn); hs > 0 {
		problems = append(problems, "the header is stored: Replace would change the length")
	}
	n := 0
	if len(fn.Params) == 3 {
		x := tt.mk(Term{K: "P", N: 1, S: fn.Params[1].Name()})
		i := tt.mk(Term{K: "P", N: 2, S: fn.Params[2].Name()})
		for _, es := range stores {
			for _, s := range fa.statesBefore(es.st) {
				if c.stateInfeasible(fa, s, sv) {
					continue
				}
				n++
				if fa.term(s, es.st.Val) != x {
					problems = append(problems, "the value stored is not the argument")
				}
				if !c.eqInt(fa, s, fa.term(s, es.idx), c.plusT(i, c.intConst(1)), sv) {
					problems = append(problems, "the slot written is "+fa.term(s, es.idx).key+", expected i+1")
				}
			}
		}
		// the flag: true exactly on the storing paths
		for _, ret := range c.returnsOf(fn) {
			for _, s := range fa.statesBefore(ret) {
				stored := false
				for _, es := range stores {
					at := fa.term(s, es.st.Addr)
					if _, has := s.heap[at.key]; has {
						stored = true
					}
				}
				v, known := c.knownBool(fa, s, ret.Results[0])
				if !known || v != stored {
					problems = append(problems, "the success flag does not tell whether the slot was written")
				}
				// completeness: nothing is written only when the index addresses no existing position
				// (or there is no stack at all); every position 0..Len-1 can be replaced
				if !stored {
					if nn, kn := fa.nonNil(s, fn.Params[0]); kn && !nn {
						continue
					}
					h := c.entryHeader(fn)
					pr := c.newProver(fa, s)
					for _, v2 := range sv {
						pr.stackLen(v2)
					}
					L := c.plusT(c.lenT(h), c.intConst(-1))
					if !(pr.lt(i, c.intConst(0)) || pr.le(L, i)) {
						problems = append(problems, "Replace can refuse an index that addresses an existing position (a non-storing path is not confined to i < 0 or i >= Len)")
					}
				}
			}
		}
	} else {
		problems = append(problems, "unexpected signature")
	}
	c.seqReport(fn, "list operation", problems, n, "one element store of the argument at slot i+1 for exactly the indices 0..Len-1; no header store; the flag is true exactly when the store happened")
}

func (c *Ctx) hdrStoresIn(fn *ssa.Function) int {
	n := 0
	for _, b := range fn.Blocks {
		for _, in := range b.Instrs {
			if st, ok := in.(*ssa.Store); ok && c.eff.classifyAddr(st.Addr) == "HDR" {
				if al, _ := allocCell(st.Addr); al != nil {
					continue
				}
				n++
			}
		}
	}
	return n
}

// swapPair: the two element stores exchange the values found in their slots.
// Returns the two slot values (a, b) and a diagnostic.
func (c *Ctx) swapPair(fa *FnAnalysis, fn *ssa.Function, stores []elemStore, sv []ssa.Value, needFacts func(s *State, a, b *Term) []string) ([]string, int) {
	var problems []string
	n := 0
	if len(stores) != 2 {
		return []string{fmt.Sprintf("%d element stores, expected exactly two (an exchange)", len(stores))}, 0
	}
	s1, s2 := stores[0], stores[1]
	for _, s := range fa.statesBefore(s1.st) {
		if c.stateInfeasible(fa, s, sv) {
			continue
		}
		n++
		a := fa.term(s, s1.idx)
		b := fa.term(s, s2.idx)
		h := fa.term(s, s1.st.Addr.(*ssa.IndexAddr).X)
		v1 := fa.term(s, s1.st.Val)
		v2 := fa.term(s, s2.st.Val)
		// slot a receives the old value of slot b and vice versa (both loaded before the first store)
		okv := func(v, hh, slot *Term) bool {
			return v.K == "L" && v.A != nil && v.A.K == "IA" && v.A.A == hh && v.A.B == slot
		}
		if !okv(v1, h, b) || !okv(v2, h, a) {
			problems = append(problems, fmt.Sprintf("the two stores do not exchange the values of their slots (slot %s <- %s, slot %s <- %s)", a.key, v1.key, b.key, v2.key))
		}
		// both loads precede the first store
		for _, v := range []ssa.Value{s1.st.Val, s2.st.Val} {
			if ld, ok := v.(*ssa.UnOp); ok {
				if !dominatesInstr(ld, s1.st) {
					problems = append(problems, "a value is loaded after the first store of the exchange")
				}
			}
		}
		if needFacts != nil {
			problems = append(problems, needFacts(s, a, b)...)
		}
	}
	return problems, n
}

func (c *Ctx) seqSwap() {
	fn := c.anchor("R-SEQ", "(*stack).swap")
	if fn == nil {
		return
	}
	fa := c.eng.analyze(fn, nil)
	sv := c.stackValues(fn)
	tt := c.eng.tt
	var problems []string
	if hs := c.hdrStoresIn(fn); hs > 0 {
		problems = append(problems, "the header is stored: Swap would change the length")
	}
	n := 0
	if len(fn.Params) == 3 {
		i := tt.mk(Term{K: "P", N: 1, S: fn.Params[1].Name()})
		j := tt.mk(Term{K: "P", N: 2, S: fn.Params[2].Name()})
		ps, k := c.swapPair(fa, fn, c.headerElemStores(fn), sv, func(s *State, a, b *Term) []string {
			var out []string
			if !(c.eqInt(fa, s, a, c.plusT(i, c.intConst(1)), sv) && c.eqInt(fa, s, b, c.plusT(j, c.intConst(1)), sv)) &&
				!(c.eqInt(fa, s, a, c.plusT(j, c.intConst(1)), sv) && c.eqInt(fa, s, b, c.plusT(i, c.intConst(1)), sv)) {
				out = append(out, "the slots exchanged are "+a.key+" and "+b.key+", expected i+1 and j+1")
			}
			return out
		})
		problems = append(problems, ps...)
		n = k
	} else {
		problems = append(problems, "unexpected signature")
	}
	c.seqReport(fn, "list operation", problems, n, "two element stores exchanging the values found at slots i+1 and j+1; no header store")
}

// ---- reverse

func (c *Ctx) seqReverse() {
	fn := c.anchor("R-SEQ", "(*stack).reverse")
	if fn == nil {
		return
	}
	fa := c.eng.analyze(fn, nil)
	sv := c.stackValues(fn)
	tt := c.eng.tt
	h0 := c.entryHeader(fn)
	L := c.lenT(h0)
	var problems []string
	if hs := c.hdrStoresIn(fn); hs > 0 {
		problems = append(problems, "the header is stored: Reverse would change the length")
	}
	stores := c.headerElemStores(fn)
	var loopHdr *ssa.BasicBlock
	for h, blocks := range fa.loopOf {
		if len(stores) > 0 && blocks[stores[0].st.Block()] {
			loopHdr = h
		}
	}
	if len(fa.loopOf) != 1 || loopHdr == nil {
		problems = append(problems, "expected exactly one loop containing the exchange")
		c.seqReport(fn, "list operation", problems, 0, "")
		return
	}
	dbg := os.Getenv("SEQDEBUG") != ""
	ps, n := c.swapPair(fa, fn, stores, sv, func(s *State, a, b *Term) []string {
		var out []string
		// mirror slots: a + b == len
		sum := tt.mk(Term{K: "B", S: "(+)", A: a, B: b})
		if !c.eqInt(fa, s, sum, L, sv) {
			if dbg {
				fmt.Printf("REVERSE mirror fail a=%s b=%s\n   {%s}\n", a.key, b.key, s.describe())
			}
			out = append(out, "the slots exchanged ("+a.key+", "+b.key+") are not proved to be mirror positions (a + b == len)")
		}
		// distinct pair in the body: a < b (never the same pair twice, never past the middle)
		if !c.provesFact(fa, s, Fact{aTR, tt.mk(Term{K: "B", S: "<=", A: a, B: b}), true}, sv) {
			out = append(out, "the exchange may run past the middle (a <= b not proved in the loop body)")
		}
		if !c.provesFact(fa, s, Fact{aTR, tt.mk(Term{K: "B", S: "<=", A: c.intConst(1), B: a}), true}, sv) {
			out = append(out, "the lower slot of the exchange is not proved >= 1")
		}
		return out
	})
	problems = append(problems, ps...)
	if len(stores) == 2 {
		aV, bV := stores[0].idx, stores[1].idx
		// the first pair is (1, len-1): evaluated in the states entering the loop for the first time
		// and at every exit of the loop the next pair would satisfy a >= b
		exits := 0
		for bi, succs := range fa.edgeOut {
			if !fa.loopOf[loopHdr][bi] {
				continue
			}
			for k, sb := range bi.Succs {
				if fa.loopOf[loopHdr][sb] {
					continue
				}
				if k >= len(succs) {
					continue
				}
				for _, s := range succs[k] {
					if c.stateInfeasible(fa, s, sv) {
						continue
					}
					exits++
					a := fa.term(s, aV)
					b := fa.term(s, bV)
					// order the pair: the smaller-index slot is the one that starts at 1
					if !c.provesFact(fa, s, Fact{aTR, tt.mk(Term{K: "B", S: "<=", A: b, B: a}), true}, sv) &&
						!c.provesFact(fa, s, Fact{aTR, tt.mk(Term{K: "B", S: "<=", A: a, B: b}), true}, sv) {
						problems = append(problems, "at a loop exit the relation of the next pair of slots is unknown")
						continue
					}
					// next pair (a', b') with a' + b' == len must have a' >= b': nothing left to exchange
					// completeness: 2*lo >= len - 0  <=>  lo >= len - lo ; use the mirror relation instead: lo + hi == len and lo >= hi
					sum := tt.mk(Term{K: "B", S: "(+)", A: a, B: b})
					if !c.eqInt(fa, s, sum, L, sv) {
						problems = append(problems, "at a loop exit the next pair of slots is not a mirror pair")
						continue
					}
					// exit means: no distinct pair remains. With a < b still possible here the loop stopped early.
					x, y := a, b
					if aIsUpper := c.startsHigh(fa, fn, loopHdr, aV); aIsUpper {
						x, y = b, a
					}
					if !c.provesFact(fa, s, Fact{aTR, tt.mk(Term{K: "B", S: "<=", A: y, B: x}), true}, sv) {
						if dbg {
							fmt.Printf("REVERSE exit fail x=%s y=%s\n   {%s}\n", x.key, y.key, s.describe())
						}
						problems = append(problems, "the loop may stop while a pair of distinct mirror slots is still unexchanged")
					}
				}
			}
		}
		if exits == 0 {
			problems = append(problems, "no loop exit state found")
		}
		// start and step of the lower slot: starts at 1, advances by exactly 1
		if !c.lowerStartsAtOneStepOne(fa, fn, loopHdr, aV, bV, sv) {
			problems = append(problems, "the lower slot does not start at 1 and advance by exactly one per iteration")
		}
	}
	c.seqReport(fn, "list operation", problems, n, "the loop exchanges mirror slots (a + b == len) from (1, len-1) inwards, one step per iteration, and stops only when no distinct pair remains")
}

// startsHigh: the slot value v decreases along the loop (it is the upper slot of the pair).
func (c *Ctx) startsHigh(fa *FnAnalysis, fn *ssa.Function, hdr *ssa.BasicBlock, v ssa.Value) bool {
	phi := c.rootPhi(v, hdr)
	if phi == nil {
		return false
	}
	_, step, ok := c.phiInitStep(phi, hdr)
	return ok && step < 0
}

// rootPhi: v is a header phi of hdr, or phi +/- const.
func (c *Ctx) rootPhi(v ssa.Value, hdr *ssa.BasicBlock) *ssa.Phi {
	switch x := v.(type) {
	case *ssa.Phi:
		if x.Block() == hdr {
			return x
		}
	case *ssa.BinOp:
		if _, ok := constIntOf(x.Y); ok && (x.Op == token.ADD || x.Op == token.SUB) {
			return c.rootPhi(x.X, hdr)
		}
	}
	return nil
}

// phiInitStep: entry value and constant step of a header phi (single entry edge, all back edges phi+k with one k).
func (c *Ctx) phiInitStep(phi *ssa.Phi, hdr *ssa.BasicBlock) (ssa.Value, int64, bool) {
	var init ssa.Value
	var step int64
	have := false
	for i, p := range hdr.Preds {
		ev := phi.Edges[i]
		if !hdr.Dominates(p) {
			if init != nil {
				return nil, 0, false
			}
			init = ev
			continue
		}
		bo, ok := ev.(*ssa.BinOp)
		if !ok || bo.X != ssa.Value(phi) {
			return nil, 0, false
		}
		k, ok := constIntOf(bo.Y)
		if !ok {
			return nil, 0, false
		}
		if bo.Op == token.SUB {
			k = -k
		} else if bo.Op != token.ADD {
			return nil, 0, false
		}
		if have && k != step {
			return nil, 0, false
		}
		step, have = k, true
	}
	return init, step, init != nil && have
}

func (c *Ctx) lowerStartsAtOneStepOne(fa *FnAnalysis, fn *ssa.Function, hdr *ssa.BasicBlock, aV, bV ssa.Value, sv []ssa.Value) bool {
	for _, v := range []ssa.Value{aV, bV} {
		phi := c.rootPhi(v, hdr)
		if phi == nil {
			continue
		}
		init, step, ok := c.phiInitStep(phi, hdr)
		if !ok || step != 1 {
			continue
		}
		// value of the slot expression at loop entry: substitute init for phi
		off := int64(0)
		x := v
		for {
			bo, isBo := x.(*ssa.BinOp)
			if !isBo {
				break
			}
			k, _ := constIntOf(bo.Y)
			if bo.Op == token.SUB {
				k = -k
			}
			off += k
			x = bo.X
		}
		if k, ok := constIntOf(init); ok && k+off == 1 {
			return true
		}
	}
	return false
}

// ---- push loops: ascending, one step, one argument per iteration

func (c *Ctx) seqPushLoops() {
	// the worker hands the batch it was given to the append loops, untouched
	if fn := c.anchor("R-SEQ", "(*stack).push"); fn != nil {
		var problems []string
		xs := ssa.Value(fn.Params[len(fn.Params)-1])
		calls := c.findCalls(fn, "(*stack).genericAppend", "(*stack).methodAppend")
		if len(calls) < 2 {
			problems = append(problems, "the two append loops are not both called")
		}
		for _, call := range calls {
			if a := call.Call.Args[len(call.Call.Args)-1]; a != xs {
				problems = append(problems, c.p.instrPos(call)+": the batch handed to "+c.calleeName(&call.Call)+" is not the batch push received (it was re-sliced, spread or replaced on the way)")
			}
		}
		c.seqReport(fn, "batch forwarded", problems, len(calls), "genericAppend / methodAppend receive push's own variadic argument")
	}
	for _, name := range []string{"(*stack).genericAppend", "(*stack).methodAppend"} {
		fn := c.anchor("R-SEQ", name)
		if fn == nil {
			continue
		}
		fa := c.eng.analyze(fn, nil)
		sv := c.stackValues(fn)
		var problems []string
		n := 0
		if len(fa.loopOf) != 1 {
			problems = append(problems, "expected exactly one loop")
		}
		xParam := fn.Params[len(fn.Params)-1]
		for hdr := range fa.loopOf {
			for _, b := range fn.Blocks {
				for _, in := range b.Instrs {
					st, ok := in.(*ssa.Store)
					if !ok || c.eff.classifyAddr(st.Addr) != "HDR" {
						continue
					}
					if !fa.loopOf[hdr][b] {
						problems = append(problems, "a header store outside the per-value loop")
						continue
					}
					app, ok := st.Val.(*ssa.Call)
					if !ok {
						problems = append(problems, "the header is stored with something other than append")
						continue
					}
					elem := singleVariadicElem(app.Call.Args[1])
					ld, isLd := elem.(*ssa.UnOp)
					var ia *ssa.IndexAddr
					if isLd {
						ia, _ = ld.X.(*ssa.IndexAddr)
					}
					if ia == nil || ia.X != ssa.Value(xParam) {
						problems = append(problems, "the value appended is not an element of the argument list")
						continue
					}
					first, step, okI := c.loopIndex(ia.Index, hdr)
					if !okI {
						problems = append(problems, "the argument index is not the loop counter")
						continue
					}
					if first != 0 || step != 1 {
						problems = append(problems, "the loop counter does not run 0, 1, 2, ... (one argument per iteration, ascending)")
					}
					// appended at the end of the current header
					for _, s := range fa.statesBefore(st) {
						if c.stateInfeasible(fa, s, sv) {
							continue
						}
						n++
						parts, ok := c.seqOf(fa, s, st.Val, 0)
						cur := fa.term(s, st.Addr)
						okShape := ok && len(parts) == 2 && parts[0].base != nil && parts[0].base.K == "L" && parts[0].base.A == cur && parts[1].base == nil &&
							c.eqInt(fa, s, parts[0].lo, c.intConst(0), sv) && c.eqInt(fa, s, parts[0].hi, c.lenT(parts[0].base), sv)
						if !okShape {
							problems = append(problems, "the new header is not <current header> ++ [x[i]]")
						}
					}
					// the loop runs while i < len(x)
					if !c.loopBoundIs(hdr, ia.Index, func(y ssa.Value) bool {
						call, ok := y.(*ssa.Call)
						if !ok {
							return false
						}
						b, ok := call.Call.Value.(*ssa.Builtin)
						return ok && b.Name() == "len" && call.Call.Args[0] == ssa.Value(xParam)
					}) {
						problems = append(problems, "the loop condition is not counter < len(arguments)")
					}
				}
			}
		}
		c.seqReport(fn, "list operation", problems, n, "the loop visits x[0], x[1], ... in order, one per iteration, and each accepted value is appended at the end of the current header")
	}
}

func (c *Ctx) pushLoopBound(fa *FnAnalysis, fn *ssa.Function, hdr *ssa.BasicBlock, phi *ssa.Phi, xParam ssa.Value, problems *[]string) {
	// the header's terminating If compares the counter with len(x)
	if len(hdr.Instrs) == 0 {
		return
	}
	iff, ok := hdr.Instrs[len(hdr.Instrs)-1].(*ssa.If)
	if !ok {
		*problems = append(*problems, "the loop header does not test the counter")
		return
	}
	bo, ok := iff.Cond.(*ssa.BinOp)
	if !ok || bo.Op != token.LSS || bo.X != ssa.Value(phi) {
		*problems = append(*problems, "the loop condition is not counter < len(arguments)")
		return
	}
	call, ok := bo.Y.(*ssa.Call)
	if !ok {
		*problems = append(*problems, "the loop condition is not counter < len(arguments)")
		return
	}
	if b, ok := call.Call.Value.(*ssa.Builtin); !ok || b.Name() != "len" || call.Call.Args[0] != xParam {
		*problems = append(*problems, "the loop condition is not counter < len(arguments)")
	}
}

// ---- remove: a filter loop

func (c *Ctx) seqRemove() {
	fn := c.anchor("R-SEQ", "(*stack).remove")
	if fn == nil {
		return
	}
	fa := c.eng.analyze(fn, nil)
	sv := c.stackValues(fn)
	tt := c.eng.tt
	h0 := c.entryHeader(fn)
	var problems []string
	n := 0
	if len(fa.loopOf) == 0 {
		c.seqRemoveAlgebraic(fa, fn, sv, h0)
		return
	}
	if len(fa.loopOf) != 1 {
		problems = append(problems, "expected exactly one loop")
		c.seqReport(fn, "list operation", problems, 0, "")
		return
	}
	var hdr *ssa.BasicBlock
	for h := range fa.loopOf {
		hdr = h
	}
	// the looked-up position: result 1 of r.index(idx)
	idxCalls := c.findCalls(fn, "stack.index")
	if len(idxCalls) != 1 {
		problems = append(problems, "expected exactly one position lookup")
		c.seqReport(fn, "list operation", problems, 0, "")
		return
	}
	// the content phi and the counter phi
	var contents, counter *ssa.Phi
	for _, in := range hdr.Instrs {
		phi, ok := in.(*ssa.Phi)
		if !ok {
			break
		}
		if c.p.isNamed(phi.Type(), "stack") || strings.HasPrefix(phi.Type().String(), "[]") {
			for i, p := range hdr.Preds {
				if !hdr.Dominates(p) && emptySliceValue(phi.Edges[i]) {
					contents = phi
				}
			}
		}
	}
	// the slot appended: (*r)[i]
	var appendCall *ssa.Call
	for b := range fa.loopOf[hdr] {
		for _, in := range b.Instrs {
			if call, ok := in.(*ssa.Call); ok {
				if bi, ok := call.Call.Value.(*ssa.Builtin); ok && bi.Name() == "append" {
					if appendCall != nil {
						problems = append(problems, "more than one append in the loop")
					}
					appendCall = call
				}
			}
		}
	}
	if contents == nil || appendCall == nil {
		problems = append(problems, "the filter loop (content := append(content, (*r)[i])) was not recognised")
		c.seqReport(fn, "list operation", problems, 0, "")
		return
	}
	if appendCall.Call.Args[0] != ssa.Value(contents) {
		problems = append(problems, "the loop does not append to the content collected so far")
	}
	elem := singleVariadicElem(appendCall.Call.Args[1])
	var ia *ssa.IndexAddr
	if ld, ok := elem.(*ssa.UnOp); ok {
		ia, _ = ld.X.(*ssa.IndexAddr)
	}
	if ia == nil {
		problems = append(problems, "the value appended is not a slot of the header")
	} else {
		counter = c.rootPhi(ia.Index, hdr)
		if counter == nil || ssa.Value(counter) != ia.Index {
			problems = append(problems, "the slot appended is not indexed by the loop counter")
			counter = nil
		}
	}
	if counter != nil {
		init, step, ok := c.phiInitStep(counter, hdr)
		if k, isC := constIntOf(init); !ok || !isC || k != 1 || step != 1 {
			problems = append(problems, "the loop counter does not run 1, 2, 3, ... over the slots")
		}
		// every back edge keeps or extends the content by exactly that slot
		for i, p := range hdr.Preds {
			if !hdr.Dominates(p) {
				continue
			}
			ev := contents.Edges[i]
			if !c.keepsOrAppends(ev, contents, appendCall, map[ssa.Value]bool{}) {
				problems = append(problems, "the content carried to the next iteration is neither unchanged nor extended by the current slot")
			}
		}
		// the append happens iff counter != looked-up position
		for _, s := range fa.statesBefore(appendCall) {
			if c.stateInfeasible(fa, s, sv) {
				continue
			}
			n++
			pos := fa.callResultTerm(s, idxCalls[0], 1)
			ct := fa.term(s, counter)
			a, b := pos, ct
			if a.key > b.key {
				a, b = b, a
			}
			if v, known := fa.knownTerm(s, aTR, tt.mk(Term{K: "B", S: "==", A: a, B: b})); !known || v {
				// try the prover: pos != counter
				pr := c.newProver(fa, s)
				if !(pr.lt(pos, ct) || pr.lt(ct, pos)) {
					problems = append(problems, "a slot is kept without a test that it is not the looked-up position")
				}
			}
			// the slot comes from the header found
			if ht := fa.term(s, ia.X); ht != h0 {
				problems = append(problems, "the slot kept is read from "+ht.key+", expected the header found")
			}
		}
		// on back edges that do not append, the counter equals the position
		for _, p := range hdr.Preds {
			if !hdr.Dominates(p) {
				continue
			}
		}
		c.removeSkipsOnlyPosition(fa, fn, hdr, contents, counter, appendCall, idxCalls[0], sv, &problems)
		// loop bound: counter < len(header found)
		if iff, ok := hdr.Instrs[len(hdr.Instrs)-1].(*ssa.If); ok {
			okB := false
			if bo, ok := iff.Cond.(*ssa.BinOp); ok && bo.Op == token.LSS && bo.X == ssa.Value(counter) {
				for _, s := range fa.statesBefore(iff) {
					if fa.term(s, bo.Y) == c.lenT(h0) {
						okB = true
					} else {
						okB = false
						break
					}
				}
			}
			if !okB {
				problems = append(problems, "the loop does not run while counter < len(header found)")
			}
		}
	}
	// the header stored: [cfg] ++ content, and the value returned is the slot looked up
	for _, hs := range c.hdrStores() {
		if hs.fn != fn {
			continue
		}
		for _, s := range fa.statesBefore(hs.st) {
			if c.stateInfeasible(fa, s, sv) {
				continue
			}
			// append(append(empty, cfg), content...)
			okShape := false
			if outer, ok := hs.st.Val.(*ssa.Call); ok {
				if bi, ok := outer.Call.Value.(*ssa.Builtin); ok && bi.Name() == "append" {
					spread := outer.Call.Args[1]
					// the spread is the content phi (at loop exit)
					if c.sameValueThroughPhis(spread, contents) {
						if inner, ok := outer.Call.Args[0].(*ssa.Call); ok {
							if bi2, ok := inner.Call.Value.(*ssa.Builtin); ok && bi2.Name() == "append" && c.lenIs0(fa, s, inner.Call.Args[0], sv) {
								elems := variadicElems(inner.Call.Args[1])
								if len(elems) == 1 && c.isCfgOf(fa, s, elems[0], hs.st.Addr) {
									okShape = true
								}
							}
						}
					}
				}
			}
			if !okShape {
				problems = append(problems, "the header stored is not [configuration] ++ <content kept by the loop>")
			}
		}
	}
	for _, ret := range c.returnsOf(fn) {
		for _, s := range fa.statesBefore(ret) {
			if c.stateInfeasible(fa, s, sv) {
				continue
			}
			at := fa.term(s, fn.Params[0])
			if _, stored := s.heap[at.key]; !stored {
				if v, known := c.knownBool(fa, s, ret.Results[1]); !known || v {
					problems = append(problems, "success is reported although nothing was removed")
				}
				// nothing is removed only when the index addresses no position at all
				// (not merely because the element found there is nil)
				if _, did := s.cep[idxCalls[0]]; did {
					pos := fa.callResultTerm(s, idxCalls[0], 1)
					if !c.provesFact(fa, s, Fact{aTR, c.eng.tt.mk(Term{K: "B", S: "<=", A: pos, B: c.intConst(0)}), true}, sv) {
						problems = append(problems, "nothing is removed on a path where the index may address an existing position (e.g. one holding a nil element)")
					}
				}
				continue
			}
			r0 := fa.term(s, ret.Results[0])
			h, ix, ok := indexElem(r0)
			if !ok || h != h0 || ix.key != "P(1)" {
				problems = append(problems, "the value returned is not the element found at the requested index: "+r0.key)
			}
		}
	}
	c.seqReport(fn, "list operation", problems, n, "filter loop over slots 1..len-1 in order keeping every slot except the looked-up position; the header stored is [configuration] ++ kept content; the element looked up is returned")
}

func (c *Ctx) sameValueThroughPhis(v ssa.Value, target *ssa.Phi) bool {
	seen := map[ssa.Value]bool{}
	var walk func(x ssa.Value) bool
	walk = func(x ssa.Value) bool {
		if x == ssa.Value(target) {
			return true
		}
		if seen[x] {
			return true
		}
		seen[x] = true
		if phi, ok := x.(*ssa.Phi); ok {
			for _, e := range phi.Edges {
				if !walk(e) {
					return false
				}
			}
			return true
		}
		return false
	}
	return walk(v)
}

// keepsOrAppends: v is the content phi itself, the loop's single append of it, or a merge of those.
func (c *Ctx) keepsOrAppends(v ssa.Value, contents *ssa.Phi, app *ssa.Call, seen map[ssa.Value]bool) bool {
	if v == ssa.Value(contents) || v == ssa.Value(app) {
		return true
	}
	if seen[v] {
		return true
	}
	seen[v] = true
	if phi, ok := v.(*ssa.Phi); ok {
		for _, e := range phi.Edges {
			if !c.keepsOrAppends(e, contents, app, seen) {
				return false
			}
		}
		return true
	}
	return false
}

// removeSkipsOnlyPosition: on every path through the loop body that does not
// append, the counter equals the looked-up position.
func (c *Ctx) removeSkipsOnlyPosition(fa *FnAnalysis, fn *ssa.Function, hdr *ssa.BasicBlock, contents, counter *ssa.Phi, app *ssa.Call, idxCall *ssa.Call, sv []ssa.Value, problems *[]string) {
	tt := c.eng.tt
	for bi, succs := range fa.edgeOut {
		if !fa.loopOf[hdr][bi] {
			continue
		}
		for k, sb := range bi.Succs {
			if sb != hdr || k >= len(succs) {
				continue
			}
			// which value does the content phi take on this back edge?
			predIdx := -1
			for i, p := range hdr.Preds {
				if p == bi {
					predIdx = i
				}
			}
			if predIdx < 0 {
				continue
			}
			for _, s := range succs[k] {
				if c.stateInfeasible(fa, s, sv) {
					continue
				}
				ev := contents.Edges[predIdx]
				// resolve merges by the path's bindings
				for i := 0; i < 6; i++ {
					if bv, ok := s.bind[ev]; ok && bv != nil && bv != ev {
						ev = bv
					} else {
						break
					}
				}
				if ev == ssa.Value(app) {
					continue // appended on this path
				}
				pos := fa.callResultTerm(s, idxCall, 1)
				ct := fa.term(s, counter)
				a, b := pos, ct
				if a.key > b.key {
					a, b = b, a
				}
				if v, known := fa.knownTerm(s, aTR, tt.mk(Term{K: "B", S: "==", A: a, B: b})); !(known && v) && !c.eqInt(fa, s, pos, ct, sv) {
					*problems = append(*problems, "a slot other than the looked-up position may be skipped")
				}
			}
		}
	}
}

func (c *Ctx) ruleSeq() {
	c.seqPop()
	c.seqReset()
	c.seqInsert()
	c.seqReplace()
	c.seqSwap()
	c.seqReverse()
	c.seqRemove()
	c.seqPushLoops()
	c.seqIndex()
	c.seqWrappers()
	c.seqFrontBack()
}

// knownBool: the Boolean value of v in state s, if determined.
func (c *Ctx) knownBool(fa *FnAnalysis, s *State, v ssa.Value) (bool, bool) {
	if b, ok := isBoolConst(v); ok {
		return b, true
	}
	t := fa.term(s, v)
	if t.K == "C" && t.Const != nil && t.Const.Kind() == constant.Bool {
		return constant.BoolVal(t.Const), true
	}
	return fa.knownTerm(s, aTR, t)
}

// ---- index: position translation

func (c *Ctx) seqIndex() {
	fn := c.anchor("R-SEQ", "stack.index")
	if fn == nil {
		return
	}
	fa := c.eng.analyze(fn, nil)
	sv := c.stackValues(fn)
	tt := c.eng.tt
	if len(fn.Params) != 2 {
		c.rep.bad("R-SEQ", relName(fn), "position translation", c.p.pos(fn.Pos()), "unexpected signature")
		return
	}
	h := tt.mk(Term{K: "P", N: 0, S: fn.Params[0].Name()})
	i := tt.mk(Term{K: "P", N: 1, S: fn.Params[1].Name()})
	L := c.plusT(c.lenT(h), c.intConst(-1)) // user length
	var problems []string
	n := 0
	seen := map[string]bool{}
	dbg := os.Getenv("SEQDEBUG") != ""
	for _, ret := range c.returnsOf(fn) {
		for _, s := range fa.statesBefore(ret) {
			if c.stateInfeasible(fa, s, sv) {
				continue
			}
			n++
			r0 := fa.term(s, ret.Results[0])
			r1 := fa.term(s, ret.Results[1])
			okv, okKnown := c.knownBool(fa, s, ret.Results[2])
			// found: the value is the slot at the position returned
			var want *Term
			pr := c.newProver(fa, s)
			for _, v := range sv {
				pr.stackLen(v)
			}
			switch {
			case pr.le(c.intConst(0), i) && pr.lt(i, L):
				want = c.plusT(i, c.intConst(1))
				seen["in range"] = true
			case pr.lt(i, c.intConst(0)):
				// -k addresses the k-th element from the end: slot len + i
				want = tt.mk(Term{K: "B", S: "(+)", A: c.lenT(h), B: i})
				seen["negative"] = true
			case pr.le(L, i):
				want = L
				seen["beyond"] = true
			}
			if r0.K == "C" && r0.Const == nil {
				// nothing found: must report failure
				if !okKnown || okv {
					problems = append(problems, "success is reported without a value")
				}
				// ... and when the index does address a position, "nothing" means that the slot
				// holds nil - a value that merely looks empty (a typed nil pointer) is still returned
				if want != nil && pr.le(c.intConst(0), i) && pr.lt(i, L) {
					slotNil := false
					for _, b := range fn.Blocks {
						for _, in := range b.Instrs {
							ld, ok := in.(*ssa.UnOp)
							if !ok || ld.Op != token.MUL {
								continue
							}
							ia, ok := ld.X.(*ssa.IndexAddr)
							if !ok || ia.X != ssa.Value(fn.Params[0]) {
								continue
							}
							if v, known := fa.nonNil(s, ld); known && !v {
								slotNil = true
							}
						}
					}
					if !slotNil {
						problems = append(problems, "an index that addresses a position yields nothing although the slot is not known to hold nil (a typed nil pointer or other 'empty-looking' value must be returned as it is)")
					}
				}
				// ... and with the option on, a negative index is refused only below -Len and an
				// oversize one never (every -k with 1 <= k <= Len addresses an element)
				if want != nil && !pr.le(L, c.intConst(0)) {
					slotNil := false
					for _, b := range fn.Blocks {
						for _, in := range b.Instrs {
							if ld, ok := in.(*ssa.UnOp); ok && ld.Op == token.MUL {
								if ia, ok := ld.X.(*ssa.IndexAddr); ok && ia.X == ssa.Value(fn.Params[0]) {
									if v, known := fa.nonNil(s, ld); known && !v {
										slotNil = true
									}
								}
							}
						}
					}
					if on, known := c.flagAtom("negidx", "negidx").eval(fa, s); known && on && pr.lt(i, c.intConst(0)) && !slotNil {
						if !pr.lt(c.plusT(i, L), c.intConst(0)) {
							problems = append(problems, "with negative indices on, a negative index is refused on a path that does not establish index < -Len (the first element, -Len, must be addressable)")
						}
					}
					if on, known := c.flagAtom("fwdidx", "fwdidx").eval(fa, s); known && on && pr.le(L, i) && !slotNil {
						problems = append(problems, "with forward indices on, an oversize index is refused although the stack is not empty")
					}
				}
				continue
			}
			if want == nil {
				problems = append(problems, "a value is returned on a path that does not determine how the index relates to the content")
				continue
			}
			if !c.eqInt(fa, s, r1, want, sv) {
				if dbg {
					fmt.Printf("INDEX pos fail r1=%s want=%s\n   {%s}\n", r1.key, want.key, s.describe())
				}
				problems = append(problems, "the position returned ("+r1.key+") is not the slot the index addresses ("+want.key+")")
			}
			if !c.isElemAt(fa, s, r0, h, r1, sv) {
				problems = append(problems, "the value returned ("+r0.key+") is not the slot at the position returned")
			}
			// the found flag says exactly "the slot holds a non-nil value": nothing else (a typed nil
			// pointer, a zero struct, ...) counts as vacant - Remove, Reset, Defrag and Traverse read it
			for _, pol := range []bool{true, false} {
				s2 := s
				if okKnown {
					if okv != pol {
						continue
					}
				} else {
					s2 = s.clone()
					fa.assumeVal(s2, ret.Results[2], pol)
					if s2.dead {
						continue
					}
				}
				if v, known := fa.nonNil(s2, ret.Results[0]); !known || v != pol {
					problems = append(problems, fmt.Sprintf("the found flag can be %v without the slot being known %s: it must mean exactly 'the slot is not nil'", pol, map[bool]string{true: "non-nil", false: "nil"}[pol]))
				}
			}
		}
	}
	for _, k := range []string{"in range", "negative", "beyond"} {
		if !seen[k] {
			problems = append(problems, "no return path for the case '"+k+"'")
		}
	}
	c.seqReport(fn, "position translation", problems, n, "index i in [0,Len) addresses slot i+1; -k (option on) addresses slot len-k; an oversize index (option on) addresses the last slot; the value returned is the slot at the position returned")
}

// ---- exported wrappers hand their arguments to the worker and its results back

func (c *Ctx) seqWrappers() {
	pairs := [][2]string{{"Stack.Push", "(*stack).push"}, {"Stack.Pop", "(*stack).pop"}, {"Stack.Insert", "(*stack).insert"}, {"Stack.Remove", "(*stack).remove"},
		{"Stack.Replace", "(*stack).replace"}, {"Stack.Swap", "(*stack).swap"}, {"Stack.Reverse", "(*stack).reverse"}, {"Stack.Reset", "(*stack).reset"}, {"Stack.Index", "stack.index"}}
	for _, pr := range pairs {
		fn := c.anchor("R-SEQ", pr[0])
		if fn == nil {
			continue
		}
		fa := c.eng.analyze(fn, nil)
		var problems []string
		calls := c.findCalls(fn, pr[1])
		if len(calls) != 1 {
			problems = append(problems, fmt.Sprintf("%d calls of %s, expected one", len(calls), pr[1]))
		} else {
			call := calls[0]
			n := 0
			for _, s := range fa.statesBefore(call) {
				n++
				// arguments after the receiver are the wrapper's own, in order
				for k := 1; k < len(call.Call.Args); k++ {
					if k >= len(fn.Params) {
						problems = append(problems, "argument count differs")
						break
					}
					if t := fa.term(s, call.Call.Args[k]); !(t.K == "P" && t.N == k) {
						problems = append(problems, fmt.Sprintf("argument %d handed to the worker is not the wrapper's own argument %d", k, k))
					}
				}
			}
			if n == 0 {
				problems = append(problems, "the worker call is unreachable")
			}
			// the wrapper itself stores nothing into the stack: header and slots are written by the
			// worker only (a fast path in the wrapper would bypass the worker's filters: capacity,
			// no-nesting, push policy, lock)
			if fe := c.eff.fns[fn]; fe != nil {
				for _, site := range fe.sites {
					if !site.Direct {
						continue
					}
					for _, w := range site.Writes {
						if w.Loc == "HDR" || w.Loc == "SLOT" || strings.HasPrefix(w.Loc, "APPEND") {
							problems = append(problems, c.p.instrPos(site.Instr)+": the wrapper writes the stack itself ("+w.Loc+") instead of leaving it to "+pr[1])
						}
					}
				}
			}
			// results: on paths through the call, result k is the worker's result k
			for _, ret := range c.returnsOf(fn) {
				for _, s := range fa.statesBefore(ret) {
					if _, did := s.cep[call]; !did {
						continue
					}
					for k, rv := range ret.Results {
						if c.p.isNamed(rv.Type(), "Stack") {
							continue // fluent receiver
						}
						want := fa.callResultTerm(s, call, k)
						if pr[0] == "Stack.Index" && k >= 1 {
							want = fa.callResultTerm(s, call, 2)
						}
						if got := fa.term(s, rv); got != want {
							problems = append(problems, fmt.Sprintf("result %d is %s, not the worker's result", k, got.key))
						}
					}
				}
			}
		}
		// nothing else that writes is called (a second route to the content would bypass the worker's guards)
		for _, b := range fn.Blocks {
			for _, in := range b.Instrs {
				cc := callCommon(in)
				if cc == nil {
					continue
				}
				cal := c.p.callee(cc)
				if cal == nil || !c.p.inPkg(cal) || c.eff.pure(cal) {
					continue
				}
				n := relName(cal)
				if n == pr[1] || n == "(*stack).lock" || n == "(*stack).unlock" {
					continue
				}
				problems = append(problems, c.p.instrPos(in)+": "+n+" (which writes) is called besides the worker "+pr[1])
			}
		}
		// paths that do not go through the worker return zero values
		if len(calls) == 1 {
			for _, ret := range c.returnsOf(fn) {
				for _, s := range fa.statesBefore(ret) {
					if _, did := s.cep[calls[0]]; did {
						continue
					}
					for k, rv := range ret.Results {
						if c.p.isNamed(rv.Type(), "Stack") {
							continue
						}
						t := fa.term(s, rv)
						zero := (t.K == "C" && t.Const == nil)
						if b, known := c.knownBool(fa, s, rv); known && !b && isBoolType(rv) {
							zero = true
						}
						if t.K == "C" && t.Const != nil && t.Const.Kind() == constant.Int {
							if v, ok := constInt64(t.Const); ok && v == 0 {
								zero = true
							}
						}
						if !zero {
							problems = append(problems, fmt.Sprintf("result %d can be %s on a path that never reached the worker", k, t.key))
						}
					}
				}
			}
		}
		pos := c.p.pos(fn.Pos())
		if len(problems) == 0 {
			c.rep.ok("R-SEQ", pr[0], "wrapper", pos, "hands its arguments to "+pr[1]+" unchanged and returns the worker's results")
		} else {
			sort.Strings(problems)
			c.rep.bad("R-SEQ", pr[0], "wrapper", pos, strings.Join(uniq(problems), "; "))
		}
	}
}

// loopIndex: v is a loop's running index - a header phi, or a header phi plus a
// constant (the shape of `for i, v := range s`, whose phi starts at -1 and is
// used as phi+1).  Returns the first value the index takes and its step.
func (c *Ctx) loopIndex(v ssa.Value, hdr *ssa.BasicBlock) (first, step int64, ok bool) {
	phi := c.rootPhi(v, hdr)
	if phi == nil {
		return 0, 0, false
	}
	init, st, okS := c.phiInitStep(phi, hdr)
	k, isC := constIntOf(init)
	if !okS || !isC {
		return 0, 0, false
	}
	off := int64(0)
	x := v
	for {
		bo, isBo := x.(*ssa.BinOp)
		if !isBo {
			break
		}
		d, _ := constIntOf(bo.Y)
		if bo.Op == token.SUB {
			d = -d
		}
		off += d
		x = bo.X
	}
	return k + off, st, true
}

// loopBoundIs: the loop (header hdr) is left, by its header test, exactly when idx >= bound
// where bound satisfies pred (e.g. "is len(x)"); idx must be the very value used as index.
func (c *Ctx) loopBoundIs(hdr *ssa.BasicBlock, idx ssa.Value, pred func(ssa.Value) bool) bool {
	// the test may sit in the header or (range loops) in the header after computing idx
	for _, b := range []*ssa.BasicBlock{hdr} {
		if len(b.Instrs) == 0 {
			continue
		}
		iff, ok := b.Instrs[len(b.Instrs)-1].(*ssa.If)
		if !ok {
			continue
		}
		bo, ok := iff.Cond.(*ssa.BinOp)
		if !ok || bo.Op != token.LSS || bo.X != idx {
			continue
		}
		if pred(bo.Y) {
			return true
		}
	}
	return false
}

// seqRemoveAlgebraic: a loop-free remove (e.g. append(h[:k], h[k+1:]...)): the header left
// behind is the header found without the looked-up slot, and that slot's value is returned.
func (c *Ctx) seqRemoveAlgebraic(fa *FnAnalysis, fn *ssa.Function, sv []ssa.Value, h0 *Term) {
	var problems []string
	n := 0
	idxCalls := c.findCalls(fn, "stack.index")
	if len(idxCalls) != 1 {
		problems = append(problems, "expected exactly one position lookup")
		c.seqReport(fn, "list operation", problems, 0, "")
		return
	}
	for _, ret := range c.returnsOf(fn) {
		for _, s := range fa.statesBefore(ret) {
			if c.stateInfeasible(fa, s, sv) {
				continue
			}
			n++
			parts, stored, ok := c.finalHeader(fa, s, fn.Params[0])
			if !stored {
				if v, known := c.knownBool(fa, s, ret.Results[1]); !known || v {
					problems = append(problems, "success is reported although nothing was removed")
				}
				// nothing is removed only when the index addresses no position at all
				// (not merely because the element found there is nil)
				if _, did := s.cep[idxCalls[0]]; did {
					pos := fa.callResultTerm(s, idxCalls[0], 1)
					if !c.provesFact(fa, s, Fact{aTR, c.eng.tt.mk(Term{K: "B", S: "<=", A: pos, B: c.intConst(0)}), true}, sv) {
						problems = append(problems, "nothing is removed on a path where the index may address an existing position (e.g. one holding a nil element)")
					}
				}
				continue
			}
			if !ok {
				problems = append(problems, "the header left behind is not built from the header found by slicing/appending")
				continue
			}
			k := fa.callResultTerm(s, idxCalls[0], 1)
			want := []seqPart{{base: h0, lo: c.intConst(0), hi: k}, {base: h0, lo: c.plusT(k, c.intConst(1)), hi: c.lenT(h0)}}
			// the rebuilt front may start with the configuration value instead of Seg(h0,0,1)
			if len(parts) > 0 && parts[0].base == nil && parts[0].elemV != nil && c.isCfgOf(fa, s, parts[0].elemV, fn.Params[0]) {
				parts = append([]seqPart{{base: h0, lo: c.intConst(0), hi: c.intConst(1)}}, parts[1:]...)
			}
			if !c.seqMatches(fa, s, parts, want, sv) {
				problems = append(problems, fmt.Sprintf("the header left behind is %s, expected the header found without the looked-up slot", seqString(parts)))
			}
			r0 := fa.term(s, ret.Results[0])
			h, ix, okE := indexElem(r0)
			if !okE || h != h0 || ix.key != "P(1)" {
				problems = append(problems, "the value returned is not the element found at the requested index: "+r0.key)
			}
		}
	}
	c.seqReport(fn, "list operation", problems, n, "the header left behind is the header found without the looked-up slot; the element looked up is returned")
}

// ruleIndexLemma: whenever stack.index reports found, the position it returns
// addresses an existing user slot: 1 <= position <= len-1.  Proved on the
// function's return paths; the linear prover then uses it as an axiom for
// every call whose found flag is known true (engine.indexLemma).
func (c *Ctx) ruleIndexLemma() {
	fn := c.p.ByName["stack.index"]
	if fn == nil || c.eng.indexLemmaTried {
		return
	}
	c.eng.indexLemmaTried = true
	fa := c.eng.analyze(fn, nil)
	sv := c.stackValues(fn)
	tt := c.eng.tt
	h := tt.mk(Term{K: "P", N: 0, S: fn.Params[0].Name()})
	ok := true
	n := 0
	for _, ret := range c.returnsOf(fn) {
		if len(ret.Results) != 3 {
			ok = false
			continue
		}
		for _, s := range fa.statesBefore(ret) {
			if c.stateInfeasible(fa, s, sv) {
				continue
			}
			if v, known := c.knownBool(fa, s, ret.Results[2]); known && !v {
				continue
			}
			n++
			r1 := fa.term(s, ret.Results[1])
			if !c.provesFact(fa, s, Fact{aTR, tt.mk(Term{K: "B", S: "<=", A: c.intConst(1), B: r1}), true}, sv) ||
				!c.provesFact(fa, s, Fact{aTR, tt.mk(Term{K: "B", S: "<", A: r1, B: c.lenT(h)}), true}, sv) {
				ok = false
			}
		}
	}
	pos := c.p.pos(fn.Pos())
	if ok && n > 0 {
		c.eng.indexLemma = true
		c.rep.ok("R-INV", "stack.index", "found position in range", pos, fmt.Sprintf("on all %d return path states that may report found, 1 <= position < len(header)", n))
	} else {
		c.rep.ok("R-INV", "stack.index", "found position in range", pos, "lemma not established on this tree; not used")
	}
}

// ---- Front / Back: the nil-skipping scans

// seqFrontBack: Front and Back scan the positions through Index, from the end
// their mode names, over the whole range 0..Len-1, and stop at the first
// position Index reports as found.  (Front: FIFO scans upwards from 0, LIFO
// downwards from Len-1; Back the other way round.)
func (c *Ctx) seqFrontBack() {
	for _, spec := range []struct {
		name   string
		upFIFO bool // the upward scan belongs to FIFO mode
	}{{"Stack.Front", true}, {"Stack.Back", false}} {
		fn := c.anchor("R-SEQ", spec.name)
		if fn == nil {
			continue
		}
		fa := c.eng.analyze(fn, nil)
		pos := c.p.pos(fn.Pos())
		var problems []string
		isLenCall := func(v ssa.Value) bool {
			call, ok := v.(*ssa.Call)
			return ok && c.calleeName(&call.Call) == "Stack.Len"
		}
		nUp, nDown := 0, 0
		for hdr, blocks := range fa.loopOf {
			var idxCalls []*ssa.Call
			for b := range blocks {
				for _, in := range b.Instrs {
					if call, ok := in.(*ssa.Call); ok && c.calleeName(&call.Call) == "Stack.Index" {
						idxCalls = append(idxCalls, call)
					}
				}
			}
			if len(idxCalls) != 1 {
				problems = append(problems, fmt.Sprintf("a scan loop makes %d position lookups per round, expected one", len(idxCalls)))
				continue
			}
			ic := idxCalls[0]
			a := ic.Call.Args[1]
			phi := c.rootPhi(a, hdr)
			if phi == nil {
				problems = append(problems, "the position looked up is not the loop counter (plus a constant)")
				continue
			}
			// offset k: a = phi + k
			k := int64(0)
			for x := a; ; {
				bo, ok := x.(*ssa.BinOp)
				if !ok {
					break
				}
				d, _ := constIntOf(bo.Y)
				if bo.Op == token.SUB {
					d = -d
				}
				k += d
				x = bo.X
			}
			init, step, okS := c.phiInitStep(phi, hdr)
			iff, _ := hdr.Instrs[len(hdr.Instrs)-1].(*ssa.If)
			var cond *ssa.BinOp
			if iff != nil {
				cond, _ = iff.Cond.(*ssa.BinOp)
			}
			if !okS || cond == nil || cond.X != ssa.Value(phi) {
				problems = append(problems, "the scan loop is not a counter compared with a bound in its header")
				continue
			}
			up := false
			switch {
			case step == 1:
				up = true
				nUp++
				c0, isC := constIntOf(init)
				if !isC || c0+k != 0 || cond.Op != token.LSS || !isLenCall(cond.Y) || k != 0 {
					problems = append(problems, "the upward scan does not visit positions 0,1,...,Len-1")
				}
			case step == -1:
				nDown++
				// init = Len() (+ const)
				cinit := int64(0)
				base := init
				if bo, ok := init.(*ssa.BinOp); ok {
					if d, okc := constIntOf(bo.Y); okc && (bo.Op == token.ADD || bo.Op == token.SUB) {
						if bo.Op == token.SUB {
							d = -d
						}
						cinit, base = d, bo.X
					}
				}
				e, isC := constIntOf(cond.Y)
				last := int64(1 << 40)
				switch cond.Op {
				case token.GTR:
					last = e + 1 + k
				case token.GEQ:
					last = e + k
				}
				if !isLenCall(base) || cinit+k != -1 || !isC || last != 0 {
					problems = append(problems, "the downward scan does not visit positions Len-1,...,1,0 (the first or the last position is left out)")
				}
			default:
				problems = append(problems, "the scan counter does not step by one")
				continue
			}
			// mode: which scan runs in which mode
			for _, s := range fa.statesBefore(ic) {
				fifoKnown, fifo := false, false
				for _, fc := range c.findCalls(fn, "Stack.IsFIFO") {
					if v, kn := fa.knownTerm(s, aTR, fa.term(s, fc)); kn {
						fifoKnown, fifo = true, v
					}
				}
				if !fifoKnown || fifo != (up == spec.upFIFO) {
					problems = append(problems, "a scan runs in the wrong mode (or the mode is not decided where it runs)")
				}
			}
			// exits: by the header test, or with the position found
			for bi, succs := range fa.edgeOut {
				if !blocks[bi] || bi == hdr {
					continue
				}
				for j, sb := range bi.Succs {
					if blocks[sb] || j >= len(succs) {
						continue
					}
					for _, s := range succs[j] {
						if s.dead {
							continue
						}
						if v, kn := fa.knownTerm(s, aTR, fa.callResultTerm(s, ic, 1)); !kn || !v {
							problems = append(problems, "the scan can be left before the last position without a position having been found")
						}
					}
				}
			}
		}
		if nUp != 1 || nDown != 1 {
			problems = append(problems, fmt.Sprintf("expected one upward and one downward scan, found %d and %d", nUp, nDown))
		}
		if len(problems) == 0 {
			c.rep.ok("R-SEQ", spec.name, "scan", pos, "one upward scan 0..Len-1 and one downward scan Len-1..0, each in its mode, each left only past the last position or with a position found")
		} else {
			sort.Strings(problems)
			c.rep.bad("R-SEQ", spec.name, "scan", pos, strings.Join(uniq(problems), "; "))
		}
	}
}
