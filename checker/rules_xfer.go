package main

import (
	"fmt"
	"go/token"
	"sort"
	"strings"

	"golang.org/x/tools/go/ssa"
)

// ---------------------------------------------------------------- R-XFER (C15)
//
//  SRC    Transfer writes nothing rooted at the source: the transitive write
//         set of (*stack).transfer has no location under its receiver, and the
//         destination is known to be a different object when the first element
//         is pushed (a stack cannot be transferred into itself);
//  GUARD  the exported wrapper reaches the worker only for an initialised
//         source, a destination that converts to a Stack, and a destination that
//         is not read-only (the flag is read from the destination);
//  FIT    a push into the destination is reachable only if no capacity is set or
//         Len(src) <= cap(dst) - len(dst), evaluated on the headers found (linear
//         entailment): otherwise nothing is written and false is returned;
//  ALL    the copy loop visits i = 0, 1, ... while i < Len(src) and pushes exactly
//         src.index(i) (found or not: nil elements included) once per iteration;
//  TRUE   the verdict is  dst.ulen() after == dst.ulen() before + src.ulen().

func (c *Ctx) ruleXfer() {
	rep := c.rep
	tt := c.eng.tt
	fn := c.anchor("R-XFER", "(*stack).transfer")
	wr := c.anchor("R-XFER", "Stack.Transfer")
	if fn == nil || wr == nil {
		return
	}
	pos := c.p.pos(fn.Pos())
	fa := c.eng.analyze(fn, nil)
	sv := c.stackValues(fn)

	// ---- SRC
	var badW []string
	for _, w := range c.eff.writesOf(fn) {
		r := w.Root.String()
		if strings.Contains(r, "param0") {
			badW = append(badW, w.String())
		}
	}
	if len(badW) == 0 {
		rep.ok("R-XFER", relName(fn), "source untouched", pos, "the transitive write set has no location rooted at the source")
	} else {
		rep.bad("R-XFER", relName(fn), "source untouched", pos, "Transfer can write the source: "+strings.Join(badW, ", "))
	}
	var badWW []string
	for _, w := range c.eff.writesOf(wr) {
		if strings.Contains(w.Root.String(), "param0") {
			badWW = append(badWW, w.String())
		}
	}
	if len(badWW) == 0 {
		rep.ok("R-XFER", relName(wr), "source untouched", c.p.pos(wr.Pos()), "the transitive write set has no location rooted at the source")
	} else {
		rep.bad("R-XFER", relName(wr), "source untouched", c.p.pos(wr.Pos()), "Transfer can write the source: "+strings.Join(badWW, ", "))
	}

	pushes := c.findCalls(fn, "(*stack).push")
	p0 := tt.mk(Term{K: "P", N: 0, S: fn.Params[0].Name()})
	p1 := tt.mk(Term{K: "P", N: 1, S: fn.Params[1].Name()})
	var problems []string
	if len(pushes) != 1 {
		problems = append(problems, fmt.Sprintf("%d push calls, expected exactly one (inside the copy loop)", len(pushes)))
	}
	// every other write into the destination must go through that push
	for _, b := range fn.Blocks {
		for _, in := range b.Instrs {
			if st, ok := in.(*ssa.Store); ok && !isVarargsFill(st) {
				if al, _ := allocCell(st.Addr); al == nil {
					problems = append(problems, c.p.instrPos(in)+": a direct store in transfer")
				}
			}
			if call, ok := in.(*ssa.Call); ok {
				if cal := c.p.callee(&call.Call); cal != nil && c.p.inPkg(cal) && !c.eff.pure(cal) && relName(cal) != "(*stack).push" {
					problems = append(problems, c.p.instrPos(in)+": "+relName(cal)+" (which writes) is called besides push")
				}
			}
		}
	}
	nStates := 0
	for _, push := range pushes {
		if t := fa.term(fa.statesBefore(push)[0], push.Call.Args[0]); t != p1 {
			problems = append(problems, "the push does not target the destination")
		}
		for _, s := range fa.statesBefore(push) {
			if c.stateInfeasible(fa, s, sv) {
				continue
			}
			nStates++
			// different objects
			a, b := p0, p1
			if a.key > b.key {
				a, b = b, a
			}
			if v, known := fa.knownTerm(s, aTR, tt.mk(Term{K: "B", S: "==", A: a, B: b})); !known || v {
				problems = append(problems, "an element is pushed although the destination may be the source itself (the source would change, and the copy might never end)")
			}
			// FIT: cap(dst) <= 0  or  ulen(src) <= cap(dst) - len(dst), on the headers found
			hd := tt.mk(Term{K: "L", A: p1, N: 0, S: "HDR"})
			hs := tt.mk(Term{K: "L", A: p0, N: 0, S: "HDR"})
			var capT *Term
			for _, cc := range c.findCalls(fn, "stack.cap") {
				t := fa.term(s, cc)
				if t.K == "APP" && t.N == 0 && t.A != nil && t.A.A == hd {
					capT = t
				}
			}
			if capT == nil {
				capT = tt.mk(Term{K: "APP", S: "stack.cap", N: 0, A: tt.mk(Term{K: "AL", A: hd})})
			}
			noCap := c.provesFact(fa, s, Fact{aTR, tt.mk(Term{K: "B", S: "<=", A: capT, B: c.intConst(0)}), true}, sv)
			if !noCap {
				need := Fact{aTR, tt.mk(Term{K: "B", S: "<=",
					A: tt.mk(Term{K: "B", S: "(+)", A: c.plusT(c.lenT(hs), c.intConst(-1)), B: c.lenT(hd)}),
					B: capT}), true}
				if !c.provesFact(fa, s, need, sv) {
					problems = append(problems, "an element is pushed on a path where neither 'no capacity' nor Len(src) <= cap(dst) - len(dst) is established: the destination could be filled partially")
				}
			}
		}
		// ALL: loop shape
		if !c.inLoop(fa, push) {
			problems = append(problems, "the push is not inside the copy loop")
		} else {
			var hdr *ssa.BasicBlock
			for h, bl := range fa.loopOf {
				if bl[push.Block()] {
					hdr = h
				}
			}
			// pushed value: src.index(i)#0, any verdict
			el := singleVariadicElem(push.Call.Args[1])
			okEl := false
			var counter ssa.Value
			if ex, ok := el.(*ssa.Extract); ok && ex.Index == 0 {
				if ic, ok := ex.Tuple.(*ssa.Call); ok {
					if cal := c.p.callee(&ic.Call); cal != nil && relName(cal) == "stack.index" {
						if ld, ok := ic.Call.Args[0].(*ssa.UnOp); ok && ld.Op == token.MUL && ld.X == ssa.Value(fn.Params[0]) {
							okEl = true
							counter = ic.Call.Args[1]
						}
					}
				}
			}
			if !okEl {
				problems = append(problems, "the value pushed is not src.index(i)")
			} else {
				phi, isPhi := counter.(*ssa.Phi)
				if !isPhi || phi.Block() != hdr {
					problems = append(problems, "the position read is not the loop counter")
				} else {
					init, step, ok := c.phiInitStep(phi, hdr)
					if k, isC := constIntOf(init); !ok || !isC || k != 0 || step != 1 {
						problems = append(problems, "the loop counter does not run 0, 1, 2, ...")
					}
					// bound: i < src.ulen()  (evaluated in the header or hoisted before the loop:
					// the source is never written, so both are the same value)
					okB := false
					if iff, ok := hdr.Instrs[len(hdr.Instrs)-1].(*ssa.If); ok {
						if bo, ok := iff.Cond.(*ssa.BinOp); ok && bo.Op == token.LSS && bo.X == ssa.Value(phi) {
							if bc, ok := bo.Y.(*ssa.Call); ok {
								if cal := c.p.callee(&bc.Call); cal != nil && relName(cal) == "stack.ulen" {
									if ld, ok := bc.Call.Args[0].(*ssa.UnOp); ok && ld.X == ssa.Value(fn.Params[0]) {
										if fa.loopOf[hdr][bc.Block()] || bc.Block().Dominates(hdr) {
											okB = true
										}
									}
								}
							}
						}
					}
					if !okB {
						problems = append(problems, "the loop does not run while i < Len(src)")
					}
					// the push is unconditional inside the loop body: its block post-dominates the body entry,
					// i.e. every back edge has executed it
					for bi, succs := range fa.edgeOut {
						if !fa.loopOf[hdr][bi] {
							continue
						}
						for k, sb := range bi.Succs {
							if sb != hdr || k >= len(succs) {
								continue
							}
							for _, s := range succs[k] {
								if v, ok := s.get(aDID, tt.mk(Term{K: "V", V: push})); !ok || !v {
									problems = append(problems, "an iteration can finish without pushing its element (elements, e.g. nil ones, may be skipped)")
								}
							}
						}
					}
				}
			}
		}
	}
	// ---- TRUE
	for _, ret := range c.returnsOf(fn) {
		rv := ret.Results[0]
		// chase the result cell / phis to the comparison
		var cmp *ssa.BinOp
		seen := map[ssa.Value]bool{}
		var find func(v ssa.Value)
		find = func(v ssa.Value) {
			if seen[v] {
				return
			}
			seen[v] = true
			switch x := v.(type) {
			case *ssa.BinOp:
				cmp = x
			case *ssa.Phi:
				for _, e := range x.Edges {
					find(e)
				}
			case *ssa.UnOp:
				if al, ok := x.X.(*ssa.Alloc); ok && x.Op == token.MUL {
					for _, r := range *al.Referrers() {
						if st, ok := r.(*ssa.Store); ok && st.Addr == ssa.Value(al) {
							find(st.Val)
						}
					}
				}
			}
		}
		find(rv)
		if b, isC := isBoolConst(rv); isC && !b {
			continue // an early `return false`
		}
		okT := false
		if cmp != nil && cmp.Op == token.EQL {
			isUlen := func(v ssa.Value, param int) (*ssa.Call, bool) {
				call, ok := v.(*ssa.Call)
				if !ok {
					return nil, false
				}
				if cal := c.p.callee(&call.Call); cal == nil || relName(cal) != "stack.ulen" {
					return nil, false
				}
				ld, ok := call.Call.Args[0].(*ssa.UnOp)
				return call, ok && ld.X == ssa.Value(fn.Params[param])
			}
			try := func(x, y ssa.Value) bool {
				after, ok1 := isUlen(x, 1)
				sum, ok2 := y.(*ssa.BinOp)
				if !ok1 || !ok2 || sum.Op != token.ADD {
					return false
				}
				before, ok3 := isUlen(sum.X, 1)
				_, ok4 := isUlen(sum.Y, 0)
				if !ok3 || !ok4 {
					before, ok3 = isUlen(sum.Y, 1)
					_, ok4 = isUlen(sum.X, 0)
				}
				if !ok3 || !ok4 {
					return false
				}
				// before: ahead of the loop; after: behind it
				for h, bl := range fa.loopOf {
					if bl[before.Block()] || bl[after.Block()] {
						return false
					}
					if !before.Block().Dominates(h) || !h.Dominates(after.Block()) {
						return false
					}
				}
				return len(fa.loopOf) == 1
			}
			okT = try(cmp.X, cmp.Y) || try(cmp.Y, cmp.X)
		}
		if !okT {
			problems = append(problems, "the success verdict is not  dst.ulen() after the copy == dst.ulen() before it + src.ulen()")
		}
		// false unless the loop ran to its end
		for _, s := range fa.statesBefore(ret) {
			through := false
			for _, push := range pushes {
				if _, did := s.cep[push]; did {
					through = true
				}
			}
			if !through && cmp != nil {
				// paths that never reach the comparison must report false
				if _, did := s.get(aDID, tt.mk(Term{K: "V", V: cmp})); !did {
					if v, known := c.knownBool(fa, s, rv); known && v {
						problems = append(problems, "true is returned on a path that copies nothing and does not evaluate the verdict")
					}
				}
			}
		}
	}
	if nStates == 0 {
		problems = append(problems, "the push is unreachable")
	}
	if len(problems) == 0 {
		rep.ok("R-XFER", relName(fn), "copy", pos, "destination differs from source; pushes only when the elements fit; loop copies src.index(0..Len-1) one per iteration, nil ones included; verdict compares the destination's growth with Len(src)")
	} else {
		sort.Strings(problems)
		rep.bad("R-XFER", relName(fn), "copy", pos, strings.Join(uniq(problems), "; "))
	}

	// ---- GUARD (wrapper)
	{
		wfa := c.eng.analyze(wr, nil)
		var problems []string
		calls := c.findCalls(wr, "(*stack).transfer")
		if len(calls) != 1 {
			problems = append(problems, "expected exactly one call of the worker")
		} else {
			call := calls[0]
			n := 0
			for _, s := range wfa.statesBefore(call) {
				n++
				// source initialised
				okInit := false
				for _, ic := range c.findCalls(wr, "Stack.IsInit") {
					if t := wfa.term(s, ic.Call.Args[0]); t.K == "P" && t.N == 0 {
						if v, known := wfa.knownTerm(s, aTR, wfa.term(s, ic)); known && v {
							okInit = true
						}
					}
				}
				if !okInit {
					problems = append(problems, "the worker is reached with a source not known to be initialised")
				}
				// destination converts
				var conv *ssa.Call
				for _, cc := range c.findCalls(wr, "stackTypeAliasConverter") {
					if t := wfa.term(s, cc.Call.Args[0]); t.K == "P" && t.N == 1 {
						if v, known := wfa.knownTerm(s, aTR, wfa.callResultTerm(s, cc, 1)); known && v {
							conv = cc
						}
					}
				}
				if conv == nil {
					problems = append(problems, "the worker is reached although the destination is not known to convert to a Stack")
					continue
				}
				dst := wfa.callResultTerm(s, conv, 0)
				// destination not read-only
				okRO := false
				for _, gc := range c.findCalls(wr, "Stack.getState") {
					if wfa.term(s, gc.Call.Args[0]) == dst {
						if k, ok := constIntOf(gc.Call.Args[1]); ok && k == c.ronly {
							if v, known := wfa.knownTerm(s, aTR, wfa.term(s, gc)); known && !v {
								okRO = true
							}
						}
					}
				}
				if !okRO {
					problems = append(problems, "the worker is reached although the destination is not known to be writable (read-only flag of the destination)")
				}
				// arguments: (r.stack, s.stack)
				a0 := wfa.term(s, call.Call.Args[0])
				a1 := wfa.term(s, call.Call.Args[1])
				if !(a0.K == "F" && a0.A != nil && a0.A.K == "P" && a0.A.N == 0) {
					problems = append(problems, "the worker's source is not the receiver")
				}
				if !(a1.K == "F" && a1.A == dst) {
					problems = append(problems, "the worker's destination is not the converted destination")
				}
			}
			if n == 0 {
				problems = append(problems, "the worker call is unreachable")
			}
			for _, ret := range c.returnsOf(wr) {
				for _, s := range wfa.statesBefore(ret) {
					if _, did := s.cep[call]; did {
						if wfa.term(s, ret.Results[0]) != wfa.term(s, call) {
							problems = append(problems, "the wrapper does not return the worker's verdict")
						}
					} else if v, known := c.knownBool(wfa, s, ret.Results[0]); !known || v {
						problems = append(problems, "true can be returned without the worker having run")
					}
				}
			}
		}
		if len(problems) == 0 {
			rep.ok("R-XFER", relName(wr), "guards", c.p.pos(wr.Pos()), "worker reached only for an initialised source and a convertible, writable destination; its verdict is returned; false otherwise")
		} else {
			sort.Strings(problems)
			rep.bad("R-XFER", relName(wr), "guards", c.p.pos(wr.Pos()), strings.Join(uniq(problems), "; "))
		}
	}
}
