#!/bin/sh
# usage: tools/revert_check.sh <fix-commit> <prop> [prop...]
# Reverts one "fix:" commit in a scratch worktree of /repo and runs the checks:
# each fixed defect must be reported again when it returns.
C=$1; shift
W=$(mktemp -d /var/tmp/rev.XXXXXX); rmdir "$W"
git -C /repo worktree add -q --detach "$W" HEAD || exit 2
trap 'git -C /repo worktree remove --force "$W" >/dev/null 2>&1' EXIT
(cd "$W" && git revert --no-edit -n "$C" >/dev/null 2>&1) || { echo "revert of $C conflicts"; exit 3; }
export GOFLAGS=-mod=mod GOPROXY=off GOSUMDB=off GOTOOLCHAIN=local GOWORK=off
(cd "$W" && go build ./... ) || { echo "does not build"; exit 3; }
for p in "$@"; do
  /verif/bin/stackcheck -verif /verif -repo "$W" -prop "$p" -evidence "$W/ev.json" 2>&1 | grep -E "violated|undecided|^property=" | sed "s#$W#SCRATCH#g" | cut -c1-260
done
