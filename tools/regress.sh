#!/bin/sh
# Runs every implemented property on /repo (must be clean) and the seeded-mutant matrix.
cd /verif
for p in $(grep -o '^	"C[0-9]*":' checker/props.go | tr -d '	":' | sort); do ./run.sh $p quick | tail -1; done
tools/seeded_matrix.sh | grep -v NOCHECK
