#!/bin/sh
# usage: tools/seed_intake.sh <prop>   -- takes /tmp/out-<prop>/m*, removes the agent's worktree, confirms and imports each mutant
P=$1
mkdir -p /var/tmp/incoming
rm -rf /var/tmp/incoming/out-$P
cp -r /tmp/out-$P /var/tmp/incoming/out-$P || exit 2
git -C /repo worktree remove --force /tmp/wt-$P 2>/dev/null
rm -rf /tmp/out-$P
for d in /var/tmp/incoming/out-$P/m*; do
  m=$(basename $d)
  J=$(/verif/tools/seed_confirm.sh $d)
  echo "$P-$m $J"
  case "$J" in
   *'"applies":true,"builds":true,"suite_passes_with_patch":true,"demo_fails_with_patch":true,"demo_passes_on_clean_tree":true'*)
     python3 /verif/tools/seed_import.py $d $P $m "$J" ;;
   *) echo "NOT CONFIRMED: $P-$m" ;;
  esac
done
